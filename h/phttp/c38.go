package phttp

import (
	"context"
	"encoding/base64"
	"encoding/json"
	"fmt"
	"os"
	"reflect"
	"regexp"
	"sort"
	"strconv"
	"strings"
	"time"

	ledgercontroller "github.com/formancehq/ledger/internal/controller/ledger"
	"github.com/formancehq/ledger/verifh/ev"
	"github.com/formancehq/ledger/verifh/pgsim"
	"github.com/formancehq/ledger/verifh/reg"
)

type c38ctx struct {
	boot  *pgsim.DB
	seeds []Seed
}

func bootC38(ctx context.Context) (*c38ctx, error) {
	pg, err := BootSeeded(ctx, c38Ledgers, c38History)
	if err != nil {
		return nil, err
	}
	// the import seed is the export of l1 as it stands after the history
	e := NewEnv(pg.Clone())
	defer e.Close()
	resp, _ := e.Do(post("/v2/l1/logs/export", ``))
	if resp.Status != 200 || resp.Body == "" {
		return nil, fmt.Errorf("export for the import seed: %s", resp.short())
	}
	return &c38ctx{boot: pg, seeds: c38Seeds(resp.Body)}, nil
}

// mcase is one mutated request.
type mcase struct {
	Seed seedRef `json:"seed"`
	Loc  string  `json:"loc"`  // location class (signature component)
	Repl string  `json:"repl"` // replacement class (signature component)
	Req  Req     `json:"req"`
	Pre  []Req   `json:"pre,omitempty"` // requests served before, on the same clone (must be 2xx)
	// Must: the mutated request is DEFINITELY invalid client input: the answer must be 4xx.
	// Otherwise the case is "in doubt": 2xx and 4xx are both fine.
	Must bool `json:"must,omitempty"`
	// Sanity: the request is VALID and must be 2xx (vacuity guard, not a mutation).
	Sanity bool `json:"sanity,omitempty"`
	// Then: the requests the SAME server process serves after Req, in order (see follow).
	Then []follow `json:"then,omitempty"`
	// Grid: the case is a BATCH of independent read requests of the filter grid (see
	// c38grid.go), served one after the other by one process; Req is unused.
	Grid []gridReq `json:"grid,omitempty"`
}

// follow is one request served by the same process (same Env: same Go object graph, same
// in-memory caches, same database) after the mutated request of a case. What a refused
// request leaves behind IN THE PROCESS (a cache entry, a half-initialised object, an open
// transaction) only shows when the process serves a later request.
//
//	repeat          the byte-identical request again (client retry)
//	other-api       the same body through the same route of the other API version (v1 <-> v2)
//	as-bulk-element the same transaction payload as the single element of an atomic v2 _bulk
//	as-single       the bulk element the mutation touched, through POST /v2/{ledger}/transactions
//
// The oracle of a follow-up is the oracle of any request (no 5xx/panic/crash, well-formed
// body, 4xx leaves the database as it was BEFORE THAT request); the repeat is as
// definitely-invalid as the request it repeats, the re-routed ones are in doubt (the tables
// of definitely-invalid input are per route). And, for the repeat only: when the first send
// left the database unchanged, the process faces the same input on the same state, so the
// class of the answer (2xx / 4xx) must be the same.
type follow struct {
	Kind  string `json:"kind"`
	API   string `json:"api"`
	Route string `json:"route"`
	Req   Req    `json:"req"`
}

const (
	fRepeat   = "repeat"
	fOtherAPI = "other-api"
	fAsBulk   = "as-bulk-element"
	fAsSingle = "as-single"
)

var followKinds = []string{fRepeat, fOtherAPI, fAsBulk, fAsSingle}

const createTxRoute = "POST /{ledger}/transactions"
const bulkRoute = "POST /{ledger}/_bulk"

// followUps derives the follow-up requests of a case. seedBody is the body of the seed
// (to find the bulk element a mutation touched).
func followUps(c *mcase, seedBody string) []follow {
	out := []follow{{Kind: fRepeat, API: c.Seed.API, Route: c.Seed.Route, Req: c.Req}}
	switch c.Seed.Route {
	case createTxRoute:
		// v1 <-> v2: same method, headers and body; the path gains/loses the /v2 prefix; of the
		// query string only the dry-run switch has a counterpart (dryRun <-> preview)
		o := c.Req.clone()
		o.Query = nil
		other := "v1"
		if c.Seed.API == "v2" {
			o.Path = strings.TrimPrefix(c.Req.Path, "/v2")
		} else {
			o.Path = "/v2" + c.Req.Path
			other = "v2"
		}
		for _, kv := range c.Req.Query {
			switch {
			case kv.K == "dryRun" && other == "v1":
				o.Query = append(o.Query, KV{"preview", kv.V})
			case kv.K == "preview" && other == "v2":
				o.Query = append(o.Query, KV{"dryRun", kv.V})
			}
		}
		out = append(out, follow{Kind: fOtherAPI, API: other, Route: createTxRoute, Req: o})
		// single -> element of an atomic bulk (v2 only; the body must be one JSON value)
		v2path := "/v2" + strings.TrimPrefix(c.Req.Path, "/v2")
		if doc, err := parseJSON(c.Req.Body); err == nil && jsonOK(c.Req.Body) {
			b := Req{Method: "POST", Path: strings.TrimSuffix(v2path, "/transactions") + "/_bulk", Headers: jsonCT,
				Query: []KV{{"atomic", "true"}},
				Body:  encJSON([]any{map[string]any{"action": "CREATE_TRANSACTION", "data": doc}})}
			for _, kv := range c.Req.Query {
				if kv.K == "schemaVersion" {
					b.Query = append(b.Query, kv)
				}
			}
			out = append(out, follow{Kind: fAsBulk, API: "v2", Route: bulkRoute, Req: b})
		}
	case bulkRoute:
		// bulk -> single: every CREATE_TRANSACTION element that differs from the element of
		// the seed at the same index (the one the mutation touched)
		seedDoc, _ := parseJSON(seedBody)
		seedEls, _ := seedDoc.([]any)
		doc, err := parseJSON(c.Req.Body)
		els, ok := doc.([]any)
		if err != nil || !ok {
			break
		}
		for i, el := range els {
			m, ok := el.(map[string]any)
			if !ok || m["action"] != "CREATE_TRANSACTION" {
				continue
			}
			data, ok := m["data"]
			if !ok {
				continue
			}
			if i < len(seedEls) {
				if sm, ok := seedEls[i].(map[string]any); ok && encJSON(sm["data"]) == encJSON(data) {
					continue
				}
			}
			r := Req{Method: "POST", Path: strings.TrimSuffix(c.Req.Path, "/_bulk") + "/transactions", Headers: jsonCT, Body: encJSON(data)}
			out = append(out, follow{Kind: fAsSingle, API: "v2", Route: createTxRoute, Req: r})
		}
	}
	return out
}

// seedRef is what a case needs to know about its seed (plain data: cases travel to the
// child processes as JSON).
type seedRef struct {
	API   string `json:"api"`
	Route string `json:"route"`
	Name  string `json:"name,omitempty"`
	// PartialEffect: the route documents that a failing request may keep the effect of its
	// independent parts (non-atomic bulk): "4xx => database unchanged" does not apply.
	PartialEffect bool `json:"partialEffect,omitempty"`
}

func (s seedRef) id() string { return s.API + ":" + s.Route + ":" + s.Name }

func (s *Seed) ref() seedRef {
	return seedRef{API: s.API, Route: s.Route, Name: s.Name, PartialEffect: s.PartialEffect}
}

var queryMenu = []named{{"neg", "-1"}, {"zero", "0"}, {"abc", "abc"}, {"1e9", "1e9"}, {"empty", ""}}
var badDates = []named{{"yesterday", "yesterday"}, {"month13", "2023-13-45T00:00:00Z"}, {"empty", ""}}

func nest(depth int, leaf string) string {
	return strings.Repeat(`{"$and":[`, depth) + leaf + strings.Repeat(`]}`, depth)
}

// badFilters: malformed filter documents. must=false marks the one that is only "in doubt".
type badFilter struct {
	Name string
	Doc  string
	Must bool
}

func badFilters(validLeaf, wrongOp string) []badFilter {
	return []badFilter{
		{"match-number", `{"$match":1}`, true},
		{"and-string", `{"$and":"x"}`, true},
		{"unknown-operator", `{"$unknown":{}}`, true},
		{"nested-50", nest(50, validLeaf), false}, // deep but well-formed: in doubt
		{"unknown-field", `{"$match":{"no_such_field":"x"}}`, true},
		{"wrong-operator-for-field", wrongOp, true},
		{"array-root", `[{"$match":{"no_such_field":"x"}}]`, true},
		{"two-keys", `{"$match":{"no_such_field":"x"},"$and":[]}`, true},
		{"match-two-fields", `{"$match":{"no_such_field":"x","other":"y"}}`, true},
		{"not-array", `{"$not":[1]}`, true},
		{"truncated", `{"$match":{"no_such_`, true},
	}
}

// filterLeaves gives, per route family, a valid leaf and a wrong-operator document.
func filterLeaves(s *Seed) (string, string) {
	switch {
	case strings.Contains(s.Route, "/logs"):
		return `{"$gte":{"id":1}}`, `{"$like":{"id":"1"}}`
	case strings.Contains(s.Route, "/transactions"):
		return `{"$match":{"account":"alice"}}`, `{"$lt":{"account":"alice"}}`
	case strings.Contains(s.Route, "/volumes"):
		return `{"$match":{"account":"alice"}}`, `{"$lt":{"account":"alice"}}`
	default:
		return `{"$match":{"address":"alice"}}`, `{"$lt":{"address":"alice"}}`
	}
}

func b64(s string) string { return base64.RawURLEncoding.EncodeToString([]byte(s)) }

// parseBody returns the JSON tree of a body (NDJSON: the list of documents).
func parseBody(body string, ndjson bool) (any, bool) {
	if !ndjson {
		v, err := parseJSON(body)
		if err != nil {
			return nil, false
		}
		return v, true
	}
	var docs []any
	dec := json.NewDecoder(strings.NewReader(body))
	dec.UseNumber()
	for dec.More() {
		var v any
		if err := dec.Decode(&v); err != nil {
			return nil, false
		}
		docs = append(docs, v)
	}
	return docs, true
}

func encBody(v any, ndjson bool) string {
	if !ndjson {
		return encJSON(v)
	}
	docs, ok := v.([]any)
	if !ok {
		return encJSON(v) + "\n"
	}
	var sb strings.Builder
	for _, d := range docs {
		sb.WriteString(encJSON(d))
		sb.WriteByte('\n')
	}
	return sb.String()
}

func isDateString(v any) bool {
	s, ok := v.(string)
	if !ok {
		return false
	}
	_, err := time.Parse(time.RFC3339Nano, s)
	return err == nil
}

// jsonCases: every pointer x (menu + delete), bad dates on date-valued leaves, and the
// named invalid values of the seed.
func jsonCases(s *Seed, tree any, ndjson bool, locPrefix string, set func(body string) Req, must func(p, r string) bool, values, raw map[string][]named, strictDates bool, keepDoc func(i int) bool) []mcase {
	var out []mcase
	for _, p := range pointers(tree) {
		cl := p.class()
		if ndjson && len(p) == 0 {
			continue // the "root" of a stream is not a JSON node
		}
		if ndjson && keepDoc != nil {
			if i, err := strconv.Atoi(p[0]); err == nil && !keepDoc(i) {
				continue
			}
		}
		orig := getAt(tree, p)
		for _, m := range menu {
			c := mcase{Seed: s.ref(), Loc: locPrefix + cl, Repl: m.Class, Req: set(encBody(replaceAt(tree, p, m.Val, false), ndjson))}
			if must != nil {
				c.Must = must(cl, m.Class)
			}
			out = append(out, c)
		}
		if len(p) > 0 {
			c := mcase{Seed: s.ref(), Loc: locPrefix + cl, Repl: "delete", Req: set(encBody(replaceAt(tree, p, nil, true), ndjson))}
			if must != nil {
				c.Must = must(cl, "delete")
			}
			out = append(out, c)
		}
		if isDateString(orig) {
			for _, d := range badDates {
				out = append(out, mcase{Seed: s.ref(), Loc: locPrefix + cl, Repl: "date-" + d.Name, Must: strictDates && d.Name != "empty",
					Req: set(encBody(replaceAt(tree, p, d.Val, false), ndjson))})
			}
		}
		for _, nv := range values[cl] {
			out = append(out, mcase{Seed: s.ref(), Loc: locPrefix + cl, Repl: "invalid:" + nv.Name, Must: true,
				Req: set(encBody(replaceAt(tree, p, nv.Val, false), ndjson))})
		}
		for _, nv := range raw[cl] {
			out = append(out, mcase{Seed: s.ref(), Loc: locPrefix + cl, Repl: "invalid:" + nv.Name, Must: true,
				Req: set(encBody(replaceAt(tree, p, rawJSON(nv.Val), false), ndjson))})
		}
	}
	return out
}

func nextCursor(body string) string {
	var r struct {
		Cursor struct {
			Next string `json:"next"`
		} `json:"cursor"`
	}
	_ = json.Unmarshal([]byte(body), &r)
	return r.Cursor.Next
}

// casesOf enumerates every mutation of one seed. seedResp is the response of the seed.
func casesOf(s *Seed, seedResp Resp, thorough bool) ([]mcase, error) {
	var out []mcase
	// quick tier: in a stream body, only the first document of each log type is mutated
	var keepDoc func(i int) bool
	if s.NDJSON && !thorough {
		docs, _ := parseBody(s.Req.Body, true)
		first := map[string]int{}
		if l, ok := docs.([]any); ok {
			for i, d := range l {
				if m, ok := d.(map[string]any); ok {
					ty, _ := m["type"].(string)
					if s.JSONStream {
						ty, _ = m["action"].(string)
					}
					if _, seen := first[ty]; !seen {
						first[ty] = i
					}
				}
			}
		}
		keepDoc = func(i int) bool {
			for _, j := range first {
				if i == j {
					return true
				}
			}
			return false
		}
	}
	add := func(c mcase) { c.Seed = s.ref(); out = append(out, c) }
	base := s.Req

	// 1. JSON body
	if s.TextStream {
		out = append(out, textStreamCases(s)...)
		out = append(out, streamContentTypeCases(s)...)
	}
	if s.JSONStream {
		out = append(out, jsonStreamCases(s)...)
		out = append(out, streamContentTypeCases(s)...)
	}
	if base.Body != "" && !s.TextStream {
		tree, ok := parseBody(base.Body, s.NDJSON)
		if !ok {
			return nil, fmt.Errorf("seed body is not JSON")
		}
		// a streamed bulk reports a document it cannot decode in the envelope of a 200: in doubt
		out = append(out, jsonCases(s, tree, s.NDJSON, "body:", func(b string) Req { return base.withBody(b) }, s.MustReject, s.Values, s.RawValues, !s.JSONStream, keepDoc)...)
	}

	if s.Route == importRoute && s.NDJSON && !s.JSONStream {
		out = append(out, rechainedVariants(out)...)
		out = append(out, importCrossCases(s, thorough)...)
	}

	// 2. query parameters
	isDate := map[string]bool{}
	for _, d := range s.Dates {
		isDate[d] = true
	}
	seen := map[string]bool{}
	var params []string
	for _, kv := range base.Query {
		if !seen[kv.K] {
			seen[kv.K] = true
			params = append(params, kv.K)
		}
	}
	for _, k := range s.Extra {
		if !seen[k] {
			seen[k] = true
			params = append(params, k)
		}
	}
	for _, k := range params {
		if k == "query" {
			continue
		}
		for _, m := range queryMenu {
			add(mcase{Loc: "query:" + k, Repl: m.Name, Req: base.withoutQuery(k).withQuery(k, m.Val)})
		}
		add(mcase{Loc: "query:" + k, Repl: "long-string", Req: base.withoutQuery(k).withQuery(k, long300)})
		if k == "expand" {
			// the documented values (valid where the route and the ledger can serve them: in doubt)
			for _, v := range []string{"volumes", "effectiveVolumes"} {
				add(mcase{Loc: "query:" + k, Repl: v, Req: base.withoutQuery(k).withQuery(k, v)})
			}
		}
		if isDate[k] {
			for _, d := range badDates {
				add(mcase{Loc: "query:" + k, Repl: "date-" + d.Name, Must: d.Name != "empty", Req: base.withoutQuery(k).withQuery(k, d.Val)})
			}
		}
	}

	// 3. filters
	if s.FilterIn != "" {
		leaf, wrong := filterLeaves(s)
		for _, f := range badFilters(leaf, wrong) {
			var r Req
			if s.FilterIn == "body" {
				r = base.withBody(f.Doc)
			} else {
				r = base.withQuery("query", f.Doc)
			}
			add(mcase{Loc: "filter", Repl: f.Name, Must: f.Must, Req: r})
		}
		if s.FilterIn == "query" {
			var q string
			for _, kv := range base.Query {
				if kv.K == "query" {
					q = kv.V
				}
			}
			tree, err := parseJSON(q)
			if err != nil {
				return nil, fmt.Errorf("seed query filter is not JSON")
			}
			out = append(out, jsonCases(s, tree, false, "query-filter:", func(b string) Req { return base.withQuery("query", b) }, nil, nil, nil, true, nil)...)
		}
	}

	// 4. cursors
	if s.Cursor != "" {
		next := nextCursor(seedResp.Body)
		if next == "" {
			return nil, fmt.Errorf("seed response carries no next cursor: %s", seedResp.short())
		}
		setCursor := func(c string) Req {
			if s.Cursor == "query" {
				return base.withQuery("cursor", c)
			}
			tree, _ := parseJSON(base.Body)
			return base.withBody(encJSON(replaceAt(tree, ptr{"cursor"}, c, false)))
		}
		add(mcase{Loc: "cursor", Repl: "valid", Sanity: true, Req: setCursor(next)})
		add(mcase{Loc: "cursor", Repl: "garbage", Must: true, Req: setCursor("!!!garbage!!!")})
		add(mcase{Loc: "cursor", Repl: "base64-of-invalid-json", Must: true, Req: setCursor(b64(`{"offset":`))})
		add(mcase{Loc: "cursor", Repl: "base64-of-non-object", Must: true, Req: setCursor(b64(`[1,2]`))})
		add(mcase{Loc: "cursor", Repl: "base64-of-text", Must: true, Req: setCursor(b64(`hello`))})
		add(mcase{Loc: "cursor", Repl: "truncated", Must: true, Req: setCursor(next[:len(next)/2])})
		add(mcase{Loc: "cursor", Repl: "truncated-minus-1", Must: true, Req: setCursor(next[:len(next)-1])})
		raw, err := base64.RawURLEncoding.DecodeString(next)
		if err != nil {
			return nil, fmt.Errorf("next cursor is not base64url: %v", err)
		}
		tree, err := parseJSON(string(raw))
		if err != nil {
			return nil, fmt.Errorf("next cursor is not JSON: %v", err)
		}
		// tampered cursors: every field of the decoded cursor x menu (in doubt: a cursor is
		// opaque, a tampered one may still be acceptable; only 5xx/panic/malformed count)
		out = append(out, jsonCases(s, tree, false, "cursor-json:", func(b string) Req { return setCursor(b64(b)) }, nil, nil, nil, false, nil)...)
		out = append(out, cursorEmptyCases(s, tree, setCursor)...)
	}

	// 5. body-level damage
	if base.Body != "" || s.BodyRequired {
		add(mcase{Loc: "body", Repl: "empty", Must: s.BodyRequired, Req: base.withBody("")})
	}
	if base.Body != "" {
		cut := base.Body[:len(base.Body)*2/3]
		if s.TextStream {
			add(mcase{Loc: "body", Repl: "truncated-text", Req: base.withBody(cut)})
		} else if !jsonOK(cut) {
			add(mcase{Loc: "body", Repl: "truncated-json", Must: s.BodyParsed, Req: base.withBody(cut)})
		}
		add(mcase{Loc: "body", Repl: "not-json", Must: s.BodyParsed, Req: base.withBody("not json")})
		add(mcase{Loc: "body", Repl: "trailing-garbage", Req: base.withBody(base.Body + " }")})
	} else {
		add(mcase{Loc: "body", Repl: "unexpected-garbage", Req: base.withBody("not json").withHeader("Content-Type", "application/json")})
	}
	for _, ct := range []named{{"text-plain", "text/plain"}, {"xml", "application/xml; charset=utf-8"}, {"garbage", ";;;"}, {"absent", ""}} {
		r := base.clone()
		if ct.Val == "" {
			if _, ok := r.Headers["Content-Type"]; !ok {
				continue
			}
			delete(r.Headers, "Content-Type")
		} else {
			r = r.withHeader("Content-Type", ct.Val)
		}
		add(mcase{Loc: "header:Content-Type", Repl: ct.Name, Req: r})
	}

	// 6. idempotency key reused with a different input
	if s.IK {
		first := base.withHeader("Idempotency-Key", "ik-1")
		add(mcase{Loc: "header:Idempotency-Key", Repl: "same-input", Sanity: true, Pre: []Req{first}, Req: first})
		var second Req
		switch {
		case s.AltBody != "":
			second = first.withBody(s.AltBody)
		case s.AltPath != "":
			second = first.clone()
			second.Path = s.AltPath
		default:
			return nil, fmt.Errorf("IK seed without alternative input")
		}
		add(mcase{Loc: "header:Idempotency-Key", Repl: "reused-with-different-input", Must: true, Pre: []Req{first}, Req: second})
		add(mcase{Loc: "header:Idempotency-Key", Repl: "long-string", Req: base.withHeader("Idempotency-Key", long300+long300+long300+long300)})
	}

	// 7. path parameters
	segs := strings.Split(base.Path, "/")
	if s.PathID > 0 {
		for _, v := range []named{{"abc", "abc"}, {"neg", "-1"}, {"unknown-id", "1000000000"}, {"2^70", two70}, {"frac", "1.5"}, {"hex", "0x1"}, {"plus", "+1"}} {
			c := append([]string(nil), segs...)
			c[s.PathID] = v.Val
			r := base.clone()
			r.Path = strings.Join(c, "/")
			// "+1" is accepted by strconv.ParseInt: in doubt
			add(mcase{Loc: "path:id", Repl: v.Name, Must: v.Name != "plus", Req: r})
		}
	}
	if s.PathAddr > 0 {
		for _, v := range []named{{"trailing-colon", "a:"}, {"leading-colon", ":a"}, {"double-colon", "a::b"}, {"space", "a%20b"}, {"non-ascii", "%C3%A9"}, {"bang", "a!b"}, {"encoded-slash", "a%2Fb"}} {
			c := append([]string(nil), segs...)
			c[s.PathAddr] = v.Val
			r := base.clone()
			r.Path = strings.Join(c, "/")
			// an invalid address must be refused where it would be written
			add(mcase{Loc: "path:address", Repl: "invalid-address", Must: base.Method == "POST", Req: r})
		}
	}
	return out, nil
}

// wellFormed checks the shape of the response for its status.
func wellFormed(method, route string, r Resp) string {
	if method == "HEAD" {
		return "" // a HEAD response has no body to speak of
	}
	switch {
	case r.Status == 204 || r.Status == 304:
		if r.Body != "" {
			return "body on a 204"
		}
	case r.Status >= 200 && r.Status < 300:
		if r.Body == "" {
			return ""
		}
		if strings.HasSuffix(route, "/logs/export") {
			if _, ok := parseBody(r.Body, true); !ok {
				return "export stream is not a sequence of JSON documents"
			}
			return ""
		}
		if !jsonOK(r.Body) {
			return "2xx body is not JSON"
		}
	case r.Status >= 400 && r.Status < 500:
		if errorEnvelope(r.Body) {
			return ""
		}
		// the documented shape of a failed bulk: 400 + {"data":[{responseType:ERROR,errorCode…}]}
		if strings.HasSuffix(route, "/_bulk") {
			var b struct {
				Data []struct {
					ResponseType string `json:"responseType"`
					ErrorCode    string `json:"errorCode"`
				} `json:"data"`
			}
			if err := json.Unmarshal([]byte(r.Body), &b); err == nil {
				for _, d := range b.Data {
					if d.ResponseType == "ERROR" && d.ErrorCode != "" {
						return ""
					}
				}
			}
		}
		return "4xx body is not an error envelope {errorCode, errorMessage}"
	}
	return ""
}

func statusClass(st int) string { return fmt.Sprintf("%dxx", st/100) }

// c38plan is the case list.
type c38plan struct {
	ctx   *c38ctx
	cases []mcase
	// gridPer: requests of the filter grid per route variant (they travel in batches)
	gridPer map[string]int
	// scriptCacheLive: in the explored stack, parsing one script twice gives the SAME
	// compiled program, under both runtimes (the production cache is wired in).
	scriptCacheLive bool
}

func scriptCacheLive(e *Env) bool {
	const src = "send [USD/2 1] (\n source = @world\n destination = @dave\n)"
	for _, p := range []interface {
		Parse(string) (ledgercontroller.NumscriptRuntime, error)
	}{e.W.MachineParser, e.W.InterpreterParser} {
		a, err1 := p.Parse(src)
		b, err2 := p.Parse(src)
		if err1 != nil || err2 != nil || a == nil || reflect.ValueOf(a).Kind() != reflect.Pointer || a != b {
			return false
		}
	}
	return true
}

func planC38(thorough bool) (*c38plan, error) {
	ctx := context.Background()
	c, err := bootC38(ctx)
	if err != nil {
		return nil, fmt.Errorf("boot: %w", err)
	}
	e0 := NewEnv(c.boot.Clone())
	bootDump := e0.Dump()
	cacheLive := scriptCacheLive(e0)
	e0.Close()
	// the configuration dimension first: few, simple cases (a valid request, another ledger)
	var cases []mcase
	for i := range c.seeds {
		s := &c.seeds[i]
		fc := featureCases(s)
		for k := range fc {
			fc[k].Then = followUps(&fc[k], s.Req.Body)
		}
		cases = append(cases, fc...)
	}
	for i := range c.seeds {
		s := &c.seeds[i]
		e := NewEnv(c.boot.Clone())
		resp, ok := e.Do(s.Req)
		after := e.Dump()
		e.Close()
		if !ok || resp.Status < 200 || resp.Status >= 300 {
			return nil, fmt.Errorf("seed %s is not valid: %s", s.id(), resp.short())
		}
		if (after != bootDump) != s.Write {
			return nil, fmt.Errorf("seed %s: state changed=%v, expected %v", s.id(), after != bootDump, s.Write)
		}
		cs, err := casesOf(s, resp, thorough)
		if err != nil {
			return nil, fmt.Errorf("seed %s: %v", s.id(), err)
		}
		for k := range cs {
			if !cs[k].Sanity {
				cs[k].Then = followUps(&cs[k], s.Req.Body)
			} else {
				cs[k].Then = []follow{{Kind: fRepeat, API: s.API, Route: s.Route, Req: cs[k].Req}}
			}
		}
		cases = append(cases, cs...)
	}
	grid, gridPer, err := gridCases(c.boot, thorough)
	if err != nil {
		return nil, err
	}
	cases = append(cases, grid...)
	return &c38plan{ctx: c, cases: cases, gridPer: gridPer, scriptCacheLive: cacheLive}, nil
}

var c38Boot = map[string]any{"ledgers": c38Ledgers, "history": c38History}

var reDigits = regexp.MustCompile(`[0-9]+`)
var reQuoted = regexp.MustCompile(`'[^']*'|"[^"]*"|` + "`[^`]*`")
var reSQLState = regexp.MustCompile(`SQLSTATE [0-9A-Z]{5}`)
var reWouldBlock = regexp.MustCompile(`pgsim: session [0-9]+ would block on (.*?) in sequential mode`)
var reMsg = regexp.MustCompile(`msg="((?:[^"\\]|\\.)*)"`)

// errorCause normalises what the server logged for an INTERNAL error into a stable
// class: the head AND the tail (root cause) of the error chain, with the SQLSTATE if any;
// quoted values and numbers are removed. The head alone ("unexpected error while forging
// log") is shared by unrelated defects; the tail tells them apart.
func errorCause(log string) string {
	ms := reMsg.FindAllStringSubmatch(log, -1)
	if len(ms) == 0 {
		return "unlogged"
	}
	msg := strings.ReplaceAll(ms[len(ms)-1][1], `\"`, `"`)
	state := reSQLState.FindString(msg)
	// quoted values go first: they may contain ": "
	segs := strings.Split(reQuoted.ReplaceAllString(msg, "_"), ": ")
	norm := func(x string) string {
		x = reSQLState.ReplaceAllString(x, "")
		x = reDigits.ReplaceAllString(x, "N")
		x = strings.TrimSpace(strings.TrimSuffix(strings.TrimSpace(x), "()"))
		if len(x) > 90 {
			x = x[:90]
		}
		return x
	}
	out := norm(segs[0])
	if len(segs) > 1 {
		out += " … " + norm(segs[len(segs)-1])
	}
	if state != "" {
		out += " (" + state + ")"
	}
	return out
}

// <function>(<args>)? @ /repo/<file>:<line> — the function name may itself contain
// parentheses (method on a pointer receiver), the argument list contains none.
var reFrame = regexp.MustCompile(`(\S+?)(?:\([^()]*\))? @ /repo/([^ :]+):[0-9]+`)

// siteOf extracts the first frame inside the repository from a panic description as
// "file.go:function" (no line number: it must survive unrelated edits of the file, and
// which of several unchecked dereferences of one function fires first may depend on
// map iteration order).
func siteOf(desc string) string {
	m := reFrame.FindStringSubmatch(desc)
	if m == nil {
		return "unknown-site"
	}
	fn := m[1]
	if i := strings.LastIndex(fn, "/"); i >= 0 {
		fn = fn[i+1:]
	}
	if i := strings.IndexByte(fn, '.'); i >= 0 {
		fn = fn[i+1:] // drop the package name
	}
	fn = strings.ReplaceAll(fn, "[...]", "")
	return m[2] + ":" + fn
}

func locKind(loc string) string {
	i := strings.IndexByte(loc, ':')
	if i < 0 {
		return loc
	}
	switch loc[:i] {
	case "query", "header", "path":
		return loc
	}
	return loc[:i]
}

// coarseKind is the input class of a mutation location: body | query | header | path |
// cursor | cursor-json | filter | query-filter.
func coarseKind(loc string) string {
	if i := strings.IndexByte(loc, ':'); i >= 0 {
		return loc[:i]
	}
	return loc
}

// c38sig builds the structural signature, at ROOT-CAUSE level:
//   - panic / process-crash: the call site (file:function of the first repository frame).
//     One unchecked dereference is one defect whatever route, field or replacement reaches it.
//   - 5xx: input class + class of the logged error (head and root of the chain, SQLSTATE);
//     for the configuration dimension (ledger-features): + the route.
//   - no-response, state-changed-on-4xx: there is no server-side cause to key on: the route
//     (+ input class). The error code of the 4xx says why the request was refused, not why
//     its effect was kept: it is not part of the signature.
//   - accepted / malformed-response / odd-status: route + pointer class + replacement class.
func c38sig(c *mcase, outcome, cause string) string {
	switch outcome {
	case "panic", "process-crash":
		return fmt.Sprintf("C38:%s:%s", outcome, cause)
	case "5xx":
		if coarseKind(c.Loc) == featureKind {
			// the configuration dimension sends VALID requests to differently configured ledgers:
			// what turns the refusal of the storage layer into a 5xx is the error mapping of the
			// handler that served it, one root cause per route
			return fmt.Sprintf("C38:5xx:%s:%s:%s:%s", featureKind, c.Seed.API, c.Seed.Route, cause)
		}
		return fmt.Sprintf("C38:5xx:%s:%s", coarseKind(c.Loc), cause)
	case "no-response":
		return fmt.Sprintf("C38:no-response:%s:%s:%s", c.Seed.API, c.Seed.Route, coarseKind(c.Loc))
	case "state-changed-on-4xx":
		return fmt.Sprintf("C38:state-changed-on-4xx:%s:%s", c.Seed.API, c.Seed.Route)
	}
	return fmt.Sprintf("C38:%s:%s:%s:%s:%s", c.Seed.API, c.Seed.Route, c.Loc, c.Repl, outcome)
}

func c38replay(c *mcase, resp *Resp) map[string]any {
	m := map[string]any{"seed": c.Seed.id(), "mutation": c.Loc + "=" + c.Repl, "boot": c38Boot, "pre": c.Pre, "request": c.Req, "definitely_invalid": c.Must}
	if resp != nil {
		m["response"] = *resp
	}
	return m
}

func errorCodeOf(body string) string {
	var m struct {
		ErrorCode string `json:"errorCode"`
	}
	_ = json.Unmarshal([]byte(body), &m)
	if m.ErrorCode == "" {
		return "none"
	}
	return m.ErrorCode
}

// sentReq is one request already served by the process of a case, with its status.
type sentReq struct {
	Kind   string `json:"kind"`
	Req    Req    `json:"request"`
	Status int    `json:"status"`
}

// execC38 runs one case on a fresh clone — one simulated server process serving the
// preliminary requests, the mutated request, then its follow-ups — and classifies the
// outcome of every request served.
func execC38(boot *pgsim.DB, c *mcase) caseResult {
	if len(c.Grid) > 0 {
		return execGrid(boot, c)
	}
	e := NewEnv(boot.Clone())
	defer e.Close()
	return execOn(boot, e, c, nil)
}

// execOn runs one case on a live environment. dumps, when set, says how the "database
// unchanged" half of the oracle is evaluated for a batch of requests (see dumpChain); nil:
// the database is dumped before and after every request.
func execOn(boot *pgsim.DB, e *Env, c *mcase, dumps *dumpChain) caseResult {
	res := caseResult{Counts: map[string]int64{}}
	for _, p := range c.Pre {
		resp, ok := e.Do(p)
		if !ok || resp.Status < 200 || resp.Status >= 300 {
			res.Engine = fmt.Sprintf("%s %s/%s: preliminary request failed: %s", c.Seed.id(), c.Loc, c.Repl, resp.short())
			return res
		}
	}
	kind := coarseKind(c.Loc)
	var sent []sentReq // what this process has served since the preliminary requests

	// serve sends one request and applies the oracle of the property to it. kind "" is the
	// mutated request itself. It returns the response, whether the database changed, and
	// whether the exploration of this case may go on.
	serve := func(fk, api, route string, req Req, must, sanity, partial bool) (Resp, bool, bool) {
		first := fk == ""
		label := "first send"
		if !first {
			label = fk
		}
		reportStep(label + ": " + req.Method + " " + req.Path)
		before := dumps.before(e)
		resp, ok := e.Do(req)
		if !ok {
			if first {
				res.Counts["not_constructible"]++
			}
			return resp, false, false
		}
		changed := dumps.after(e) != before
		history := append([]sentReq(nil), sent...)
		sent = append(sent, sentReq{Kind: label, Req: req, Status: resp.Status})
		desc := func(msg string) string {
			d := fmt.Sprintf("%s — seed %s, mutation %s=%s; request: %s; response: %s", msg, c.Seed.id(), c.Loc, c.Repl, req, resp.short())
			if !first {
				var hs []string
				for _, h := range history {
					hs = append(hs, fmt.Sprintf("%s %s %s -> %d", h.Kind, h.Req.Method, h.Req.URL(), h.Status))
				}
				d = fmt.Sprintf("[%s, after the same server process had served: %s] ", fk, strings.Join(hs, "; ")) + d
			}
			return d
		}
		if isEngine(resp) {
			if m := reWouldBlock.FindStringSubmatch(resp.Log + resp.Body); m != nil {
				// pgsim (sequential mode: one request in flight, every earlier request of this
				// process has been answered) reports that the request must WAIT for a lock. Its
				// holder is a database session that no running request drives: one that an
				// already-answered request left open with the lock held (or another connection of
				// this very request). Nothing will ever release it: on a Postgres server the
				// request waits until the client gives up. That is an outcome, not a harness limit.
				lock := reDigits.ReplaceAllString(m[1], "N")
				res.Counts["blocked_for_ever"]++
				res.Counts["blocked_for_ever:"+label]++
				sig := fmt.Sprintf("C38:no-response:blocked-on-%s-left-held:%s:%s", strings.ReplaceAll(lock, " ", "-"), api, route)
				rp := c38replay(c, &resp)
				var pre []Req
				pre = append(pre, c.Pre...)
				for _, h := range history {
					pre = append(pre, h.Req)
				}
				rp["pre"], rp["request"], rp["follow_up"], rp["served_before_by_the_same_process"] = pre, req, label, history
				res.Viol = append(res.Viol, violRec{Sig: sig, Replay: rp, What: desc("no response: the request waits for a lock (" + m[1] + ") held by a database session that no request in flight owns (left open, lock held, by a request this process has already answered); pgsim, which serves one request at a time, reports the wait as an error, a Postgres server would make the client wait for ever")})
				return resp, changed, false
			}
			if strings.Contains(resp.Log+resp.Body, "pgsim: parse:") {
				// the mutation made the ledger emit SQL text that pgsim's parser rejects. pgsim
				// cannot tell invalid SQL (a genuine 5xx on Postgres) from valid SQL it does not
				// support, so the case is neither a violation nor evidence: inconclusive.
				if first {
					res.Counts["inconclusive"]++
				} else {
					res.Counts["inconclusive_follow_up"]++
				}
				if res.Extra == nil {
					res.Extra = map[string]string{"inconclusive": desc("SQL text rejected by pgsim's parser")}
				}
				return resp, changed, false
			}
			res.Engine = desc("pgsim engine error surfaced")
			return resp, changed, false
		}
		// the signature of a follow-up is the signature the same outcome would have on the
		// route it was sent to (root-cause level), or names the follow-up kind
		sc := *c
		sc.Seed.API, sc.Seed.Route = api, route
		viol := func(outcome, cause, msg string) {
			sig := c38sig(&sc, outcome, cause)
			if !first {
				switch outcome {
				case "panic", "process-crash", "5xx", "no-response", "state-changed-on-4xx":
				default:
					sig = c38sig(c, outcome+":"+fk, cause)
				}
			}
			rp := c38replay(c, &resp)
			if !first {
				var pre []Req
				pre = append(pre, c.Pre...)
				for _, h := range history {
					pre = append(pre, h.Req)
				}
				rp["pre"], rp["request"], rp["follow_up"], rp["served_before_by_the_same_process"] = pre, req, fk, history
				rp["definitely_invalid"] = must
			}
			res.Viol = append(res.Viol, violRec{Sig: sig, What: desc(msg), Replay: rp})
		}
		cls := statusClass(resp.Status)
		rejected := resp.Status >= 400 && resp.Status < 500
		accepted := resp.Status >= 200 && resp.Status < 300
		if first {
			res.Key = req.key()
			res.Counts["status:"+cls]++
			res.Counts["kind:"+kind]++
			if must {
				res.Counts["must"]++
			}
			res.Counts["seed:"+c.Seed.id()]++
			if kind == "filter-grid" {
				res.Counts["loc:"+c.Loc[len("filter-grid:"):]]++
				res.Counts["route:"+c.Seed.id()+":"+cls]++
			}
			if kind == featureKind {
				res.Counts["features:"+c.Loc[len(featureKind)+1:]+":"+cls]++
				if strings.HasPrefix(c.Repl, "expand=") && c.Repl != "expand=none" && rejected {
					res.Counts["features_expansion_refused_4xx"]++
				}
			}
			if kind == "body-rechained" && accepted {
				res.Counts["rechained_accepted"]++
			}
			if kind == "cursor-empty" && accepted && emptyPage(resp.Body) {
				res.Counts["empty_page_2xx"]++
			}
			if sanity {
				res.Counts["sanity"]++
			}
			if rejected {
				res.Counts["rejected"]++
				res.Counts["rejected:"+kind]++
				if must {
					res.Counts["must_rejected"]++
				}
			}
			if accepted {
				res.Counts["accepted"]++
				if sanity {
					res.Counts["sanity_ok"]++
				}
			}
			res.Sample = map[string]any{"seed": c.Seed.id(), "mutation": c.Loc + "=" + c.Repl, "status": resp.Status}
		} else {
			res.Counts["follow:"+fk]++
			res.Counts["follow_status:"+fk+":"+cls]++
			if rejected {
				res.Counts["follow_rejected:"+fk]++
			}
			if accepted {
				res.Counts["follow_accepted:"+fk]++
			}
		}

		switch {
		case resp.Status >= 500:
			if resp.Body == "" {
				// describe the panic: a fresh process serves the same history, then the request
				// through the bare sub-router (no recover middleware)
				p := NewEnv(boot.Clone())
				for _, pre := range c.Pre {
					p.Do(pre)
				}
				for _, h := range history {
					p.Do(h.Req)
				}
				pv := p.PanicOf(req)
				p.Close()
				viol("panic", siteOf(pv), "5xx with an empty body (recovered panic): "+pv)
			} else {
				viol("5xx", errorCause(resp.Log), "5xx in answer to a client request")
			}
		case resp.Status < 200 || (resp.Status >= 300 && resp.Status < 400):
			viol("odd-status", "", "unexpected status class")
		default:
			if m := wellFormed(req.Method, route, resp); m != "" {
				viol("malformed-response", "", m)
			}
			if resp.Status >= 400 && changed && !partial && !nonAtomicBulk(route, req) {
				viol("state-changed-on-4xx", errorCodeOf(resp.Body), "4xx but the database changed")
			}
			if must && resp.Status < 300 {
				viol("accepted", "", fmt.Sprintf("definitely-invalid input accepted with %d (database changed=%v)", resp.Status, changed))
			}
			if first && sanity && resp.Status >= 300 {
				res.Engine = desc("sanity request (valid) was refused")
			}
		}
		return resp, changed, true
	}

	resp, changed, goOn := serve("", c.Seed.API, c.Seed.Route, c.Req, c.Must, c.Sanity, c.Seed.PartialEffect)
	if !goOn || res.Engine != "" {
		return res
	}
	for i := range c.Then {
		f := &c.Then[i]
		partial := false
		if f.Kind == fRepeat {
			partial = c.Seed.PartialEffect
		}
		fresp, _, goOn := serve(f.Kind, f.API, f.Route, f.Req, f.Kind == fRepeat && c.Must, false, partial)
		if !goOn || res.Engine != "" {
			return res
		}
		if f.Kind != fRepeat {
			continue
		}
		// what RAN (whatever the answer to the repeat): a request that the script parser had
		// refused was submitted again to the process that refused it
		if code := rejectionCode(resp.Body); resp.Status >= 400 && resp.Status < 500 && scriptRejections[code] {
			res.Counts["repeat_of_script_rejection:"+code]++
		}
		// same input, same database, same process: same verdict
		firstCls, repCls := statusClass(resp.Status), statusClass(fresp.Status)
		comparable := func(st int) bool { return st >= 200 && st < 300 || st >= 400 && st < 500 }
		if !changed && comparable(resp.Status) && comparable(fresp.Status) {
			res.Counts["repeat_on_unchanged_state"]++
			if firstCls == "4xx" && repCls == "4xx" {
				res.Counts["repeat_rejected_twice"]++
			}
			if firstCls != repCls {
				sig := c38sig(c, "verdict-changed-on-repeat:"+firstCls+"-then-"+repCls, "")
				rp := c38replay(c, &fresp)
				rp["pre"], rp["follow_up"] = append(append([]Req(nil), c.Pre...), c.Req), fRepeat
				res.Viol = append(res.Viol, violRec{Sig: sig, Replay: rp,
					What: fmt.Sprintf("the same request, repeated to the same server process on an unchanged database, was answered %d then %d — seed %s, mutation %s=%s; request: %s; first response: %s; second response: %s",
						resp.Status, fresp.Status, c.Seed.id(), c.Loc, c.Repl, c.Req, resp.short(), fresp.short())})
			}
		}
	}
	return res
}

// nonAtomicBulk: a _bulk is all-or-nothing only when the request says atomic=true (the
// handler reads it with QueryParamBool: "1" or "true", case-insensitive); otherwise its
// elements are independent by contract and a failing bulk keeps the effect of the others —
// whatever the seed the request was derived from (a mutation of `atomic` switches it off).
func nonAtomicBulk(route string, req Req) bool {
	if route != bulkRoute {
		return false
	}
	for _, kv := range req.Query {
		if kv.K == "atomic" {
			v := strings.ToLower(kv.V)
			return !(v == "1" || v == "true")
		}
	}
	return true
}

// scriptRejections: the error codes that say "the Numscript text of the request was refused
// by the parser/compiler" (the single routes give the code of the envelope, a failed bulk
// the code of its failing element). v1 reports the same condition as VALIDATION, which
// says nothing: it is not counted.
var scriptRejections = map[string]bool{"COMPILATION_FAILED": true, "INTERPRETER_PARSE": true}

// rejectionCode is the errorCode of a 4xx: of the envelope, or of the first failing
// element of a bulk answer.
func rejectionCode(body string) string {
	var b struct {
		ErrorCode string          `json:"errorCode"`
		Data      json.RawMessage `json:"data"`
	}
	_ = json.Unmarshal([]byte(body), &b)
	var els []struct {
		ErrorCode string `json:"errorCode"`
	}
	if json.Unmarshal(b.Data, &els) == nil {
		for _, d := range els {
			if d.ErrorCode != "" {
				return d.ErrorCode
			}
		}
	}
	if b.ErrorCode == "" {
		return "none"
	}
	return b.ErrorCode
}

// c38Trace, when set (tests), sees every violating case, not only the first per signature.
var c38Trace func(sig string, c *mcase, what string)

func c38Worker(w *workerSpec) int {
	pg, err := BootSeeded(context.Background(), c38Ledgers, c38History)
	if err != nil {
		fmt.Fprintln(os.Stderr, "worker: "+err.Error())
		return 2
	}
	return serveWorker(w, func(payload []byte) caseResult {
		var c mcase
		if err := json.Unmarshal(payload, &c); err != nil {
			return caseResult{Engine: "worker: bad case: " + err.Error()}
		}
		return execC38(pg, &c)
	})
}

func runC38(r *ev.Run) (ev.Coverage, []string) {
	assumptions := []string{pgsimAssumption, httpAssumption, "process isolation: every case (all its requests: preliminary, mutated, follow-ups) runs in a child process of the same binary (which boots and seeds its own identical database) so that the death of the whole process (panic in a goroutine started by a handler) is an observable outcome"}
	p, err := planC38(r.Thorough())
	if err != nil {
		r.EngineError(err.Error())
		return nil, assumptions
	}
	counts := map[string]int64{}
	distinct := map[string]bool{}
	inconclusiveSeen := map[string]bool{}
	// development aid: C38_TRACE=<file> lists EVERY violating case (not only the first per signature)
	if tf := os.Getenv("C38_TRACE"); tf != "" && c38Trace == nil {
		if f, err := os.Create(tf); err == nil {
			defer f.Close()
			c38Trace = func(sig string, c *mcase, what string) {
				fmt.Fprintf(f, "%s\t%s\t%s=%s\t%s\n", sig, c.Seed.id(), c.Loc, c.Repl, what)
			}
			defer func() { c38Trace = nil }()
		}
	}
	samples := ev.NewSamples(6)
	var evals int64
	deadline := time.Now().Add(budgetOf(r, c38Quick, c38Thorough) - r.Elapsed())
	// rounds: a batch of the filter grid whose process died is queued again without the
	// request that was in flight (the results of the others died with the process)
	planned := len(p.cases)
	cur := p.cases
	exhaustive := true
	for len(cur) > 0 {
		var requeue []mcase
		ex, err := runIsolated("C38", len(cur), func(i int) []byte {
			b, _ := json.Marshal(&cur[i])
			return b
		}, deadline, 120*time.Second, func(res caseResult) {
			evals++
			c := &cur[res.I]
			if res.Crashed && len(c.Grid) > 0 {
				counts["grid:batches_crashed"]++
				k, ok := gridCrashIndex(res.Extra["step"])
				if !ok {
					r.EngineError(fmt.Sprintf("a filter-grid batch died and the request in flight is unknown: %s %s: %s", c.Seed.id(), c.Repl, res.Stderr))
					return
				}
				g := c.Grid[k]
				rest := *c
				rest.Grid = append(append([]gridReq(nil), c.Grid[:k]...), c.Grid[k+1:]...)
				rest.Repl += fmt.Sprintf(" minus #%d", k)
				if len(rest.Grid) > 0 {
					requeue = append(requeue, rest)
				}
				// what follows reports the request in flight as a case of its own
				c = &mcase{Seed: c.Seed, Loc: g.Loc, Repl: g.Repl, Req: g.Req, Must: g.Must}
				counts["grid:requests"]++
			}
			if res.Crashed {
				outcome, msg := "process-crash", "the server PROCESS died while serving the request (panic outside every recover): "
				if res.Extra["hung"] != "" {
					outcome, msg = "no-response", "no response: "
				}
				sg := c38sig(c, outcome, siteOf(res.Stderr))
				what := fmt.Sprintf("%s%s — seed %s, mutation %s=%s; request: %s", msg, res.Stderr, c.Seed.id(), c.Loc, c.Repl, c.Req)
				if st := res.Extra["step"]; st != "" {
					// a case is a sequence of requests served by one process: which one was in flight
					what += "; in flight when the process died: " + st
				}
				if c38Trace != nil {
					c38Trace(sg, c, what)
				}
				distinct[c.Req.key()] = true
				counts["status:crash"]++
				r.Violation(sg, what, c38replay(c, nil))
				return
			}
			if res.Engine != "" {
				r.EngineError(res.Engine)
				return
			}
			if m := res.Extra["inconclusive"]; m != "" {
				key := c.Seed.API + ":" + c.Seed.Route + ":" + locKind(c.Loc)
				if !inconclusiveSeen[key] {
					inconclusiveSeen[key] = true
					r.Note("inconclusive (" + key + "): " + m)
				}
			}
			for k, v := range res.Counts {
				counts[k] += v
			}
			if res.Key != "" {
				distinct[res.Key] = true
			}
			for _, k := range res.Keys {
				distinct[k] = true
			}
			if res.Sample != nil {
				samples.Add(res.Sample)
			}
			for _, v := range res.Viol {
				if c38Trace != nil {
					c38Trace(v.Sig, c, v.What)
				}
				r.Violation(v.Sig, v.What, v.Replay)
			}
		})
		if err != nil {
			r.EngineError("isolation: " + err.Error())
			break
		}
		if !ex {
			exhaustive = false
			break
		}
		planned += len(requeue)
		cur = requeue
	}
	// Vacuity guards (whatever the violations, known or not: they are about what RAN).
	if exhaustive && !r.HasEngineError() {
		if int(evals) != planned {
			r.EngineError(fmt.Sprintf("vacuous: %d cases planned, %d results collected", planned, evals))
		}
		if counts["rejected"] == 0 || counts["accepted"] == 0 || counts["must_rejected"] == 0 || counts["sanity_ok"] == 0 {
			r.EngineError(fmt.Sprintf("vacuous: rejected=%d accepted=%d must-rejected=%d sanity-ok=%d", counts["rejected"], counts["accepted"], counts["must_rejected"], counts["sanity_ok"]))
		}
		// every input class must have been exercised AND have met the validation it targets
		for _, k := range []string{"body", "query", "query-filter", "filter", "cursor", "cursor-json", "header", "path", featureKind} {
			if counts["kind:"+k] == 0 || counts["rejected:"+k] == 0 {
				r.EngineError(fmt.Sprintf("vacuous: input class %s: %d cases, %d rejected with 4xx", k, counts["kind:"+k], counts["rejected:"+k]))
			}
		}
		// the configuration dimension: every feature ledger served some request (2xx: its history
		// is in place and its routes work), and some expansion was refused with a 4xx by a
		// ledger that cannot serve it (the feature gates were reached)
		for _, l := range c38FeatureLedgers {
			if name := featureLoc(l)[len(featureKind)+1:]; counts["features:"+name+":2xx"] == 0 {
				r.EngineError("vacuous: no request was served (2xx) by the ledger created with " + name)
			}
		}
		if counts["features_expansion_refused_4xx"] == 0 {
			r.EngineError("vacuous: no feature ledger refused an expansion with a 4xx")
		}
		// every seed (route variant) must have produced cases that were answered
		for i := range p.ctx.seeds {
			if id := p.ctx.seeds[i].id(); counts["seed:"+id] == 0 {
				r.EngineError("vacuous: no answered case for seed " + id)
			}
		}
		// the repetition dimension: every answered case was repeated to the same process; some
		// refused requests were refused again on an unchanged database (otherwise "the process
		// remembers nothing of a refused request" was never put to the test); some requests
		// refused BY THE SCRIPT PARSER were repeated, under both runtimes (the compiled-script
		// cache — the one cross-request memory of the write path — was consulted for a script
		// it had refused); every re-routing was exercised and met a refusal
		answered := evals - counts["grid:batches"] - counts["not_constructible"] - counts["inconclusive"] - counts["status:crash"]
		if got := counts["follow:"+fRepeat] + counts["inconclusive_follow_up"] + counts["blocked_for_ever"]; got < answered || counts["follow:"+fRepeat] == 0 {
			r.EngineError(fmt.Sprintf("vacuous: %d answered cases, %d repeated to the same process", answered, counts["follow:"+fRepeat]))
		}
		if counts["repeat_on_unchanged_state"] == 0 || counts["repeat_rejected_twice"] == 0 {
			r.EngineError(fmt.Sprintf("vacuous: repeats on an unchanged database=%d, of which refused twice=%d", counts["repeat_on_unchanged_state"], counts["repeat_rejected_twice"]))
		}
		for _, code := range sortedKeys(scriptRejections) {
			if counts["repeat_of_script_rejection:"+code] == 0 {
				r.EngineError("vacuous: no request refused with " + code + " was repeated to the process that had refused it")
			}
		}
		for _, k := range followKinds {
			if counts["follow:"+k] == 0 || counts["follow_rejected:"+k] == 0 {
				r.EngineError(fmt.Sprintf("vacuous: follow-up %s: %d sent, %d rejected with 4xx", k, counts["follow:"+k], counts["follow_rejected:"+k]))
			}
		}
		if !p.scriptCacheLive {
			r.EngineError("vacuous: the compiled-script cache of the production wiring is not in the explored stack (two Parse calls of one script gave two programs)")
		}
		// the sanity cases (valid cursor, idempotent replay) must all have passed, otherwise
		// the neighbouring "must be rejected" cases prove nothing
		if counts["sanity"] != counts["sanity_ok"] {
			r.EngineError(fmt.Sprintf("vacuous: %d sanity cases, %d accepted", counts["sanity"], counts["sanity_ok"]))
		}
		// the filter grid: every planned request was judged; on every route variant the grid
		// met both the validation (4xx) and the SQL it guards (2xx), otherwise it only
		// exercised the front door of the route
		var gridPlanned int64
		for _, id := range sortedInts(p.gridPer) {
			gridPlanned += int64(p.gridPer[id])
			if a, b := counts["grid:route:"+id+":2xx"], counts["grid:route:"+id+":4xx"]; a == 0 || b == 0 {
				r.EngineError(fmt.Sprintf("vacuous: filter grid of %s: %d requests planned, %d answered 2xx, %d answered 4xx", id, p.gridPer[id], a, b))
			}
		}
		if counts["grid:requests"] != gridPlanned {
			r.EngineError(fmt.Sprintf("vacuous: filter grid: %d requests planned, %d judged", gridPlanned, counts["grid:requests"]))
		}
		if counts["grid:rejected"] == 0 || counts["grid:accepted"] == 0 || counts["grid:must_rejected"] == 0 {
			r.EngineError(fmt.Sprintf("vacuous: filter grid: rejected=%d accepted=%d must-rejected=%d", counts["grid:rejected"], counts["grid:accepted"], counts["grid:must_rejected"]))
		}
		// the empty pages: some tampered cursor must have been answered 2xx with an empty page
		if counts["empty_page_2xx"] == 0 {
			r.EngineError("vacuous: no tampered cursor was answered with an empty page")
		}
		// the import streams with the hash chain repaired: some must have been imported (2xx),
		// otherwise the harness does not chain the hashes as the ledger does and every such
		// stream stopped at the hash comparison like its unrepaired twin
		if counts["kind:body-rechained"] == 0 || counts["rechained_accepted"] == 0 || counts["kind:import-cross"] == 0 {
			r.EngineError(fmt.Sprintf("vacuous: import streams with repaired hash chain: %d served, %d imported; cross-document streams: %d", counts["kind:body-rechained"], counts["rechained_accepted"], counts["kind:import-cross"]))
		}
		// the streamed bulks: the line-level and document-level damage must have been served
		for _, k := range []string{"text-stream", "json-stream"} {
			if counts["kind:"+k] == 0 {
				r.EngineError("vacuous: no " + k + " damage case was served")
			}
		}
	}
	outcomes, kinds := map[string]int64{}, map[string]int64{}
	follows := map[string]any{}
	for _, k := range followKinds {
		st := map[string]int64{}
		for ck, v := range counts {
			if pre := "follow_status:" + k + ":"; strings.HasPrefix(ck, pre) {
				st[ck[len(pre):]] = v
			}
		}
		follows[k] = map[string]any{"sent": counts["follow:"+k], "outcomes": st}
	}
	scriptTwice := map[string]int64{}
	for _, code := range sortedKeys(scriptRejections) {
		scriptTwice[code] = counts["repeat_of_script_rejection:"+code]
	}
	var requests int64 = evals - counts["grid:batches"] - counts["not_constructible"] + counts["grid:requests"] - counts["grid:not_constructible"]
	for _, k := range followKinds {
		requests += counts["follow:"+k]
	}
	for k, v := range counts {
		if strings.HasPrefix(k, "status:") {
			outcomes[k[7:]] = v
		}
		if strings.HasPrefix(k, "kind:") {
			kinds[k[5:]] = v
		}
	}
	cov := ev.Coverage{
		"evaluations":         evals,
		"distinct_nontrivial": len(distinct),
		"cases_generated":     len(p.cases),
		"seeds":               len(p.ctx.seeds),
		"routes":              routeCount(p.ctx.seeds),
		"not_constructible":   counts["not_constructible"],
		"inconclusive_sql_rejected_by_pgsim_parser":             counts["inconclusive"],
		"definitely_invalid":                                    counts["must"],
		"definitely_invalid_rejected_4xx":                       counts["must_rejected"],
		"outcomes":                                              outcomes,
		"cases_per_mutation_kind":                               kinds,
		"exhaustive":                                            exhaustive,
		"filter_grid_cases":                                     counts["grid:requests"],
		"filter_grid_cases_per_route":                           p.gridPer,
		"filter_grid_batches":                                   counts["grid:batches"],
		"filter_grid_batches_rerun_with_exact_dumps":            counts["grid:batches_rerun_exact"],
		"filter_grid_batches_whose_process_died":                counts["grid:batches_crashed"],
		"filter_grid_outcomes":                                  gridCounts(counts, "status:"),
		"filter_grid_cases_per_key_class":                       gridCounts(counts, "loc:"),
		"filter_grid_definitely_invalid":                        counts["grid:must"],
		"filter_grid_definitely_invalid_rejected_4xx":           counts["grid:must_rejected"],
		"filter_grid_inconclusive_sql_rejected_by_pgsim_parser": counts["grid:inconclusive"],
		"filter_grid_tier":                                      map[bool]string{true: "full product on every route variant", false: "reduced value sets (see rule); full product at the thorough tier"}[r.Thorough()],
		"import_streams_with_repaired_hash_chain":               map[string]int64{"served": counts["kind:body-rechained"], "imported_2xx": counts["rechained_accepted"], "refused_4xx": counts["rejected:body-rechained"]},
		"import_cross_document_streams":                         map[string]int64{"served": counts["kind:import-cross"], "refused_4xx": counts["rejected:import-cross"]},
		"ledger_feature_cases":                                  counts["kind:"+featureKind],
		"ledger_feature_outcomes_per_feature_set":               featureCounts(counts),
		"ledger_feature_expansions_refused_4xx":                 counts["features_expansion_refused_4xx"],
		"cursor_empty_page_cases":                               counts["kind:cursor-empty"],
		"cursor_empty_pages_answered_2xx":                       counts["empty_page_2xx"],
		"streamed_bulk_cases":                                   map[string]int64{"text-stream": counts["kind:text-stream"], "json-stream": counts["kind:json-stream"]},
		"requests_judged":                                       requests,
		"follow_ups_served_by_the_same_process":                 follows,
		"repeats_on_unchanged_database":                         counts["repeat_on_unchanged_state"],
		"repeats_refused_twice":                                 counts["repeat_rejected_twice"],
		"repeats_of_requests_refused_by_script_parser":          scriptTwice,
		"inconclusive_follow_ups":                               counts["inconclusive_follow_up"],
		"requests_that_would_wait_for_ever":                     counts["blocked_for_ever"],
		"numscript_cache_max_count":                             ServeNumscriptCacheMaxCount,
		"numscript_cache_live":                                  p.scriptCacheLive,
		"samples":                                               samples.List(),
		"stream_documents_mutated":                              map[bool]string{true: "all", false: "first of each log type"}[r.Thorough()],
		"rule":                                                  "one valid seed request per v1/v2 route (exporters/pipelines and bucket deletion excluded) on a clone of a booted+seeded pgsim database; mutations one at a time: every JSON pointer of the body (and of the query-string filter, and of the decoded cursor) x {null,true,0,-1,1.5,1e400,\"\",\"x\",[],{},2^70,300-char string} + delete; bad dates on date-valued fields/params; every query parameter of the seed, and the parameters the handler reads although the seed omits them (after, page_size, schemaVersion, expand, pit), x {-1,0,abc,1e9,empty,300 chars} (expand: also volumes and effectiveVolumes); cursors x {garbage, base64 of invalid JSON/non-object/text, truncated}; malformed filters; named invalid addresses/assets/variable values; empty/truncated/non-JSON body; Content-Type; Idempotency-Key reused with a different input; path id/address. Named non-compiling scripts (unclosed, unknown statement, garbage, undeclared variable, account as amount) at every script.plain, under the machine and the interpreter runtime. HISTORY DIMENSION: one case = one simulated server process (one Go object graph over one database clone, system controller wired as `serve` does, compiled-script cache of 1024 entries on) that serves the mutated request, then the byte-identical request AGAIN, then — for the routes that carry a transaction — the same body through the other API version (v1<->v2, dryRun<->preview) and as the single element of an atomic v2 _bulk (or, for a _bulk, the element the mutation touched through POST /v2/{ledger}/transactions); each of these requests is judged by the same oracle against the database as it stood before it (the repeat keeps the definitely-invalid mark, the re-routed requests are in doubt), and when the first send left the database unchanged the repeat must get the same status class (same input, same state, same process). FILTER GRID (c38grid.go): on every v2 route that takes a filter (accounts GET/HEAD, transactions GET/HEAD, logs, volumes, aggregate/balances, ledgers list, schemas list; with and without a point in time) the product {$match,$lt,$lte,$gt,$gte,$like,$exists,$in} x {every field and alias of the resource's compiled Schema(), its forms key[x] key[ key[] key], the fields of the other resources, unknown keys, [x], empty key} x 16 values {string, address, partial address, date, 5, 2^64+1, -1, true, [\"a\"], [], 1.5, null, [1], [null], {}, {\"a\":1}}, plus each leaf on an own key wrapped once in $not/$and/$or; quick tier: full product on the own keys of the base variant of each route, 2 values on foreign/unknown keys, 3 values on the HEAD/point-in-time variants; served in batches of 64 by one process, each request judged on its own (a key that names no field of the resource is definitely invalid). STREAMED BULKS (c38stream.go): a valid multi-element seed for each of application/vnd.formance.ledger.api.v2.bulk+script-stream and +json-stream, atomic and not; text stream: 21 header variants at every element position with and without a script, empty/blank script, missing //end, stray //end, text instead of an element, NUL, 64 KiB lines, CRLF/CR, BOM, blank lines, 120 elements; JSON stream: the JSON-pointer menu on the documents, framing damage (concatenated, comma-separated, array-wrapped, CRLF, BOM, NUL), truncated/split/duplicated documents, non-object documents, unknown/missing actions and payloads; spellings of the content type; all in doubt (a streamed bulk reports a stream it cannot decode inside a 200). CURSORS ON EMPTY PAGES: the decoded next cursor of every paginated seed with pageSize in {0,1,2^31,2^63-1,2^63,2^64-1,2^64,-1} x a position or filter that leaves nothing to return (offset beyond the end, pagination id/bottom beyond the data, reverse, filters.qb selecting nothing) x order as is/flipped, without the pageSize parameter (which would override the cursor's). LEDGER CONFIGURATION (c38features.go, run first): besides l1/ls/limp (default features) the seeded database holds four ledgers created with other feature sets — MOVES_HISTORY=OFF; MOVES_HISTORY_POST_COMMIT_EFFECTIVE_VOLUMES=DISABLED; HASH_LOGS, ACCOUNT_METADATA_HISTORY and TRANSACTION_METADATA_HISTORY off together; the minimal set (all five off) — each with the core of the history of l1 (its accounts, transactions 1-4 and metadata); every seed request that addresses l1 (reads and writes, v1 and v2) is sent to each of them as it is, and every GET/HEAD one also with expand in {absent, volumes, effectiveVolumes, volumes+effectiveVolumes} (what such a ledger cannot serve — an expansion that needs the moves or the effective volumes, v1 balances/accounts that always expand volumes — must be refused with a 4xx or served, never a 5xx); all in doubt, same oracle and follow-ups as any case; the signature of a 5xx there carries the route (the error mapping is per handler). IMPORT WITH THE HASH CHAIN REPAIRED (c38import.go): every body mutation of the import seed that leaves the documents decodable is ALSO sent with its hashes recomputed in stream order (Log.ComputeHash), so that it gets past the hash comparison; cross-document streams, well hashed: a later document takes a value of an earlier one of its type (every leaf: reference, transaction id, log id, ...), the same new reference / idempotency key / transaction id / log id in two documents, documents swapped, twice, missing, the whole stream twice. Oracle: no 5xx/panic/process crash, well-formed body for the status, 4xx leaves the dump unchanged (except non-atomic bulk, whose elements are independent by contract), definitely-invalid input (explicit table) is 4xx; in-doubt mutations may be 2xx or 4xx. Signatures are at root-cause level: panic/process-crash = call site; 5xx = input class + logged error class; state-changed-on-4xx = route; accepted/malformed = route + pointer class + replacement class (+ the follow-up kind when the request judged is a follow-up); verdict-changed-on-repeat = route + pointer class + replacement class + the two status classes",
	}
	return cov, assumptions
}

// the whole quick space (16.0k cases, 71k requests judged: every case is a short history on
// one process, the filter grid travels in batches) takes ~170 s on a 16-core machine at load
// 80-100 (the 11.7k cases it had before the grid, the streams and the empty pages: 120 s).
// The four feature ledgers of the configuration dimension make the database, hence the two
// dumps every request pays for, half as large again: 110-120 s at load 50-60, where the
// space without them took 97 s
const c38Quick, c38Thorough = 300 * time.Second, 15 * time.Minute

func routeCount(seeds []Seed) int {
	m := map[string]bool{}
	for _, s := range seeds {
		m[s.API+" "+s.Route] = true
	}
	return len(m)
}

func init() {
	workers["C38"] = c38Worker
	reg.Register("C38", func() int {
		if w := workerMode("C38"); w != nil {
			return c38Worker(w)
		}
		r := ev.Start("C38", ev.LevelExploration, c38Quick, c38Thorough)
		cov, as := runC38(r)
		return r.Finish(cov, as)
	})
}

// sortedKeys is used by tests and evidence helpers.
func sortedKeys[V any](m map[string]V) []string {
	out := make([]string, 0, len(m))
	for k := range m {
		out = append(out, k)
	}
	sort.Strings(out)
	return out
}
