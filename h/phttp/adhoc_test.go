package phttp

import (
	"bufio"
	"context"
	"encoding/json"
	"os"
	"testing"
)

// TestAdhoc serves the requests of a file (one JSON Req per line; a line "---" starts over
// on a fresh clone of the seeded C38 database) and prints request -> response:
//
//	ADHOC=/tmp/reqs.jsonl go test ./phttp -run TestAdhoc -v
func TestAdhoc(t *testing.T) {
	file := os.Getenv("ADHOC")
	if file == "" {
		t.Skip("set ADHOC=<file>")
	}
	f, err := os.Open(file)
	if err != nil {
		t.Fatal(err)
	}
	defer f.Close()
	pg, err := BootSeeded(context.Background(), c38Ledgers, c38History)
	if err != nil {
		t.Fatal(err)
	}
	e := NewEnv(pg.Clone())
	sc := bufio.NewScanner(f)
	sc.Buffer(make([]byte, 1<<20), 64<<20)
	for sc.Scan() {
		ln := sc.Text()
		if ln == "" {
			continue
		}
		if ln == "---" {
			e.Close()
			e = NewEnv(pg.Clone())
			continue
		}
		var r Req
		if err := json.Unmarshal([]byte(ln), &r); err != nil {
			t.Fatalf("bad line %q: %v", ln, err)
		}
		before := e.Dump()
		resp, _ := e.Do(r)
		t.Logf("%s\n   -> %s (changed=%v)", r, resp.short(), e.Dump() != before)
		if resp.Status >= 500 && resp.Body == "" {
			p := NewEnv(pg.Clone())
			t.Logf("   %s", p.PanicOf(r))
			p.Close()
		}
	}
	e.Close()
}
