package phttp

import (
	"context"
	"os"
	"strings"
	"testing"
)

// TestFindings replays the minimised reproducers of the C38 findings on the seeded
// database and prints request -> response (+ the error the server logged, + panic site).
func TestFindings(t *testing.T) {
	if os.Getenv("FINDINGS") == "" {
		t.Skip("set FINDINGS=1")
	}
	pg, err := BootSeeded(context.Background(), c38Ledgers, c38History)
	if err != nil {
		t.Fatal(err)
	}
	sendM := "vars {\n monetary $m\n}\nsend $m (\n source = @world\n destination = @b\n)"
	imp := func(body string) Req {
		return Req{Method: "POST", Path: "/v2/limp/logs/import", Headers: jh("application/octet-stream"), Body: body}
	}
	type step struct {
		name string
		reqs []Req
	}
	steps := []step{
		{"v1 numeric script variable", []Req{post("/l1/transactions", `{"script":{"plain":`+jstr(sendM)+`,"vars":{"m":5}}}`)}},
		{"v2 fractional monetary amount", []Req{post("/v2/l1/transactions", `{"script":{"plain":`+jstr(sendM)+`,"vars":{"m":{"asset":"USD","amount":1.5}}}}`)}},
		{"cursor = base64(null)", []Req{get("/v2/l1/transactions", KV{"cursor", b64("null")})}},
		{"cursor without order", []Req{get("/v2/l1/transactions", KV{"cursor", b64(`{"column":"id","pageSize":1}`)})}},
		{"offset cursor without order", []Req{get("/v2/l1/accounts", KV{"cursor", b64(`{"offset":1,"pageSize":1}`)})}},
		{"cursor with unknown column", []Req{get("/v2/l1/transactions", KV{"cursor", b64(`{"column":"x","order":0,"pageSize":1}`)})}},
		{"offset cursor with unknown column", []Req{get("/v2/l1/accounts", KV{"cursor", b64(`{"offset":0,"column":"x","order":0,"pageSize":1}`)})}},
		{"sort=abc", []Req{get("/v2/l1/transactions", KV{"sort", "abc"})}},
		{"v1 startTime=yesterday", []Req{get("/l1/transactions", KV{"startTime", "yesterday"})}},
		{"v1 after=1 (valid)", []Req{get("/l1/transactions", KV{"after", "1"})}},
		{"v1 logs after=1 (valid)", []Req{get("/l1/logs", KV{"after", "1"})}},
		{"v1 HEAD endTime=abc", []Req{{Method: "HEAD", Path: "/l1/transactions", Query: []KV{{"endTime", "abc"}}}}},
		{"import: not a log", []Req{imp(`{"id":"x"}`)}},
		{"import: unknown type", []Req{imp(`{"type":"X"}`)}},
		{"import: truncated", []Req{imp(`{"type":"NEW_TRANSACTION"`)}},
		{"Idempotency-Key 257 chars", []Req{post("/v2/l1/transactions", `{"postings":[{"source":"world","destination":"b","asset":"USD","amount":1}]}`).withHeader("Idempotency-Key", strings.Repeat("k", 257))}},
		{"tx metadata null", []Req{post("/v2/l1/transactions/1/metadata", `null`)}},
		{"v1 tx metadata null", []Req{post("/l1/transactions/1/metadata", `null`)}},
		{"v1 revert, idempotency key reused", []Req{post("/l1/transactions/3/revert", ``).withHeader("Idempotency-Key", "ik-1"), post("/l1/transactions/2/revert", ``).withHeader("Idempotency-Key", "ik-1")}},
		{"v2 account metadata on an invalid address", []Req{post("/v2/l1/accounts/a::b/metadata", `{"k":"v"}`), get("/v2/l1/accounts/a::b")}},
		{"expand=0", []Req{get("/v2/l1/accounts", KV{"expand", "0"})}},
	}
	for _, s := range steps {
		e := NewEnv(pg.Clone())
		for _, r := range s.reqs {
			resp, _ := e.Do(r)
			t.Logf("[%s]\n   %s\n   -> %s", s.name, r, resp.short())
			if resp.Status >= 500 && resp.Body == "" {
				t.Logf("   %s", NewEnv(pg.Clone()).PanicOf(r))
			}
		}
		e.Close()
	}
}
