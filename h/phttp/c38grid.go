package phttp

import (
	"fmt"
	"sort"
	"strconv"
	"strings"

	"github.com/formancehq/ledger/internal/queries"
	"github.com/formancehq/ledger/verifh/pgsim"
)

// The filter grid of C38.
//
// Every v2 route that takes a filter document resolves it in two layers that were written
// apart: the schema of the resource (internal/queries: which operators a field type accepts,
// which value types) validates, then the ResolveFilter of the resource handler
// (internal/storage/ledger/resource_*.go, internal/storage/system/resource_ledgers.go) turns
// (operator, key, value) into SQL. Whatever the first layer lets through and the second does
// not expect is a 5xx or a panic. A fixed list of malformed documents does not find those:
// the grid enumerates the whole product
//
//	operator x key x value            (one leaf document {op:{key:value}})
//	+ {$not, $and, $or} x operator x own key x value   (the leaf wrapped once)
//
// for every route, with and without a point in time where the route has one. Keys come from
// the Schema() of the resource AS COMPILED (queries.*Schema), so a new field enters the grid
// by itself. The requests are reads: they are served in batches by one process (one Env),
// each judged by the oracle of the property like any other request (execOn).

// gridReq is one request of a batch.
type gridReq struct {
	Loc  string `json:"loc"`
	Repl string `json:"repl"`
	Req  Req    `json:"req"`
	Must bool   `json:"must,omitempty"`
}

// gridRoute is one route variant the grid is sent to. The filter goes in the body.
type gridRoute struct {
	Route    string // route pattern (signature component)
	Variant  string // "" | "pit" | ...
	Method   string
	Path     string
	Query    []KV
	Resource string // key of gridSchemas
	// Full: the whole product on the keys of the resource also at the quick tier
	Full bool
}

const gridAPI = "v2"

// ledgersSchema mirrors ledgersResourceHandler.Schema() (internal/storage/system/
// resource_ledgers.go), which is not exported: name -> indexable (map-typed).
var ledgersSchemaFields = map[string]bool{"bucket": false, "features": true, "metadata": true, "name": false, "id": false}

// gridSchemas: resource -> field or alias -> indexable.
func gridSchemas() map[string]map[string]bool {
	conv := func(s queries.EntitySchema) map[string]bool {
		out := map[string]bool{}
		for name, f := range s.Fields {
			idx := f.Type.Index() != nil
			out[name] = idx
			for _, a := range f.Aliases {
				out[a] = idx
			}
		}
		return out
	}
	return map[string]map[string]bool{
		"accounts":     conv(queries.AccountSchema),
		"transactions": conv(queries.TransactionSchema),
		"logs":         conv(queries.LogSchema),
		"volumes":      conv(queries.VolumeSchema),
		"aggregated":   conv(queries.AggregatedBalanceSchema),
		"schemas":      conv(queries.SchemaSchema),
		"ledgers":      ledgersSchemaFields,
	}
}

var gridRoutes = []gridRoute{
	{Route: "GET /{ledger}/accounts", Method: "GET", Path: "/v2/l1/accounts", Resource: "accounts", Full: true},
	{Route: "GET /{ledger}/accounts", Variant: "pit", Method: "GET", Path: "/v2/l1/accounts", Query: []KV{{"pit", d9}}, Resource: "accounts"},
	{Route: "HEAD /{ledger}/accounts", Method: "HEAD", Path: "/v2/l1/accounts", Resource: "accounts"},
	{Route: "HEAD /{ledger}/accounts", Variant: "pit", Method: "HEAD", Path: "/v2/l1/accounts", Query: []KV{{"pit", d9}}, Resource: "accounts"},
	{Route: "GET /{ledger}/transactions", Method: "GET", Path: "/v2/l1/transactions", Resource: "transactions", Full: true},
	{Route: "GET /{ledger}/transactions", Variant: "pit", Method: "GET", Path: "/v2/l1/transactions", Query: []KV{{"pit", d9}}, Resource: "transactions"},
	{Route: "HEAD /{ledger}/transactions", Method: "HEAD", Path: "/v2/l1/transactions", Resource: "transactions"},
	{Route: "HEAD /{ledger}/transactions", Variant: "pit", Method: "HEAD", Path: "/v2/l1/transactions", Query: []KV{{"pit", d9}}, Resource: "transactions"},
	{Route: "GET /{ledger}/logs", Method: "GET", Path: "/v2/l1/logs", Resource: "logs", Full: true},
	{Route: "GET /{ledger}/volumes", Method: "GET", Path: "/v2/l1/volumes", Resource: "volumes", Full: true},
	{Route: "GET /{ledger}/volumes", Variant: "pit-oot", Method: "GET", Path: "/v2/l1/volumes", Query: []KV{{"pit", d9}, {"oot", d1}}, Resource: "volumes"},
	{Route: "GET /{ledger}/aggregate/balances", Method: "GET", Path: "/v2/l1/aggregate/balances", Resource: "aggregated", Full: true},
	{Route: "GET /{ledger}/aggregate/balances", Variant: "pit", Method: "GET", Path: "/v2/l1/aggregate/balances", Query: []KV{{"pit", d9}}, Resource: "aggregated"},
	{Route: "GET /", Method: "GET", Path: "/v2", Resource: "ledgers", Full: true},
	{Route: "GET /{ledger}/schemas", Method: "GET", Path: "/v2/ls/schemas", Resource: "schemas", Full: true},
	{Route: "GET /{ledger}/schemas", Variant: "pit", Method: "GET", Path: "/v2/ls/schemas", Query: []KV{{"pit", d9}}, Resource: "schemas"},
}

func (g gridRoute) ref() seedRef {
	n := "filter-grid"
	if g.Variant != "" {
		n += "-" + g.Variant
	}
	return seedRef{API: gridAPI, Route: g.Route, Name: n}
}

func (g gridRoute) req(filter string) Req {
	return Req{Method: g.Method, Path: g.Path, Query: append([]KV(nil), g.Query...), Headers: jsonCT, Body: filter}
}

var gridOps = []string{"$match", "$lt", "$lte", "$gt", "$gte", "$like", "$exists", "$in"}

// gridValues: raw JSON texts. The first ten pass the validation of some field type (string,
// date, number, boolean, array of strings), the others pass none.
var gridValues = []named{
	{"string", `"x"`},
	{"address", `"users:u1"`},
	{"partial-address", `"a:"`},
	{"date", `"2023-06-01T00:00:00Z"`},
	{"int", `5`},
	{"2^64+1", `18446744073709551617`},
	{"neg", `-1`},
	{"bool", `true`},
	{"array-of-string", `["a"]`},
	{"empty-array", `[]`},
	{"float", `1.5`},
	{"null", `null`},
	{"array-of-int", `[1]`},
	{"array-of-null", `[null]`},
	{"empty-object", `{}`},
	{"object", `{"a":1}`},
}

// The quick tier: the whole product operator x own key (every form) x value on the base
// variant of every route (gridRoute.Full), plus the wrapped leaves; the keys that name no
// field of the resource with two values (they are refused on the key); on the other variants
// (HEAD, point in time) operator x own key x three values. The thorough tier: everything.
var gridQuickVariant = map[string]bool{"string": true, "int": true, "array-of-string": true}
var gridQuickForeign = map[string]bool{"string": true, "int": true}
var gridWrapValues = map[string]bool{"string": true, "int": true, "array-of-string": true}

// indexOf: the index used in the well-formed indexed form key[x] of a field.
func gridIndexOf(field string) string {
	switch field {
	case "balance":
		return "USD/2"
	case "metadata":
		return "role"
	case "features":
		return "HASH_LOGS"
	}
	return "x"
}

type gridKey struct {
	Class string // own | own-indexed | own-malformed | foreign | unknown
	Key   string
	// Unknown: the key names no field of the resource (certainly invalid input)
	Unknown bool
}

// gridKeys lists the keys of the grid for one resource, in a fixed order.
func gridKeys(resource string, schemas map[string]map[string]bool) []gridKey {
	own := schemas[resource]
	var out []gridKey
	for _, f := range sortedKeys(own) {
		out = append(out,
			gridKey{"own", f, false},
			gridKey{"own-indexed", f + "[" + gridIndexOf(f) + "]", false},
			gridKey{"own-malformed", f + "[", false},
			gridKey{"own-malformed", f + "[]", false},
			gridKey{"own-malformed", f + "]", false},
		)
	}
	foreign := map[string]bool{}
	for r, fs := range schemas {
		if r == resource {
			continue
		}
		for f, idx := range fs {
			if _, mine := own[f]; !mine {
				foreign[f] = foreign[f] || idx
			}
		}
	}
	for _, f := range sortedKeys(foreign) {
		out = append(out, gridKey{"foreign", f, true})
		if foreign[f] {
			out = append(out, gridKey{"foreign", f + "[" + gridIndexOf(f) + "]", true})
		}
	}
	out = append(out,
		gridKey{"unknown", "no_such_field", true},
		gridKey{"unknown", "no_such_field[x]", true},
		gridKey{"unknown", "[x]", true},
		gridKey{"unknown", "", true},
	)
	return out
}

func gridLeaf(op, key, rawValue string) string {
	return `{` + encJSON(op) + `:{` + encJSON(key) + `:` + rawValue + `}}`
}

// gridRequests enumerates the requests of one route variant.
func gridRequests(g gridRoute, schemas map[string]map[string]bool, thorough bool) []gridReq {
	var out []gridReq
	full := thorough || g.Full
	for _, k := range gridKeys(g.Resource, schemas) {
		for _, op := range gridOps {
			for _, v := range gridValues {
				if !thorough {
					switch {
					case k.Unknown && !gridQuickForeign[v.Name]:
						continue
					case !full && (k.Unknown || !gridQuickVariant[v.Name]):
						continue
					}
				}
				out = append(out, gridReq{Loc: "filter-grid:" + k.Class, Repl: op + " " + k.Key + " " + v.Name, Must: k.Unknown, Req: g.req(gridLeaf(op, k.Key, v.Val))})
			}
		}
	}
	// the leaf wrapped once in each logical operator
	if full {
		for _, k := range gridKeys(g.Resource, schemas) {
			if k.Class != "own" && k.Class != "own-indexed" {
				continue
			}
			for _, op := range gridOps {
				for _, v := range gridValues {
					if !gridWrapValues[v.Name] {
						continue
					}
					leaf := gridLeaf(op, k.Key, v.Val)
					for _, w := range []named{{"$not", `{"$not":` + leaf + `}`}, {"$and", `{"$and":[` + leaf + `]}`}, {"$or", `{"$or":[` + leaf + `,` + leaf + `]}`}} {
						out = append(out, gridReq{Loc: "filter-grid:wrapped", Repl: w.Name + " " + op + " " + k.Key + " " + v.Name, Req: g.req(w.Val)})
					}
				}
			}
		}
	}
	return out
}

const gridBatchSize = 64

// gridCases builds the batches of the grid. Every route variant must answer 2xx without a
// filter and with a valid one (otherwise the grid would only meet the refusal of the route).
func gridCases(boot *pgsim.DB, thorough bool) ([]mcase, map[string]int, error) {
	schemas := gridSchemas()
	per := map[string]int{}
	var out []mcase
	for _, g := range gridRoutes {
		e := NewEnv(boot.Clone())
		resp, ok := e.Do(g.req(""))
		e.Close()
		if !ok || resp.Status < 200 || resp.Status >= 300 {
			return nil, nil, fmt.Errorf("filter grid: route %s %s is not valid without a filter: %s", g.Route, g.Variant, resp.short())
		}
		reqs := gridRequests(g, schemas, thorough)
		per[g.ref().id()] = len(reqs)
		for i := 0; i < len(reqs); i += gridBatchSize {
			j := i + gridBatchSize
			if j > len(reqs) {
				j = len(reqs)
			}
			out = append(out, mcase{Seed: g.ref(), Loc: "filter-grid", Repl: fmt.Sprintf("batch %d-%d", i, j-1), Grid: reqs[i:j]})
		}
	}
	return out, per, nil
}

// dumpChain says how execOn evaluates "the database did not change" inside a batch.
//
//	nil    dump before and after every request (a case on its own)
//	lazy   no dump at all: every request is taken to have left the database as it was; the
//	       BATCH is checked as a whole by its caller (dump before the first request, dump
//	       after the last), and re-run in exact mode if that check fails
//	exact  one dump per request: the dump taken after a request is the "before" of the next
//	       (nothing else touches the database of the process between two reads)
type dumpChain struct {
	lazy bool
	cur  string
	ok   bool
}

func (d *dumpChain) before(e *Env) string {
	switch {
	case d == nil:
		return e.Dump()
	case d.lazy:
		return ""
	case !d.ok:
		d.cur, d.ok = e.Dump(), true
	}
	return d.cur
}

func (d *dumpChain) after(e *Env) string {
	switch {
	case d == nil:
		return e.Dump()
	case d.lazy:
		return ""
	}
	d.cur, d.ok = e.Dump(), true
	return d.cur
}

// stepPrefix is prepended to the progress reports of the request in flight (position in
// the batch), so that the parent knows which request of a batch killed the process.
var stepPrefix string

// execGrid serves the requests of a batch one after the other on one process. Counters are
// reported under "grid:"; violations as for any request (each request of the batch is a
// "first send" of its own: same signature, same replay as if it had been a case).
func execGrid(boot *pgsim.DB, c *mcase) caseResult {
	run := func(d *dumpChain) (caseResult, bool) {
		res := caseResult{Counts: map[string]int64{}}
		e := NewEnv(boot.Clone())
		defer e.Close()
		defer func() { stepPrefix = "" }()
		start := e.Dump()
		for k := range c.Grid {
			g := &c.Grid[k]
			stepPrefix = "grid#" + strconv.Itoa(k) + " "
			gc := mcase{Seed: c.Seed, Loc: g.Loc, Repl: g.Repl, Req: g.Req, Must: g.Must}
			sub := execOn(boot, e, &gc, d)
			for ck, v := range sub.Counts {
				res.Counts["grid:"+ck] += v
			}
			res.Counts["grid:requests"]++
			res.Viol = append(res.Viol, sub.Viol...)
			if sub.Key != "" {
				res.Keys = append(res.Keys, sub.Key)
			}
			if sub.Sample != nil {
				res.Sample = sub.Sample
			}
			if m := sub.Extra["inconclusive"]; m != "" && res.Extra == nil {
				res.Extra = map[string]string{"inconclusive": m}
			}
			if sub.Engine != "" {
				res.Engine = sub.Engine
				return res, true
			}
		}
		return res, !d.lazy || e.Dump() == start
	}
	res, ok := run(&dumpChain{lazy: true})
	if !ok {
		// some request of the batch changed the database: find which
		res, _ = run(&dumpChain{})
		res.Counts["grid:batches_rerun_exact"]++
	}
	res.Counts["grid:batches"]++
	return res
}

// gridCrashIndex extracts the position in the batch from the last progress report of a dead child.
func gridCrashIndex(step string) (int, bool) {
	if !strings.HasPrefix(step, "grid#") {
		return 0, false
	}
	rest := step[len("grid#"):]
	if sp := strings.IndexByte(rest, ' '); sp > 0 {
		rest = rest[:sp]
	}
	k, err := strconv.Atoi(rest)
	return k, err == nil
}

// gridCounts extracts the "grid:<prefix>" counters as a map for the evidence.
func gridCounts(counts map[string]int64, prefix string) map[string]int64 {
	out := map[string]int64{}
	for k, v := range counts {
		if strings.HasPrefix(k, "grid:"+prefix) {
			out[k[len("grid:"+prefix):]] = v
		}
	}
	return out
}

func sortedInts(m map[string]int) []string {
	out := make([]string, 0, len(m))
	for k := range m {
		out = append(out, k)
	}
	sort.Strings(out)
	return out
}
