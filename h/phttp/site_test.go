package phttp

import "testing"

func TestSiteOf(t *testing.T) {
	for in, want := range map[string]string{
		"panic: x; stack: github.com/formancehq/ledger/internal/api/v1.Script.ToCore({{{0xff86b356b40, 0x44}}}) @ /repo/internal/api/v1/controllers_transactions_create.go:33 +0x513 <- y":      "internal/api/v1/controllers_transactions_create.go:Script.ToCore",
		"panic: runtime error | github.com/formancehq/ledger/internal/controller/ledger.(*DefaultController).importLog.func1 @ /repo/internal/controller/ledger/controller_default.go:298 <- z": "internal/controller/ledger/controller_default.go:(*DefaultController).importLog.func1",
		"panic: i; stack: github.com/formancehq/ledger/internal/storage/common.UnmarshalCursor[...]({0xff86b8a37ad, 0x141daaa?}, {0x1}) @ /repo/internal/storage/common/cursor.go:61 +0x33a":    "internal/storage/common/cursor.go:UnmarshalCursor",
		"panic: invalid log type; stack: github.com/formancehq/ledger/internal.LogTypeFromString(...) @ /repo/internal/log.go:85 <- a":                                                          "internal/log.go:LogTypeFromString",
		"panic: unknown type; stack: github.com/formancehq/ledger/internal.(*SavedMetadata).UnmarshalJSON(0xc000, {0x1, 0x2, 0x3}) @ /repo/internal/log.go:304 +0x1 <- b":                       "internal/log.go:(*SavedMetadata).UnmarshalJSON",
		"nothing": "unknown-site",
	} {
		if got := siteOf(in); got != want {
			t.Errorf("siteOf(%q) = %q, want %q", in, got, want)
		}
	}
}
