package phttp

import (
	"os"
	"testing"
	"time"
)

// TestC38Features runs the cases of the configuration dimension (ledger-features) in this
// process and prints, per feature ledger and replacement, the statuses met (development aid).
func TestC38Features(t *testing.T) {
	if os.Getenv("C38FEATURES") == "" {
		t.Skip("set C38FEATURES=1")
	}
	t0 := time.Now()
	p, err := planC38(false)
	if err != nil {
		t.Fatal(err)
	}
	t.Log("plan", time.Since(t0), len(p.cases))
	n := 0
	for i := range p.cases {
		c := &p.cases[i]
		if coarseKind(c.Loc) != featureKind {
			continue
		}
		n++
		res := execC38(p.ctx.boot, c)
		st := ""
		for k := range res.Counts {
			if len(k) > 7 && k[:7] == "status:" {
				st = k[7:]
			}
		}
		flag := ""
		if res.Engine != "" || len(res.Viol) > 0 {
			flag = "  <<<<<<<<<< " + res.Engine
			for _, v := range res.Viol {
				flag += " | " + v.Sig + " " + v.What
			}
		}
		t.Logf("%-4s %-70s %-60s %s%s", st, c.Seed.id(), c.Loc, c.Repl, flag)
	}
	t.Log(n, "cases", time.Since(t0))
}
