package phttp

import (
	"encoding/base64"
	"strings"
	"testing"
)

// TestQuickPlanReachesTheKnownDefects: the requests that exposed the defects repaired in
// the ledger (see FINDINGS of the C38 strengthening) must all be in the QUICK plan.
func TestQuickPlanReachesTheKnownDefects(t *testing.T) {
	p, err := planC38(false)
	if err != nil {
		t.Fatal(err)
	}
	type want struct {
		name string
		is   func(r Req) bool
	}
	body := func(method, path, b string) func(Req) bool {
		return func(r Req) bool { return r.Method == method && r.Path == path && r.Body == b }
	}
	cursorHas := func(path string, parts ...string) func(Req) bool {
		return func(r Req) bool {
			if r.Path != path {
				return false
			}
			for _, kv := range r.Query {
				if kv.K == "pageSize" {
					return false
				}
			}
			for _, kv := range r.Query {
				if kv.K != "cursor" {
					continue
				}
				raw, err := base64.RawURLEncoding.DecodeString(kv.V)
				if err != nil {
					return false
				}
				for _, p := range parts {
					if !strings.Contains(string(raw), p) {
						return false
					}
				}
				return true
			}
			return false
		}
	}
	wants := []want{
		{"accounts $exists balance", body("GET", "/v2/l1/accounts", `{"$exists":{"balance":5}}`)},
		{"accounts $exists balance[USD/2]", body("GET", "/v2/l1/accounts", `{"$exists":{"balance[USD/2]":5}}`)},
		{"accounts $gt balance (several assets)", body("GET", "/v2/l1/accounts", `{"$gt":{"balance":5}}`)},
		{"volumes $exists balance", body("GET", "/v2/l1/volumes", `{"$exists":{"balance":5}}`)},
		{"ledgers $in name", body("GET", "/v2", `{"$in":{"name":["a"]}}`)},
		{"schemas $in version", body("GET", "/v2/ls/schemas", `{"$in":{"version":["a"]}}`)},
		{"volumes balance[", body("GET", "/v2/l1/volumes", `{"$gt":{"balance[":5}}`)},
		{"transactions metadata[", body("GET", "/v2/l1/transactions", `{"$match":{"metadata[":"x"}}`)},
		{"text stream: header key without value", body("POST", "/v2/l1/_bulk", "//script ik\n")},
		{"text stream: empty script", body("POST", "/v2/l1/_bulk", "//script\n//end\n")},
		{"column cursor, pageSize 2^64-1, empty page", cursorHas("/v2/l1/transactions", `"pageSize":18446744073709551615`, `"paginationID":-1`)},
		{"offset cursor, pageSize 2^64-1, empty page", cursorHas("/v2/l1/accounts", `"pageSize":18446744073709551615`, `"offset":0`, `nobody`)},
		{"offset cursor, offset 2^31", cursorHas("/v2/l1/accounts", `"offset":2147483648`)},
		{"import: reference of an earlier log", func(r Req) bool {
			return r.Path == "/v2/limp/logs/import" && strings.Count(r.Body, `"reference":"ref1"`) == 2
		}},
		{"import: idempotency key of an earlier log", func(r Req) bool {
			return r.Path == "/v2/limp/logs/import" && strings.Count(r.Body, `"idempotencyKey":"same-ik"`) == 2
		}},
	}
	found := make([]bool, len(wants))
	check := func(r Req) {
		for i, w := range wants {
			if !found[i] && w.is(r) {
				found[i] = true
			}
		}
	}
	for i := range p.cases {
		c := &p.cases[i]
		if len(c.Grid) == 0 {
			check(c.Req)
		}
		for _, g := range c.Grid {
			check(g.Req)
		}
	}
	for i, w := range wants {
		if !found[i] {
			t.Errorf("the quick plan does not contain: %s", w.name)
		}
	}
}

func TestRechainImportLeavesTheSeedAlone(t *testing.T) {
	p, err := planC38(false)
	if err != nil {
		t.Fatal(err)
	}
	for i := range p.ctx.seeds {
		s := &p.ctx.seeds[i]
		if s.Route != importRoute {
			continue
		}
		_, changed, ok := rechainImport(s.Req.Body)
		if !ok || changed {
			t.Fatalf("the hashes the harness computes differ from the exported ones: ok=%v changed=%v", ok, changed)
		}
		return
	}
	t.Fatal("no import seed")
}

func TestGridCrashIndex(t *testing.T) {
	for step, want := range map[string]int{"grid#0 first send: GET /v2/l1/accounts": 0, "grid#63 first send: HEAD /v2": 63} {
		if k, ok := gridCrashIndex(step); !ok || k != want {
			t.Errorf("%q: got %d %v", step, k, ok)
		}
	}
	for _, step := range []string{"", "first send: GET /v2", "grid#x first send"} {
		if _, ok := gridCrashIndex(step); ok {
			t.Errorf("%q: accepted", step)
		}
	}
}
