package phttp

import (
	"context"
	"encoding/json"
	"fmt"
	"math/big"
	"runtime"
	"sort"
	"strconv"
	"strings"
	"sync"
	"sync/atomic"
	"time"

	"github.com/formancehq/ledger/verifh/ev"
	"github.com/formancehq/ledger/verifh/lx"
	"github.com/formancehq/ledger/verifh/pgsim"
	"github.com/formancehq/ledger/verifh/reg"
)

// ---- amounts ------------------------------------------------------------------------

type namedAmount struct {
	Name string
	V    *big.Int
}

func pow(b, e int64) *big.Int { return new(big.Int).Exp(big.NewInt(b), big.NewInt(e), nil) }
func plus(a *big.Int, d int64) *big.Int {
	return new(big.Int).Add(a, big.NewInt(d))
}

func c36Amounts() []namedAmount {
	return []namedAmount{
		{"0", big.NewInt(0)}, {"1", big.NewInt(1)},
		{"2^53-1", plus(pow(2, 53), -1)}, {"2^53+1", plus(pow(2, 53), 1)},
		{"2^63-1", plus(pow(2, 63), -1)}, {"2^63+1", plus(pow(2, 63), 1)},
		{"2^64-1", plus(pow(2, 64), -1)}, {"2^64+1", plus(pow(2, 64), 1)},
		{"10^30", pow(10, 30)},
	}
}

// ---- write channels -----------------------------------------------------------------

// channel builds the request that moves n USD from world to dest.
type c36channel struct {
	API, Name string
	Build     func(dest string, n *big.Int) Req
	// TxOf extracts the created transaction (JSON object) from the response.
	TxOf func(body any) any
}

const sendVar = "vars {\n monetary $m\n}\nsend $m (\n source = @world\n destination = @%s\n)"

func v2data(b any) any { return jat(b, "data") }
func v1data(b any) any { return jat(b, "data", 0) }
func bulk0(b any) any  { return jat(b, "data", 0, "data") }

func c36Channels() []c36channel {
	posting := func(dest string, n *big.Int) string {
		return fmt.Sprintf(`{"postings":[{"source":"world","destination":%q,"asset":"USD","amount":%s}]}`, dest, n)
	}
	varString := func(dest string, n *big.Int) string {
		return fmt.Sprintf(`{"script":{"plain":%s,"vars":{"m":"USD %s"}}}`, jstr(fmt.Sprintf(sendVar, dest)), n)
	}
	varObjNum := func(dest string, n *big.Int) string {
		return fmt.Sprintf(`{"script":{"plain":%s,"vars":{"m":{"asset":"USD","amount":%s}}}}`, jstr(fmt.Sprintf(sendVar, dest)), n)
	}
	varObjStr := func(dest string, n *big.Int) string {
		return fmt.Sprintf(`{"script":{"plain":%s,"vars":{"m":{"asset":"USD","amount":"%s"}}}}`, jstr(fmt.Sprintf(sendVar, dest)), n)
	}
	literal := func(dest string, n *big.Int, rt string) string {
		return fmt.Sprintf(`{"script":{"plain":%s},"runtime":%q}`, jstr(fmt.Sprintf("send [USD %s] (\n source = @world\n destination = @%s\n)", n, dest)), rt)
	}
	v2 := func(body func(string, *big.Int) string) func(string, *big.Int) Req {
		return func(d string, n *big.Int) Req { return post("/v2/c36/transactions", body(d, n)) }
	}
	v1 := func(body func(string, *big.Int) string) func(string, *big.Int) Req {
		return func(d string, n *big.Int) Req { return post("/c36/transactions", body(d, n)) }
	}
	bulkOf := func(body func(string, *big.Int) string) func(string, *big.Int) Req {
		return func(d string, n *big.Int) Req {
			return post("/v2/c36/_bulk", `[{"action":"CREATE_TRANSACTION","data":`+body(d, n)+`}]`)
		}
	}
	return []c36channel{
		{"v2", "postings", v2(posting), v2data},
		{"v1", "postings", v1(posting), v1data},
		{"v2", "script-var-string", v2(varString), v2data},
		{"v1", "script-var-string", v1(varString), v1data},
		{"v2", "script-var-object-number", v2(varObjNum), v2data},
		{"v1", "script-var-object-number", v1(varObjNum), v1data},
		{"v2", "script-var-object-string", v2(varObjStr), v2data},
		{"v2", "script-literal-machine", v2(func(d string, n *big.Int) string { return literal(d, n, "machine") }), v2data},
		{"v2", "script-literal-interpreter", v2(func(d string, n *big.Int) string { return literal(d, n, "experimental-interpreter") }), v2data},
		{"v2", "bulk-postings", bulkOf(posting), bulk0},
		{"v2", "bulk-script-var-object-number", bulkOf(varObjNum), bulk0},
	}
}

// ---- JSON helpers -------------------------------------------------------------------

// jat walks maps (string keys) and arrays (int keys); nil when absent.
func jat(v any, path ...any) any {
	for _, p := range path {
		switch k := p.(type) {
		case string:
			m, ok := v.(map[string]any)
			if !ok {
				return nil
			}
			v = m[k]
		case int:
			a, ok := v.([]any)
			if !ok || k >= len(a) {
				return nil
			}
			v = a[k]
		}
	}
	return v
}

// exactInt converts a JSON number (decoded with UseNumber) to a big.Int without going
// through floating point. A number written with an exponent or fraction is accepted only
// if it denotes an integer exactly.
func exactInt(v any) (*big.Int, bool) {
	n, ok := v.(json.Number)
	if !ok {
		return nil, false
	}
	if z, ok := new(big.Int).SetString(string(n), 10); ok {
		return z, true
	}
	if r, ok := new(big.Rat).SetString(string(n)); ok && r.IsInt() {
		return new(big.Int).Set(r.Num()), true
	}
	return nil, false
}

// ---- reference fold -----------------------------------------------------------------

type c36posting struct {
	Src, Dst string
	Amt      *big.Int
}
type c36vol struct{ In, Out *big.Int }

func (v c36vol) bal() *big.Int { return new(big.Int).Sub(v.In, v.Out) }

func foldVolumes(ps []c36posting) map[string]c36vol {
	out := map[string]c36vol{}
	get := func(a string) c36vol {
		if v, ok := out[a]; ok {
			return v
		}
		return c36vol{new(big.Int), new(big.Int)}
	}
	for _, p := range ps {
		s := get(p.Src)
		s.Out = new(big.Int).Add(s.Out, p.Amt)
		out[p.Src] = s
		d := get(p.Dst)
		d.In = new(big.Int).Add(d.In, p.Amt)
		out[p.Dst] = d
	}
	return out
}

// ---- one case ------------------------------------------------------------------------

type c36mismatch struct {
	Family string // "" (write channel) | read | filter
	API    string
	Where  string
	What   string
}

type c36case struct {
	ch       c36channel
	amt      namedAmount
	thorough bool
}

type c36result struct {
	accepted     bool
	rejected     string // status + code when the write was refused
	rejectedResp string
	mism         []c36mismatch
	engine       string
	history      []Req
	reads        int
	filterHits   int
	// pagesFollowed: pages obtained by following a cursor; filterPagesOK: those of a
	// FILTERED listing that held what the reference expects
	pagesFollowed int
	filterPagesOK int
}

func decode(body string) any {
	v, err := parseJSON(body)
	if err != nil {
		return nil
	}
	return v
}

// checkVolObj compares a {"input":..,"output":..,"balance":..} object.
func checkVolObj(add func(where, what string), where string, obj any, want c36vol) {
	if obj == nil {
		return // the reader does not expose this object: nothing to compare
	}
	for _, f := range []struct {
		k string
		w *big.Int
	}{{"input", want.In}, {"output", want.Out}, {"balance", want.bal()}} {
		got, ok := exactInt(jat(obj, f.k))
		if !ok {
			add(where, fmt.Sprintf("%s.%s: not an exact integer: %v", where, f.k, jat(obj, f.k)))
			continue
		}
		if got.Cmp(f.w) != 0 {
			add(where, fmt.Sprintf("%s.%s = %s, expected %s", where, f.k, got, f.w))
		}
	}
}

func runC36Case(boot *pgsim.DB, c c36case) (res c36result) {
	e := NewEnv(boot.Clone())
	defer e.Close()
	n := c.amt.V
	do := func(r Req) Resp {
		res.history = append(res.history, r)
		resp, _ := e.Do(r)
		if isEngine(resp) && res.engine == "" {
			res.engine = fmt.Sprintf("pgsim engine error on %s: %s", r, resp.short())
		}
		return resp
	}
	var postings []c36posting
	txOK := func(resp Resp, dest string) bool {
		if resp.Status >= 400 && resp.Status < 500 {
			res.rejected = fmt.Sprintf("%d %s", resp.Status, errorCodeOf(resp.Body))
			res.rejectedResp = resp.short()
			return false
		}
		if resp.Status >= 500 {
			res.mism = append(res.mism, c36mismatch{API: c.ch.API, Where: "write", What: fmt.Sprintf("write answered %s", resp.short())})
			return false
		}
		tx := c.ch.TxOf(decode(resp.Body))
		got, ok := exactInt(jat(tx, "postings", 0, "amount"))
		if !ok || got.Cmp(n) != 0 {
			res.mism = append(res.mism, c36mismatch{API: c.ch.API, Where: "write-response", What: fmt.Sprintf("created posting amount = %v, submitted %s (destination %s)", jat(tx, "postings", 0, "amount"), n, dest)})
		}
		return true
	}
	// two writes through the channel
	for _, dest := range []string{"a:x", "a:y"} {
		resp := do(c.ch.Build(dest, n))
		if res.engine != "" {
			return
		}
		if !txOK(resp, dest) {
			return
		}
		postings = append(postings, c36posting{"world", dest, n})
	}
	res.accepted = true

	// --- database (raw SQL) ---
	dbOK := c36CheckDB(e, "c36", postings, func(where, what string) {
		res.mism = append(res.mism, c36mismatch{API: c.ch.API, Where: where, What: what})
	})
	if !dbOK || len(res.mism) > 0 {
		return // the channel itself is inexact: reads would only repeat it
	}

	read := func(api, reader string) func(where, what string) {
		return func(where, what string) {
			res.mism = append(res.mism, c36mismatch{Family: "read", API: api, Where: reader, What: what})
		}
	}
	c36Reads(do, "c36", postings, read, &res)
	c36PagedReads(do, "c36", postings, read, &res, c.thorough)
	c36Filters(do, "c36", n, &res)

	// --- revert tx 1 (amounts travel through the revert path and are subtracted) ---
	rv := do(post("/v2/c36/transactions/1/revert", ``))
	if rv.Status != 201 {
		res.mism = append(res.mism, c36mismatch{Family: "read", API: "v2", Where: "revert", What: "revert of tx 1 answered " + rv.short()})
		return
	}
	if got, ok := exactInt(jat(decode(rv.Body), "data", "postings", 0, "amount")); !ok || got.Cmp(n) != 0 {
		res.mism = append(res.mism, c36mismatch{Family: "read", API: "v2", Where: "revert", What: fmt.Sprintf("revert posting amount = %v, expected %s", jat(decode(rv.Body), "data", "postings", 0, "amount"), n)})
	}
	postings = append(postings, c36posting{"a:x", "world", n})
	c36CheckDB(e, "c36", postings, read("db", "after-revert"))
	c36Reads(do, "c36", postings, read, &res)

	// --- export, import into an empty ledger, read again ---
	ex := do(post("/v2/c36/logs/export", ``))
	if ex.Status != 200 {
		res.mism = append(res.mism, c36mismatch{Family: "read", API: "v2", Where: "export", What: "export answered " + ex.short()})
		return
	}
	docs, _ := parseBody(ex.Body, true)
	if l, ok := docs.([]any); ok {
		for i, want := range postings {
			got, ok := exactInt(jat(l, i, "data", "transaction", "postings", 0, "amount"))
			if !ok || got.Cmp(want.Amt) != 0 {
				read("v2", "export")("", fmt.Sprintf("exported log %d posting amount = %v, expected %s", i+1, jat(l, i, "data", "transaction", "postings", 0, "amount"), want.Amt))
			}
		}
	}
	im := do(Req{Method: "POST", Path: "/v2/c36imp/logs/import", Headers: jh("application/octet-stream"), Body: ex.Body})
	if im.Status != 204 {
		read("v2", "import")("", "import of the export answered "+im.short())
		return
	}
	c36CheckDB(e, "c36imp", postings, read("db", "after-import"))
	c36Reads(do, "c36imp", postings, func(api, reader string) func(where, what string) {
		return read(api, "imported:"+reader)
	}, &res)
	c36RunQueries(do, "c36", postings, n, read, &res)
	if strings.HasSuffix(c.ch.Name, "postings") {
		c36MultiPosting(do, c.ch, n, read, &res)
	}
	return
}

// c36MultiPosting: ONE postings transaction carrying several amounts of the same asset that
// only differ above a machine word — n, n + 2^64, n + 2^65 (equal low 64 bits), and n with
// n + 2^32 (equal low 32 bits) — on the three postings channels. Every posting must come back
// with its own amount, in order. (Seeded change C36b keyed the per-amount script variables of
// TxToScriptData by the low 64 bits: the second posting was recorded with the first one's
// amount.) Run last: it adds transactions to the case's ledger.
func c36MultiPosting(do func(Req) Resp, ch c36channel, n *big.Int, read func(api, reader string) func(where, what string), res *c36result) {
	add := read(ch.API, "multi-posting-one-transaction")
	amounts := []*big.Int{n, new(big.Int).Add(n, pow(2, 64)), new(big.Int).Add(n, pow(2, 65)), new(big.Int).Add(n, pow(2, 32))}
	var ps []string
	for i, a := range amounts {
		ps = append(ps, fmt.Sprintf(`{"source":"world","destination":"m:%d","asset":"USD","amount":%s}`, i, a))
	}
	body := `{"postings":[` + strings.Join(ps, ",") + `]}`
	var r Req
	switch {
	case ch.Name == "bulk-postings":
		r = post("/v2/c36/_bulk", `[{"action":"CREATE_TRANSACTION","data":`+body+`}]`)
	case ch.API == "v1":
		r = post("/c36/transactions", body)
	default:
		r = post("/v2/c36/transactions", body)
	}
	resp := do(r)
	res.reads++
	if resp.Status >= 300 {
		add("", fmt.Sprintf("a transaction with postings %v answered %s", amounts, resp.short()))
		return
	}
	tx := ch.TxOf(decode(resp.Body))
	for i, a := range amounts {
		got, ok := exactInt(jat(tx, "postings", i, "amount"))
		if !ok || got.Cmp(a) != 0 {
			add("", fmt.Sprintf("posting %d of one transaction with amounts %v: returned amount = %v, submitted %s", i, amounts, jat(tx, "postings", i, "amount"), a))
		}
	}
	id, ok := exactInt(jat(tx, "id"))
	if !ok {
		if id, ok = exactInt(jat(tx, "txid")); !ok {
			add("", "the created transaction carries no id")
			return
		}
	}
	if b := do(get("/v2/c36/transactions/" + id.String())); b.Status == 200 {
		stored := jat(decode(b.Body), "data")
		for i, a := range amounts {
			got, ok := exactInt(jat(stored, "postings", i, "amount"))
			if !ok || got.Cmp(a) != 0 {
				add("", fmt.Sprintf("posting %d of transaction %s read back: amount = %v, submitted %s", i, id, jat(stored, "postings", i, "amount"), a))
			}
		}
	} else {
		add("", "reading the multi-posting transaction back answered "+b.short())
	}
}

// c36RunQueries: the same amounts read through stored query templates (POST
// /v2/{ledger}/queries/{id}/run), last in the case because inserting the schema appends
// a log. The threshold of the balance template is given as a JSON NUMBER in the request
// variables, the way a client sends it.
func c36RunQueries(do func(Req) Resp, ledger string, ps []c36posting, n *big.Int, read func(api, reader string) func(where, what string), res *c36result) {
	// plte / pgte: one row per page, the threshold n is the DEFAULT of the template variable
	// (a JSON number of the schema document), so that the first page filters on the exact
	// threshold and the following pages on whatever the cursor carried
	schema := `{"chart":{"world":{},"a":{"$x":{}}},"queries":{` +
		`"txs":{"resource":"transactions","params":{"expand":["volumes"],"sort":"id:asc"}},` +
		`"accs":{"resource":"accounts","params":{"expand":["volumes"]}},` +
		`"vols":{"resource":"volumes"},` +
		`"plte":{"resource":"accounts","params":{"pageSize":1},"vars":{"min":{"type":"int","default":` + n.String() + `}},"body":{"$lte":{"balance[USD]":"${min}"}}},` +
		`"pgte":{"resource":"accounts","params":{"pageSize":1},"vars":{"min":{"type":"int","default":` + n.String() + `}},"body":{"$gte":{"balance[USD]":"${min}"}}},` +
		`"rich":{"resource":"accounts","vars":{"min":"int"},"body":{"$gte":{"balance[USD]":"${min}"}}}}}`
	add := read("v2", "run-query")
	if r := do(post("/v2/"+ledger+"/schemas/vq", schema)); r.Status != 204 {
		add("", "inserting the query-template schema answered "+r.short())
		return
	}
	run := func(id, body string) (any, bool) {
		resp := do(Req{Method: "POST", Path: "/v2/" + ledger + "/queries/" + id + "/run", Query: []KV{{"schemaVersion", "vq"}}, Headers: jsonCT, Body: body})
		res.reads++
		if resp.Status != 200 {
			add("", fmt.Sprintf("run query %s answered %s", id, resp.short()))
			return nil, false
		}
		return decode(resp.Body), true
	}
	want := foldVolumes(ps)
	if b, ok := run("txs", `{}`); ok {
		for i := range ps {
			got, ok := exactInt(jat(b, "cursor", "data", i, "postings", 0, "amount"))
			if !ok || got.Cmp(ps[i].Amt) != 0 {
				add("", fmt.Sprintf("run query txs: tx %d posting amount = %v, expected %s", i+1, jat(b, "cursor", "data", i, "postings", 0, "amount"), ps[i].Amt))
			}
		}
	}
	accounts := []string{"a:x", "a:y", "world"}
	if b, ok := run("accs", `{}`); ok {
		for i, a := range accounts {
			checkVolObj(add, "run query accs "+a+" volumes", jat(b, "cursor", "data", i, "volumes", "USD"), want[a])
		}
	}
	if b, ok := run("vols", `{}`); ok {
		for i, a := range accounts {
			checkVolObj(add, "run query vols "+a, jat(b, "cursor", "data", i), want[a])
		}
	}
	// the paged templates, the client following the cursors (body {"cursor": …}): the accounts
	// whose reference balance is <= n (>= n), in address order
	for _, pt := range []struct{ id, op string }{{"plte", "$lte"}, {"pgte", "$gte"}} {
		var wantAddrs []string
		for _, a := range accounts {
			if c36Matches(want[a].bal(), pt.op, n) {
				wantAddrs = append(wantAddrs, a)
			}
		}
		runReq := func(body string) Req {
			return Req{Method: "POST", Path: "/v2/" + ledger + "/queries/" + pt.id + "/run", Query: []KV{{"schemaVersion", "vq"}}, Headers: jsonCT, Body: body}
		}
		c36PagedFilter(do, res, "v2", "run-query-"+pt.id, fmt.Sprintf("run query %s (balance[USD] %s %s, threshold = default of the template variable)", pt.id, pt.op, n),
			runReq(`{}`), func(c string) Req { return runReq(`{"cursor":` + jstr(c) + `}`) }, "address", wantAddrs)
	}
	// balances after the revert of tx 1: a:x = 0, a:y = n, world = -n. Thresholds n and n+1
	// as JSON numbers: exactly a:y, then nobody.
	for _, th := range []struct {
		v    *big.Int
		want []string
	}{{n, []string{"a:y"}}, {plus(n, 1), nil}} {
		if n.Sign() == 0 {
			break // with n = 0 every balance is 0: nothing to tell apart
		}
		b, ok := run("rich", `{"vars":{"min":`+th.v.String()+`}}`)
		if !ok {
			continue
		}
		var got []string
		if l, ok := jat(b, "cursor", "data").([]any); ok {
			for i := range l {
				got = append(got, fmt.Sprint(jat(l, i, "address")))
			}
		}
		if fmt.Sprint(got) != fmt.Sprint(th.want) {
			// is it exactly what filtering on the float64 neighbour of the threshold gives (the
			// recorded finding), or something else (a different defect: its own signature)?
			f, _ := new(big.Float).SetInt(th.v).Float64()
			rounded, _ := new(big.Float).SetFloat64(f).Int(nil)
			var wantRounded []string
			for _, a := range accounts {
				if want[a].bal().Cmp(rounded) >= 0 {
					wantRounded = append(wantRounded, a)
				}
			}
			reader := "run-query-number-variable"
			if fmt.Sprint(got) == fmt.Sprint(wantRounded) {
				reader += "-float64-rounded"
			}
			read("v2", reader)("", fmt.Sprintf("run query rich with min=%s (JSON number) lists %v, expected %v", th.v, got, th.want))
		}
	}
}

// c36CheckDB reads volumes, moves and postings with raw SQL.
func c36CheckDB(e *Env, ledger string, ps []c36posting, add func(where, what string)) bool {
	ok := true
	bad := func(where, f string, a ...any) {
		ok = false
		add(where, fmt.Sprintf(f, a...))
	}
	ctx := context.Background()
	want := foldVolumes(ps)
	rows, err := e.W.SQL.QueryContext(ctx, `SELECT accounts_address, input, output FROM "_default".accounts_volumes WHERE ledger = '`+ledger+`' AND asset = 'USD'`)
	if err != nil {
		bad("db", "harness: %v", err)
		return false
	}
	seen := map[string]bool{}
	for rows.Next() {
		var acc, in, out string
		if err := rows.Scan(&acc, &in, &out); err != nil {
			bad("db", "harness: %v", err)
			break
		}
		seen[acc] = true
		w := want[acc]
		if w.In == nil || in != w.In.String() || out != w.Out.String() {
			bad("db:accounts_volumes", "accounts_volumes[%s] = (%s,%s), expected %v", acc, in, out, w)
		}
	}
	rows.Close()
	for a := range want {
		if !seen[a] {
			bad("db:accounts_volumes", "accounts_volumes[%s] missing", a)
		}
	}
	rows, err = e.W.SQL.QueryContext(ctx, `SELECT amount FROM "_default".moves WHERE ledger = '`+ledger+`' ORDER BY seq`)
	if err != nil {
		bad("db", "harness: %v", err)
		return false
	}
	i := 0
	for rows.Next() {
		var amt string
		_ = rows.Scan(&amt)
		if i/2 < len(ps) && amt != ps[i/2].Amt.String() {
			bad("db:moves", "moves[%d].amount = %s, expected %s", i, amt, ps[i/2].Amt)
		}
		i++
	}
	rows.Close()
	if i != 2*len(ps) {
		bad("db:moves", "%d moves, expected %d", i, 2*len(ps))
	}
	rows, err = e.W.SQL.QueryContext(ctx, `SELECT postings FROM "_default".transactions WHERE ledger = '`+ledger+`' ORDER BY id`)
	if err != nil {
		bad("db", "harness: %v", err)
		return false
	}
	i = 0
	for rows.Next() {
		var raw []byte
		_ = rows.Scan(&raw)
		got, isInt := exactInt(jat(decode(string(raw)), 0, "amount"))
		if i < len(ps) && (!isInt || got.Cmp(ps[i].Amt) != 0) {
			bad("db:transactions", "transactions[%d].postings = %s, expected amount %s", i+1, raw, ps[i].Amt)
		}
		i++
	}
	rows.Close()
	return ok
}

func (v c36vol) String() string { return fmt.Sprintf("(%v,%v)", v.In, v.Out) }

// c36Reads reads everything back through both API versions and compares with the fold.
func c36Reads(do func(Req) Resp, ledger string, ps []c36posting, read func(api, reader string) func(where, what string), res *c36result) {
	want := foldVolumes(ps)
	accounts := []string{"a:x", "a:y", "world"}
	pcvAfter := func(i int) map[string]c36vol { return foldVolumes(ps[:i+1]) }
	pcvBefore := func(i int) map[string]c36vol { return foldVolumes(ps[:i]) }
	zero := c36vol{new(big.Int), new(big.Int)}
	volOf := func(m map[string]c36vol, a string) c36vol {
		if v, ok := m[a]; ok {
			return v
		}
		return zero
	}
	fetch := func(api, reader string, r Req) (any, func(where, what string), bool) {
		add := read(api, reader)
		resp := do(r)
		res.reads++
		if resp.Status != 200 {
			add(reader, fmt.Sprintf("%s answered %s", r, resp.short()))
			return nil, add, false
		}
		return decode(resp.Body), add, true
	}
	checkTx := func(add func(where, what string), tag string, tx any, i int, pre bool, eff bool) {
		got, ok := exactInt(jat(tx, "postings", 0, "amount"))
		if !ok || got.Cmp(ps[i].Amt) != 0 {
			add(tag, fmt.Sprintf("%s tx %d posting amount = %v, expected %s", tag, i+1, jat(tx, "postings", 0, "amount"), ps[i].Amt))
		}
		for _, a := range []string{ps[i].Src, ps[i].Dst} {
			checkVolObj(add, fmt.Sprintf("%s tx %d postCommitVolumes[%s]", tag, i+1, a), jat(tx, "postCommitVolumes", a, "USD"), volOf(pcvAfter(i), a))
			if eff {
				checkVolObj(add, fmt.Sprintf("%s tx %d postCommitEffectiveVolumes[%s]", tag, i+1, a), jat(tx, "postCommitEffectiveVolumes", a, "USD"), volOf(pcvAfter(i), a))
			}
			if pre {
				checkVolObj(add, fmt.Sprintf("%s tx %d preCommitVolumes[%s]", tag, i+1, a), jat(tx, "preCommitVolumes", a, "USD"), volOf(pcvBefore(i), a))
			}
		}
	}
	ex := KV{"expand", "volumes"}
	ee := KV{"expand", "effectiveVolumes"}
	// transactions
	for i := range ps {
		id := strconv.Itoa(i + 1)
		if b, add, ok := fetch("v2", "get-transaction", get("/v2/"+ledger+"/transactions/"+id, ex, ee)); ok {
			checkTx(add, "v2 GET transaction", jat(b, "data"), i, true, true)
		}
		if b, add, ok := fetch("v1", "get-transaction", get("/"+ledger+"/transactions/"+id)); ok {
			checkTx(add, "v1 GET transaction", jat(b, "data"), i, true, false)
		}
	}
	if b, add, ok := fetch("v2", "list-transactions", get("/v2/"+ledger+"/transactions", ex, ee, KV{"reverse", "true"})); ok {
		for i := range ps {
			checkTx(add, "v2 list transactions", jat(b, "cursor", "data", i), i, true, true)
		}
	}
	if b, add, ok := fetch("v1", "list-transactions", get("/"+ledger+"/transactions")); ok {
		for i := range ps {
			checkTx(add, "v1 list transactions", jat(b, "cursor", "data", len(ps)-1-i), i, true, false)
		}
	}
	// accounts
	for _, a := range accounts {
		if b, add, ok := fetch("v2", "get-account", get("/v2/"+ledger+"/accounts/"+a, ex, ee)); ok {
			checkVolObj(add, "v2 GET account "+a+" volumes", jat(b, "data", "volumes", "USD"), volOf(want, a))
			checkVolObj(add, "v2 GET account "+a+" effectiveVolumes", jat(b, "data", "effectiveVolumes", "USD"), volOf(want, a))
		}
		if b, add, ok := fetch("v1", "get-account", get("/"+ledger+"/accounts/"+a)); ok {
			checkVolObj(add, "v1 GET account "+a+" volumes", jat(b, "data", "volumes", "USD"), volOf(want, a))
			if got, ok := exactInt(jat(b, "data", "balances", "USD")); !ok || got.Cmp(volOf(want, a).bal()) != 0 {
				add("", fmt.Sprintf("v1 GET account %s balances.USD = %v, expected %s", a, jat(b, "data", "balances", "USD"), volOf(want, a).bal()))
			}
		}
	}
	if b, add, ok := fetch("v2", "list-accounts", get("/v2/"+ledger+"/accounts", ex, ee)); ok {
		for i, a := range accounts { // sorted by address: a:x a:y world
			if jat(b, "cursor", "data", i, "address") != a {
				add("", fmt.Sprintf("v2 list accounts [%d] = %v, expected %s", i, jat(b, "cursor", "data", i, "address"), a))
				continue
			}
			checkVolObj(add, "v2 list accounts "+a+" volumes", jat(b, "cursor", "data", i, "volumes", "USD"), volOf(want, a))
			checkVolObj(add, "v2 list accounts "+a+" effectiveVolumes", jat(b, "cursor", "data", i, "effectiveVolumes", "USD"), volOf(want, a))
		}
	}
	if b, add, ok := fetch("v1", "balances", get("/"+ledger+"/balances")); ok {
		for i, a := range accounts {
			got, ok := exactInt(jat(b, "cursor", "data", i, a, "USD"))
			if !ok || got.Cmp(volOf(want, a).bal()) != 0 {
				add("", fmt.Sprintf("v1 balances[%s].USD = %v, expected %s", a, jat(b, "cursor", "data", i, a, "USD"), volOf(want, a).bal()))
			}
		}
	}
	// aggregation
	sumA := new(big.Int).Add(volOf(want, "a:x").bal(), volOf(want, "a:y").bal())
	total := new(big.Int).Add(sumA, volOf(want, "world").bal())
	if b, add, ok := fetch("v1", "aggregate-balances", get("/"+ledger+"/aggregate/balances", KV{"address", "a:"})); ok {
		if got, ok := exactInt(jat(b, "data", "USD")); !ok || got.Cmp(sumA) != 0 {
			add("", fmt.Sprintf("v1 aggregate balances(a:) USD = %v, expected %s", jat(b, "data", "USD"), sumA))
		}
	}
	if b, add, ok := fetch("v1", "aggregate-balances", get("/"+ledger+"/aggregate/balances")); ok {
		if got, ok := exactInt(jat(b, "data", "USD")); !ok || got.Cmp(total) != 0 {
			add("", fmt.Sprintf("v1 aggregate balances(all) USD = %v, expected %s", jat(b, "data", "USD"), total))
		}
	}
	for _, ins := range []string{"false", "true"} {
		r := Req{Method: "GET", Path: "/v2/" + ledger + "/aggregate/balances", Query: []KV{{"useInsertionDate", ins}}, Headers: jsonCT, Body: `{"$match":{"address":"a:"}}`}
		if b, add, ok := fetch("v2", "aggregate-balances", r); ok {
			if got, ok := exactInt(jat(b, "data", "USD")); !ok || got.Cmp(sumA) != 0 {
				add("", fmt.Sprintf("v2 aggregate balances(a:, useInsertionDate=%s) USD = %v, expected %s", ins, jat(b, "data", "USD"), sumA))
			}
		}
	}
	// volumes
	if b, add, ok := fetch("v2", "volumes", get("/v2/"+ledger+"/volumes")); ok {
		for i, a := range accounts {
			if jat(b, "cursor", "data", i, "account") != a {
				add("", fmt.Sprintf("v2 volumes [%d] = %v, expected %s", i, jat(b, "cursor", "data", i, "account"), a))
				continue
			}
			checkVolObj(add, "v2 volumes "+a, jat(b, "cursor", "data", i), volOf(want, a))
		}
	}
	if b, add, ok := fetch("v2", "volumes-grouped", get("/v2/"+ledger+"/volumes", KV{"groupBy", "1"})); ok {
		ga := c36vol{new(big.Int).Add(volOf(want, "a:x").In, volOf(want, "a:y").In), new(big.Int).Add(volOf(want, "a:x").Out, volOf(want, "a:y").Out)}
		checkVolObj(add, "v2 volumes groupBy=1 a", jat(b, "cursor", "data", 0), ga)
		checkVolObj(add, "v2 volumes groupBy=1 world", jat(b, "cursor", "data", 1), volOf(want, "world"))
	}
	// logs
	txOfLog := func(l any) any { return jat(l, "data", "transaction") }
	if b, add, ok := fetch("v2", "logs", get("/v2/"+ledger+"/logs")); ok {
		for i := range ps {
			l := jat(b, "cursor", "data", len(ps)-1-i)
			got, ok := exactInt(jat(txOfLog(l), "postings", 0, "amount"))
			if !ok || got.Cmp(ps[i].Amt) != 0 {
				add("", fmt.Sprintf("v2 logs[%d] posting amount = %v, expected %s", i+1, jat(txOfLog(l), "postings", 0, "amount"), ps[i].Amt))
			}
		}
	}
	if b, add, ok := fetch("v1", "logs", get("/"+ledger+"/logs")); ok {
		for i := range ps {
			l := jat(b, "cursor", "data", len(ps)-1-i)
			got, ok := exactInt(jat(txOfLog(l), "postings", 0, "amount"))
			if !ok || got.Cmp(ps[i].Amt) != 0 {
				add("", fmt.Sprintf("v1 logs[%d] posting amount = %v, expected %s", i+1, jat(txOfLog(l), "postings", 0, "amount"), ps[i].Amt))
			}
		}
	}
}

// c36Filters: balance filters with thresholds at and around n (after the two writes:
// a:x = a:y = n, world = -2n).
func c36Filters(do func(Req) Resp, ledger string, n *big.Int, res *c36result) {
	np1 := plus(n, 1)
	type fcase struct {
		op   string
		th   *big.Int
		want bool // a:x and a:y match
	}
	cases := []fcase{
		{"$gte", n, true}, {"$gt", n, false}, {"$lte", n, true}, {"$lt", n, false}, {"$match", n, true},
		{"$gte", np1, false}, {"$lt", np1, true}, {"$lte", np1, true}, {"$match", np1, false},
	}
	if n.Sign() > 0 {
		nm1 := plus(n, -1)
		cases = append(cases, fcase{"$gt", nm1, true}, fcase{"$lte", nm1, false}, fcase{"$match", nm1, false})
	}
	addrs := func(b any, key string) map[string]bool {
		out := map[string]bool{}
		l, _ := jat(b, "cursor", "data").([]any)
		for _, x := range l {
			if s, ok := jat(x, key).(string); ok {
				out[s] = true
			}
		}
		return out
	}
	for _, fc := range cases {
		for _, tgt := range []struct{ reader, path, key string }{{"accounts-balance-filter", "/v2/" + ledger + "/accounts", "address"}, {"volumes-balance-filter", "/v2/" + ledger + "/volumes", "account"}} {
			body := fmt.Sprintf(`{"$and":[{"$match":{"%s":"a:"}},{"%s":{"balance[USD]":%s}}]}`, tgt.key, fc.op, fc.th)
			resp := do(Req{Method: "GET", Path: tgt.path, Headers: jsonCT, Body: body})
			res.reads++
			name := fmt.Sprintf("%s %s %s", tgt.reader, fc.op, relName(fc.th, n))
			if resp.Status != 200 {
				res.mism = append(res.mism, c36mismatch{Family: "filter", API: "v2", Where: tgt.reader + ":" + fc.op, What: fmt.Sprintf("%s: filter %s answered %s", name, body, resp.short())})
				continue
			}
			got := addrs(decode(resp.Body), tgt.key)
			if got["a:x"] != fc.want || got["a:y"] != fc.want {
				res.mism = append(res.mism, c36mismatch{Family: "filter", API: "v2", Where: tgt.reader + ":" + fc.op, What: fmt.Sprintf("%s: filter %s returned %v, expected a:x and a:y %s", name, body, sortedKeys(got), map[bool]string{true: "included", false: "excluded"}[fc.want])})
			} else if fc.want {
				res.filterHits++
			}
			// the same filter, one row per page, the client following the cursors
			var want []string
			if fc.want {
				want = []string{"a:x", "a:y"}
			}
			path := tgt.path
			c36PagedFilter(do, res, "v2", tgt.reader+":"+fc.op, name+": filter "+body,
				Req{Method: "GET", Path: path, Query: []KV{{"pageSize", "1"}}, Headers: jsonCT, Body: body},
				func(c string) Req { return get(path, KV{"cursor", c}) }, tgt.key, want)
		}
	}
	// v1: balance=<n>&balanceOperator=… (int64 only by contract: a 4xx above 2^63-1 is not a loss)
	for _, fc := range []fcase{{"gte", n, true}, {"gt", n, false}, {"lte", n, true}, {"e", n, true}} {
		resp := do(get("/"+ledger+"/accounts", KV{"address", "a:"}, KV{"balance", fc.th.String()}, KV{"balanceOperator", fc.op}))
		res.reads++
		if resp.Status >= 400 && resp.Status < 500 {
			continue
		}
		if resp.Status != 200 {
			res.mism = append(res.mism, c36mismatch{Family: "filter", API: "v1", Where: "accounts-balance:" + fc.op, What: fmt.Sprintf("v1 accounts?balance=%s&balanceOperator=%s answered %s", fc.th, fc.op, resp.short())})
			continue
		}
		got := addrs(decode(resp.Body), "address")
		if got["a:x"] != fc.want || got["a:y"] != fc.want {
			res.mism = append(res.mism, c36mismatch{Family: "filter", API: "v1", Where: "accounts-balance:" + fc.op, What: fmt.Sprintf("v1 accounts?balance=%s&balanceOperator=%s returned %v, expected a:x and a:y %s", fc.th, fc.op, sortedKeys(got), map[bool]string{true: "included", false: "excluded"}[fc.want])})
			continue
		}
		var want []string
		if fc.want {
			want = []string{"a:x", "a:y"}
		}
		c36PagedFilter(do, res, "v1", "accounts-balance:"+fc.op, fmt.Sprintf("v1 accounts?balance=%s&balanceOperator=%s", fc.th, fc.op),
			get("/"+ledger+"/accounts", KV{"address", "a:"}, KV{"balance", fc.th.String()}, KV{"balanceOperator", fc.op}, KV{"pageSize", "1"}),
			func(c string) Req { return get("/"+ledger+"/accounts", KV{"cursor", c}) }, "address", want)
	}
}

func relName(th, n *big.Int) string {
	switch th.Cmp(n) {
	case 0:
		return "N"
	case 1:
		return "N+1"
	}
	return "N-1"
}

// ---- the check -------------------------------------------------------------------------

func runC36(r *ev.Run) (ev.Coverage, []string) {
	assumptions := []string{pgsimAssumption, httpAssumption}
	ledgers := []lx.LedgerSpec{{Name: "c36"}, {Name: "c36imp"}}
	boot, err := lx.Boot(context.Background(), ledgers)
	if err != nil {
		r.EngineError("boot: " + err.Error())
		return nil, assumptions
	}
	var cases []c36case
	for _, ch := range c36Channels() {
		for _, a := range c36Amounts() {
			cases = append(cases, c36case{ch, a, r.Thorough()})
		}
	}
	var mu sync.Mutex
	var next atomic.Int64
	var stopped atomic.Bool
	var evals, reads, filterHits, pagesFollowed, filterPagesOK int64
	accepted := map[string]int{}
	rejected := map[string][]string{}
	type refusal struct {
		c   c36case
		res c36result
	}
	var refusedCases []refusal
	var acceptedPairs []struct{ ch, amt string }
	samples := ev.NewSamples(6)
	var wg sync.WaitGroup
	for w := 0; w < runtime.NumCPU(); w++ {
		wg.Add(1)
		go func() {
			defer wg.Done()
			for {
				if r.Expired() {
					stopped.Store(true)
					return
				}
				i := int(next.Add(1) - 1)
				if i >= len(cases) {
					return
				}
				c := cases[i]
				res := runC36Case(boot, c)
				chName := c.ch.API + ":" + c.ch.Name
				mu.Lock()
				evals++
				reads += int64(res.reads)
				filterHits += int64(res.filterHits)
				pagesFollowed += int64(res.pagesFollowed)
				filterPagesOK += int64(res.filterPagesOK)
				if res.accepted {
					accepted[chName]++
					acceptedPairs = append(acceptedPairs, struct{ ch, amt string }{chName, c.amt.Name})
				}
				if res.rejected != "" {
					rejected[chName] = append(rejected[chName], c.amt.Name+" -> "+res.rejected)
					refusedCases = append(refusedCases, refusal{c, res})
				}
				mu.Unlock()
				if res.engine != "" {
					r.EngineError(res.engine)
					continue
				}
				samples.Add(map[string]any{"channel": chName, "amount": c.amt.Name, "accepted": res.accepted, "reads": res.reads, "mismatches": len(res.mism)})
				for _, m := range res.mism {
					var sig string
					switch m.Family {
					case "":
						sig = fmt.Sprintf("C36:%s:%s:%s", c.ch.API, c.ch.Name, c.amt.Name)
					default:
						sig = fmt.Sprintf("C36:%s:%s:%s:%s", m.Family, m.API, m.Where, c.amt.Name)
					}
					if c36Trace != nil {
						c36Trace(sig, m.What)
					}
					r.Violation(sig, fmt.Sprintf("channel %s, amount %s (%s): %s", chName, c.amt.Name, c.amt.V, m.What),
						map[string]any{"ledgers": ledgers, "channel": chName, "amount": c.amt.V.String(), "history": res.history})
				}
			}
		}()
	}
	wg.Wait()
	exhaustive := !stopped.Load()
	// a channel that takes the amount 1 but refuses a larger valid amount does not pass
	// "any integer magnitude" through (a refusal of 0 is a business rule, not a magnitude one)
	acceptsOne := map[string]bool{}
	for _, s := range acceptedPairs {
		if s.amt == "1" {
			acceptsOne[s.ch] = true
		}
	}
	sort.Slice(refusedCases, func(i, j int) bool {
		a, b := refusedCases[i].c, refusedCases[j].c
		if a.ch.API+a.ch.Name != b.ch.API+b.ch.Name {
			return a.ch.API+a.ch.Name < b.ch.API+b.ch.Name
		}
		return a.amt.V.Cmp(b.amt.V) < 0
	})
	for _, rf := range refusedCases {
		chName := rf.c.ch.API + ":" + rf.c.ch.Name
		if rf.c.amt.V.Cmp(big.NewInt(1)) > 0 && acceptsOne[chName] {
			sig := fmt.Sprintf("C36:%s:%s:%s:refused", rf.c.ch.API, rf.c.ch.Name, rf.c.amt.Name)
			what := fmt.Sprintf("channel %s accepts the amount 1 but refuses the valid amount %s (%s): %s", chName, rf.c.amt.Name, rf.c.amt.V, rf.res.rejectedResp)
			if c36Trace != nil {
				c36Trace(sig, what)
			}
			r.Violation(sig, what, map[string]any{"ledgers": ledgers, "channel": chName, "amount": rf.c.amt.V.String(), "history": rf.res.history})
		}
	}
	if exhaustive && r.ViolationCount() == 0 && !r.HasEngineError() {
		for _, ch := range c36Channels() {
			if accepted[ch.API+":"+ch.Name] == 0 {
				r.EngineError("vacuous: channel " + ch.API + ":" + ch.Name + " never accepted an amount")
			}
		}
		if filterHits == 0 {
			r.EngineError("vacuous: no balance filter ever matched")
		}
		if pagesFollowed == 0 || filterPagesOK == 0 {
			r.EngineError(fmt.Sprintf("vacuous: pages obtained by following a cursor: %d, of which pages of a filtered listing holding the expected rows: %d", pagesFollowed, filterPagesOK))
		}
	}
	for k := range rejected {
		sort.Strings(rejected[k])
	}
	nontrivial := 0
	for _, v := range accepted {
		nontrivial += v
	}
	cov := ev.Coverage{
		"evaluations":                                evals,
		"distinct_nontrivial":                        nontrivial,
		"reads_compared":                             reads,
		"filters_matched":                            filterHits,
		"pages_obtained_by_following_a_cursor":       pagesFollowed,
		"filtered_pages_after_the_first_as_expected": filterPagesOK,
		"accepted_by_channel":                        accepted,
		"refused_writes":                             rejected,
		"channels":                                   len(c36Channels()),
		"amounts":                                    len(c36Amounts()),
		"exhaustive":                                 exhaustive,
		"samples":                                    samples.List(),
		"rule":                                       "every write channel (postings, script variable as string / as JSON object with a JSON-number amount / with a string amount, script literal on both runtimes, bulk; v1 and v2) x every amount of {0,1,2^53-1,2^53+1,2^63-1,2^63+1,2^64-1,2^64+1,10^30}: two transactions world->a:x, world->a:y on a fresh clone; then the database (accounts_volumes, moves, transactions.postings by raw SQL), every read of both API versions (transactions, accounts, balances, aggregated balances, volumes, logs, export), balance[USD] filters with thresholds N-1, N, N+1 (all operators), EVERY FILTERED LISTING ALSO READ ONE ROW PER PAGE WITH THE CLIENT FOLLOWING THE CURSORS (v2 accounts and volumes for every operator and threshold, v1 accounts?balance=, and after the revert the query templates plte/pgte whose threshold N is the default of the template variable: pageSize=1, cursor.next to the last page then cursor.previous back to the first; the rows met page by page must be exactly the accounts the reference selects, in order, and a page reached backwards must be the page reached forwards), the unfiltered listings one row per page (v2 accounts with both expansions, v2 transactions, v2 volumes, v1 transactions, v1 balances; thorough: also the logs of both versions, and walking back) with the amounts of every page compared, a revert, and export->import into an empty ledger are compared, as big.Int parsed from the JSON text, with a reference fold; distinct_nontrivial = (channel, amount) pairs whose write was accepted",
	}
	return cov, assumptions
}

var c36Trace func(sig, what string)

func init() {
	reg.Register("C36", func() int {
		r := ev.Start("C36", ev.LevelExploration, 60*time.Second, 3*time.Minute)
		cov, as := runC36(r)
		return r.Finish(cov, as)
	})
}

var _ = strings.TrimSpace
