package pimport

import (
	"context"
	"fmt"
	"sort"
	"strings"
	"sync"

	ledger "github.com/formancehq/ledger/internal"
	"github.com/formancehq/ledger/verifh/ev"
	"github.com/formancehq/ledger/verifh/lx"
	"github.com/formancehq/ledger/verifh/pgsim"
	"github.com/formancehq/ledger/verifh/world"
)

// ---------- the space ----------

// c12Step is one request made on the target ledger before the import under test.
type c12Step struct {
	Name string  `json:"name"`
	Path string  `json:"path"` // single | bulk | atomic-bulk | import
	Ops  []lx.Op `json:"ops,omitempty"`
	// Upto: for Path=="import", the prior import feeds source logs 1..Upto
	Upto int `json:"upto,omitempty"`
}

func c12Steps() []c12Step {
	post := lx.Op{Kind: "post", Name: "p-post", Postings: []lx.P{{Src: "world", Dst: "x", Ast: "USD", Amt: "9"}}}
	accm := lx.Op{Kind: "accmeta", Name: "p-accmeta", Address: "x", Meta: map[string]string{"pk": "pv"}}
	dry := post
	dry.Name, dry.DryRun = "p-dry", true
	over := lx.Op{Kind: "post", Name: "p-overdraw", Postings: []lx.P{{Src: "x", Dst: "y", Ast: "USD", Amt: "1000"}}}
	return []c12Step{
		{Name: "single-post", Path: pathSingle, Ops: []lx.Op{post}},
		{Name: "single-accmeta", Path: pathSingle, Ops: []lx.Op{accm}},
		{Name: "bulk-1", Path: pathBulk, Ops: []lx.Op{post}},
		{Name: "bulk-2", Path: pathBulk, Ops: []lx.Op{post, accm}},
		{Name: "atomic-1", Path: pathAtomic, Ops: []lx.Op{post}},
		{Name: "atomic-2", Path: pathAtomic, Ops: []lx.Op{post, accm}},
		{Name: "atomic-accmeta", Path: pathAtomic, Ops: []lx.Op{accm}},
		{Name: "dry-run-only", Path: pathSingle, Ops: []lx.Op{dry}},
		{Name: "failed-single", Path: pathSingle, Ops: []lx.Op{over}},
		{Name: "failed-bulk", Path: pathBulk, Ops: []lx.Op{over}},
		{Name: "failed-atomic", Path: pathAtomic, Ops: []lx.Op{post, over}},
		{Name: "import-1..2", Path: "import", Upto: 2},
	}
}

// c12SourceHistory produces source logs 1..4 (transactions 1..3).
func c12SourceHistory() []lx.Op {
	return []lx.Op{
		{Kind: "post", Name: "s-fund", Postings: []lx.P{{Src: "world", Dst: "a", Ast: "USD", Amt: "100"}}},
		{Kind: "post", Name: "s-b", Postings: []lx.P{{Src: "world", Dst: "b", Ast: "USD", Amt: "5"}}},
		{Kind: "accmeta", Name: "s-accmeta", Address: "a", Meta: map[string]string{"k": "v"}},
		{Kind: "post", Name: "s-a>c", Postings: []lx.P{{Src: "a", Dst: "c", Ast: "USD", Amt: "30"}}},
	}
}

type c12Mode struct {
	Name     string
	Src, Dst string
	Features map[string]string
}

func c12Modes() []c12Mode {
	with := func(hash string) map[string]string {
		return map[string]string{"MOVES_HISTORY": "ON", "MOVES_HISTORY_POST_COMMIT_EFFECTIVE_VOLUMES": "SYNC", "HASH_LOGS": hash, "ACCOUNT_METADATA_HISTORY": "SYNC", "TRANSACTION_METADATA_HISTORY": "SYNC"}
	}
	return []c12Mode{
		{Name: "HASH_LOGS=SYNC", Src: "src", Dst: "dst"},
		{Name: "HASH_LOGS=DISABLED", Src: "srcn", Dst: "dstn", Features: with("DISABLED")},
		{Name: "HASH_LOGS=ASYNC", Src: "srca", Dst: "dsta", Features: with("ASYNC")},
	}
}

// ---------- execution ----------

type c12Stats struct {
	mu                                   sync.Mutex
	scenarios, transitions               int64
	states                               map[string]bool
	outcomes                             map[string]int64
	acceptedPristine, rejectedAfterWrite int64
}

type c12Viol struct {
	Sig, What string
	Replay    map[string]any
}

func stepNames(p []c12Step) []string {
	out := make([]string, len(p))
	for i, s := range p {
		out[i] = s.Name
	}
	return out
}

// runC12Prior: prior requests on the target, then every import variant.
func runC12Prior(ctx context.Context, boot *pgsim.DB, srcLogs []ledger.Log, mode c12Mode, prior []c12Step, st *c12Stats) ([]c12Viol, error) {
	var viols []c12Viol
	pg := boot.Clone()
	w := world.Attach(pg)
	defer w.Close()
	dst, err := w.Sys.GetLedgerController(ctx, mode.Dst)
	if err != nil {
		return nil, err
	}
	var transitions int64
	acceptedPaths := map[string]bool{}
	for _, s := range prior {
		if s.Path == "import" {
			transitions++
			if err := importLogs(ctx, dst, srcLogs[:s.Upto]); err != nil && lx.Classify(err) == "ENGINE" {
				return nil, err
			}
			continue
		}
		res, err := runWrite(ctx, dst, s.Path, s.Ops)
		if err == nil {
			err = engineIn(res)
		}
		if err != nil {
			return nil, fmt.Errorf("prior step %s: %w", s.Name, err)
		}
		transitions += int64(len(s.Ops))
		switch s.Path {
		case pathAtomic:
			if res.allOK() {
				acceptedPaths[s.Path] = true
			}
		default:
			for i, e := range res.Elems {
				if e.Err == nil && !s.Ops[i].DryRun {
					acceptedPaths[s.Path] = true
				}
			}
		}
	}
	existing, err := lx.ListLogs(ctx, dst)
	if err != nil {
		return nil, fmt.Errorf("ListLogs: %w", err)
	}
	var maxLog uint64
	for _, l := range existing {
		if *l.ID > maxLog {
			maxLog = *l.ID
		}
	}
	// cross-check of the bookkeeping: an accepted write leaves a log
	if len(acceptedPaths) > 0 && len(existing) == 0 {
		return nil, fmt.Errorf("harness: a write was accepted in %v but the ledger has no log", stepNames(prior))
	}
	state, err := ledgerState(ctx, w, mode.Dst)
	if err != nil {
		return nil, err
	}
	var paths []string
	for p := range acceptedPaths {
		paths = append(paths, p)
	}
	sort.Strings(paths)
	label := strings.Join(paths, "+")
	before := dumpOf(pg)

	type variant struct {
		name string
		logs []ledger.Log
	}
	var variants []variant
	n := uint64(len(srcLogs))
	if maxLog == 0 {
		variants = append(variants, variant{"later", srcLogs})
	} else {
		variants = append(variants, variant{"overlapping", srcLogs})
		if maxLog < n {
			variants = append(variants, variant{"later", srcLogs[maxLog:]})
			variants = append(variants, variant{"partial-overlap", srcLogs[maxLog-1:]})
		}
	}
	st.mu.Lock()
	st.states[hashStr(before)] = true
	st.mu.Unlock()
	// every variant on its own clone of the state reached by the prior requests, through a
	// freshly attached stack (no Go-side cached ledger state)
	for _, v := range variants {
		pgv := pg.Clone()
		wv := world.Attach(pgv)
		c, err := wv.Sys.GetLedgerController(ctx, mode.Dst)
		if err != nil {
			wv.Close()
			return nil, err
		}
		ierr := importLogs(ctx, c, v.logs)
		wv.Close()
		if ierr != nil && lx.Classify(ierr) == "ENGINE" {
			return nil, ierr
		}
		transitions++
		viols = append(viols, c12Judge(mode, prior, v.name, label, state, maxLog, v.logs, ierr, before == dumpOf(pgv), "fresh process", st)...)
	}
	// and once through the live stack that served the prior requests (it caches the ledger
	// state): only one import can run on the original database, take the variant with
	// the best chance of being accepted (ids after the existing logs when there are some)
	{
		v := variants[0]
		for _, x := range variants {
			if x.name == "later" {
				v = x
			}
		}
		ierr := importLogs(ctx, dst, v.logs)
		if ierr != nil && lx.Classify(ierr) == "ENGINE" {
			return nil, ierr
		}
		transitions++
		viols = append(viols, c12Judge(mode, prior, v.name, label, state, maxLog, v.logs, ierr, before == dumpOf(pg), "same process", st)...)
	}
	st.mu.Lock()
	st.scenarios++
	st.transitions += transitions
	st.mu.Unlock()
	return viols, nil
}

func c12Judge(mode c12Mode, prior []c12Step, variant, acceptedLabel, state string, maxLog uint64, logs []ledger.Log, ierr error, unchanged bool, proc string, st *c12Stats) []c12Viol {
	var viols []c12Viol
	var ids []uint64
	for _, l := range logs {
		ids = append(ids, *l.ID)
	}
	ctxt := fmt.Sprintf("[%s, %s] after prior requests %v (ledger state %q, existing max log id %d), Import of log ids %v", mode.Name, proc, stepNames(prior), state, maxLog, ids)
	replay := map[string]any{"features": mode.Name, "target": mode.Dst, "source_history": c12SourceHistory(), "prior": prior, "import_log_ids": ids, "process": proc}
	add := func(sig, what string) {
		viols = append(viols, c12Viol{Sig: sig, What: ctxt + ": " + what, Replay: replay})
	}
	accepted := ierr == nil
	outcome := "rejected"
	if accepted {
		outcome = "accepted"
	} else if !unchanged {
		outcome = "rejected-partially-applied"
	}
	overlaps := len(ids) > 0 && ids[0] <= maxLog
	key := fmt.Sprintf("%s/write-accepted=%v/%s/%s", mode.Name, acceptedLabel != "", variant, outcome)
	st.mu.Lock()
	st.outcomes[key]++
	if acceptedLabel == "" && accepted {
		st.acceptedPristine++
	}
	if acceptedLabel != "" && !accepted && unchanged {
		st.rejectedAfterWrite++
	}
	st.mu.Unlock()
	switch {
	case acceptedLabel != "":
		// once a write has been accepted, no later import can change the ledger
		if accepted {
			add("C12:import-after-"+acceptedLabel+":accepted", fmt.Sprintf("the import was accepted although a write had been accepted through %s (database changed: %v)", acceptedLabel, !unchanged))
		} else if !unchanged {
			add("C12:import-after-"+acceptedLabel+":changed", fmt.Sprintf("the import failed (%v) but the database changed although a write had been accepted through %s", ierr, acceptedLabel))
		}
	case state != ledger.StateInitializing:
		if accepted {
			add("C12:import-on-"+state+":accepted", "the import was accepted on a ledger that is not initializing")
		}
	case overlaps:
		// still initializing, but some existing log does not precede the imported ones
		if accepted {
			add("C12:import-overlapping:accepted", "the import was accepted although existing logs do not all precede the imported ones")
		}
	}
	return viols
}

// c12Boot creates, per feature set, a source ledger holding the source history and a
// pristine target ledger, and exports the source logs with the real Export.
func c12Boot(ctx context.Context) (*pgsim.DB, map[string][]ledger.Log, error) {
	modes := c12Modes()
	var specs []lx.LedgerSpec
	for _, m := range modes {
		specs = append(specs, lx.LedgerSpec{Name: m.Src, Features: m.Features}, lx.LedgerSpec{Name: m.Dst, Features: m.Features})
	}
	boot, err := bootLedgers(ctx, specs)
	if err != nil {
		return nil, nil, fmt.Errorf("boot: %w", err)
	}
	srcLogs := map[string][]ledger.Log{}
	w := world.Attach(boot) // the boot database keeps the source histories: clones inherit them
	defer w.Close()
	for _, m := range modes {
		c, err := w.Sys.GetLedgerController(ctx, m.Src)
		if err != nil {
			return nil, nil, err
		}
		for _, op := range c12SourceHistory() {
			if out := lx.Apply(ctx, c, op); !out.OK() {
				return nil, nil, fmt.Errorf("source history op %s failed: %v", op, out.Err)
			}
		}
		logs, err := exportLogs(ctx, c)
		if err != nil || len(logs) != 4 {
			return nil, nil, fmt.Errorf("export of the source history: %d logs, err %v", len(logs), err)
		}
		srcLogs[m.Name] = logs
	}
	return boot, srcLogs, nil
}

// C12Sequential is the sequential half of C12 (import after prior histories made
// through every write path). It records violations on r and returns its coverage; the
// lead combines it with the concurrent half.
func C12Sequential(r *ev.Run) (cov map[string]any) {
	ctx := context.Background()
	modes := c12Modes()
	boot, srcLogs, err := c12Boot(ctx)
	if err != nil {
		r.EngineError(err.Error())
		return nil
	}
	steps := c12Steps()
	depth := ev.Pick(r, 2, 3)
	seqs := append([][]int{{}}, sequences(len(steps), depth)...)
	type job struct {
		mode  c12Mode
		prior []c12Step
	}
	var jobs []job
	for _, sq := range seqs {
		for _, m := range modes {
			p := make([]c12Step, len(sq))
			for i, k := range sq {
				p[i] = steps[k]
			}
			jobs = append(jobs, job{m, p})
		}
	}
	st := &c12Stats{states: map[string]bool{}, outcomes: map[string]int64{}}
	results := make([][]c12Viol, len(jobs))
	ran := make([]bool, len(jobs))
	restore := quietStdout()
	done := parallel(r, len(jobs), func(i int) {
		v, err := runC12Prior(ctx, boot, srcLogs[jobs[i].mode.Name], jobs[i].mode, jobs[i].prior, st)
		if err != nil {
			r.EngineError(fmt.Sprintf("[%s] prior %v: %v", jobs[i].mode.Name, stepNames(jobs[i].prior), err))
			return
		}
		results[i], ran[i] = v, true
	})
	restore()
	complete := true
	var samples []any
	for i := range jobs {
		if !ran[i] {
			complete = false
			continue
		}
		if len(samples) < 5 {
			samples = append(samples, map[string]any{"features": jobs[i].mode.Name, "prior": stepNames(jobs[i].prior), "violations": len(results[i])})
		}
		for _, v := range results[i] {
			r.Violation(v.Sig, v.What, v.Replay)
		}
	}
	if !r.HasEngineError() && done {
		if st.acceptedPristine == 0 {
			r.EngineError("vacuous: no import was ever accepted on a ledger without accepted writes")
		}
		if st.rejectedAfterWrite == 0 {
			r.EngineError("vacuous: no import was ever rejected after an accepted write")
		}
	}
	return map[string]any{
		"states":                        len(st.states),
		"transitions":                   st.transitions,
		"traces_validated_against_impl": st.scenarios,
		"samples":                       samples,
		"prior_step_alphabet":           len(steps),
		"prior_depth":                   depth,
		"feature_sets":                  []string{modes[0].Name, modes[1].Name, modes[2].Name},
		"import_outcomes":               st.outcomes,
		"exhaustive":                    done && complete,
		"rule":                          "sequential half: for each feature set {HASH_LOGS=SYNC (default), HASH_LOGS=DISABLED, HASH_LOGS=ASYNC} and every sequence of length<=depth of prior requests on the target ledger (single write, non-atomic bulk of 1 and 2, atomic bulk of 1 and 2, dry run only, failed single / bulk / atomic bulk, a prior import of logs 1..2), the real Import of logs exported from a same-features source is attempted with ids overlapping the existing logs, strictly later than them, and overlapping by one, from the live process and from a freshly attached one; oracle: once a non-dry-run write has been accepted, Import returns an error and the database dump (all tables except goose_db_version) is unchanged; an accepted import requires state initializing and existing logs all preceding the imported ones",
	}
}
