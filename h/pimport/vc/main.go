// dev-only runner for the pimport checks (same protocol as cmd/vcheck run <ID>)
package main

import (
	"os"

	_ "github.com/formancehq/ledger/verifh/pimport"
	"github.com/formancehq/ledger/verifh/reg"
)

func main() {
	c, ok := reg.Lookup(os.Args[len(os.Args)-1])
	if !ok {
		os.Exit(2)
	}
	os.Exit(c())
}
