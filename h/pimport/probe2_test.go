package pimport

import (
	"context"
	"testing"

	"github.com/uptrace/bun"

	"github.com/formancehq/ledger/verifh/lx"
	"github.com/formancehq/ledger/verifh/world"
)

func TestProbe2(t *testing.T) {
	ctx := context.Background()
	boot, err := lx.Boot(ctx, []lx.LedgerSpec{{Name: "src"}})
	if err != nil {
		t.Fatal(err)
	}
	w := world.Attach(boot.Clone())
	src, _ := w.Sys.GetLedgerController(ctx, "src")
	for _, op := range []lx.Op{
		{Kind: "schema", Schema: "v1", SchemaData: `{"chart":{}}`},
		{Kind: "post", Postings: []lx.P{{"world", "a", "USD", "1"}}, Schema: "v1"},
	} {
		out := lx.Apply(ctx, src, op)
		t.Logf("%s -> %v", op, out.Err)
	}
	err = w.Bun.RunInTx(ctx, nil, func(ctx context.Context, tx bun.Tx) error {
		if _, err := tx.ExecContext(ctx, `set search_path = '_default'`); err != nil {
			return err
		}
		var a, b string
		if err := tx.NewRaw(`select encode(compute_hash(null, r), 'hex'), r.schema_version from logs r where id = 2`).Scan(ctx, &a, &b); err != nil {
			return err
		}
		t.Logf("compute_hash=%s sv=%s", a, b)
		if _, err := tx.ExecContext(ctx, `create function f1(r logs) returns text language plpgsql as $$
declare x varchar;
begin
  select 'a' || 'b' into x;
  if r.schema_version is not null then
    x := x || ',sv=' || r.schema_version;
  end if;
  x := x || '}';
  return x;
end $$`); err != nil {
			return err
		}
		if err := tx.NewRaw(`select f1(r) from logs r where id = 2`).Scan(ctx, &a); err != nil {
			return err
		}
		t.Logf("f1=%s", a)
		return nil
	})
	t.Log(err)
}
