package pimport

import (
	"context"

	ledgercontroller "github.com/formancehq/ledger/internal/controller/ledger"
	"github.com/formancehq/ledger/verifh/lx"
)

// BulkOutcome is the exported view of a bulk run (used by other check packages).
type BulkOutcome struct {
	RunErr  error
	Wanted  int
	Results int
	AllOK   bool
	ElemErr []error
	LogIDs  []uint64
}

// RunBulkOps drives the real bulking.Bulker over c with the given operations.
func RunBulkOps(ctx context.Context, c ledgercontroller.Controller, atomic bool, ops []lx.Op) (BulkOutcome, error) {
	wr, err := runBulk(ctx, c, atomic, ops)
	if err != nil {
		return BulkOutcome{}, err
	}
	out := BulkOutcome{RunErr: wr.RunErr, Wanted: wr.Wanted, Results: len(wr.Elems), AllOK: wr.allOK()}
	for _, e := range wr.Elems {
		out.ElemErr = append(out.ElemErr, e.Err)
		out.LogIDs = append(out.LogIDs, e.LogID)
	}
	return out, nil
}
