package pimport

import (
	"context"
	"fmt"

	"github.com/formancehq/ledger/internal/api/bulking"
	ledgercontroller "github.com/formancehq/ledger/internal/controller/ledger"
	"github.com/formancehq/ledger/verifh/lx"
)

// BulkOutcome is the exported view of a bulk run (used by other check packages).
type BulkOutcome struct {
	RunErr  error
	Wanted  int
	Results int
	AllOK   bool
	ElemErr []error
	LogIDs  []uint64
}

// RunBulkOps drives the real bulking.Bulker over c with the given operations.
func RunBulkOps(ctx context.Context, c ledgercontroller.Controller, atomic bool, ops []lx.Op) (BulkOutcome, error) {
	wr, err := runBulk(ctx, c, atomic, ops)
	if err != nil {
		return BulkOutcome{}, err
	}
	out := BulkOutcome{RunErr: wr.RunErr, Wanted: wr.Wanted, Results: len(wr.Elems), AllOK: wr.allOK()}
	for _, e := range wr.Elems {
		out.ElemErr = append(out.ElemErr, e.Err)
		out.LogIDs = append(out.LogIDs, e.LogID)
	}
	return out, nil
}

// RunBulkStreamed drives the real bulking.Bulker over c the way the STREAMED bulk
// handlers do (Content-Type …bulk+json-stream / text stream): an unbuffered request
// channel fed one element at a time, an unbuffered result channel, the result of an
// element awaited before the next one is sent. Only the first `cut` elements of ops are
// sent; once the result of the last of them has been received, onCut (if any) is called
// — the place where the client of a streamed bulk can go away while the server is
// waiting for the next element: the real handlers then close the request channel, which
// is what happens next here. Bulker.Run runs on its own goroutine, like in the handler.
func RunBulkStreamed(ctx context.Context, c ledgercontroller.Controller, atomic bool, ops []lx.Op, cut int, onCut func()) (BulkOutcome, error) {
	if cut > len(ops) {
		cut = len(ops)
	}
	els := make([]bulking.BulkElement, 0, cut)
	for _, op := range ops[:cut] {
		el, ok := toBulkElement(op)
		if !ok {
			return BulkOutcome{}, fmt.Errorf("op %s has no bulk form", op)
		}
		els = append(els, el)
	}
	bulk := make(bulking.Bulk)
	res := make(chan bulking.BulkElementResult)
	done := make(chan error, 1)
	go func() {
		done <- bulking.NewBulker(c).Run(ctx, bulk, res, bulking.BulkingOptions{Atomic: atomic})
	}()
	wr := writeResult{Wanted: cut}
	finish := func() (BulkOutcome, error) {
		out := BulkOutcome{RunErr: wr.RunErr, Wanted: wr.Wanted, Results: len(wr.Elems), AllOK: wr.allOK()}
		for _, e := range wr.Elems {
			out.ElemErr = append(out.ElemErr, e.Err)
			out.LogIDs = append(out.LogIDs, e.LogID)
		}
		return out, nil
	}
	// Run returned: either it never read the stream (options / BeginTX failed: the
	// result channel stays open and empty) or it closed the result channel before
	// returning; every result sent before was received synchronously.
	returned := func(err error) (BulkOutcome, error) {
		wr.RunErr = err
		for {
			select {
			case r, ok := <-res:
				if !ok {
					return finish()
				}
				wr.Elems = append(wr.Elems, elemOf(r))
			default:
				return finish()
			}
		}
	}
	for _, el := range els {
		select {
		case bulk <- el:
		case err := <-done:
			return returned(err)
		}
		select {
		case r, ok := <-res:
			if !ok {
				return returned(<-done)
			}
			wr.Elems = append(wr.Elems, elemOf(r))
		case err := <-done:
			return returned(err)
		}
	}
	if onCut != nil {
		onCut()
	}
	close(bulk)
	for {
		select {
		case r, ok := <-res:
			if !ok {
				wr.RunErr = <-done
				return finish()
			}
			wr.Elems = append(wr.Elems, elemOf(r))
		case err := <-done:
			return returned(err)
		}
	}
}
