package pimport

import (
	"bytes"
	"context"
	"encoding/hex"
	"encoding/json"
	"fmt"
	"sort"
	"strings"
	"sync"
	"time"

	ledger "github.com/formancehq/ledger/internal"
	"github.com/formancehq/ledger/verifh/ev"
	"github.com/formancehq/ledger/verifh/lx"
	"github.com/formancehq/ledger/verifh/pgsim"
	"github.com/formancehq/ledger/verifh/reg"
	"github.com/formancehq/ledger/verifh/world"
)

// ---------- the input space ----------

type strClass struct{ Name, S string }

// c10Classes is the character-class menu. Every string embeds the interesting
// character(s) between plain letters so that position effects (first/last byte) do not
// hide it, except the trailing-backslash class which is about the last byte.
var c10Classes = []strClass{
	{"plain", "axb"},
	{"squote", "a'b"},
	{"dquote", `a"b`},
	{"backslash", `a\b`},
	{"lt", "a<b"},
	{"gt", "a>b"},
	{"amp", "a&b"},
	{"nonascii", "aéb"},
	{"u2028", "a\u2028b"},
	{"newline", "a\nb"},
	{"tab", "a\tb"},
	{"ctrl", "a\x01b"},
	{"del", "a\x7fb"},
	{"emoji", "a\U0001F600b"},
	{"octal-escape-text", `a\101b`},      // backslash + 3 octal digits: a valid bytea escape
	{"unicode-escape-text", "a\\u0041b"}, // what a JSON escape looks like, as plain text
	{"percent", "a%b"},
	{"hex-escape-text", `a\x41b`},
	{"double-backslash", `a\\b`},
	{"trailing-backslash", `ab\`},
	// the empty string: an absent idempotency key / reference / schema version (the
	// request fields are omitted), an empty metadata key, an empty metadata value
	{"empty", ""},
}

// quick tier pairs use this subset of classes (all classes in the thorough tier).
var c10QuickPairClasses = map[string]bool{"dquote": true, "backslash": true, "lt": true, "nonascii": true, "u2028": true, "newline": true}

var c10Fields = []string{"ik", "schemaVersion", "metaKey", "metaValue", "reference", "accMetaValue", "revertMeta", "address"}

// ---------- the SHAPE dimension ----------
//
// A shape field does not vary the characters of a string but the JSON shape of a whole
// document of the request: null (a nil map, what a `null` body decodes to), empty ({}),
// or, for the per-account metadata of a creation, an entry that is itself null or empty.
// The non-empty shape is what every other case already uses.

type c10ShapeField struct {
	Name   string
	Shapes []string
}

var c10ShapeFields = []c10ShapeField{
	// the metadata document of the operation under test: the body of a SET_METADATA on a
	// transaction or an account, the metadata of a created transaction (post), the request
	// metadata of a script run, the metadata of a revert
	{"metaDoc", []string{"null", "empty"}},
	// the accountMetadata document of a creation (post / script)
	{"accMetaDoc", []string{"null", "empty", "null-entry", "empty-entry"}},
}

func isShapeField(name string) bool {
	for _, f := range c10ShapeFields {
		if f.Name == name {
			return true
		}
	}
	return false
}

// applyShape gives the document of op the requested shape. It is applied when a case is
// built AND again when it is executed: the JSON form of an lx.Op (replay files) cannot
// tell a nil map from an empty one, the (field, shape) names of the case can.
func applyShape(op *lx.Op, field, shape string) {
	switch field {
	case "metaDoc":
		switch shape {
		case "null":
			op.Meta = nil
		case "empty":
			op.Meta = map[string]string{}
		}
	case "accMetaDoc":
		switch shape {
		case "null":
			op.AccMeta = nil
		case "empty":
			op.AccMeta = map[string]map[string]string{}
		case "null-entry":
			op.AccMeta = map[string]map[string]string{"a": nil}
		case "empty-entry":
			op.AccMeta = map[string]map[string]string{"a": {}}
		}
	}
}

// applyShapes shapes the operation under test (the last one) of a case.
func applyShapes(ops []lx.Op, fields, classes []string) {
	if len(ops) == 0 {
		return
	}
	for i, f := range fields {
		if isShapeField(f) {
			applyShape(&ops[len(ops)-1], f, classes[i])
		}
	}
}

// c10Dim is one dimension of the input space: a free-text field with its character
// classes or a shape field with its shapes.
type c10Dim struct {
	Name    string
	Classes []strClass
	Shape   bool
}

func c10Dims() []c10Dim {
	var out []c10Dim
	for _, f := range c10Fields {
		out = append(out, c10Dim{Name: f, Classes: c10Classes})
	}
	for _, f := range c10ShapeFields {
		d := c10Dim{Name: f.Name, Shape: true}
		for _, sh := range f.Shapes {
			d.Classes = append(d.Classes, strClass{Name: sh, S: sh})
		}
		out = append(out, d)
	}
	return out
}

// assign gives the injected string of each assigned field and remembers which fields a
// template consumed.
type assign struct {
	m    map[string]string
	used map[string]bool
}

func (a *assign) get(field, def string) string {
	if v, ok := a.m[field]; ok {
		a.used[field] = true
		return v
	}
	return def
}

func (a *assign) has(field string) bool { _, ok := a.m[field]; return ok }

type c10Template struct {
	Name  string
	Build func(a *assign) []lx.Op
}

const c10Script = `vars {
	string $v
	string $w
}
send [USD 10] (
	source = @world
	destination = @a
)
set_tx_meta("k", $v)
set_account_meta(@a, "k", $w)`

// c10Templates: one template per log type / way of producing it. Every template ends
// with the operation under test; the preceding ones only make it applicable.
func c10Templates() []c10Template {
	fund := lx.P{Src: "world", Dst: "a", Ast: "USD", Amt: "100"}
	// common decoration: idempotency key and schema version apply to every write
	deco := func(a *assign, op lx.Op) lx.Op {
		op.IK = a.get("ik", "")
		if op.Kind != "schema" {
			op.Schema = a.get("schemaVersion", "")
		}
		return op
	}
	return []c10Template{
		{"post", func(a *assign) []lx.Op {
			op := lx.Op{Kind: "post", Postings: []lx.P{fund}, Ref: a.get("reference", "")}
			if a.has("metaDoc") {
				a.get("metaDoc", "") // the whole document is shaped by applyShapes
			} else {
				op.Meta = map[string]string{a.get("metaKey", "k"): a.get("metaValue", "v")}
			}
			if a.has("accMetaDoc") {
				a.get("accMetaDoc", "")
			} else if a.has("accMetaValue") {
				op.AccMeta = map[string]map[string]string{"a": {"k": a.get("accMetaValue", "v")}}
			}
			return []lx.Op{deco(a, op)}
		}},
		{"script", func(a *assign) []lx.Op {
			op := lx.Op{Kind: "script", Script: c10Script, Ref: a.get("reference", ""),
				Vars: map[string]string{"v": a.get("metaValue", "v"), "w": a.get("accMetaValue", "w")}}
			if a.has("metaDoc") {
				a.get("metaDoc", "")
			} else if a.has("metaKey") {
				op.Meta = map[string]string{a.get("metaKey", "k2"): "x"}
			}
			if a.has("accMetaDoc") {
				a.get("accMetaDoc", "")
			}
			return []lx.Op{deco(a, op)}
		}},
		{"revert", func(a *assign) []lx.Op {
			op := lx.Op{Kind: "revert", TxID: 1, Force: true}
			if a.has("metaDoc") {
				a.get("metaDoc", "")
			} else if a.has("revertMeta") || a.has("metaKey") {
				op.Meta = map[string]string{a.get("metaKey", "k"): a.get("revertMeta", "v")}
			}
			return []lx.Op{{Kind: "post", Postings: []lx.P{fund}}, deco(a, op)}
		}},
		{"txmeta", func(a *assign) []lx.Op {
			op := lx.Op{Kind: "txmeta", TxID: 1}
			if a.has("metaDoc") {
				a.get("metaDoc", "")
			} else {
				op.Meta = map[string]string{a.get("metaKey", "k"): a.get("metaValue", "v")}
			}
			return []lx.Op{{Kind: "post", Postings: []lx.P{fund}}, deco(a, op)}
		}},
		{"accmeta", func(a *assign) []lx.Op {
			op := lx.Op{Kind: "accmeta", Address: a.get("address", "a")}
			if a.has("metaDoc") {
				a.get("metaDoc", "")
			} else {
				op.Meta = map[string]string{a.get("metaKey", "k"): a.get("accMetaValue", "v")}
			}
			return []lx.Op{deco(a, op)}
		}},
		{"deltxmeta", func(a *assign) []lx.Op {
			key := a.get("metaKey", "k")
			op := lx.Op{Kind: "deltxmeta", TxID: 1, Key: key}
			return []lx.Op{{Kind: "post", Postings: []lx.P{fund}, Meta: map[string]string{key: "v"}}, deco(a, op)}
		}},
		{"delaccmeta", func(a *assign) []lx.Op {
			key, addr := a.get("metaKey", "k"), a.get("address", "a")
			op := lx.Op{Kind: "delaccmeta", Address: addr, Key: key}
			return []lx.Op{{Kind: "accmeta", Address: addr, Meta: map[string]string{key: "v"}}, deco(a, op)}
		}},
		{"schema", func(a *assign) []lx.Op {
			op := lx.Op{Kind: "schema", Schema: a.get("schemaVersion", "v0"), SchemaData: `{"chart":{}}`}
			return []lx.Op{deco(a, op)}
		}},
		// a schema inserted by a request that itself names an existing schema version (the
		// schemaVersion parameter every write endpoint takes): the INSERTED_SCHEMA log carries
		// a schema version like any other log
		{"schema-on-version", func(a *assign) []lx.Op {
			sv := a.get("schemaVersion", "v0")
			op := lx.Op{Kind: "schema", Schema: "next", SchemaData: `{"chart":{}}`, OnSchema: sv, IK: a.get("ik", "")}
			if sv == "" {
				return []lx.Op{op}
			}
			return []lx.Op{{Kind: "schema", Schema: sv, SchemaData: `{"chart":{}}`}, op}
		}},
	}
}

// c10Case is one executable scenario.
type c10Case struct {
	Template string
	Fields   []string // assigned fields (1 or 2), in the order of c10Dims (free-text fields, then shape fields)
	Classes  []string
	Ops      []lx.Op
}

func (c c10Case) parts() []string {
	out := make([]string, len(c.Fields))
	for i := range c.Fields {
		out[i] = c.Fields[i] + ":" + c.Classes[i]
	}
	return out
}

// buildCases instantiates every template on which all the assigned fields apply.
func buildCases(fields []string, classes []strClass) []c10Case {
	var out []c10Case
	for _, t := range c10Templates() {
		a := &assign{m: map[string]string{}, used: map[string]bool{}}
		var names []string
		for i, f := range fields {
			a.m[f] = classes[i].S
			names = append(names, classes[i].Name)
		}
		ops := t.Build(a)
		if len(a.used) != len(a.m) {
			continue
		}
		applyShapes(ops, fields, names)
		if sv, ok := a.m["schemaVersion"]; ok && t.Name != "schema" && t.Name != "schema-on-version" && sv != "" {
			// a write can only name a schema version that exists: insert it first
			ops = append([]lx.Op{{Kind: "schema", Schema: sv, SchemaData: `{"chart":{}}`}}, ops...)
		}
		out = append(out, c10Case{Template: t.Name, Fields: fields, Classes: names, Ops: ops})
	}
	return out
}

// ---------- execution and oracle ----------

type c10Finding struct {
	Kind string // mismatch | readback-mismatch | written-mismatch | sql-error | schemaVersion-omitted
	What string
}

type c10Result struct {
	Accepted  bool   // the operation under test was accepted
	Rejected  string // class of the validation rejection, when rejected
	Compared  int    // hash comparisons made (all views)
	ByView    map[string]int
	LogTypes  []string
	Mementos  map[string]int // shapes seen in the memento bytes the trigger hashed
	Findings  []c10Finding
	EngineErr error
}

var rejectionClasses = map[string]bool{
	"compilation_failed": true, "invalid_vars": true, "schema_validation": true, "schema_not_found": true,
	"metadata_override": true, "not_found": true, "idempotency_input_mismatch": true, "schema_already_exists": true,
}

// The views of "the same log" whose Go hash is compared with the stored one.
const (
	viewWritten = "written" // the log the controller returned from the write: the in-memory payload handed to InsertLog
	viewStore   = "store"   // read back through the store: ListLogs (logs.data -> HydrateLog)
	viewExport  = "export"  // read back through Export
	viewStream  = "stream"  // the exported log encoded to JSON and decoded as the import endpoint decodes its stream
)

var c10Views = []string{viewWritten, viewStore, viewExport, viewStream}

// mementoShapes are the document shapes looked for in the memento bytes of each log
// (what the trigger hashed), for the evidence and the vacuity guards.
var mementoShapes = []struct{ Name, Needle string }{
	{"metadata:null", `"metadata":null`},
	{"metadata:empty", `"metadata":{}`},
	{"accountMetadata:null", `"accountMetadata":null`},
	{"accountMetadata:empty", `"accountMetadata":{}`},
	{"accountMetadata:null-entry", `"accountMetadata":{"a":null}`},
	{"accountMetadata:empty-entry", `"accountMetadata":{"a":{}}`},
}

func goHash(l ledger.Log, prev *ledger.Log) []byte {
	cp := l
	cp.Hash = nil
	cp.ComputeHash(prev)
	return cp.Hash
}

func goMemento(l ledger.Log) string {
	payload := l.Data.(any)
	if m, ok := payload.(ledger.Memento); ok {
		payload = m.GetMemento()
	}
	b, err := json.Marshal(payload)
	if err != nil {
		return "<" + err.Error() + ">"
	}
	return string(b)
}

// streamDecode is what travels between an export and an import: the export endpoint
// writes json.Encoder(log), the import endpoint reads json.Decoder into ledger.Log.
func streamDecode(logs []ledger.Log) ([]ledger.Log, error) {
	out := make([]ledger.Log, len(logs))
	for i := range logs {
		b, err := json.Marshal(logs[i])
		if err != nil {
			return nil, err
		}
		if err := json.Unmarshal(b, &out[i]); err != nil {
			return nil, fmt.Errorf("log %d %s: %w", i+1, b, err)
		}
	}
	return out, nil
}

// verifyChain recomputes every hash in Go, chained on the stored hash of the predecessor
// as Import chains them, from every view of the log, and compares with what the trigger
// stored. views[viewStore] is the base (it gives the stored hashes); written maps a log
// id to the log as the controller returned it from the write; mementos maps a log id to
// the memento bytes the trigger hashed (diagnosis only).
func verifyChain(views map[string][]ledger.Log, written map[uint64]ledger.Log, mementos map[uint64]string, res *c10Result) {
	base := views[viewStore]
	if res.ByView == nil {
		res.ByView = map[string]int{}
	}
	if res.Mementos == nil {
		res.Mementos = map[string]int{}
	}
	var prev *ledger.Log
	for i := range base {
		l := base[i]
		stored := l.Hash
		res.LogTypes = append(res.LogTypes, l.Type.String())
		if m, ok := mementos[*l.ID]; ok {
			for _, sh := range mementoShapes {
				if strings.Contains(m, sh.Needle) {
					res.Mementos[l.Type.String()+":"+sh.Name]++
				}
			}
		}
		type verdict struct {
			view    string
			hash    []byte
			memento string
		}
		var bad []verdict
		writtenOK, baseOK := false, true
		for _, name := range c10Views {
			var vl ledger.Log
			if name == viewWritten {
				w, ok := written[*l.ID]
				if !ok {
					continue
				}
				vl = w
			} else {
				vl = views[name][i]
			}
			h := goHash(vl, prev)
			res.Compared++
			res.ByView[name]++
			if bytes.Equal(stored, h) {
				if name == viewWritten {
					writtenOK = true
				}
				continue
			}
			if name == viewStore {
				baseOK = false
			}
			bad = append(bad, verdict{name, h, goMemento(vl)})
		}
		if len(bad) > 0 {
			// Classification. readback-mismatch: the log as it was written hashes to the
			// stored hash, the same log read back does not (the two sides of the store
			// disagree on the payload). written-mismatch: the converse. mismatch: no Go view
			// of the log agrees with the trigger.
			kind := "mismatch"
			onlyWritten := len(bad) == 1 && bad[0].view == viewWritten
			switch {
			case onlyWritten:
				kind = "written-mismatch"
			case writtenOK:
				kind = "readback-mismatch"
			case baseOK:
				kind = "readback-mismatch"
			}
			if kind == "mismatch" && l.SchemaVersion != "" {
				// diagnosis: is the stored hash the hash of the same log without its schema version?
				cp2 := l
				cp2.SchemaVersion = ""
				if bytes.Equal(stored, goHash(cp2, prev)) {
					kind = "schemaVersion-omitted"
				}
			}
			var names []string
			for _, b := range bad {
				names = append(names, b.view)
			}
			what := fmt.Sprintf(
				"log %d (%s, idempotencyKey=%q, schemaVersion=%q): stored hash %s, Log.ComputeHash gives %s",
				*l.ID, l.Type, l.IdempotencyKey, l.SchemaVersion, hex.EncodeToString(stored), hex.EncodeToString(bad[0].hash))
			if kind != "mismatch" && kind != "schemaVersion-omitted" {
				what += fmt.Sprintf(" for the log seen through %v (views agreeing with the trigger: %v); memento hashed by the trigger: %s ; memento of the %s log: %s",
					names, agreeing(names, written, *l.ID), mementos[*l.ID], bad[0].view, bad[0].memento)
			}
			res.Findings = append(res.Findings, c10Finding{Kind: kind, What: what})
		}
		prev = &base[i]
	}
}

func agreeing(bad []string, written map[uint64]ledger.Log, id uint64) []string {
	var out []string
	for _, v := range c10Views {
		if v == viewWritten {
			if _, ok := written[id]; !ok {
				continue
			}
		}
		isBad := false
		for _, b := range bad {
			if b == v {
				isBad = true
			}
		}
		if !isBad {
			out = append(out, v)
		}
	}
	return out
}

func sameIDs(a, b []ledger.Log) bool {
	if len(a) != len(b) {
		return false
	}
	for i := range a {
		if a[i].ID == nil || b[i].ID == nil || *a[i].ID != *b[i].ID || !bytes.Equal(a[i].Hash, b[i].Hash) {
			return false
		}
	}
	return true
}

func runC10Case(ctx context.Context, boot *pgsim.DB, c c10Case) c10Result {
	var res c10Result
	pg := boot.Clone()
	w := world.Attach(pg)
	defer w.Close()
	ctrl, err := w.Sys.GetLedgerController(ctx, "l1")
	if err != nil {
		res.EngineErr = err
		return res
	}
	ops := cloneOps(c.Ops)
	applyShapes(ops, c.Fields, c.Classes) // a replay file cannot tell nil from {}: see applyShape
	written := map[uint64]ledger.Log{}
	for i, op := range ops {
		out := lx.Apply(ctx, ctrl, op)
		if out.OK() {
			if i == len(ops)-1 {
				res.Accepted = true
			}
			if out.Log != nil && out.Log.ID != nil && !out.Hit {
				written[*out.Log.ID] = *out.Log
			}
			continue
		}
		if out.Class == "ENGINE" {
			res.EngineErr = fmt.Errorf("%s: %v", op, out.Err)
			return res
		}
		if code, ok := isSQLError(out.Err); ok {
			res.Findings = append(res.Findings, c10Finding{Kind: "sql-error", What: fmt.Sprintf(
				"%s (op %d of %v) was refused by the database, SQLSTATE %s: %v", op.Kind, i+1, opNames(ops), code, out.Err)})
		} else if rejectionClasses[out.Class] {
			res.Rejected = out.Class
		} else {
			res.EngineErr = fmt.Errorf("unclassified failure of %s in %v: [%s] %v", op, opNames(ops), out.Class, out.Err)
			return res
		}
		break
	}
	views := map[string][]ledger.Log{}
	if views[viewStore], err = lx.ListLogs(ctx, ctrl); err != nil {
		res.EngineErr = fmt.Errorf("ListLogs: %w", err)
		return res
	}
	if views[viewExport], err = exportLogs(ctx, ctrl); err != nil {
		res.EngineErr = fmt.Errorf("Export: %w", err)
		return res
	}
	if views[viewStream], err = streamDecode(views[viewExport]); err != nil {
		res.EngineErr = fmt.Errorf("decoding the export stream: %w", err)
		return res
	}
	for _, v := range []string{viewExport, viewStream} {
		if !sameIDs(views[viewStore], views[v]) {
			res.EngineErr = fmt.Errorf("view %s does not carry the same log ids and stored hashes as ListLogs (%d logs vs %d)", v, len(views[v]), len(views[viewStore]))
			return res
		}
	}
	rows, err := lx.RawRows(ctx, w, `select id, encode(memento, 'hex') from "_default".logs where ledger = 'l1' order by id`)
	if err != nil {
		res.EngineErr = fmt.Errorf("reading mementos: %w", err)
		return res
	}
	mementos := map[uint64]string{}
	for _, row := range rows {
		var id uint64
		if _, err := fmt.Sscan(row[0], &id); err != nil {
			res.EngineErr = fmt.Errorf("reading mementos: id %q", row[0])
			return res
		}
		b, err := hex.DecodeString(row[1])
		if err != nil {
			res.EngineErr = fmt.Errorf("reading mementos: %v", err)
			return res
		}
		mementos[id] = string(b)
	}
	verifyChain(views, written, mementos, &res)
	return res
}

// C10 — SQL and Go log hashing agree on every input.
func runC10(r *ev.Run) (ev.Coverage, []string) {
	ctx := context.Background()
	assumptions := []string{pgsimAssumption,
		"bytea semantics follow the Postgres documentation and byteain/esc_encode sources: encode(b,'escape') doubles backslashes and renders NUL and bytes >= 0x80 as \\ooo; text::bytea parses escape format (\\\\ -> \\, \\ooo -> byte, any other backslash is error 22P02); to_json(timestamp) is ISO 8601 with trailing fractional zeros trimmed",
	}
	boot, err := lx.Boot(ctx, []lx.LedgerSpec{{Name: "l1"}})
	if err != nil {
		r.EngineError("boot: " + err.Error())
		return nil, assumptions
	}
	// ----- enumerate the finite space
	dims := c10Dims()
	var singles, pairs []c10Case
	for _, d := range dims {
		for _, cl := range d.Classes {
			singles = append(singles, buildCases([]string{d.Name}, []strClass{cl})...)
		}
	}
	fullPairs := r.Thorough()
	inPairs := func(d c10Dim, cl strClass) bool {
		// every shape is cheap enough to be paired in both tiers
		return fullPairs || d.Shape || c10QuickPairClasses[cl.Name]
	}
	for i, d1 := range dims {
		for _, d2 := range dims[i+1:] {
			for _, c1 := range d1.Classes {
				for _, c2 := range d2.Classes {
					if !inPairs(d1, c1) || !inPairs(d2, c2) {
						continue
					}
					pairs = append(pairs, buildCases([]string{d1.Name, d2.Name}, []strClass{c1, c2})...)
				}
			}
		}
	}

	var mu sync.Mutex
	var evaluations, accepted, rejectedN int64
	nontrivial := map[string]bool{}    // template|field:class accepted and compared
	rejected := map[string]string{}    // template|field:class -> rejection class
	failingSingle := map[string]bool{} // field:class that fails on its own
	logTypes := map[string]int64{}
	kindCount := map[string]int64{}
	byView := map[string]int64{}           // hash comparisons per view of the log
	mementoShape := map[string]int64{}     // <log type>:<document>:<shape> seen in the hashed memento bytes
	shapeAccepted := map[string][]string{} // shape field:shape -> templates whose write was accepted (single cases)
	samples := ev.NewSamples(6)

	report := func(c c10Case, f c10Finding, sig string) {
		r.Violation(sig, fmt.Sprintf("template %s with %s: %s", c.Template, strings.Join(c.parts(), " + "), f.What),
			map[string]any{"ledger": "l1 (default features, HASH_LOGS=SYNC)", "template": c.Template, "fields": c.Fields, "classes": c.Classes, "ops": c.Ops,
				"note": "shape fields (metaDoc, accMetaDoc) are re-applied to the last op from fields/classes at execution: JSON cannot tell a nil map from an empty one"})
	}

	type pendingFinding struct {
		idx int
		c   c10Case
		f   c10Finding
	}
	exec := func(cases []c10Case, single bool) bool {
		var pending []pendingFinding
		done := parallel(r, len(cases), func(i int) {
			c := cases[i]
			res := runC10Case(ctx, boot, c)
			if res.EngineErr != nil {
				r.EngineError(fmt.Sprintf("case %s %v: %v", c.Template, c.parts(), res.EngineErr))
				return
			}
			mu.Lock()
			defer mu.Unlock()
			evaluations += int64(res.Compared)
			for _, t := range res.LogTypes {
				logTypes[t]++
			}
			for v, n := range res.ByView {
				byView[v] += int64(n)
			}
			for k, n := range res.Mementos {
				mementoShape[k] += int64(n)
			}
			if single && res.Accepted && isShapeField(c.Fields[0]) {
				shapeAccepted[c.parts()[0]] = append(shapeAccepted[c.parts()[0]], c.Template)
			}
			key := c.Template + "|" + strings.Join(c.parts(), "+")
			if res.Accepted {
				accepted++
				nontrivial[key] = true
			}
			if res.Rejected != "" {
				rejectedN++
				rejected[key] = res.Rejected
			}
			if i < 6 {
				samples.Add(map[string]any{"template": c.Template, "inject": c.parts(), "ops": opNames(c.Ops), "accepted": res.Accepted, "rejected": res.Rejected, "hashes_compared": res.Compared, "findings": len(res.Findings)})
			}
			for _, f := range res.Findings {
				kindCount[f.Kind]++
				pending = append(pending, pendingFinding{i, c, f})
			}
		})
		// findings are reported in case order, not in completion order: which case
		// illustrates a signature (and its replay file) must not depend on scheduling
		sort.SliceStable(pending, func(a, b int) bool { return pending[a].idx < pending[b].idx })
		for _, p := range pending {
			c, f := p.c, p.f
			if f.Kind == "schemaVersion-omitted" {
				// the class of the string is irrelevant to this failure: one signature
				if single {
					failingSingle[c.parts()[0]] = true
				}
				report(c, f, "C10:schemaVersion:omitted-by-sql:mismatch")
				continue
			}
			if single {
				failingSingle[c.parts()[0]] = true
				report(c, f, "C10:"+c.parts()[0]+":"+f.Kind)
				continue
			}
			// a pair: when one of its components already fails alone the failure
			// belongs to that component's signature (already reported); otherwise
			// it is a genuine interaction and gets the pair signature.
			explained := false
			for _, part := range c.parts() {
				if failingSingle[part] {
					explained = true
				}
			}
			if explained {
				kindCount["pair-explained-by-single"]++
				continue
			}
			report(c, f, "C10:"+strings.Join(c.parts(), ":")+":"+f.Kind)
		}
		return done
	}

	doneSingles := exec(singles, true)
	donePairs := false
	if doneSingles && !r.HasEngineError() {
		donePairs = exec(pairs, false)
	}

	// vacuity: every log type must have been hashed, and both verdicts must be reachable
	if !r.HasEngineError() && doneSingles {
		for _, t := range []string{"NEW_TRANSACTION", "REVERTED_TRANSACTION", "SET_METADATA", "DELETE_METADATA", "INSERTED_SCHEMA"} {
			if logTypes[t] == 0 {
				r.EngineError("vacuous: no " + t + " log was ever hashed")
			}
		}
		if accepted == 0 {
			r.EngineError("vacuous: no injected write was accepted")
		}
		// every view of the log must have been hashed
		for _, v := range c10Views {
			if byView[v] == 0 {
				r.EngineError("vacuous: no log was ever hashed through the view " + v)
			}
		}
		// the shape dimension: every shape must have reached an accepted write, and the
		// documents the trigger hashed must really have taken more than one shape
		for _, f := range c10ShapeFields {
			for _, sh := range f.Shapes {
				if len(shapeAccepted[f.Name+":"+sh]) == 0 {
					r.EngineError("vacuous: no write with " + f.Name + " of shape " + sh + " was accepted")
				}
			}
		}
		for _, t := range []string{"SET_METADATA", "NEW_TRANSACTION"} {
			if mementoShape[t+":metadata:null"] == 0 && mementoShape[t+":metadata:empty"] == 0 {
				r.EngineError("vacuous: no " + t + " log was hashed with a null or empty metadata document (the shape dimension never reached the hashed bytes)")
			}
		}
		if mementoShape["NEW_TRANSACTION:accountMetadata:null"]+mementoShape["NEW_TRANSACTION:accountMetadata:empty"] == 0 {
			r.EngineError("vacuous: no NEW_TRANSACTION log was hashed with a null or empty accountMetadata document")
		}
	}
	for k := range shapeAccepted {
		sort.Strings(shapeAccepted[k])
	}
	var rej []string
	for k, v := range rejected {
		rej = append(rej, k+" -> "+v)
	}
	sort.Strings(rej)
	if len(rej) > 40 {
		rej = append(rej[:40], fmt.Sprintf("… %d more", len(rej)-40))
	}
	var fs []string
	for k := range failingSingle {
		fs = append(fs, k)
	}
	sort.Strings(fs)
	pairRule := "all pairs of (dimension,class) over two distinct dimensions"
	if !fullPairs {
		pairRule = "pairs of (dimension,class) over two distinct dimensions with character classes restricted to {dquote, backslash, lt, nonascii, u2028, newline} and every shape (all classes in the thorough tier)"
	}
	cov := ev.Coverage{
		"evaluations":            evaluations,
		"distinct_nontrivial":    len(nontrivial),
		"cases_single":           len(singles),
		"cases_pair":             len(pairs),
		"writes_accepted":        accepted,
		"writes_rejected":        rejectedN,
		"rejected_by_validation": rej,
		"failing_single_inputs":  fs,
		"finding_kinds":          kindCount,
		"hashes_by_log_type":     logTypes,
		"fields":                 c10Fields,
		"classes":                classNames(),
		"shape_fields":           c10ShapeFields,
		"shapes_accepted_on":     shapeAccepted,
		"hashes_by_view":         byView,
		"memento_shapes_hashed":  mementoShape,
		"samples":                samples.List(),
		"exhaustive":             doneSingles && donePairs,
		"rule": "for every template (post, script with set_tx_meta/set_account_meta, revert, tx/account metadata set and delete, schema insertion, schema insertion by a request naming an existing schema version) x every dimension that applies to it x every class of the dimension, singly, then " + pairRule +
			". Dimensions: (a) free-text fields (idempotency key, schema version, metadata key, metadata value, reference, account-metadata value, revert metadata, account address) x character classes, among which the EMPTY string (absent idempotency key / reference / schema version, empty metadata key or value); (b) SHAPE fields: metaDoc = the metadata document of the operation under test (body of SET_METADATA on a transaction / an account, metadata of a created transaction, request metadata of a script, metadata of a revert) in {null (nil map, what a `null` body decodes to), empty {}}, accMetaDoc = the accountMetadata document of a creation in {null, empty {}, one entry that is null, one entry that is {}} (the non-empty shape is what all other cases use). " +
			"The write goes through the real system controller on a HASH_LOGS=SYNC ledger on pgsim (the hash is computed by the set_log_hash trigger executed from the migration text); afterwards every stored hash of the ledger is compared with Log.ComputeHash(predecessor), chained on the stored hash of the predecessor as Import chains them, recomputed in Go from FOUR views of the same log: written (the log the controller returned from the write, i.e. the in-memory payload handed to InsertLog), store (read back through ListLogs), export (read back through Export), stream (the exported log encoded by json.Encoder and decoded into ledger.Log as the import endpoint decodes its stream). Finding kinds: mismatch (no view agrees with the trigger), readback-mismatch (the written log agrees with the trigger, the log read back does not: write path and read path disagree on the payload), written-mismatch (the converse), schemaVersion-omitted, sql-error (write refused by the database itself, SQLSTATE); a validation rejection is only counted. memento_shapes_hashed counts the document shapes found in the memento bytes the trigger actually hashed.",
	}
	return cov, assumptions
}

func classNames() []string {
	out := make([]string, len(c10Classes))
	for i, c := range c10Classes {
		out[i] = c.Name
	}
	return out
}

func init() {
	reg.Register("C10", func() int {
		r := ev.Start("C10", ev.LevelExploration, 60*time.Second, 10*time.Minute)
		cov, assumptions := runC10(r)
		return r.Finish(cov, assumptions)
	})
}
