package pimport

import (
	"bytes"
	"context"
	"encoding/hex"
	"fmt"
	"sort"
	"strings"
	"sync"
	"time"

	ledger "github.com/formancehq/ledger/internal"
	"github.com/formancehq/ledger/verifh/ev"
	"github.com/formancehq/ledger/verifh/lx"
	"github.com/formancehq/ledger/verifh/pgsim"
	"github.com/formancehq/ledger/verifh/reg"
	"github.com/formancehq/ledger/verifh/world"
)

// ---------- the input space ----------

type strClass struct{ Name, S string }

// c10Classes is the character-class menu. Every string embeds the interesting
// character(s) between plain letters so that position effects (first/last byte) do not
// hide it, except the trailing-backslash class which is about the last byte.
var c10Classes = []strClass{
	{"plain", "axb"},
	{"squote", "a'b"},
	{"dquote", `a"b`},
	{"backslash", `a\b`},
	{"lt", "a<b"},
	{"gt", "a>b"},
	{"amp", "a&b"},
	{"nonascii", "aéb"},
	{"u2028", "a\u2028b"},
	{"newline", "a\nb"},
	{"tab", "a\tb"},
	{"ctrl", "a\x01b"},
	{"del", "a\x7fb"},
	{"emoji", "a\U0001F600b"},
	{"octal-escape-text", `a\101b`},      // backslash + 3 octal digits: a valid bytea escape
	{"unicode-escape-text", "a\\u0041b"}, // what a JSON escape looks like, as plain text
	{"percent", "a%b"},
	{"hex-escape-text", `a\x41b`},
	{"double-backslash", `a\\b`},
	{"trailing-backslash", `ab\`},
}

// quick tier pairs use this subset of classes (all classes in the thorough tier).
var c10QuickPairClasses = map[string]bool{"dquote": true, "backslash": true, "lt": true, "nonascii": true, "u2028": true, "newline": true}

var c10Fields = []string{"ik", "schemaVersion", "metaKey", "metaValue", "reference", "accMetaValue", "revertMeta", "address"}

// assign gives the injected string of each assigned field and remembers which fields a
// template consumed.
type assign struct {
	m    map[string]string
	used map[string]bool
}

func (a *assign) get(field, def string) string {
	if v, ok := a.m[field]; ok {
		a.used[field] = true
		return v
	}
	return def
}

func (a *assign) has(field string) bool { _, ok := a.m[field]; return ok }

type c10Template struct {
	Name  string
	Build func(a *assign) []lx.Op
}

const c10Script = `vars {
	string $v
	string $w
}
send [USD 10] (
	source = @world
	destination = @a
)
set_tx_meta("k", $v)
set_account_meta(@a, "k", $w)`

// c10Templates: one template per log type / way of producing it. Every template ends
// with the operation under test; the preceding ones only make it applicable.
func c10Templates() []c10Template {
	fund := lx.P{Src: "world", Dst: "a", Ast: "USD", Amt: "100"}
	// common decoration: idempotency key and schema version apply to every write
	deco := func(a *assign, op lx.Op) lx.Op {
		op.IK = a.get("ik", "")
		if op.Kind != "schema" {
			op.Schema = a.get("schemaVersion", "")
		}
		return op
	}
	return []c10Template{
		{"post", func(a *assign) []lx.Op {
			op := lx.Op{Kind: "post", Postings: []lx.P{fund}, Ref: a.get("reference", "")}
			op.Meta = map[string]string{a.get("metaKey", "k"): a.get("metaValue", "v")}
			if a.has("accMetaValue") {
				op.AccMeta = map[string]map[string]string{"a": {"k": a.get("accMetaValue", "v")}}
			}
			return []lx.Op{deco(a, op)}
		}},
		{"script", func(a *assign) []lx.Op {
			op := lx.Op{Kind: "script", Script: c10Script, Ref: a.get("reference", ""),
				Vars: map[string]string{"v": a.get("metaValue", "v"), "w": a.get("accMetaValue", "w")}}
			if a.has("metaKey") {
				op.Meta = map[string]string{a.get("metaKey", "k2"): "x"}
			}
			return []lx.Op{deco(a, op)}
		}},
		{"revert", func(a *assign) []lx.Op {
			op := lx.Op{Kind: "revert", TxID: 1, Force: true}
			if a.has("revertMeta") || a.has("metaKey") {
				op.Meta = map[string]string{a.get("metaKey", "k"): a.get("revertMeta", "v")}
			}
			return []lx.Op{{Kind: "post", Postings: []lx.P{fund}}, deco(a, op)}
		}},
		{"txmeta", func(a *assign) []lx.Op {
			op := lx.Op{Kind: "txmeta", TxID: 1, Meta: map[string]string{a.get("metaKey", "k"): a.get("metaValue", "v")}}
			return []lx.Op{{Kind: "post", Postings: []lx.P{fund}}, deco(a, op)}
		}},
		{"accmeta", func(a *assign) []lx.Op {
			op := lx.Op{Kind: "accmeta", Address: a.get("address", "a"), Meta: map[string]string{a.get("metaKey", "k"): a.get("accMetaValue", "v")}}
			return []lx.Op{deco(a, op)}
		}},
		{"deltxmeta", func(a *assign) []lx.Op {
			key := a.get("metaKey", "k")
			op := lx.Op{Kind: "deltxmeta", TxID: 1, Key: key}
			return []lx.Op{{Kind: "post", Postings: []lx.P{fund}, Meta: map[string]string{key: "v"}}, deco(a, op)}
		}},
		{"delaccmeta", func(a *assign) []lx.Op {
			key, addr := a.get("metaKey", "k"), a.get("address", "a")
			op := lx.Op{Kind: "delaccmeta", Address: addr, Key: key}
			return []lx.Op{{Kind: "accmeta", Address: addr, Meta: map[string]string{key: "v"}}, deco(a, op)}
		}},
		{"schema", func(a *assign) []lx.Op {
			op := lx.Op{Kind: "schema", Schema: a.get("schemaVersion", "v0"), SchemaData: `{"chart":{}}`}
			return []lx.Op{deco(a, op)}
		}},
	}
}

// c10Case is one executable scenario.
type c10Case struct {
	Template string
	Fields   []string // assigned fields (1 or 2), sorted by position in c10Fields
	Classes  []string
	Ops      []lx.Op
}

func (c c10Case) parts() []string {
	out := make([]string, len(c.Fields))
	for i := range c.Fields {
		out[i] = c.Fields[i] + ":" + c.Classes[i]
	}
	return out
}

// buildCases instantiates every template on which all the assigned fields apply.
func buildCases(fields []string, classes []strClass) []c10Case {
	var out []c10Case
	for _, t := range c10Templates() {
		a := &assign{m: map[string]string{}, used: map[string]bool{}}
		var names []string
		for i, f := range fields {
			a.m[f] = classes[i].S
			names = append(names, classes[i].Name)
		}
		ops := t.Build(a)
		if len(a.used) != len(a.m) {
			continue
		}
		if sv, ok := a.m["schemaVersion"]; ok && t.Name != "schema" {
			// a write can only name a schema version that exists: insert it first
			ops = append([]lx.Op{{Kind: "schema", Schema: sv, SchemaData: `{"chart":{}}`}}, ops...)
		}
		out = append(out, c10Case{Template: t.Name, Fields: fields, Classes: names, Ops: ops})
	}
	return out
}

// ---------- execution and oracle ----------

type c10Finding struct {
	Kind string // mismatch | sql-error | schemaVersion-omitted
	What string
}

type c10Result struct {
	Accepted  bool   // the operation under test was accepted
	Rejected  string // class of the validation rejection, when rejected
	Compared  int    // hash comparisons made
	LogTypes  []string
	Findings  []c10Finding
	EngineErr error
}

var rejectionClasses = map[string]bool{
	"compilation_failed": true, "invalid_vars": true, "schema_validation": true, "schema_not_found": true,
	"metadata_override": true, "not_found": true, "idempotency_input_mismatch": true, "schema_already_exists": true,
}

// verifyChain recomputes every hash in Go and compares with what the trigger stored.
func verifyChain(logs []ledger.Log, res *c10Result) {
	var prev *ledger.Log
	for i := range logs {
		l := logs[i]
		stored := l.Hash
		cp := l
		cp.Hash = nil
		cp.ComputeHash(prev)
		res.Compared++
		res.LogTypes = append(res.LogTypes, l.Type.String())
		if !bytes.Equal(stored, cp.Hash) {
			kind := "mismatch"
			if l.SchemaVersion != "" {
				// diagnosis: is the stored hash the hash of the same log without its schema version?
				cp2 := l
				cp2.Hash = nil
				cp2.SchemaVersion = ""
				cp2.ComputeHash(prev)
				if bytes.Equal(stored, cp2.Hash) {
					kind = "schemaVersion-omitted"
				}
			}
			res.Findings = append(res.Findings, c10Finding{Kind: kind, What: fmt.Sprintf(
				"log %d (%s, idempotencyKey=%q, schemaVersion=%q): stored hash %s, Log.ComputeHash gives %s",
				*l.ID, l.Type, l.IdempotencyKey, l.SchemaVersion, hex.EncodeToString(stored), hex.EncodeToString(cp.Hash))})
		}
		prev = &logs[i]
	}
}

func runC10Case(ctx context.Context, boot *pgsim.DB, c c10Case) c10Result {
	var res c10Result
	pg := boot.Clone()
	w := world.Attach(pg)
	defer w.Close()
	ctrl, err := w.Sys.GetLedgerController(ctx, "l1")
	if err != nil {
		res.EngineErr = err
		return res
	}
	for i, op := range c.Ops {
		out := lx.Apply(ctx, ctrl, op)
		if out.OK() {
			if i == len(c.Ops)-1 {
				res.Accepted = true
			}
			continue
		}
		if out.Class == "ENGINE" {
			res.EngineErr = fmt.Errorf("%s: %v", op, out.Err)
			return res
		}
		if code, ok := isSQLError(out.Err); ok {
			res.Findings = append(res.Findings, c10Finding{Kind: "sql-error", What: fmt.Sprintf(
				"%s (op %d of %v) was refused by the database, SQLSTATE %s: %v", op.Kind, i+1, opNames(c.Ops), code, out.Err)})
		} else if rejectionClasses[out.Class] {
			res.Rejected = out.Class
		} else {
			res.EngineErr = fmt.Errorf("unclassified failure of %s in %v: [%s] %v", op, opNames(c.Ops), out.Class, out.Err)
			return res
		}
		break
	}
	logs, err := lx.ListLogs(ctx, ctrl)
	if err != nil {
		res.EngineErr = fmt.Errorf("ListLogs: %w", err)
		return res
	}
	verifyChain(logs, &res)
	return res
}

// C10 — SQL and Go log hashing agree on every input.
func runC10(r *ev.Run) (ev.Coverage, []string) {
	ctx := context.Background()
	assumptions := []string{pgsimAssumption,
		"bytea semantics follow the Postgres documentation and byteain/esc_encode sources: encode(b,'escape') doubles backslashes and renders NUL and bytes >= 0x80 as \\ooo; text::bytea parses escape format (\\\\ -> \\, \\ooo -> byte, any other backslash is error 22P02); to_json(timestamp) is ISO 8601 with trailing fractional zeros trimmed",
	}
	boot, err := lx.Boot(ctx, []lx.LedgerSpec{{Name: "l1"}})
	if err != nil {
		r.EngineError("boot: " + err.Error())
		return nil, assumptions
	}
	// ----- enumerate the finite space
	var singles, pairs []c10Case
	for _, f := range c10Fields {
		for _, cl := range c10Classes {
			singles = append(singles, buildCases([]string{f}, []strClass{cl})...)
		}
	}
	fullPairs := r.Thorough()
	for i, f1 := range c10Fields {
		for _, f2 := range c10Fields[i+1:] {
			for _, c1 := range c10Classes {
				for _, c2 := range c10Classes {
					if !fullPairs && !(c10QuickPairClasses[c1.Name] && c10QuickPairClasses[c2.Name]) {
						continue
					}
					pairs = append(pairs, buildCases([]string{f1, f2}, []strClass{c1, c2})...)
				}
			}
		}
	}

	var mu sync.Mutex
	var evaluations, accepted, rejectedN int64
	nontrivial := map[string]bool{}    // template|field:class accepted and compared
	rejected := map[string]string{}    // template|field:class -> rejection class
	failingSingle := map[string]bool{} // field:class that fails on its own
	logTypes := map[string]int64{}
	kindCount := map[string]int64{}
	samples := ev.NewSamples(6)

	report := func(c c10Case, f c10Finding, sig string) {
		r.Violation(sig, fmt.Sprintf("template %s with %s: %s", c.Template, strings.Join(c.parts(), " + "), f.What),
			map[string]any{"ledger": "l1 (default features, HASH_LOGS=SYNC)", "template": c.Template, "fields": c.Fields, "classes": c.Classes, "ops": c.Ops})
	}

	type pendingFinding struct {
		idx int
		c   c10Case
		f   c10Finding
	}
	exec := func(cases []c10Case, single bool) bool {
		var pending []pendingFinding
		done := parallel(r, len(cases), func(i int) {
			c := cases[i]
			res := runC10Case(ctx, boot, c)
			if res.EngineErr != nil {
				r.EngineError(fmt.Sprintf("case %s %v: %v", c.Template, c.parts(), res.EngineErr))
				return
			}
			mu.Lock()
			defer mu.Unlock()
			evaluations += int64(res.Compared)
			for _, t := range res.LogTypes {
				logTypes[t]++
			}
			key := c.Template + "|" + strings.Join(c.parts(), "+")
			if res.Accepted {
				accepted++
				nontrivial[key] = true
			}
			if res.Rejected != "" {
				rejectedN++
				rejected[key] = res.Rejected
			}
			if i < 6 {
				samples.Add(map[string]any{"template": c.Template, "inject": c.parts(), "ops": opNames(c.Ops), "accepted": res.Accepted, "rejected": res.Rejected, "hashes_compared": res.Compared, "findings": len(res.Findings)})
			}
			for _, f := range res.Findings {
				kindCount[f.Kind]++
				pending = append(pending, pendingFinding{i, c, f})
			}
		})
		// findings are reported in case order, not in completion order: which case
		// illustrates a signature (and its replay file) must not depend on scheduling
		sort.SliceStable(pending, func(a, b int) bool { return pending[a].idx < pending[b].idx })
		for _, p := range pending {
			c, f := p.c, p.f
			if f.Kind == "schemaVersion-omitted" {
				// the class of the string is irrelevant to this failure: one signature
				if single {
					failingSingle[c.parts()[0]] = true
				}
				report(c, f, "C10:schemaVersion:omitted-by-sql:mismatch")
				continue
			}
			if single {
				failingSingle[c.parts()[0]] = true
				report(c, f, "C10:"+c.parts()[0]+":"+f.Kind)
				continue
			}
			// a pair: when one of its components already fails alone the failure
			// belongs to that component's signature (already reported); otherwise
			// it is a genuine interaction and gets the pair signature.
			explained := false
			for _, part := range c.parts() {
				if failingSingle[part] {
					explained = true
				}
			}
			if explained {
				kindCount["pair-explained-by-single"]++
				continue
			}
			report(c, f, "C10:"+strings.Join(c.parts(), ":")+":"+f.Kind)
		}
		return done
	}

	doneSingles := exec(singles, true)
	donePairs := false
	if doneSingles && !r.HasEngineError() {
		donePairs = exec(pairs, false)
	}

	// vacuity: every log type must have been hashed, and both verdicts must be reachable
	if !r.HasEngineError() && doneSingles {
		for _, t := range []string{"NEW_TRANSACTION", "REVERTED_TRANSACTION", "SET_METADATA", "DELETE_METADATA", "INSERTED_SCHEMA"} {
			if logTypes[t] == 0 {
				r.EngineError("vacuous: no " + t + " log was ever hashed")
			}
		}
		if accepted == 0 {
			r.EngineError("vacuous: no injected write was accepted")
		}
	}
	var rej []string
	for k, v := range rejected {
		rej = append(rej, k+" -> "+v)
	}
	sort.Strings(rej)
	if len(rej) > 40 {
		rej = append(rej[:40], fmt.Sprintf("… %d more", len(rej)-40))
	}
	var fs []string
	for k := range failingSingle {
		fs = append(fs, k)
	}
	sort.Strings(fs)
	pairRule := "all pairs of (field,class) over two distinct fields"
	if !fullPairs {
		pairRule = "pairs of (field,class) over two distinct fields with classes restricted to {dquote, backslash, lt, nonascii, u2028, newline} (all classes in the thorough tier)"
	}
	cov := ev.Coverage{
		"evaluations":            evaluations,
		"distinct_nontrivial":    len(nontrivial),
		"cases_single":           len(singles),
		"cases_pair":             len(pairs),
		"writes_accepted":        accepted,
		"writes_rejected":        rejectedN,
		"rejected_by_validation": rej,
		"failing_single_inputs":  fs,
		"finding_kinds":          kindCount,
		"hashes_by_log_type":     logTypes,
		"fields":                 c10Fields,
		"classes":                classNames(),
		"samples":                samples.List(),
		"exhaustive":             doneSingles && donePairs,
		"rule": "for every template (post, script with set_tx_meta/set_account_meta, revert, tx/account metadata set and delete, schema insertion) x every free-text field that applies to it (idempotency key, schema version, metadata key, metadata value, reference, account-metadata value, revert metadata, account address) x every character class, singly, then " + pairRule +
			": the write goes through the real system controller on a HASH_LOGS=SYNC ledger on pgsim (the hash is computed by the set_log_hash trigger executed from the migration text); afterwards every stored hash of the ledger is compared with Log.ComputeHash(previous) recomputed in Go from the logs read back through ListLogs. A write refused by the database itself (SQLSTATE) is a finding of kind sql-error; a validation rejection is only counted.",
	}
	return cov, assumptions
}

func classNames() []string {
	out := make([]string, len(c10Classes))
	for i, c := range c10Classes {
		out[i] = c.Name
	}
	return out
}

func init() {
	reg.Register("C10", func() int {
		r := ev.Start("C10", ev.LevelExploration, 60*time.Second, 10*time.Minute)
		cov, assumptions := runC10(r)
		return r.Finish(cov, assumptions)
	})
}
