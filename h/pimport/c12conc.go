package pimport

import (
	"context"
	"fmt"
	"strings"
	"time"

	ledger "github.com/formancehq/ledger/internal"
	"github.com/formancehq/ledger/verifh/ev"
	"github.com/formancehq/ledger/verifh/lx"
	"github.com/formancehq/ledger/verifh/reg"
	"github.com/formancehq/ledger/verifh/sched"
	"github.com/formancehq/ledger/verifh/world"
)

// The concurrent half of C12: Import || write on the same pristine ledger, every
// schedule at driver-call granularity (K2).

type c12ConcState struct {
	importErr error
	importRan bool
	write     writeResult
	single    lx.Outcome
	path      string
	commitPos [2]int
}

func c12ConcScenarios() ([]*sched.Scenario, error) {
	ctx := context.Background()
	boot, srcLogs, err := c12Boot(ctx)
	if err != nil {
		return nil, err
	}
	var scs []*sched.Scenario
	writeOp := lx.Op{Kind: "post", Name: "w>q1", Postings: []lx.P{{Src: "world", Dst: "q", Ast: "USD", Amt: "1"}}}
	for _, mode := range c12Modes() {
		mode := mode
		// two streams: the whole exported history (ids 1..4), and its suffix 2..4 whose ids are
		// all LATER than the log of the concurrent write — the only import a write that
		// commits first does not already exclude by id monotonicity, so the state check under
		// the ledger lock is what must reject it (seeded change C12: state tested on a copy
		// cached before the lock was taken)
		type stream struct {
			tag  string
			logs []ledger.Log
		}
		for _, sv := range []stream{{"", srcLogs[mode.Name]}, {"later-ids-", srcLogs[mode.Name][1:]}} {
			logs := sv.logs
			for _, path := range []string{"single", "atomic-bulk", "import"} {
				path := path
				if sv.tag != "" && path == "import" {
					continue
				}
				scs = append(scs, &sched.Scenario{
					Name: fmt.Sprintf("import-%svs-%s/%s", sv.tag, path, mode.Name), Base: boot, Threads: 2,
					New: func(w *world.World) ([]func(ctx context.Context), any) {
						st := &c12ConcState{path: path}
						c0, err := w.Sys.GetLedgerController(context.Background(), mode.Dst)
						if err != nil {
							panic(err)
						}
						c1, err := w.Sys.GetLedgerController(context.Background(), mode.Dst)
						if err != nil {
							panic(err)
						}
						return []func(ctx context.Context){
							func(ctx context.Context) {
								st.importErr = importLogs(ctx, c0, logs)
								st.importRan = true
								st.commitPos[0] = sched.LastCommitPos(ctx)
							},
							func(ctx context.Context) {
								switch path {
								case "single":
									st.single = applyRecover(ctx, c1, writeOp)
								case "atomic-bulk":
									st.write, _ = runBulk(ctx, c1, true, []lx.Op{writeOp})
								case "import":
									err := importLogs(ctx, c1, logs)
									st.single = lx.Outcome{Err: err, Class: lx.Classify(err)}
								}
								st.commitPos[1] = sched.LastCommitPos(ctx)
							},
						}, st
					},
					Check: func(ctx context.Context, w *world.World, state any, run *sched.Run) [][2]string {
						return c12ConcCheck(ctx, w, state.(*c12ConcState), mode, logs, writeOp)
					},
					Outcome: func(state any) string {
						st := state.(*c12ConcState)
						wr := "ok"
						switch st.path {
						case "atomic-bulk":
							if !st.write.allOK() {
								wr = "failed"
							}
						default:
							if !st.single.OK() {
								wr = st.single.Class
							}
						}
						return fmt.Sprintf("import=%s write=%s", lx.Classify(st.importErr)+okIfEmpty(st.importErr), wr)
					},
				})
			}
		}
	}
	// the ledger's row in _system.ledgers is also written by requests that are not ledger
	// writes: PUT /v2/{ledger}/metadata (system controller UpdateLedgerMetadata) concurrent
	// with the first write. Whatever the interleaving, once the write is accepted the state
	// is in-use and a later import (ids after the write's) is refused. (Seeded change C12b:
	// the metadata update became read-modify-write of the whole row and wrote a stale state
	// back.)
	for _, mode := range c12Modes() {
		mode := mode
		later := srcLogs[mode.Name][1:]
		scs = append(scs, &sched.Scenario{
			Name: "ledger-metadata-update-vs-first-write-then-import/" + mode.Name, Base: boot, Threads: 2,
			New: func(w *world.World) ([]func(ctx context.Context), any) {
				st := &c12ConcState{path: "metadata-update"}
				c1, err := w.Sys.GetLedgerController(context.Background(), mode.Dst)
				if err != nil {
					panic(err)
				}
				return []func(ctx context.Context){
					func(ctx context.Context) {
						st.importErr = w.Sys.UpdateLedgerMetadata(ctx, mode.Dst, map[string]string{"owner": "ops"})
					},
					func(ctx context.Context) { st.single = applyRecover(ctx, c1, writeOp) },
				}, st
			},
			Check: func(ctx context.Context, w *world.World, state any, run *sched.Run) [][2]string {
				st := state.(*c12ConcState)
				var out [][2]string
				if st.importErr != nil {
					out = append(out, [2]string{"conc:ledger-metadata-update-failed", fmt.Sprintf("UpdateLedgerMetadata: %v", st.importErr)})
				}
				if !st.single.OK() {
					out = append(out, [2]string{"conc:write-failed:beside-metadata-update", fmt.Sprintf("first write failed: %v", st.single.Err)})
					return out
				}
				if s, err := ledgerState(ctx, w, mode.Dst); err == nil && s != ledger.StateInUse {
					out = append(out, [2]string{"conc:state-not-in-use:after-metadata-update", fmt.Sprintf("a write was accepted but _system.ledgers.state = %q after a concurrent ledger metadata update", s)})
				}
				// a fresh stack (no cached ledger row) tries the import a pristine ledger would accept
				w2 := world.Attach(w.PG)
				defer w2.Close()
				c2, err := w2.Sys.GetLedgerController(ctx, mode.Dst)
				if err != nil {
					return append(out, [2]string{"read:controller", err.Error()})
				}
				if err := importLogs(ctx, c2, later); err == nil {
					out = append(out, [2]string{"conc:import-after-write:accepted:after-metadata-update", fmt.Sprintf("a write was accepted (log %d), then an import of logs %d.. was accepted too", *st.single.Log.ID, *later[0].ID)})
				}
				return out
			},
			Outcome: func(state any) string {
				st := state.(*c12ConcState)
				return fmt.Sprintf("meta=%v write=%s", st.importErr == nil, st.single.Class)
			},
		})
	}
	return scs, nil
}

func okIfEmpty(err error) string {
	if err == nil {
		return "ok"
	}
	return ""
}

func c12ConcCheck(ctx context.Context, w *world.World, st *c12ConcState, mode c12Mode, srcLogs []ledger.Log, writeOp lx.Op) [][2]string {
	var out [][2]string
	c, err := w.Sys.GetLedgerController(ctx, mode.Dst)
	if err != nil {
		return [][2]string{{"read:controller", err.Error()}}
	}
	logs, err := lx.ListLogs(ctx, c)
	if err != nil {
		return [][2]string{{"read:ListLogs", err.Error()}}
	}
	importOK := st.importErr == nil
	maxImported := *srcLogs[len(srcLogs)-1].ID
	switch st.path {
	case "import":
		otherOK := st.single.OK()
		switch {
		case importOK && otherOK:
			out = append(out, [2]string{"conc:two-imports-accepted", "two concurrent imports of the same stream were both accepted"})
		case !importOK && !otherOK:
			// both rejected: the database must be unchanged
			if len(logs) != 0 {
				out = append(out, [2]string{"conc:both-imports-rejected-with-effect", fmt.Sprintf("both imports failed (%v / %v) but %d logs exist", st.importErr, st.single.Err, len(logs))})
			}
		default:
			if len(logs) != len(srcLogs) {
				out = append(out, [2]string{"conc:import-partial", fmt.Sprintf("one import accepted, %d logs stored, want %d", len(logs), len(srcLogs))})
			}
		}
		ref, err := lx.RefFromLogs(append([]ledger.Log(nil), logs...))
		if err == nil {
			rep := &lx.Report{}
			lx.CheckCurrent(ctx, c, ref, rep)
			for _, m := range rep.Items {
				out = append(out, [2]string{"conc:state:" + m.Sig, m.What})
			}
		}
		return out
	}
	writeOK := false
	var wTx, wLog uint64
	switch st.path {
	case "single":
		writeOK = st.single.OK()
		if writeOK {
			wTx, wLog = *st.single.Tx.ID, *st.single.Log.ID
		}
	case "atomic-bulk":
		writeOK = st.write.allOK() && len(st.write.Elems) == 1
		if writeOK {
			wLog = st.write.Elems[0].LogID
			if st.write.Elems[0].TxID != nil {
				wTx = *st.write.Elems[0].TxID
			}
		}
	}
	// expected final reference
	var ref *lx.Ref
	switch {
	case importOK && writeOK:
		if wLog != maxImported+1 {
			out = append(out, [2]string{"conc:write-not-after-import:" + st.path, fmt.Sprintf("import accepted and write accepted with log id %d (tx %d); imported logs end at %d", wLog, wTx, maxImported)})
		}
		if len(logs) != len(srcLogs)+1 {
			out = append(out, [2]string{"conc:log-count:" + st.path, fmt.Sprintf("%d logs stored, want %d", len(logs), len(srcLogs)+1)})
		}
	case !importOK && writeOK:
		if len(logs) != 1 {
			out = append(out, [2]string{"conc:rejected-import-left-trace:" + st.path, fmt.Sprintf("import rejected (%v) but %d logs exist (want only the write's)", st.importErr, len(logs))})
		}
		if lx.Classify(st.importErr) != "import_error" {
			out = append(out, [2]string{"conc:import-error-kind:" + lx.Classify(st.importErr), fmt.Sprintf("import failed with %v", st.importErr)})
		}
	case importOK && !writeOK:
		cls := st.single.Class
		if st.path == "atomic-bulk" {
			cls = "bulk:" + strings.ReplaceAll(st.write.describe(), " ", "_")
			if len(cls) > 60 {
				cls = cls[:60]
			}
		}
		out = append(out, [2]string{"conc:write-failed:" + st.path, fmt.Sprintf("import accepted, concurrent write failed: %s", cls)})
		if len(logs) != len(srcLogs) {
			out = append(out, [2]string{"conc:failed-write-left-trace:" + st.path, fmt.Sprintf("%d logs stored, want %d", len(logs), len(srcLogs))})
		}
	default:
		out = append(out, [2]string{"conc:both-failed:" + st.path, fmt.Sprintf("import: %v; write failed too", st.importErr)})
	}
	// whatever happened, the stored logs must describe the stored state
	if r2, err := lx.RefFromLogs(append([]ledger.Log(nil), logs...)); err != nil {
		out = append(out, [2]string{"conc:logs-not-replayable", err.Error()})
	} else {
		ref = r2
		rep := &lx.Report{}
		lx.CheckCurrent(ctx, c, ref, rep)
		for _, m := range rep.Items {
			out = append(out, [2]string{"conc:state:" + m.Sig, m.What})
		}
	}
	if s, err := ledgerState(ctx, w, mode.Dst); err == nil && writeOK && s != ledger.StateInUse {
		out = append(out, [2]string{"conc:state-not-in-use:" + st.path, fmt.Sprintf("a write was accepted but _system.ledgers.state = %q", s)})
	}
	return out
}

func init() {
	reg.Register("C12", func() int {
		r := ev.Start("C12", ev.LevelMC, 120*time.Second, 15*time.Minute)
		cov := C12Sequential(r)
		if cov == nil {
			cov = map[string]any{}
		}
		seqExhaustive, _ := cov["exhaustive"].(bool)
		scs, err := c12ConcScenarios()
		if err != nil {
			r.EngineError(err.Error())
			return r.Finish(cov, []string{pgsimAssumption})
		}
		bound := ev.Pick(r, 2, 3)
		var stats []*sched.Stats
		var schedules, points int64
		complete := true
		colliding := 0
		for _, sc := range scs {
			st := sched.Explore(context.Background(), sc, bound, r.Expired,
				func(v sched.Violation) {
					r.Violation("C12:"+v.Sig, fmt.Sprintf("[%s] %s", v.Scenario, v.What), map[string]any{"scenario": v.Scenario, "schedule": v.Schedule})
				},
				func(msg string) { r.EngineError(msg) })
			stats = append(stats, st)
			schedules += st.Schedules
			points += st.Points
			if !st.Complete {
				complete = false
			}
			if len(st.Outcomes) >= 2 {
				colliding++
			}
			if r.Expired() {
				complete = false
				break
			}
		}
		if colliding == 0 && complete && r.ViolationCount() == 0 {
			r.EngineError("vacuous: import and write never produced two distinct outcomes")
		}
		cov["concurrent_scenarios"] = stats
		cov["concurrent_schedules"] = schedules
		cov["concurrent_preemption_bound"] = bound
		cov["exhaustive"] = seqExhaustive && complete
		if v, ok := cov["states"].(int64); ok {
			cov["states"] = v + points
		} else if v, ok := cov["states"].(int); ok {
			cov["states"] = int64(v) + points
		}
		if v, ok := cov["traces_validated_against_impl"].(int64); ok {
			cov["traces_validated_against_impl"] = v + schedules
		} else if v, ok := cov["traces_validated_against_impl"].(int); ok {
			cov["traces_validated_against_impl"] = int64(v) + schedules
		}
		return r.Finish(cov, []string{pgsimAssumption, "concurrent half: Import || {single write, atomic bulk, second Import} on a pristine ledger under HASH_LOGS SYNC/DISABLED/ASYNC, every schedule with <= bound preemptions at driver-call granularity (session advisory lock of LockLedger modelled by pgsim)"})
	})
}

var _ = time.Second
