package pimport

import (
	"context"
	"encoding/json"
	"os"
	"testing"

	"github.com/formancehq/ledger/verifh/lx"
)

// TestReplay re-executes one replay file written by C10 / C11 / C12 without the
// explorer and prints the oracle's verdict:
//
//	REPLAY=/verif/replays/C11-xxxx.json go test ./pimport -run TestReplay -v
//
// It fails when the replayed case still violates the property.
func TestReplay(t *testing.T) {
	file := os.Getenv("REPLAY")
	if file == "" {
		t.Skip("set REPLAY=<replay file>")
	}
	b, err := os.ReadFile(file)
	if err != nil {
		t.Fatal(err)
	}
	var doc struct {
		Property  string          `json:"property"`
		Signature string          `json:"signature"`
		Replay    json.RawMessage `json:"replay"`
	}
	if err := json.Unmarshal(b, &doc); err != nil {
		t.Fatal(err)
	}
	ctx := context.Background()
	restore := quietStdout()
	defer restore()
	switch doc.Property {
	case "C10":
		var c c10Case
		if err := json.Unmarshal(doc.Replay, &struct {
			Template *string   `json:"template"`
			Fields   *[]string `json:"fields"`
			Classes  *[]string `json:"classes"`
			Ops      *[]lx.Op  `json:"ops"`
		}{&c.Template, &c.Fields, &c.Classes, &c.Ops}); err != nil {
			t.Fatal(err)
		}
		boot, err := lx.Boot(ctx, []lx.LedgerSpec{{Name: "l1"}})
		if err != nil {
			t.Fatal(err)
		}
		res := runC10Case(ctx, boot, c)
		if res.EngineErr != nil {
			t.Fatal(res.EngineErr)
		}
		t.Logf("ops %v: accepted=%v rejected=%q hashes compared=%d", opNames(c.Ops), res.Accepted, res.Rejected, res.Compared)
		for _, f := range res.Findings {
			t.Errorf("%s: %s", f.Kind, f.What)
		}
	case "C11":
		var rp struct {
			History []lx.Op `json:"history"`
		}
		if err := json.Unmarshal(doc.Replay, &rp); err != nil {
			t.Fatal(err)
		}
		L := c11Setup()
		boot, err := bootLedgers(ctx, L.Specs)
		if err != nil {
			t.Fatal(err)
		}
		st := &c11Stats{states: map[string]bool{}, logTypes: map[string]int64{}, writeOK: map[string]int64{}, soft: map[string]int64{}}
		viols, err := runC11History(ctx, boot, L, rp.History, st, nil)
		if err != nil {
			t.Fatal(err)
		}
		t.Logf("history %v: %d post-import writes checked", opNames(rp.History), st.writes)
		seen := map[string]bool{}
		for _, v := range viols {
			if !seen[v.Sig] {
				t.Errorf("%s\n  %s", v.Sig, v.What)
			}
			seen[v.Sig] = true
		}
	case "C12":
		var rp struct {
			Features string    `json:"features"`
			Prior    []c12Step `json:"prior"`
		}
		if err := json.Unmarshal(doc.Replay, &rp); err != nil {
			t.Fatal(err)
		}
		boot, srcLogs, err := c12Boot(ctx)
		if err != nil {
			t.Fatal(err)
		}
		for _, m := range c12Modes() {
			if m.Name != rp.Features {
				continue
			}
			st := &c12Stats{states: map[string]bool{}, outcomes: map[string]int64{}}
			viols, err := runC12Prior(ctx, boot, srcLogs[m.Name], m, rp.Prior, st)
			if err != nil {
				t.Fatal(err)
			}
			t.Logf("[%s] prior %v: import outcomes %v", m.Name, stepNames(rp.Prior), st.outcomes)
			for _, v := range viols {
				t.Errorf("%s\n  %s", v.Sig, v.What)
			}
		}
	default:
		t.Fatalf("not a pimport replay: property %q", doc.Property)
	}
}
