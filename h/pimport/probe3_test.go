package pimport

import (
	"context"
	"testing"

	ledger "github.com/formancehq/ledger/internal"
	"github.com/formancehq/ledger/internal/api/bulking"
	ledgercontroller "github.com/formancehq/ledger/internal/controller/ledger"
	"github.com/formancehq/ledger/verifh/lx"
	"github.com/formancehq/ledger/verifh/world"
)

func runBulkProbe(ctx context.Context, ctrl ledgercontroller.Controller, atomic bool, els ...bulking.BulkElement) ([]bulking.BulkElementResult, error) {
	bulk := make(bulking.Bulk, len(els))
	for _, e := range els {
		bulk <- e
	}
	close(bulk)
	res := make(chan bulking.BulkElementResult, len(els))
	err := bulking.NewBulker(ctrl).Run(ctx, bulk, res, bulking.BulkingOptions{Atomic: atomic})
	var out []bulking.BulkElementResult
	for r := range res {
		out = append(out, r)
	}
	return out, err
}

func TestProbe3(t *testing.T) {
	ctx := context.Background()
	boot, err := lx.Boot(ctx, []lx.LedgerSpec{{Name: "src"}, {Name: "dst"}})
	if err != nil {
		t.Fatal(err)
	}
	w := world.Attach(boot.Clone())
	src, _ := w.Sys.GetLedgerController(ctx, "src")
	dst, _ := w.Sys.GetLedgerController(ctx, "dst")
	for _, op := range []lx.Op{
		{Kind: "post", Postings: []lx.P{{"world", "a", "USD", "100"}}},
		{Kind: "post", Postings: []lx.P{{"world", "a", "USD", "100"}}},
	} {
		lx.Apply(ctx, src, op)
	}
	var logs []ledger.Log
	_ = src.Export(ctx, ledgercontroller.ExportWriterFn(func(ctx context.Context, l ledger.Log) error {
		logs = append(logs, l)
		return nil
	}))
	imp := func(c ledgercontroller.Controller) error {
		ch := make(chan ledger.Log)
		go func() {
			for _, l := range logs {
				ch <- l
			}
			close(ch)
		}()
		err := c.Import(ctx, ch)
		for range ch {
		}
		return err
	}
	t.Logf("import: %v", imp(dst))
	el := bulking.BulkElement{Action: bulking.ActionCreateTransaction, Data: bulking.TransactionRequest{Postings: ledger.Postings{lx.P{"world", "b", "USD", "1"}.Posting()}}}
	pgA := w.PG.Clone()
	wa := world.Attach(pgA)
	dstA, _ := wa.Sys.GetLedgerController(ctx, "dst")
	res, err := runBulkProbe(ctx, dstA, true, el)
	t.Logf("atomic bulk after import: err=%v", err)
	for _, r := range res {
		t.Logf("  result: logID=%d err=%v data=%v", r.LogID, r.Error, r.Data)
	}
	var state string
	_ = wa.Bun.NewRaw(`select state from _system.ledgers where name='dst'`).Scan(ctx, &state)
	t.Logf("state=%s", state)

	// C12: atomic bulk on pristine ledger then import
	pgB := boot.Clone()
	wb := world.Attach(pgB)
	dstB, _ := wb.Sys.GetLedgerController(ctx, "dst")
	res, err = runBulkProbe(ctx, dstB, true, el)
	t.Logf("atomic bulk on pristine: err=%v res=%+v", err, res)
	_ = wb.Bun.NewRaw(`select state from _system.ledgers where name='dst'`).Scan(ctx, &state)
	t.Logf("state=%s", state)
	logs2 := logs
	t.Logf("import (ids 1,2 overlapping): %v", imp(dstB))
	logs = logs2[1:]
	t.Logf("import (id 2 later): %v", imp(dstB))
	dl, _ := lx.ListLogs(ctx, dstB)
	t.Logf("dst logs: %d", len(dl))
}
