// Package pimport holds the checks of the log-hash / export / import group:
// C10 (SQL and Go log hashing agree), C11 (export then import reproduces the ledger and
// the copy stays writable) and the sequential half of C12 (import only on pristine ledgers).
package pimport

import (
	"context"
	"encoding/json"
	"errors"
	"fmt"
	"os"
	"runtime"
	"runtime/debug"
	"strings"
	"sync"
	"sync/atomic"
	"time"

	"github.com/formancehq/go-libs/v5/pkg/types/metadata"
	libtime "github.com/formancehq/go-libs/v5/pkg/types/time"
	"github.com/jackc/pgx/v5/pgconn"

	ledger "github.com/formancehq/ledger/internal"
	"github.com/formancehq/ledger/internal/api/bulking"
	ledgercontroller "github.com/formancehq/ledger/internal/controller/ledger"
	"github.com/formancehq/ledger/verifh/ev"
	"github.com/formancehq/ledger/verifh/lx"
	"github.com/formancehq/ledger/verifh/pgsim"
	"github.com/formancehq/ledger/verifh/world"
)

var pgsimAssumption = "pgsim: hand-written in-process model of the Postgres subset the ledger uses (READ COMMITTED MVCC, row/advisory locks, unique indexes, sequences, triggers, PL/pgSQL, bytea escape format, encode/digest); it cannot be validated against a real server in this sandbox"

func skipGoose(schema, table string) bool { return table == "goose_db_version" }

func dumpOf(pg *pgsim.DB) string { return pg.DumpFiltered(false, skipGoose) }

// bootLedgers is lx.Boot with one twist: every ledger is created from a freshly attached
// world (a new database session). Bucket migration 17 creates a session-lifetime
// temporary table (`create temporary table transactions_ids`, never dropped), so
// migrating a second bucket over the same pooled connection fails with 42P07
// "relation already exists" — on pgsim as it would on a server. A new session per
// ledger is the equivalent of the pool handing out another connection.
func bootLedgers(ctx context.Context, ledgers []lx.LedgerSpec) (*pgsim.DB, error) {
	w, err := world.NewSystem(ctx)
	if err != nil {
		return nil, err
	}
	pg := w.PG
	w.Close()
	for _, l := range ledgers {
		wl := world.Attach(pg)
		conf := ledger.Configuration{Bucket: l.Bucket}
		if l.Features != nil {
			conf.Features = map[string]string{}
			for k, v := range l.Features {
				conf.Features[k] = v
			}
		}
		err := wl.CreateLedger(ctx, l.Name, conf)
		wl.Close()
		if err != nil {
			return nil, fmt.Errorf("create ledger %s: %w", l.Name, err)
		}
	}
	if len(pg.SkippedInMigration) > 0 {
		return nil, fmt.Errorf("pgsim skipped migration statements: %v", pg.SkippedInMigration)
	}
	return pg, nil
}

// exportLogs runs the real Export and collects the stream.
func exportLogs(ctx context.Context, c ledgercontroller.Controller) ([]ledger.Log, error) {
	var logs []ledger.Log
	err := c.Export(ctx, ledgercontroller.ExportWriterFn(func(_ context.Context, l ledger.Log) error {
		logs = append(logs, l)
		return nil
	}))
	return logs, err
}

// importLogs feeds the logs to the real Import (the channel is pre-filled and closed,
// so an Import that stops early never blocks the producer).
func importLogs(ctx context.Context, c ledgercontroller.Controller, logs []ledger.Log) error {
	ch := make(chan ledger.Log, len(logs))
	for _, l := range logs {
		ch <- l
	}
	close(ch)
	return c.Import(ctx, ch)
}

// ledgerState reads _system.ledgers.state.
func ledgerState(ctx context.Context, w *world.World, name string) (string, error) {
	var state string
	err := w.Bun.NewRaw(`select state from _system.ledgers where name = ?`, name).Scan(ctx, &state)
	return state, err
}

// isSQLError tells a database-level failure (a statement Postgres refused) from a
// business / validation rejection.
func isSQLError(err error) (string, bool) {
	var pe *pgconn.PgError
	if errors.As(err, &pe) {
		return pe.Code, true
	}
	if err != nil && strings.Contains(err.Error(), "SQLSTATE") {
		return "?", true
	}
	return "", false
}

// ---------- write paths ----------

const (
	pathSingle = "single"
	pathBulk   = "bulk"
	pathAtomic = "atomic-bulk"
)

// toBulkElement translates an lx.Op into the bulk element the HTTP layer would build
// (ok=false for kinds the bulk API does not have: schema insertion, dry run).
func toBulkElement(op lx.Op) (bulking.BulkElement, bool) {
	md := func(m map[string]string) metadata.Metadata {
		if m == nil {
			return nil
		}
		out := metadata.Metadata{}
		for k, v := range m {
			out[k] = v
		}
		return out
	}
	if op.DryRun {
		return bulking.BulkElement{}, false
	}
	raw := func(v any) json.RawMessage { b, _ := json.Marshal(v); return b }
	switch op.Kind {
	case "post", "script":
		req := bulking.TransactionRequest{Reference: op.Ref, Metadata: md(op.Meta), Force: op.Force, Runtime: ledger.RuntimeType(op.Runtime)}
		if op.TSOff != nil {
			req.Timestamp = libtime.New(lx.Base.Add(time.Duration(*op.TSOff) * time.Microsecond))
		}
		if op.AccMeta != nil {
			req.AccountMetadata = map[string]metadata.Metadata{}
			for a, m := range op.AccMeta {
				req.AccountMetadata[a] = md(m)
			}
		}
		if op.Kind == "post" {
			for _, p := range op.Postings {
				req.Postings = append(req.Postings, p.Posting())
			}
		} else {
			req.Script.Plain = op.Script
			req.Script.Template = op.Template
			req.Script.Vars = map[string]any{}
			for k, v := range op.Vars {
				req.Script.Vars[k] = v
			}
		}
		return bulking.BulkElement{Action: bulking.ActionCreateTransaction, IdempotencyKey: op.IK, Data: req}, true
	case "revert":
		return bulking.BulkElement{Action: bulking.ActionRevertTransaction, IdempotencyKey: op.IK,
			Data: bulking.RevertTransactionRequest{ID: op.TxID, Force: op.Force, AtEffectiveDate: op.AtEff, Metadata: md(op.Meta)}}, true
	case "txmeta":
		return bulking.BulkElement{Action: bulking.ActionAddMetadata, IdempotencyKey: op.IK,
			Data: bulking.AddMetadataRequest{TargetType: ledger.MetaTargetTypeTransaction, TargetID: raw(op.TxID), Metadata: md(op.Meta)}}, true
	case "accmeta":
		return bulking.BulkElement{Action: bulking.ActionAddMetadata, IdempotencyKey: op.IK,
			Data: bulking.AddMetadataRequest{TargetType: ledger.MetaTargetTypeAccount, TargetID: raw(op.Address), Metadata: md(op.Meta)}}, true
	case "deltxmeta":
		return bulking.BulkElement{Action: bulking.ActionDeleteMetadata, IdempotencyKey: op.IK,
			Data: bulking.DeleteMetadataRequest{TargetType: ledger.MetaTargetTypeTransaction, TargetID: raw(op.TxID), Key: op.Key}}, true
	case "delaccmeta":
		return bulking.BulkElement{Action: bulking.ActionDeleteMetadata, IdempotencyKey: op.IK,
			Data: bulking.DeleteMetadataRequest{TargetType: ledger.MetaTargetTypeAccount, TargetID: raw(op.Address), Key: op.Key}}, true
	}
	return bulking.BulkElement{}, false
}

// elemResult is what one element of a write request returned, whatever the path.
type elemResult struct {
	Err   error
	LogID uint64
	TxID  *uint64 // id of the created / revert transaction, when the element creates one
}

type writeResult struct {
	RunErr error        // error of the request as a whole (Bulker.Run)
	Elems  []elemResult // one per element that reported a result
	Wanted int          // number of elements submitted
}

func (w writeResult) allOK() bool {
	if w.RunErr != nil || len(w.Elems) != w.Wanted {
		return false
	}
	for _, e := range w.Elems {
		if e.Err != nil {
			return false
		}
	}
	return true
}

func (w writeResult) describe() string {
	var parts []string
	if w.RunErr != nil {
		parts = append(parts, "request error: "+w.RunErr.Error())
	}
	if len(w.Elems) != w.Wanted {
		parts = append(parts, fmt.Sprintf("%d results for %d elements", len(w.Elems), w.Wanted))
	}
	for i, e := range w.Elems {
		if e.Err != nil {
			parts = append(parts, fmt.Sprintf("element %d: %v", i, e.Err))
		} else if e.TxID != nil {
			parts = append(parts, fmt.Sprintf("element %d: ok log=%d tx=%d", i, e.LogID, *e.TxID))
		} else {
			parts = append(parts, fmt.Sprintf("element %d: ok log=%d", i, e.LogID))
		}
	}
	return strings.Join(parts, "; ")
}

// runBulk drives the real Bulker over the given controller, exactly like the v2 bulk
// handler does (pre-filled closed request channel, result channel of the same size).
func runBulk(ctx context.Context, c ledgercontroller.Controller, atomic bool, ops []lx.Op) (writeResult, error) {
	bulk := make(bulking.Bulk, len(ops))
	for _, op := range ops {
		el, ok := toBulkElement(op)
		if !ok {
			return writeResult{}, fmt.Errorf("op %s has no bulk form", op)
		}
		bulk <- el
	}
	close(bulk)
	res := make(chan bulking.BulkElementResult, len(ops))
	err := bulking.NewBulker(c).Run(ctx, bulk, res, bulking.BulkingOptions{Atomic: atomic})
	out := writeResult{RunErr: err, Wanted: len(ops)}
	if err != nil {
		// Run returned before (or without) closing the result channel
		for {
			select {
			case r, ok := <-res:
				if !ok {
					return out, nil
				}
				out.Elems = append(out.Elems, elemOf(r))
				continue
			default:
			}
			return out, nil
		}
	}
	for r := range res {
		out.Elems = append(out.Elems, elemOf(r))
	}
	return out, nil
}

func elemOf(r bulking.BulkElementResult) elemResult {
	e := elemResult{Err: r.Error, LogID: r.LogID}
	if tx, ok := r.Data.(ledger.Transaction); ok {
		e.TxID = tx.ID
	}
	return e
}

// runWrite performs ops through one write path: single = one controller call per op.
func runWrite(ctx context.Context, c ledgercontroller.Controller, path string, ops []lx.Op) (writeResult, error) {
	switch path {
	case pathSingle:
		out := writeResult{Wanted: len(ops)}
		for _, op := range ops {
			o := applyRecover(ctx, c, op)
			if o.Class == "ENGINE" {
				return out, fmt.Errorf("engine error in %s: %v", op, o.Err)
			}
			e := elemResult{Err: o.Err}
			if o.Err == nil {
				if o.Log != nil && o.Log.ID != nil {
					e.LogID = *o.Log.ID
				}
				if o.Tx != nil {
					e.TxID = o.Tx.ID
				}
			}
			out.Elems = append(out.Elems, e)
		}
		return out, nil
	case pathBulk:
		return runBulk(ctx, c, false, ops)
	case pathAtomic:
		return runBulk(ctx, c, true, ops)
	}
	return writeResult{}, fmt.Errorf("unknown path %q", path)
}

// applyRecover is lx.Apply for requests whose failure the oracle judges: a panic of the
// code under test while serving the request is a failed request (the HTTP layer would
// answer 500), not a crash of the check.
func applyRecover(ctx context.Context, c ledgercontroller.Controller, op lx.Op) (out lx.Outcome) {
	defer func() {
		if p := recover(); p != nil {
			out = lx.Outcome{Err: fmt.Errorf("panic while serving the request: %v", p), Class: "panic"}
		}
	}()
	return lx.Apply(ctx, c, op)
}

func engineIn(w writeResult) error {
	if w.RunErr != nil && strings.Contains(w.RunErr.Error(), "pgsim:") {
		return w.RunErr
	}
	for _, e := range w.Elems {
		if e.Err != nil && strings.Contains(e.Err.Error(), "pgsim:") {
			return e.Err
		}
	}
	return nil
}

// ---------- small utilities ----------

// parallel runs fn(i) for i in [0,n) on NumCPU workers; it stops early when the budget
// is used up or an engine error was recorded, and reports whether everything ran.
func parallel(r *ev.Run, n int, fn func(i int)) bool {
	var next atomic.Int64
	var stopped atomic.Bool
	var wg sync.WaitGroup
	for w := 0; w < runtime.NumCPU(); w++ {
		wg.Add(1)
		go func() {
			defer wg.Done()
			for {
				i := int(next.Add(1) - 1)
				if i >= n {
					return
				}
				if r.Expired() || r.HasEngineError() {
					stopped.Store(true)
					return
				}
				func() {
					defer func() {
						if p := recover(); p != nil {
							r.EngineError(fmt.Sprintf("panic in case %d: %v\n%s", i, p, debug.Stack()))
						}
					}()
					fn(i)
				}()
			}
		}()
	}
	wg.Wait()
	return !stopped.Load()
}

// quietStdout silences os.Stdout while the exploration runs: pond's default panic
// handler (bulker worker pool) prints recovered panics there, and stdout carries the
// protocol lines of the check. The returned function restores it.
func quietStdout() func() {
	old := os.Stdout
	null, err := os.OpenFile(os.DevNull, os.O_WRONLY, 0)
	if err != nil {
		return func() {}
	}
	os.Stdout = null
	return func() {
		os.Stdout = old
		_ = null.Close()
	}
}

func opNames(ops []lx.Op) []string {
	out := make([]string, len(ops))
	for i, o := range ops {
		out[i] = o.String()
	}
	return out
}

func cloneOps(ops []lx.Op) []lx.Op { return append([]lx.Op(nil), ops...) }
