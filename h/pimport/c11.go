package pimport

import (
	"context"
	"crypto/sha256"
	"encoding/hex"
	"encoding/json"
	"fmt"
	"sort"
	"strings"
	"sync"
	"time"

	ledger "github.com/formancehq/ledger/internal"
	ledgercontroller "github.com/formancehq/ledger/internal/controller/ledger"
	"github.com/formancehq/ledger/internal/storage/common"
	"github.com/formancehq/ledger/verifh/ev"
	"github.com/formancehq/ledger/verifh/lx"
	"github.com/formancehq/ledger/verifh/pgsim"
	"github.com/formancehq/ledger/verifh/phttp"
	"github.com/formancehq/ledger/verifh/reg"
	"github.com/formancehq/ledger/verifh/world"
)

const hourUs = int64(3600_000_000)

const big64 = "18446744073709551617" // 2^64+1

// strings of the C10 menu that the controller path admits everywhere (C10 measured:
// nothing is rejected there), chosen so that the source writes themselves succeed: the
// idempotency key avoids the backslash forms that make the hash trigger fail (C10).
const (
	advValue = "q\"\\<&>é\u2028\n\t\x01\x7f\U0001F600%\\101"
	advRef   = "r'\"<\\é"
	advIK    = "i'k é<&\""
	advKey   = "k\"<é"
)

const c11Chart = `{"chart":{"world":{},"a":{".self":{},".metadata":{"d":{"default":"dx"}},"b":{}},"c":{},"z":{}}}`

// c11Alphabet is the source-history alphabet: every log type, simplest first.
// Transaction ids 1 and 2 are the targets of reverts / metadata operations (they exist
// or not depending on the prefix; both cases matter).
func c11Alphabet() []lx.Op {
	back := -hourUs
	p := func(s, d, a, n string) lx.P { return lx.P{Src: s, Dst: d, Ast: a, Amt: n} }
	return []lx.Op{
		{Kind: "post", Name: "fund-a", Postings: []lx.P{p("world", "a", "USD", "100")}, Meta: map[string]string{"k": "v"}},
		{Kind: "post", Name: "a>c30", Postings: []lx.P{p("a", "c", "USD", "30")}},
		{Kind: "post", Name: "multi-huge-adv", Postings: []lx.P{p("world", "c", "USD", big64), p("world", "a", "EUR/2", "5"), p("a", "a:b", "EUR/2", "5")},
			Meta: map[string]string{advKey: advValue}, Ref: advRef, IK: advIK, AccMeta: map[string]map[string]string{"c": {"am": advValue}}},
		{Kind: "post", Name: "back-dated", Postings: []lx.P{p("world", "a", "USD", "7")}, TSOff: &back},
		{Kind: "script", Name: "allot-meta", Script: "send [USD 10] (\n source = @a\n destination = {\n 1/3 to @c\n remaining to @a:b\n }\n)\nset_account_meta(@c, \"tag\", \"x\")\nset_tx_meta(\"st\", \"y\")"},
		{Kind: "revert", Name: "revert1", TxID: 1, Meta: map[string]string{"why": advValue}},
		{Kind: "revert", Name: "revert2-force-eff", TxID: 2, Force: true, AtEff: true},
		// reachable at depth 2 (quick): the reverting transaction is dated at the original's
		// timestamp while revertedAt is the date of the revert — the two dates the import of a
		// REVERTED_TRANSACTION log must keep apart (seeded change C11)
		{Kind: "revert", Name: "revert1-force-eff", TxID: 1, Force: true, AtEff: true},
		{Kind: "accmeta", Name: "accmeta-a", Address: "a", Meta: map[string]string{"k": advValue}},
		{Kind: "txmeta", Name: "txmeta1", TxID: 1, Meta: map[string]string{"m": "x"}},
		{Kind: "deltxmeta", Name: "deltxmeta1", TxID: 1, Key: "k"},
		{Kind: "delaccmeta", Name: "delaccmeta-a", Address: "a", Key: "k"},
		{Kind: "schema", Name: "schema-v1", Schema: "v1", SchemaData: c11Chart},
		{Kind: "post", Name: "post@v1", Postings: []lx.P{p("world", "a", "USD", "3")}, Schema: "v1"},
		{Kind: "post", Name: "dry", Postings: []lx.P{p("world", "a", "USD", "1")}, DryRun: true},
	}
}

// c11Writes are the post-import write kinds (one operation each).
func c11Writes() []lx.Op {
	return []lx.Op{
		{Kind: "post", Name: "w-post", Postings: []lx.P{{Src: "world", Dst: "z", Ast: "USD", Amt: "1"}}},
		{Kind: "script", Name: "w-script", Script: "send [USD 2] (\n source = @world\n destination = @z\n)\nset_account_meta(@z, \"t\", \"u\")"},
		{Kind: "revert", Name: "w-revert1", TxID: 1, Force: true},
		{Kind: "txmeta", Name: "w-txmeta1", TxID: 1, Meta: map[string]string{"pm": "x"}},
		{Kind: "accmeta", Name: "w-accmeta", Address: "a", Meta: map[string]string{"pk": "pv"}},
		{Kind: "deltxmeta", Name: "w-deltxmeta1", TxID: 1, Key: "k"},
		{Kind: "delaccmeta", Name: "w-delaccmeta", Address: "a", Key: "k"},
		{Kind: "schema", Name: "w-schema", Schema: "v9", SchemaData: `{"chart":{}}`},
	}
}

var c11Filler = lx.Op{Kind: "post", Name: "w-post2", Postings: []lx.P{{Src: "world", Dst: "z", Ast: "EUR/2", Amt: "4"}}}

func createsTx(op lx.Op) bool { return op.Kind == "post" || op.Kind == "script" || op.Kind == "revert" }

// ---------- snapshots through the read API ----------

type snapshot struct {
	Parts         map[string]string // part name -> canonical JSON
	Soft          map[string]string // fields the property does not name (insertion / update dates)
	MaxTx, MaxLog uint64
}

func j(v any) string { b, _ := json.Marshal(v); return string(b) }

func takeSnapshot(ctx context.Context, c ledgercontroller.Controller) (*snapshot, error) {
	s := &snapshot{Parts: map[string]string{}, Soft: map[string]string{}}
	f := lx.FeatOf(c.Info())
	expand := []string{"volumes"}
	accExpand := []string{}
	if f.MovesHistory {
		accExpand = append(accExpand, "volumes")
	}
	if f.EffectiveVolumes {
		expand = append(expand, "effectiveVolumes")
		accExpand = append(accExpand, "effectiveVolumes")
	}
	txs, err := lx.ListTxs(ctx, c, common.ResourceQuery[any]{Expand: expand})
	if err != nil {
		return nil, fmt.Errorf("ListTransactions: %w", err)
	}
	var txRows, txSoft []any
	for _, t := range txs {
		if t.ID != nil && *t.ID > s.MaxTx {
			s.MaxTx = *t.ID
		}
		txRows = append(txRows, map[string]any{"id": t.ID, "postings": t.Postings, "timestamp": t.Timestamp, "reference": t.Reference,
			"metadata": t.Metadata, "revertedAt": t.RevertedAt, "postCommitVolumes": t.PostCommitVolumes,
			"postCommitEffectiveVolumes": t.PostCommitEffectiveVolumes, "template": t.Template})
		txSoft = append(txSoft, map[string]any{"id": t.ID, "insertedAt": t.InsertedAt, "updatedAt": t.UpdatedAt})
	}
	s.Parts["transactions"], s.Soft["transactions.insertedAt/updatedAt"] = j(txRows), j(txSoft)
	accs, err := lx.ListAccs(ctx, c, common.ResourceQuery[any]{Expand: accExpand})
	if err != nil {
		return nil, fmt.Errorf("ListAccounts: %w", err)
	}
	var accRows, accSoft []any
	for _, a := range accs {
		accRows = append(accRows, map[string]any{"address": a.Address, "metadata": a.Metadata, "firstUsage": a.FirstUsage,
			"volumes": a.Volumes, "effectiveVolumes": a.EffectiveVolumes})
		accSoft = append(accSoft, map[string]any{"address": a.Address, "insertionDate": a.InsertionDate, "updatedAt": a.UpdatedAt})
	}
	s.Parts["accounts"], s.Soft["accounts.insertionDate/updatedAt"] = j(accRows), j(accSoft)
	vols, err := lx.ListVols(ctx, c, common.ResourceQuery[ledger.GetVolumesOptions]{})
	if err != nil {
		return nil, fmt.Errorf("GetVolumesWithBalances: %w", err)
	}
	s.Parts["volumes"] = j(vols)
	ab, err := c.GetAggregatedBalances(ctx, common.ResourceQuery[ledger.GetAggregatedVolumesOptions]{})
	if err != nil {
		return nil, fmt.Errorf("GetAggregatedBalances: %w", err)
	}
	s.Parts["aggregated-balances"] = j(ab)
	logs, err := lx.ListLogs(ctx, c)
	if err != nil {
		return nil, fmt.Errorf("ListLogs: %w", err)
	}
	var logRows, hashRows []any
	for _, l := range logs {
		if l.ID != nil && *l.ID > s.MaxLog {
			s.MaxLog = *l.ID
		}
		logRows = append(logRows, map[string]any{"id": l.ID, "type": l.Type, "date": l.Date, "data": l.Data,
			"idempotencyKey": l.IdempotencyKey, "idempotencyHash": l.IdempotencyHash, "schemaVersion": l.SchemaVersion})
		hashRows = append(hashRows, map[string]any{"id": l.ID, "hash": hex.EncodeToString(l.Hash)})
	}
	s.Parts["logs"], s.Parts["hashes"] = j(logRows), j(hashRows)
	return s, nil
}

var snapshotParts = []string{"transactions", "accounts", "volumes", "aggregated-balances", "logs", "hashes"}

// firstDiff renders the neighbourhood of the first differing byte.
func firstDiff(a, b string) string {
	i := 0
	for i < len(a) && i < len(b) && a[i] == b[i] {
		i++
	}
	lo := i - 80
	if lo < 0 {
		lo = 0
	}
	cut := func(s string) string {
		hi := i + 120
		if hi > len(s) {
			hi = len(s)
		}
		if lo > len(s) {
			return ""
		}
		return s[lo:hi]
	}
	return fmt.Sprintf("source …%s… / copy …%s…", cut(a), cut(b))
}

// refSigCounts says which CheckCurrent signatures belong to what C11 names
// (transactions, accounts' metadata / first usage / volumes, volumes, balances, logs).
func refSigCounts(sig string) bool {
	if sig == "acc:insertion-date" {
		return false
	}
	for _, p := range []string{"tx:", "acc:", "vol:", "agg:", "log:", "read:"} {
		if strings.HasPrefix(sig, p) {
			return true
		}
	}
	return false
}

// ---------- one history ----------

type c11Ledgers struct {
	Specs []lx.LedgerSpec
	Src   string
	Dsts  []c11Dst
}

type c11Dst struct{ Name, Mode string }

func c11Setup() c11Ledgers {
	return c11Ledgers{
		// dsth is reserved for the HTTP leg (export and import through the v2 routes)
		Specs: []lx.LedgerSpec{{Name: "src"}, {Name: "dsta"}, {Name: "dstb", Bucket: "b2"}, {Name: "dsth"}},
		Src:   "src",
		Dsts:  []c11Dst{{"dsta", "same-bucket"}, {"dstb", "other-bucket"}},
	}
}

type c11Stats struct {
	mu                                      sync.Mutex
	histories, transitions, imports, writes int64
	httpLegs, httpLegsWithIDHoles           int64 // export/import through the v2 routes; with holes in the log ids
	writesNA                                int64 // write kinds the source itself refuses after that history
	states                                  map[string]bool
	logTypes                                map[string]int64
	writeOK                                 map[string]int64 // path/kind -> successes checked
	soft                                    map[string]int64
}

type c11Viol struct {
	Sig, What string
	Replay    map[string]any
}

// seqBehind reports whether the ledger's id sequences would hand out an id that is
// already taken (evaluated on a throw-away clone: nextval is not transactional).
func seqBehind(ctx context.Context, pg *pgsim.DB, name string, maxTx, maxLog uint64) (bool, string) {
	w := world.Attach(pg.Clone())
	defer w.Close()
	c, err := w.Sys.GetLedgerController(ctx, name)
	if err != nil {
		return false, err.Error()
	}
	l := c.Info()
	var nt, nl int64
	if err := w.Bun.NewRaw(fmt.Sprintf(`select nextval('"%s"."transaction_id_%d"')`, l.Bucket, l.ID)).Scan(ctx, &nt); err != nil {
		return false, err.Error()
	}
	if err := w.Bun.NewRaw(fmt.Sprintf(`select nextval('"%s"."log_id_%d"')`, l.Bucket, l.ID)).Scan(ctx, &nl); err != nil {
		return false, err.Error()
	}
	behind := (maxTx > 0 && uint64(nt) <= maxTx) || (maxLog > 0 && uint64(nl) <= maxLog)
	return behind, fmt.Sprintf("before the write nextval(transaction_id)=%d with max transaction id %d, nextval(log_id)=%d with max log id %d", nt, maxTx, nl, maxLog)
}

// runC11History executes one source history and every oracle; it returns the
// violations in a deterministic order. sink (optional) receives a one-line summary.
func runC11History(ctx context.Context, boot *pgsim.DB, L c11Ledgers, path []lx.Op, st *c11Stats, sink func(map[string]any)) ([]c11Viol, error) {
	var viols []c11Viol
	add := func(sig, what string, extra map[string]any) {
		rp := map[string]any{"ledgers": L.Specs, "history": path}
		for k, v := range extra {
			rp[k] = v
		}
		viols = append(viols, c11Viol{Sig: sig, What: fmt.Sprintf("after source history %v: %s", opNames(path), what), Replay: rp})
	}
	pg := boot.Clone()
	w := world.Attach(pg)
	defer w.Close()
	src, err := w.Sys.GetLedgerController(ctx, L.Src)
	if err != nil {
		return nil, err
	}
	ref := lx.NewRef()
	var transitions int64
	for _, op := range path {
		out := lx.Apply(ctx, src, op)
		transitions++
		if out.Class == "ENGINE" {
			return nil, fmt.Errorf("engine error in %s: %v", op, out.Err)
		}
		if err := ref.Commit(op, out); err != nil {
			return nil, fmt.Errorf("reference cannot follow %s: %v", op, err)
		}
	}
	srcDump := dumpOf(pg)
	// ----- export
	logs, err := exportLogs(ctx, src)
	if err != nil {
		if lx.Classify(err) == "ENGINE" {
			return nil, err
		}
		add("C11:export:error", fmt.Sprintf("Export failed: %v", err), nil)
		return viols, nil
	}
	srcSnap, err := takeSnapshot(ctx, src)
	if err != nil {
		return nil, fmt.Errorf("source snapshot: %w", err)
	}
	srcRep := &lx.Report{}
	lx.CheckCurrent(ctx, src, ref, srcRep)
	srcSigs := map[string]bool{}
	for _, m := range srcRep.Items {
		srcSigs[m.Sig] = true
	}
	// ----- import into each copy
	imported := map[string]*snapshot{}
	for _, d := range L.Dsts {
		dst, err := w.Sys.GetLedgerController(ctx, d.Name)
		if err != nil {
			return nil, err
		}
		if err := importLogs(ctx, dst, logs); err != nil {
			if lx.Classify(err) == "ENGINE" {
				return nil, err
			}
			add("C11:import:"+d.Mode+":error", fmt.Sprintf("Import of the %d exported logs into fresh ledger %s failed: %v", len(logs), d.Name, err), map[string]any{"copy": d})
			continue
		}
		snap, err := takeSnapshot(ctx, dst)
		if err != nil {
			if lx.Classify(err) == "ENGINE" {
				return nil, err
			}
			add("C11:snapshot:"+d.Mode+":read-error", fmt.Sprintf("reading the copy %s failed: %v", d.Name, err), map[string]any{"copy": d})
			continue
		}
		imported[d.Name] = snap
		for _, part := range snapshotParts {
			if srcSnap.Parts[part] != snap.Parts[part] {
				add("C11:snapshot:"+d.Mode+":"+part, fmt.Sprintf("%s of the copy %s differ from the source: %s", part, d.Name, firstDiff(srcSnap.Parts[part], snap.Parts[part])), map[string]any{"copy": d})
			}
		}
		for k := range srcSnap.Soft {
			if srcSnap.Soft[k] != snap.Soft[k] {
				st.mu.Lock()
				st.soft[d.Mode+":"+k]++
				st.mu.Unlock()
			}
		}
		rep := &lx.Report{}
		lx.CheckCurrent(ctx, dst, ref, rep)
		seen := map[string]bool{}
		for _, m := range rep.Items {
			if strings.HasPrefix(m.Sig, "read:") && strings.HasSuffix(m.Sig, ":ENGINE") {
				return nil, fmt.Errorf("engine error reading copy: %s", m.What)
			}
			if !refSigCounts(m.Sig) || srcSigs[m.Sig] || seen[m.Sig] {
				continue
			}
			seen[m.Sig] = true
			add("C11:snapshot:"+d.Mode+":ref:"+m.Sig, fmt.Sprintf("copy %s disagrees with the reference of the source history where the source agrees: %s", d.Name, m.What), map[string]any{"copy": d})
		}
	}
	// ----- the same copy through the HTTP routes: POST /v2/src/logs/export piped into POST
	// /v2/dsth/logs/import (the handlers carry logic of their own: stream decoding, the
	// goroutine feeding the controller; seeded change C11b made the import handler refuse
	// streams whose ids are not contiguous — ids burnt by rolled-back writes are holes)
	if imported["dsta"] != nil {
		env := phttp.NewEnv(pg)
		ex, _ := env.Do(phttp.Req{Method: "POST", Path: "/v2/" + L.Src + "/logs/export"})
		holes := false // a hole BETWEEN two exported logs
		for i := 1; i < len(logs); i++ {
			if logs[i].ID != nil && logs[i-1].ID != nil && *logs[i].ID != *logs[i-1].ID+1 {
				holes = true
			}
		}
		switch {
		case ex.Status != 200:
			add("C11:http:export:status", fmt.Sprintf("POST /v2/%s/logs/export answered %d %.200s", L.Src, ex.Status, ex.Body), nil)
		default:
			im, _ := env.Do(phttp.Req{Method: "POST", Path: "/v2/dsth/logs/import", Headers: map[string]string{"Content-Type": "application/octet-stream"}, Body: ex.Body})
			if im.Status != 204 {
				add("C11:http:import:status", fmt.Sprintf("the controller-level import of these %d logs succeeded, POST /v2/dsth/logs/import of the exported body answered %d %.300s", len(logs), im.Status, im.Body), nil)
			} else if dsth, err := w.Sys.GetLedgerController(ctx, "dsth"); err == nil {
				if snap, err := takeSnapshot(ctx, dsth); err == nil {
					for _, part := range snapshotParts {
						if srcSnap.Parts[part] != snap.Parts[part] {
							add("C11:http:snapshot:"+part, fmt.Sprintf("%s of the copy made through the HTTP routes differ from the source: %s", part, firstDiff(srcSnap.Parts[part], snap.Parts[part])), nil)
						}
					}
				}
			}
		}
		env.Close()
		st.mu.Lock()
		st.httpLegs++
		if holes {
			st.httpLegsWithIDHoles++
		}
		st.mu.Unlock()
	}
	st.mu.Lock()
	st.histories++
	st.states[hashStr(srcDump)] = true
	st.imports += int64(len(imported))
	for _, l := range logs {
		st.logTypes[l.Type.String()]++
	}
	st.mu.Unlock()

	// ----- the copy stays writable
	// what each write kind does on the source (an in-use ledger) decides applicability
	writes := c11Writes()
	applicable := make([]bool, len(writes))
	for i, wop := range writes {
		ws := world.Attach(pg.Clone())
		c, err := ws.Sys.GetLedgerController(ctx, L.Src)
		if err != nil {
			ws.Close()
			return nil, err
		}
		out := lx.Apply(ctx, c, wop)
		ws.Close()
		transitions++
		if out.Class == "ENGINE" {
			return nil, fmt.Errorf("engine error in %s on source: %v", wop, out.Err)
		}
		applicable[i] = out.OK()
	}
	type variant struct {
		path string
		n    int
	}
	variants := []variant{{pathSingle, 1}, {pathBulk, 1}, {pathBulk, 2}, {pathAtomic, 1}, {pathAtomic, 2}}
	for _, d := range L.Dsts {
		snap := imported[d.Name]
		if snap == nil {
			continue
		}
		behind, behindWhat := seqBehind(ctx, pg, d.Name, snap.MaxTx, snap.MaxLog)
		for _, v := range variants {
			for i, wop := range writes {
				if !applicable[i] {
					st.mu.Lock()
					st.writesNA++
					st.mu.Unlock()
					continue
				}
				if _, ok := toBulkElement(wop); !ok && v.path != pathSingle {
					continue
				}
				ops := []lx.Op{wop}
				if v.n == 2 {
					ops = append(ops, c11Filler)
				}
				wc := world.Attach(pg.Clone())
				c, err := wc.Sys.GetLedgerController(ctx, d.Name)
				if err != nil {
					wc.Close()
					return nil, err
				}
				res, err := runWrite(ctx, c, v.path, ops)
				if err == nil {
					err = engineIn(res)
				}
				if err != nil {
					wc.Close()
					return nil, fmt.Errorf("post-import %s %v on %s: %w", v.path, opNames(ops), d.Name, err)
				}
				transitions += int64(len(ops))
				state, serr := ledgerState(ctx, wc, d.Name)
				wc.Close()
				if serr != nil {
					return nil, fmt.Errorf("reading ledger state: %w", serr)
				}
				extra := map[string]any{"copy": d, "write_path": v.path, "write": ops}
				where := fmt.Sprintf("on the imported copy %s (%s), %s of %v", d.Name, d.Mode, v.path, opNames(ops))
				st.mu.Lock()
				st.writes++
				st.mu.Unlock()
				if !res.allOK() {
					kind := "write-failed"
					diag := ""
					if behind {
						kind, diag = "id-collision", " — "+behindWhat
					}
					add("C11:post-import:"+v.path+":"+kind, fmt.Sprintf("%s failed although the same write succeeds on the source: %s; ledger state afterwards %q%s", where, res.describe(), state, diag), extra)
					continue
				}
				wantLog, wantTx := snap.MaxLog, snap.MaxTx
				for k, e := range res.Elems {
					wantLog++
					if e.LogID != wantLog {
						add("C11:post-import:"+v.path+":wrong-log-id", fmt.Sprintf("%s: element %d got log id %d, want %d (max imported log id %d)", where, k, e.LogID, wantLog, snap.MaxLog), extra)
					}
					if createsTx(ops[k]) {
						wantTx++
						if e.TxID == nil || *e.TxID != wantTx {
							got := "none"
							if e.TxID != nil {
								got = fmt.Sprint(*e.TxID)
							}
							add("C11:post-import:"+v.path+":wrong-tx-id", fmt.Sprintf("%s: element %d got transaction id %s, want %d (max imported transaction id %d)", where, k, got, wantTx, snap.MaxTx), extra)
						}
					}
				}
				if state != ledger.StateInUse {
					add("C11:post-import:"+v.path+":state-not-in-use", fmt.Sprintf("%s succeeded (%s) but _system.ledgers.state is %q", where, res.describe(), state), extra)
				}
				st.mu.Lock()
				st.writeOK[v.path+"/"+wop.Kind]++
				st.mu.Unlock()
			}
		}
	}
	st.mu.Lock()
	st.transitions += transitions
	st.mu.Unlock()
	if sink != nil {
		sink(map[string]any{"history": opNames(path), "exported_logs": len(logs), "copies_imported": len(imported), "violations": len(viols)})
	}
	return viols, nil
}

func hashStr(s string) string {
	h := sha256.Sum256([]byte(s))
	return hex.EncodeToString(h[:8])
}

// enumerate all sequences of length 1..depth over an alphabet of size n, shortest first.
func sequences(n, depth int) [][]int {
	var out [][]int
	var cur [][]int = [][]int{{}}
	for d := 1; d <= depth; d++ {
		var next [][]int
		for _, p := range cur {
			for k := 0; k < n; k++ {
				q := append(append([]int(nil), p...), k)
				next = append(next, q)
			}
		}
		out = append(out, next...)
		cur = next
	}
	return out
}

func runC11(r *ev.Run) (ev.Coverage, []string) {
	ctx := context.Background()
	assumptions := []string{pgsimAssumption}
	L := c11Setup()
	boot, err := bootLedgers(ctx, L.Specs)
	if err != nil {
		r.EngineError("boot: " + err.Error())
		return nil, assumptions
	}
	alpha := c11Alphabet()
	depth := ev.Pick(r, 2, 3)
	seqs := sequences(len(alpha), depth)
	// fixed histories beyond the depth bound, run in both tiers: a log id burnt by a rolled-back
	// write BETWEEN two logs (a hole in the middle of the exported stream; at depth 2 a hole can
	// only precede or follow the single other log)
	idx := func(name string) int {
		for i, op := range alpha {
			if op.Name == name {
				return i
			}
		}
		panic("c11: no op " + name)
	}
	for _, h := range [][]string{{"fund-a", "dry", "a>c30"}, {"fund-a", "dry", "dry", "revert1-force-eff"}} {
		var sq []int
		for _, n := range h {
			sq = append(sq, idx(n))
		}
		if len(sq) > depth {
			seqs = append(seqs, sq)
		}
	}
	st := &c11Stats{states: map[string]bool{}, logTypes: map[string]int64{}, writeOK: map[string]int64{}, soft: map[string]int64{}}
	restore := quietStdout()
	results := make([][]c11Viol, len(seqs))
	ran := make([]bool, len(seqs))
	// samples: the first histories of the enumeration and the first of the last depth
	sampleOf := make([]map[string]any, len(seqs))
	done := parallel(r, len(seqs), func(i int) {
		path := make([]lx.Op, len(seqs[i]))
		for k, x := range seqs[i] {
			path[k] = alpha[x]
		}
		v, err := runC11History(ctx, boot, L, path, st, func(m map[string]any) { sampleOf[i] = m })
		if err != nil {
			r.EngineError(fmt.Sprintf("history %v: %v", opNames(path), err))
			return
		}
		results[i], ran[i] = v, true
	})
	restore()
	// deterministic reporting: shortest history first
	perDepthAll, perDepthRan := map[int]int{}, map[int]int{}
	complete := true
	for i := range seqs {
		perDepthAll[len(seqs[i])]++
		if !ran[i] {
			complete = false
			continue
		}
		perDepthRan[len(seqs[i])]++
		for _, v := range results[i] {
			r.Violation(v.Sig, v.What, v.Replay)
		}
	}
	depthDone := 0
	for d := 1; d <= depth && perDepthRan[d] == perDepthAll[d]; d++ { // (fixed longer histories are extra)
		depthDone = d
	}
	if !r.HasEngineError() && done {
		for _, t := range []string{"NEW_TRANSACTION", "REVERTED_TRANSACTION", "SET_METADATA", "DELETE_METADATA", "INSERTED_SCHEMA"} {
			if st.logTypes[t] == 0 {
				r.EngineError("vacuous: no source history exported a " + t + " log")
			}
		}
		if st.imports == 0 {
			r.EngineError("vacuous: no import succeeded")
		}
		if st.httpLegs == 0 || st.httpLegsWithIDHoles == 0 {
			r.EngineError(fmt.Sprintf("vacuous: HTTP export/import legs run: %d, of which with holes in the log ids (ids burnt by a rolled-back write): %d", st.httpLegs, st.httpLegsWithIDHoles))
		}
		if st.writeOK[pathSingle+"/post"] == 0 {
			r.EngineError("vacuous: no post-import write succeeded through the single path")
		}
	}
	samples := []any{}
	for _, i := range []int{0, 1, 2, len(alpha), len(seqs) - 1} {
		if i >= 0 && i < len(seqs) && sampleOf[i] != nil {
			samples = append(samples, sampleOf[i])
		}
	}
	var soft []string
	for k, n := range st.soft {
		soft = append(soft, fmt.Sprintf("%s differs in %d histories (not named by the property: observation only)", k, n))
	}
	sort.Strings(soft)
	cov := ev.Coverage{
		"states":                           len(st.states),
		"transitions":                      st.transitions,
		"traces_validated_against_impl":    st.histories,
		"samples":                          samples,
		"alphabet":                         len(alpha),
		"depth_target":                     depth,
		"depth_completed":                  depthDone,
		"histories_enumerated":             len(seqs),
		"imports_succeeded":                st.imports,
		"http_export_import_legs":          st.httpLegs,
		"http_legs_with_holes_in_log_ids":  st.httpLegsWithIDHoles,
		"post_import_writes_checked":       st.writes,
		"post_import_writes_inapplicable":  st.writesNA,
		"post_import_success_by_path_kind": st.writeOK,
		"exported_logs_by_type":            st.logTypes,
		"soft_differences":                 soft,
		"exhaustive":                       done && complete,
		"rule":                             "every sequence of length<=depth over the source alphabet (postings incl. 2^64+1, multi-posting, back-dated, adversarial strings in metadata/reference/idempotency key/account metadata; script with set_account_meta/set_tx_meta; reverts; tx/account metadata set and delete; schema insertion and a write under that schema; dry run) on ledger src; real Export -> real Import into a fresh ledger of the same bucket and into one of another bucket, and once more through the HTTP routes (POST /v2/src/logs/export piped into POST /v2/dsth/logs/import, including histories whose log ids have holes); oracle 1: transactions (ids, postings, timestamps, references, metadata, revertedAt, post-commit and effective volumes), accounts (metadata, first usage, volumes), volumes, aggregated balances, logs (ids, types, dates, payloads, idempotency keys, schema versions) and hashes read through the API are equal on source and copy, and the copy agrees with the lx.Ref of the source history wherever the source does; oracle 2: on a clone of the imported database, for each path {single call, non-atomic bulk of 1 and 2, atomic bulk of 1 and 2} x each write kind that the source accepts: the write succeeds, log/transaction ids continue at max imported id + 1, and _system.ledgers.state is in-use",
	}
	return cov, assumptions
}

func init() {
	reg.Register("C11", func() int {
		r := ev.Start("C11", ev.LevelMC, 150*time.Second, 20*time.Minute)
		cov, assumptions := runC11(r)
		return r.Finish(cov, assumptions)
	})
}
