package pimport

import (
	"context"
	"errors"
	"fmt"
	"sort"
	"strings"
	"sync"
	"sync/atomic"
	"time"

	ledger "github.com/formancehq/ledger/internal"
	storagecommon "github.com/formancehq/ledger/internal/storage/common"
	ledgerstore "github.com/formancehq/ledger/internal/storage/ledger"
	"github.com/formancehq/ledger/verifh/ev"
	"github.com/formancehq/ledger/verifh/lx"
	"github.com/formancehq/ledger/verifh/world"
)

// Renumbered imports (shared by C09 and C16): the exported logs of a short source history
// are given EVERY injective assignment of log ids out of a small id range (all orders, with
// and without gaps), re-chained in STREAM order (each log's hash recomputed by
// Log.ComputeHash from the log sent before it, so that the import's own
// stored-hash == stream-hash comparison cannot be what stops a disordered stream) and
// imported into an empty ledger. Import commits one log per SQL transaction in stream
// order, so what the destination holds afterwards is a prefix of the stream, committed in
// that order: the oracles below are evaluated on it.
//
// ids: each of the n logs gets one of maxID ids: n!·C(maxID,n) streams per hashing mode.

type RenumberedCase struct {
	Hashing string   `json:"hashing"` // HASH_LOGS of the destination: SYNC | DISABLED
	IDs     []uint64 `json:"ids"`     // log id given to the i-th log of the stream
}

// renumberSource is the history whose export is renumbered: three transactions (so that log
// ids and transaction ids differ in nothing but name) and one metadata log.
func renumberSource() []lx.Op {
	p := func(s, d, a, n string) lx.P { return lx.P{Src: s, Dst: d, Ast: a, Amt: n} }
	return []lx.Op{
		{Kind: "post", Name: "fund-a", Postings: []lx.P{p("world", "a", "USD", "100")}},
		{Kind: "post", Name: "a>b30", Postings: []lx.P{p("a", "b", "USD", "30")}},
		{Kind: "accmeta", Name: "accmeta-a", Address: "a", Meta: map[string]string{"k": "v"}},
		{Kind: "post", Name: "b>c5", Postings: []lx.P{p("b", "c", "USD", "5")}},
	}
}

func renumberLedgers() []lx.LedgerSpec {
	return []lx.LedgerSpec{
		{Name: "src"},
		{Name: "dst-SYNC", Bucket: "bsync"},
		{Name: "dst-DISABLED", Bucket: "bdis", Features: map[string]string{"HASH_LOGS": "DISABLED"}},
	}
}

// injections enumerates every injective map of n positions into {1..max} (lexicographic).
func injections(n, max int) [][]uint64 {
	var out [][]uint64
	cur := make([]uint64, 0, n)
	used := make([]bool, max+1)
	var rec func()
	rec = func() {
		if len(cur) == n {
			out = append(out, append([]uint64(nil), cur...))
			return
		}
		for v := 1; v <= max; v++ {
			if used[v] {
				continue
			}
			used[v] = true
			cur = append(cur, uint64(v))
			rec()
			cur = cur[:len(cur)-1]
			used[v] = false
		}
	}
	rec()
	return out
}

// renumberStream gives the source logs the ids of the case and re-chains them in stream order.
func renumberStream(src []ledger.Log, ids []uint64) []ledger.Log {
	out := make([]ledger.Log, len(ids))
	var prev *ledger.Log
	for i := range ids {
		l := src[i]
		id := ids[i]
		l.ID = &id
		l.Hash = nil
		l.ComputeHash(prev)
		out[i] = l
		prev = &out[i]
	}
	return out
}

type renumberVerdict struct {
	Sig, What string
}

// runRenumbered imports one renumbered stream into the (empty) destination of a clone of
// boot and evaluates the oracles named in want ("C09", "C16").
func runRenumbered(ctx context.Context, boot *world.World, src []ledger.Log, c RenumberedCase, want string) (verdicts []renumberVerdict, accepted bool, stored int, err error) {
	pg := boot.PG.Clone()
	w := world.Attach(pg)
	defer w.Close()
	dstName := "dst-" + c.Hashing
	dst, err := w.Sys.GetLedgerController(ctx, dstName)
	if err != nil {
		return nil, false, 0, err
	}
	stream := renumberStream(src, c.IDs)
	ierr := importLogs(ctx, dst, stream)
	if ierr != nil && lx.Classify(ierr) == "ENGINE" {
		return nil, false, 0, ierr
	}
	// read back through a freshly attached stack
	w2 := world.Attach(pg)
	defer w2.Close()
	c2, err := w2.Sys.GetLedgerController(ctx, dstName)
	if err != nil {
		return nil, false, 0, err
	}
	logs, err := lx.ListLogs(ctx, c2)
	if err != nil {
		return nil, false, 0, err
	}
	sort.Slice(logs, func(i, j int) bool { return *logs[i].ID < *logs[j].ID })
	add := func(sig, format string, a ...any) {
		verdicts = append(verdicts, renumberVerdict{sig, fmt.Sprintf("import of a stream with log ids %v into empty %s (result: %v): ", c.IDs, dstName, ierr) + fmt.Sprintf(format, a...)})
	}
	// what is stored must be a prefix of the stream (one commit per log, in stream order)
	storedIDs := map[uint64]bool{}
	for _, l := range logs {
		storedIDs[*l.ID] = true
	}
	k := 0
	for k < len(c.IDs) && storedIDs[c.IDs[k]] {
		k++
	}
	if k != len(logs) {
		return nil, false, 0, fmt.Errorf("harness: stored log ids %v are not a prefix of the stream %v", keysOf(storedIDs), c.IDs)
	}
	if ierr == nil && k != len(c.IDs) {
		add(want+":import:accepted-but-incomplete", "Import returned nil, %d of %d logs stored", k, len(c.IDs))
	}
	switch want {
	case "C16":
		// commit order = stream order: a later commit must not carry a smaller id
		for i := 1; i < k; i++ {
			if c.IDs[i] < c.IDs[i-1] {
				add("C16:import:log-id-decreases-in-commit-order", "log %d was committed after log %d", c.IDs[i], c.IDs[i-1])
				break
			}
		}
		// and the first regular write after an accepted import (ids with gaps included) commits
		// later than every imported log: its log id must be above all of them
		if ierr == nil && k > 0 {
			var maxID uint64
			for _, id := range c.IDs {
				if id > maxID {
					maxID = id
				}
			}
			out := lx.Apply(ctx, c2, lx.Op{Kind: "post", Name: "write-after-import", Postings: []lx.P{{Src: "world", Dst: "z", Ast: "USD", Amt: "1"}}})
			switch {
			case out.Class == "ENGINE":
				return nil, false, 0, out.Err
			case !out.OK():
				add("C16:import:write-after-import-refused", "the first write after the import failed: %v", out.Err)
			case out.Log == nil || out.Log.ID == nil || *out.Log.ID <= maxID:
				add("C16:import:write-after-import-gets-a-smaller-log-id", "the first write after the import got log id %v, the import committed log ids up to %d", out.Log.ID, maxID)
			}
		}
	case "C09":
		if c.Hashing != "SYNC" {
			break
		}
		// the documented chain: in id order, every stored hash is ComputeHash(previous by id)
		var prev *ledger.Log
		for i := range logs {
			cp := logs[i]
			cp.Hash = nil
			cp.ComputeHash(prev)
			if string(cp.Hash) != string(logs[i].Hash) {
				from := "none"
				if prev != nil {
					from = fmt.Sprint(*prev.ID)
				}
				add("C09:import:stored-chain-not-linear-in-id-order", "stored hash of log %d is not the chain hash over its predecessor in id order (log %s)", *logs[i].ID, from)
				break
			}
			prev = &logs[i]
		}
		// and the export of what was stored can be verified by a re-import elsewhere: same statement
	}
	return verdicts, ierr == nil, k, nil
}

func keysOf(m map[uint64]bool) []uint64 {
	var out []uint64
	for k := range m {
		out = append(out, k)
	}
	sort.Slice(out, func(i, j int) bool { return out[i] < out[j] })
	return out
}

// renumberBoot creates the three ledgers, runs the source history and exports it.
func renumberBoot(ctx context.Context) (*world.World, []ledger.Log, error) {
	pg, err := bootLedgers(ctx, renumberLedgers())
	if err != nil {
		return nil, nil, err
	}
	w := world.Attach(pg)
	c, err := w.Sys.GetLedgerController(ctx, "src")
	if err != nil {
		return nil, nil, err
	}
	for _, op := range renumberSource() {
		if out := lx.Apply(ctx, c, op); !out.OK() {
			return nil, nil, fmt.Errorf("source history: %s: %v", op.Name, out.Err)
		}
	}
	logs, err := exportLogs(ctx, c)
	if err != nil {
		return nil, nil, err
	}
	return w, logs, nil
}

// RenumberedImports is the sequential part of C09 and C16 (want = the property id).
func RenumberedImports(want string) func(r *ev.Run) (map[string]any, bool) {
	return func(r *ev.Run) (map[string]any, bool) {
		ctx := context.Background()
		restore := quietStdout()
		defer restore()
		w, src, err := renumberBoot(ctx)
		if err != nil {
			r.EngineError(want + " renumbered imports: " + err.Error())
			return nil, false
		}
		defer w.Close()
		hashings := []string{"SYNC", "DISABLED"}
		if want == "C09" {
			hashings = []string{"SYNC"}
		}
		n := ev.Pick(r, 3, 4)
		maxID := ev.Pick(r, 4, 5)
		var cases []RenumberedCase
		for _, h := range hashings {
			for _, ids := range injections(n, maxID) {
				cases = append(cases, RenumberedCase{Hashing: h, IDs: ids})
			}
		}
		var done, acceptedAll, rejected, disordered, disorderedStored atomic.Int64
		var mu sync.Mutex
		outcomes := map[string]int{}
		complete := parallel(r, len(cases), func(i int) {
			c := cases[i]
			vs, acc, stored, err := runRenumbered(ctx, w, src[:n], c, want)
			if err != nil {
				r.EngineError(fmt.Sprintf("%s renumbered import %v/%s: %v", want, c.IDs, c.Hashing, err))
				return
			}
			done.Add(1)
			inOrder := sort.SliceIsSorted(c.IDs, func(a, b int) bool { return c.IDs[a] < c.IDs[b] })
			if acc {
				acceptedAll.Add(1)
			} else {
				rejected.Add(1)
			}
			if !inOrder {
				disordered.Add(1)
				if stored > 0 {
					disorderedStored.Add(1)
				}
			}
			mu.Lock()
			outcomes[fmt.Sprintf("%s/in-order=%v/accepted=%v/stored=%d", c.Hashing, inOrder, acc, stored)]++
			mu.Unlock()
			for _, v := range vs {
				r.Violation(v.Sig, v.What, map[string]any{"kind": "renumbered-import", "case": c, "logs": n})
			}
		})
		if r.ViolationCount() == 0 && complete {
			// vacuity: ordered streams (gaps included) are imported in full, disordered ones leave
			// their ordered prefix behind
			if acceptedAll.Load() == 0 {
				r.EngineError(want + " renumbered imports: vacuous, no stream was accepted")
			}
			if disorderedStored.Load() == 0 {
				r.EngineError(want + " renumbered imports: vacuous, no disordered stream stored anything")
			}
		}
		var keys []string
		for k := range outcomes {
			keys = append(keys, k)
		}
		sort.Strings(keys)
		var os []string
		for _, k := range keys {
			os = append(os, fmt.Sprintf("%s ×%d", k, outcomes[k]))
		}
		return map[string]any{
			"kind":               "renumbered imports into an empty ledger",
			"streams":            len(cases),
			"streams_executed":   done.Load(),
			"logs_per_stream":    n,
			"id_range":           maxID,
			"hashing_modes":      hashings,
			"accepted_in_full":   acceptedAll.Load(),
			"rejected":           rejected.Load(),
			"disordered_streams": disordered.Load(),
			"outcomes":           strings.Join(os, "; "),
			"rule":               fmt.Sprintf("the export of a %d-log history under EVERY injective assignment of log ids from 1..%d (every order, with and without gaps), hashes re-chained in stream order, imported into an empty ledger per hashing mode; oracle on what the destination holds afterwards (a prefix of the stream, one commit per log in stream order); C16 also: the first regular write after an import accepted in full gets a log id above every imported one", n, maxID),
		}, complete
	}
}

// ReplayRenumbered re-executes one recorded case (used by `vcheck replay`).
func ReplayRenumbered(want string, c RenumberedCase, n int) ([][2]string, error) {
	ctx := context.Background()
	restore := quietStdout()
	defer restore()
	w, src, err := renumberBoot(ctx)
	if err != nil {
		return nil, err
	}
	defer w.Close()
	if n <= 0 || n > len(src) {
		n = len(c.IDs)
	}
	vs, _, _, err := runRenumbered(ctx, w, src[:n], c, want)
	if err != nil {
		return nil, err
	}
	var out [][2]string
	for _, v := range vs {
		out = append(out, [2]string{v.Sig, v.What})
	}
	return out, nil
}

// ---------- C14: a reference reused through the import path ----------

// ReusedReferenceImports is the sequential part of C14: the import is the one write path on
// which the CLIENT chooses the transaction id. The export of a history of four transactions
// carrying the references r1, r2, "" and r4 is re-sent with the reference of transaction k
// replaced by the reference of an earlier transaction j (every pair j<k, and every k given
// its own reference again as the control), hashes re-chained in stream order, into an empty
// ledger (HASH_LOGS SYNC and DISABLED). Oracle: the import stops AT log k with an error that
// is a reference conflict (errors.Is ErrTransactionReferenceConflict), the logs before k stay,
// nothing of log k or after is stored, and no reference is carried by two transactions.
func ReusedReferenceImports() func(r *ev.Run) (map[string]any, bool) {
	return reusedReferenceImports(nil)
}

// ReusedRefCase is one stream of the family (what a replay file records).
type ReusedRefCase struct {
	Hashing string `json:"hashing"`
	K       int    `json:"k"` // 0-based index of the log whose reference is replaced
	J       int    `json:"j"` // index of the log whose reference it takes (J==K: control)
}

// ReplayReusedReference re-executes one recorded case; the oracle's findings are printed as
// VIOLATION lines by the run. Returns their number.
func ReplayReusedReference(c ReusedRefCase) (int, error) {
	r := ev.Start("C14", ev.LevelMC, 5*time.Minute, 5*time.Minute)
	reusedReferenceImports(&c)(r)
	if r.HasEngineError() {
		return 0, fmt.Errorf("engine error during the replay (printed above)")
	}
	return r.ViolationCount(), nil
}

func reusedReferenceImports(only *ReusedRefCase) func(r *ev.Run) (map[string]any, bool) {
	return func(r *ev.Run) (map[string]any, bool) {
		ctx := context.Background()
		restore := quietStdout()
		defer restore()
		pg, err := bootLedgers(ctx, renumberLedgers())
		if err != nil {
			r.EngineError("C14 reused-reference imports: " + err.Error())
			return nil, false
		}
		w := world.Attach(pg)
		defer w.Close()
		c, err := w.Sys.GetLedgerController(ctx, "src")
		if err != nil {
			r.EngineError("C14 reused-reference imports: " + err.Error())
			return nil, false
		}
		p := func(s, d, a, n string) lx.P { return lx.P{Src: s, Dst: d, Ast: a, Amt: n} }
		refs := []string{"r1", "r2", "", "r4"}
		for i, ref := range refs {
			op := lx.Op{Kind: "post", Name: fmt.Sprintf("tx%d", i+1), Postings: []lx.P{p("world", "a", "USD", fmt.Sprint(i+1))}, Ref: ref}
			if out := lx.Apply(ctx, c, op); !out.OK() {
				r.EngineError(fmt.Sprintf("C14 reused-reference imports: source history: %v", out.Err))
				return nil, false
			}
		}
		src, err := exportLogs(ctx, c)
		if err != nil || len(src) != len(refs) {
			r.EngineError(fmt.Sprintf("C14 reused-reference imports: export: %d logs, %v", len(src), err))
			return nil, false
		}
		type rcase = ReusedRefCase
		var cases []rcase
		for _, h := range []string{"SYNC", "DISABLED"} {
			for k := 0; k < len(refs); k++ {
				for j := 0; j <= k; j++ {
					if j < k && refs[j] == "" {
						continue // the empty reference may be shared
					}
					cases = append(cases, rcase{h, k, j})
				}
			}
		}
		if only != nil {
			cases = []rcase{*only}
		}
		var conflicts, controls atomic.Int64
		complete := parallel(r, len(cases), func(i int) {
			cs := cases[i]
			stream := make([]ledger.Log, len(src))
			var prev *ledger.Log
			for n := range src {
				l := src[n]
				if n == cs.K {
					ct := l.Data.(ledger.CreatedTransaction)
					tx := ct.Transaction
					tx.Reference = refs[cs.J]
					ct.Transaction = tx
					l.Data = ct
				}
				l.Hash = nil
				l.ComputeHash(prev)
				stream[n] = l
				prev = &stream[n]
			}
			pgc := pg.Clone()
			wc := world.Attach(pgc)
			defer wc.Close()
			dstName := "dst-" + cs.Hashing
			dst, err := wc.Sys.GetLedgerController(ctx, dstName)
			if err != nil {
				r.EngineError(err.Error())
				return
			}
			ierr := importLogs(ctx, dst, stream)
			if ierr != nil && lx.Classify(ierr) == "ENGINE" {
				r.EngineError(fmt.Sprintf("C14 reused-reference import %+v: %v", cs, ierr))
				return
			}
			w2 := world.Attach(pgc)
			defer w2.Close()
			c2, err := w2.Sys.GetLedgerController(ctx, dstName)
			if err != nil {
				r.EngineError(err.Error())
				return
			}
			logs, err := lx.ListLogs(ctx, c2)
			if err != nil {
				r.EngineError(err.Error())
				return
			}
			txs, err := lx.ListTxs(ctx, c2, storagecommon.ResourceQuery[any]{})
			if err != nil {
				r.EngineError(err.Error())
				return
			}
			viol := func(sig, format string, a ...any) {
				r.Violation(sig, fmt.Sprintf("import into empty %s of a 4-transaction stream in which transaction %d carries the reference %q of transaction %d (result: %v): ", dstName, cs.K+1, refs[cs.J], cs.J+1, ierr)+fmt.Sprintf(format, a...),
					map[string]any{"kind": "reused-reference-import", "case": cs})
			}
			seen := map[string]uint64{}
			for _, tx := range txs {
				if tx.Reference == "" {
					continue
				}
				if other, dup := seen[tx.Reference]; dup {
					viol("C14:import:reference-stored-twice", "transactions %d and %d both carry reference %q", other, *tx.ID, tx.Reference)
				}
				seen[tx.Reference] = *tx.ID
			}
			if cs.J == cs.K {
				controls.Add(1)
				if ierr != nil || len(logs) != len(src) {
					viol("C14:import:control-rejected", "the unmodified references were refused (%d logs stored)", len(logs))
				}
				return
			}
			conflicts.Add(1)
			switch {
			case ierr == nil:
				viol("C14:import:reused-reference-accepted", "Import returned nil")
			case !errors.Is(ierr, ledgerstore.ErrTransactionReferenceConflict{}):
				// (whatever wraps it: an import error answered 400 is still a reference conflict)
				viol("C14:import:reused-reference:error-kind:"+lx.Classify(ierr), "the error is not a reference conflict")
			}
			if len(logs) != cs.K || len(txs) != cs.K {
				viol("C14:import:reused-reference:effect", "%d logs and %d transactions stored, expected the %d before the conflicting one", len(logs), len(txs), cs.K)
			}
		})
		if only == nil && complete && r.ViolationCount() == 0 && (conflicts.Load() == 0 || controls.Load() == 0) {
			r.EngineError("C14 reused-reference imports: vacuous")
		}
		return map[string]any{
			"kind":           "imports of a stream in which a transaction reuses an earlier reference",
			"streams":        len(cases),
			"conflict_cases": conflicts.Load(),
			"control_cases":  controls.Load(),
			"rule":           "export of 4 transactions with references r1, r2, (none), r4; for every k and every earlier j with a reference, transaction k re-sent with j's reference (hashes re-chained), plus the unmodified stream as control, into an empty ledger with HASH_LOGS SYNC and DISABLED; oracle: the import fails at log k with a reference conflict, exactly the k-1 logs before it are stored, no reference is stored twice",
		}, complete
	}
}
