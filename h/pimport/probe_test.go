package pimport

import (
	"context"
	"encoding/json"
	"fmt"
	"strings"
	"testing"

	ledger "github.com/formancehq/ledger/internal"
	ledgercontroller "github.com/formancehq/ledger/internal/controller/ledger"
	"github.com/formancehq/ledger/verifh/lx"
	"github.com/formancehq/ledger/verifh/world"
)

func TestProbe(t *testing.T) {
	ctx := context.Background()
	boot, err := lx.Boot(ctx, []lx.LedgerSpec{{Name: "src"}, {Name: "dst"}})
	if err != nil {
		t.Fatal(err)
	}
	pg := boot.Clone()
	w := world.Attach(pg)
	src, err := w.Sys.GetLedgerController(ctx, "src")
	if err != nil {
		t.Fatal(err)
	}
	dst, _ := w.Sys.GetLedgerController(ctx, "dst")
	ops := []lx.Op{
		{Kind: "post", Postings: []lx.P{{"world", "a", "USD", "100"}}, IK: "k1", Ref: "r1", Meta: map[string]string{"a": "b"}},
		{Kind: "script", Script: "send [USD 10] (\n source = @a\n destination = @c\n)\nset_account_meta(@c, \"tag\", \"x\")\nset_tx_meta(\"m\", \"y\")"},
		{Kind: "revert", TxID: 1, Force: true},
		{Kind: "accmeta", Address: "a", Meta: map[string]string{"k": "v"}},
		{Kind: "txmeta", TxID: 1, Meta: map[string]string{"m": "x"}},
		{Kind: "deltxmeta", TxID: 1, Key: "m"},
		{Kind: "delaccmeta", Address: "a", Key: "k"},
		{Kind: "schema", Schema: "v1", SchemaData: `{"chart":{}}`},
		{Kind: "post", Postings: []lx.P{{"world", "a", "USD", "1"}}, Schema: "v1"},
	}
	for _, op := range ops {
		out := lx.Apply(ctx, src, op)
		t.Logf("%s -> %v class=%q", op, out.Err, out.Class)
	}
	var logs []ledger.Log
	err = src.Export(ctx, ledgercontroller.ExportWriterFn(func(ctx context.Context, l ledger.Log) error {
		logs = append(logs, l)
		return nil
	}))
	t.Logf("export: %v, %d logs", err, len(logs))
	var prev *ledger.Log
	for i := range logs {
		l := logs[i]
		stored := fmt.Sprintf("%x", l.Hash)
		c := l
		c.Hash = nil
		c.ComputeHash(prev)
		{
			b, _ := json.Marshal(l)
			t.Logf("json: %s", b)
		}
		t.Logf("log %d %s stored=%s go=%x eq=%v", *l.ID, l.Type, stored[:12], c.Hash[:6], stored == fmt.Sprintf("%x", c.Hash))
		prev = &logs[i]
	}
	{
		var txt string
		err := w.Bun.NewRaw(`select '{' ||
	       '"type":"' || r.type || '",' ||
	       '"data":' || encode(r.memento, 'escape') || ',' ||
	       '"date":"' || (to_json(r.date::timestamp)#>>'{}') || 'Z",' ||
	       '"idempotencyKey":"' || coalesce(r.idempotency_key, '') || '",' ||
	       '"id":0,' ||
	       '"hash":null' || case when r.schema_version is not null then ',"schemaVersion":"' || r.schema_version || '"' else '' end || '}' from "_default".logs r where id = 9 and ledger = 'src'`).Scan(ctx, &txt)
		t.Logf("sql text: %v %s", err, txt)
		var h1, h2, h3 []byte
		err = w.Bun.NewRaw(`select "_default".compute_hash((select hash from "_default".logs where id = 8 and ledger='src'), r) from "_default".logs r where id = 9 and ledger = 'src'`).Scan(ctx, &h1)
		t.Logf("sql compute_hash: %v %x", err, h1)
		err = w.Bun.NewRaw(`select public.digest('"' || encode((select hash from "_default".logs where id = 8 and ledger='src')::bytea, 'base64')::bytea || E'"\n' || ?::bytea || E'\n', 'sha256'::text)`, txt).Scan(ctx, &h2)
		t.Logf("sql digest: %v %x", err, h2)
		err = w.Bun.NewRaw(`select public.digest('"' || encode((select hash from "_default".logs where id = 8 and ledger='src')::bytea, 'base64')::bytea || E'"\n' || ?::bytea || E'\n', 'sha256'::text)`, strings.Replace(txt, `,"schemaVersion":"v1"`, "", 1)).Scan(ctx, &h3)
		t.Logf("sql digest w/o sv: %v %x", err, h3)
		l := logs[8]
		l.Hash = nil
		var sb strings.Builder
		enc := json.NewEncoder(&sb)
		_ = enc.Encode(struct {
			Type           ledger.LogType `json:"type"`
			Data           any            `json:"data"`
			Date           any            `json:"date"`
			IdempotencyKey string         `json:"idempotencyKey"`
			ID             int            `json:"id"`
			Hash           []byte         `json:"hash"`
			SchemaVersion  string         `json:"schemaVersion,omitempty"`
		}{l.Type, l.Data.(ledger.Memento).GetMemento(), l.Date, l.IdempotencyKey, 0, nil, l.SchemaVersion})
		t.Logf("go  text: %s", sb.String())
	}
	ch := make(chan ledger.Log)
	go func() {
		for _, l := range logs {
			ch <- l
		}
		close(ch)
	}()
	err = dst.Import(ctx, ch)
	t.Logf("import: %v", err)
	dl, err := lx.ListLogs(ctx, dst)
	t.Logf("dst logs %d %v", len(dl), err)
}
