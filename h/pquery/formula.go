package pquery

import (
	"encoding/json"
	"fmt"
	"math/big"
	"regexp"
	"sort"
	"strings"
	"time"

	"github.com/formancehq/go-libs/v5/pkg/query"
)

// Atom is one leaf of the filter language: {op: {field: value}}.
type Atom struct {
	ID    int    // index in the resource's atom list (stable across histories)
	Field string // address, metadata[k], balance[USD/2], timestamp, …
	Canon string // canonical field name for signatures when Field is an alias
	Op    string // $match $lt $lte $gt $gte $exists $in
	// exactly one of the following is the value
	S    *string
	N    *big.Int
	B    *bool
	T    *time.Time
	List []string
}

const dateLayout = "2006-01-02T15:04:05.000000Z"

func (a *Atom) value() any {
	switch {
	case a.S != nil:
		return *a.S
	case a.N != nil:
		return json.Number(a.N.String())
	case a.B != nil:
		return *a.B
	case a.T != nil:
		return a.T.UTC().Format(dateLayout)
	default:
		l := make([]any, len(a.List))
		for i, s := range a.List {
			l[i] = s
		}
		return l
	}
}

var indexRe = regexp.MustCompile(`\[.*\]`)

// addrKind classifies an address pattern the way the documentation does.
func addrKind(s string) string {
	segs := strings.Split(s, ":")
	if segs[len(segs)-1] == "..." {
		return "prefix"
	}
	for _, g := range segs {
		if g == "" {
			return "partial"
		}
	}
	return "exact"
}

func isAddrField(f string) bool {
	switch f {
	case "address", "account", "source", "destination":
		return true
	}
	return false
}

// shape is the value-free description used in violation signatures:
// field (index erased), address pattern kind, operator.
func (a *Atom) shape() string {
	f := indexRe.ReplaceAllString(a.Field, "[]")
	if a.Canon != "" {
		f = a.Canon
	}
	if isAddrField(a.Field) && a.S != nil {
		f += ":" + addrKind(*a.S)
	}
	if a.N != nil || a.T != nil {
		// the five comparison operators of an ordered field share one code path
		return f + "$cmp"
	}
	return f + a.Op
}

// F is a filter formula.
type F struct {
	Op   string // atom not and or
	A    *Atom
	Kids []*F
}

// All is the absent filter: it selects every entity.
func All() *F { return &F{Op: "all"} }

func At(a *Atom) *F       { return &F{Op: "atom", A: a} }
func Not(f *F) *F         { return &F{Op: "not", Kids: []*F{f}} }
func And(fs ...*F) *F     { return &F{Op: "and", Kids: fs} }
func Or(fs ...*F) *F      { return &F{Op: "or", Kids: fs} }
func (f *F) isAtom() bool { return f.Op == "atom" }

func (f *F) obj() map[string]any {
	switch f.Op {
	case "all":
		// inside a connective the absent filter is the empty conjunction
		return map[string]any{"$and": []any{}}
	case "atom":
		return map[string]any{f.A.Op: map[string]any{f.A.Field: f.A.value()}}
	case "not":
		return map[string]any{"$not": f.Kids[0].obj()}
	default:
		l := make([]any, len(f.Kids))
		for i, k := range f.Kids {
			l[i] = k.obj()
		}
		return map[string]any{"$" + f.Op: l}
	}
}

// JSON is the request body a client would send.
func (f *F) JSON() string {
	if f.Op == "all" {
		return ""
	}
	b, err := json.Marshal(f.obj())
	if err != nil {
		panic(err)
	}
	return string(b)
}

// Builder parses the JSON the way the HTTP layer does.
func (f *F) Builder() (query.Builder, error) { return query.ParseJSON(f.JSON()) }

func (f *F) Shape() string {
	switch f.Op {
	case "all":
		return "no-filter"
	case "atom":
		return f.A.shape()
	default:
		parts := make([]string, len(f.Kids))
		for i, k := range f.Kids {
			parts[i] = k.Shape()
		}
		sort.Strings(parts) // $and / $or are commutative
		return f.Op + "(" + strings.Join(parts, ",") + ")"
	}
}

// Key identifies the formula independently of history-specific values.
func (f *F) Key() string {
	switch f.Op {
	case "all":
		return "T"
	case "atom":
		return fmt.Sprint(f.A.ID)
	default:
		parts := make([]string, len(f.Kids))
		for i, k := range f.Kids {
			parts[i] = k.Key()
		}
		return f.Op[:1] + "(" + strings.Join(parts, ",") + ")"
	}
}

// Eval evaluates with classical two-valued logic: $not is set complement.
func (f *F) Eval(atom func(*Atom) bool) bool {
	switch f.Op {
	case "all":
		return true
	case "atom":
		return atom(f.A)
	case "not":
		return !f.Kids[0].Eval(atom)
	case "and":
		for _, k := range f.Kids {
			if !k.Eval(atom) {
				return false
			}
		}
		return true
	default:
		for _, k := range f.Kids {
			if k.Eval(atom) {
				return true
			}
		}
		return false
	}
}

func (f *F) size() int {
	if f.Op == "all" {
		return 0
	}
	n := 1
	for _, k := range f.Kids {
		n += k.size()
	}
	return n
}

// reductions lists strictly smaller formulas obtained by one simplification step:
// replacing the formula by one of its children, or reducing one child.
func (f *F) reductions() []*F {
	var out []*F
	if f.Op == "atom" {
		return []*F{All()}
	}
	for _, k := range f.Kids {
		out = append(out, k)
	}
	for i, k := range f.Kids {
		for _, r := range k.reductions() {
			kids := append([]*F(nil), f.Kids...)
			kids[i] = r
			out = append(out, &F{Op: f.Op, Kids: kids})
		}
	}
	return out
}

// ---------- enumeration ----------

// depth2 returns every formula of depth <= 2 in the sense of DESIGN §5 (an atom has
// depth 1): a, ¬a, a∧b, a∨b for every atom a and every unordered pair {a,b}.
func depth2(atoms []*Atom) []*F {
	out := []*F{All()}
	for _, a := range atoms {
		out = append(out, At(a))
	}
	for _, a := range atoms {
		out = append(out, Not(At(a)))
	}
	for i, a := range atoms {
		for _, b := range atoms[i+1:] {
			out = append(out, And(At(a), At(b)), Or(At(a), At(b)))
		}
	}
	return out
}

// depth3only returns every formula of depth exactly 3 over atoms: ¬f, f∧g, f∨g where
// f, g have depth <= 2 and at least one has depth 2 ({f,g} unordered, f != g).
func depth3only(atoms []*Atom) []*F {
	d2 := depth2(atoms)[1:] // without the absent filter
	n1 := len(atoms)        // the first n1 entries of d2 have depth 1
	var out []*F
	for _, f := range d2[n1:] {
		out = append(out, Not(f))
	}
	for i, f := range d2 {
		for j := i + 1; j < len(d2); j++ {
			if i < n1 && j < n1 {
				continue
			}
			out = append(out, And(f, d2[j]), Or(f, d2[j]))
		}
	}
	return out
}

// families returns the structured depth-3 families ¬(a∨b), a∧(b∨c), a∨(b∧¬c), ¬(a∧¬b)
// over pairwise distinct atoms.
func families(atoms []*Atom) []*F {
	var out []*F
	for i, a := range atoms {
		for _, b := range atoms[i+1:] {
			out = append(out, Not(Or(At(a), At(b))))
		}
	}
	for i, a := range atoms {
		for j, b := range atoms {
			if j == i {
				continue
			}
			out = append(out, Not(And(At(a), Not(At(b)))))
			for k, c := range atoms {
				if k == i || k == j {
					continue
				}
				if j < k {
					out = append(out, And(At(a), Or(At(b), At(c))))
				}
				out = append(out, Or(At(a), And(At(b), Not(At(c)))))
			}
		}
	}
	return out
}

// ---------- atom construction helpers ----------

type atomList struct {
	l     []*Atom
	alias map[string]string
}

func (al *atomList) add(a *Atom) *Atom {
	a.ID = len(al.l)
	a.Canon = al.alias[a.Field]
	al.l = append(al.l, a)
	return a
}
func (al *atomList) str(field, op, v string) *Atom {
	return al.add(&Atom{Field: field, Op: op, S: &v})
}
func (al *atomList) num(field, op string, v int64) *Atom {
	return al.add(&Atom{Field: field, Op: op, N: big.NewInt(v)})
}
func (al *atomList) boolean(field string, v bool) *Atom {
	return al.add(&Atom{Field: field, Op: "$match", B: &v})
}
func (al *atomList) date(field, op string, t time.Time) *Atom {
	return al.add(&Atom{Field: field, Op: op, T: &t})
}
func (al *atomList) in(field string, vs ...string) *Atom {
	return al.add(&Atom{Field: field, Op: "$in", List: vs})
}

var cmpOps = []string{"$match", "$lt", "$lte", "$gt", "$gte"}
