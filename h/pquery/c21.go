package pquery

import (
	"context"
	"fmt"
	"sort"
	"strconv"
	"strings"
	"sync"
	"sync/atomic"
	"time"

	"github.com/formancehq/go-libs/v5/pkg/query"
	"github.com/formancehq/go-libs/v5/pkg/storage/bun/paginate"

	ledger "github.com/formancehq/ledger/internal"
	ledgercontroller "github.com/formancehq/ledger/internal/controller/ledger"
	"github.com/formancehq/ledger/internal/storage/common"
	"github.com/formancehq/ledger/verifh/ev"
	"github.com/formancehq/ledger/verifh/lx"
	"github.com/formancehq/ledger/verifh/reg"
)

// pageInfo is one fetched page reduced to what C21 talks about.
type pageInfo struct {
	Keys     []string `json:"keys"`
	HasMore  bool     `json:"hasMore"`
	Next     string   `json:"-"`
	Previous string   `json:"-"`
	HasNext  bool     `json:"next"`
	HasPrev  bool     `json:"previous"`
}

// listing is a paginated resource seen through its typed API.
type listing struct {
	Name string
	res  *resource
	// sortKey extracts the part of an entity key the listing is ordered by, and less
	// compares two of them in ascending order.
	sortKey func(key string) string
	less    func(a, b string) bool
	// unique reports whether the sort key alone identifies the entity (false for
	// volumes: several assets share an account).
	unique   bool
	variants func(b *Built, thorough bool) []variant
	filters  func(as atomSet) []*F
	// first fetches the first page, cursor a follow-up page.
	first  func(ctx context.Context, c ledgercontroller.Controller, v variant, qb query.Builder, order paginate.Order, size uint64) (*pageInfo, error)
	cursor func(ctx context.Context, c ledgercontroller.Controller, cur string) (*pageInfo, error)
	// expected lists the reference entities' keys (unordered).
	expected func(sel []*row, v variant) []string
}

func numLess(a, b string) bool {
	x, _ := strconv.ParseUint(a, 10, 64)
	y, _ := strconv.ParseUint(b, 10, 64)
	return x < y
}

func mkPage[T any](c *paginate.Cursor[T], key func(T) string) *pageInfo {
	p := &pageInfo{HasMore: c.HasMore, Next: c.Next, Previous: c.Previous, HasNext: c.Next != "", HasPrev: c.Previous != ""}
	for _, d := range c.Data {
		p.Keys = append(p.Keys, key(d))
	}
	return p
}

func anyListing[T any](name string, res *resource, key func(T) string,
	call func(c ledgercontroller.Controller) func(context.Context, common.PaginatedQuery[any]) (*paginate.Cursor[T], error)) *listing {
	return &listing{
		Name: name, res: res,
		first: func(ctx context.Context, c ledgercontroller.Controller, v variant, qb query.Builder, order paginate.Order, size uint64) (*pageInfo, error) {
			cur, err := call(c)(ctx, common.InitialPaginatedQuery[any]{PageSize: size, Order: &order, Options: rq(qb, v)})
			if err != nil {
				return nil, err
			}
			return mkPage(cur, key), nil
		},
		cursor: func(ctx context.Context, c ledgercontroller.Controller, s string) (*pageInfo, error) {
			q, err := common.UnmarshalCursor[any](s)
			if err != nil {
				return nil, fmt.Errorf("cursor does not decode: %w", err)
			}
			cur, err := call(c)(ctx, q)
			if err != nil {
				return nil, err
			}
			return mkPage(cur, key), nil
		},
	}
}

// curAndPITs: current state and the first point in time (thorough: every point in time).
func curAndPITs(b *Built, thorough bool) []variant {
	vs := []variant{{Name: "cur"}, {Name: "pit0", PIT: &b.PITs[0]}}
	if thorough {
		for i := 1; i < len(b.PITs); i++ {
			vs = append(vs, variant{Name: fmt.Sprintf("pit%d", i), PIT: &b.PITs[i]})
		}
	}
	return vs
}

func identity(s string) string { return s }
func strLess(a, b string) bool { return a < b }

func listings() []*listing {
	txs := anyListing("transactions", resTransactions, func(t ledger.Transaction) string { return fmt.Sprint(*t.ID) },
		func(c ledgercontroller.Controller) func(context.Context, common.PaginatedQuery[any]) (*paginate.Cursor[ledger.Transaction], error) {
			return c.ListTransactions
		})
	txs.sortKey, txs.less, txs.unique = identity, numLess, true
	txs.variants = curAndPITs
	txs.filters = func(as atomSet) []*F {
		a := as.core10
		// account=a:... ; metadata[k]=v ∨ reverted
		return []*F{nil, At(a[0]), Or(At(a[2]), At(a[3]))}
	}
	txs.expected = func(sel []*row, _ variant) []string { return keysOf(sel) }

	logs := anyListing("logs", resLogs, func(l ledger.Log) string { return fmt.Sprint(*l.ID) },
		func(c ledgercontroller.Controller) func(context.Context, common.PaginatedQuery[any]) (*paginate.Cursor[ledger.Log], error) {
			return c.ListLogs
		})
	logs.sortKey, logs.less, logs.unique = identity, numLess, true
	logs.variants = func(*Built, bool) []variant { return []variant{{Name: "cur"}} }
	logs.filters = func(as atomSet) []*F {
		a := as.core6
		// id>=4 ; ¬(type=SET_METADATA) ∨ id<=2
		return []*F{nil, At(a[1]), Or(Not(At(a[4])), At(a[0]))}
	}
	logs.expected = func(sel []*row, _ variant) []string { return keysOf(sel) }

	accs := anyListing("accounts", resAccounts, func(a ledger.Account) string { return a.Address },
		func(c ledgercontroller.Controller) func(context.Context, common.PaginatedQuery[any]) (*paginate.Cursor[ledger.Account], error) {
			return c.ListAccounts
		})
	accs.sortKey, accs.less, accs.unique = identity, strLess, true
	accs.variants = curAndPITs
	accs.filters = func(as atomSet) []*F {
		a := as.core6
		// address=a:... ; metadata $exists k ∨ balance[USD]>0
		return []*F{nil, At(a[0]), Or(At(a[3]), At(a[4]))}
	}
	accs.expected = func(sel []*row, _ variant) []string { return keysOf(sel) }

	volKey := func(x ledger.VolumesWithBalanceByAssetByAccount) string { return volOfAPI(x).String() }
	vols := &listing{
		Name: "volumes", res: resVolumes,
		sortKey: func(k string) string { return k[:strings.Index(k, "|")] },
		less:    strLess,
		unique:  false,
		variants: func(b *Built, thorough bool) []variant {
			vs := []variant{
				{Name: "cur"}, {Name: "cur-g1", Group: 1}, {Name: "cur-g2", Group: 2},
				{Name: "pit0", PIT: &b.PITs[0]}, {Name: "pit0-g1", PIT: &b.PITs[0], Group: 1}, {Name: "pit0-g2", PIT: &b.PITs[0], Group: 2},
			}
			if thorough {
				for i := 1; i < len(b.PITs); i++ {
					for g := 0; g <= 2; g++ {
						vs = append(vs, variant{Name: fmt.Sprintf("pit%d-g%d", i, g), PIT: &b.PITs[i], Group: g},
							variant{Name: fmt.Sprintf("pit%d-ins-g%d", i, g), PIT: &b.PITs[i], Group: g, Ins: true})
					}
				}
			}
			return vs
		},
		filters: func(as atomSet) []*F {
			a := as.core10
			// account=a:... ; balance<0 ∨ metadata[role]=r
			return []*F{nil, At(a[0]), Or(At(a[8]), At(a[2]))}
		},
		first: func(ctx context.Context, c ledgercontroller.Controller, v variant, qb query.Builder, order paginate.Order, size uint64) (*pageInfo, error) {
			cur, err := c.GetVolumesWithBalances(ctx, common.InitialPaginatedQuery[ledger.GetVolumesOptions]{PageSize: size, Order: &order, Options: volQuery(qb, v)})
			if err != nil {
				return nil, err
			}
			return mkPage(cur, volKey), nil
		},
		cursor: func(ctx context.Context, c ledgercontroller.Controller, s string) (*pageInfo, error) {
			q, err := common.UnmarshalCursor[ledger.GetVolumesOptions](s)
			if err != nil {
				return nil, fmt.Errorf("cursor does not decode: %w", err)
			}
			cur, err := c.GetVolumesWithBalances(ctx, q)
			if err != nil {
				return nil, err
			}
			return mkPage(cur, volKey), nil
		},
		expected: func(sel []*row, v variant) []string { return volStrings(volEntities(sel, v.Group)) },
	}
	return []*listing{txs, logs, accs, vols}
}

// scenario is one (listing, history, variant, filter, order) — all page sizes are
// walked inside it.
type c21Scenario struct {
	l      *listing
	hi     int
	v      variant
	f      *F
	fi     int
	order  paginate.Order
	sorted []string // reference entities in the requested order (ties: any order)
}

func orderName(o paginate.Order) string {
	if o == paginate.OrderAsc {
		return "asc"
	}
	return "desc"
}

type c21Stats struct {
	walks, multiPage, threePlus, prevSteps atomic.Int64
	mu                                     sync.Mutex
	perListing                             map[string]*c21ListingStats
}

type c21ListingStats struct {
	Walks       int64 `json:"walks"`
	MultiPage   int64 `json:"multi_page_walks"`
	MaxPages    int   `json:"max_pages"`
	MaxEntities int   `json:"max_entities"`
}

// walk follows next cursors from the first page to the end and previous cursors back,
// returning a structural failure class ("" when the property holds).
func (sc *c21Scenario) walk(ctx context.Context, s *site, size int, st *c21Stats) (kind, what string, pages []*pageInfo) {
	l := sc.l
	var qb query.Builder
	if sc.f != nil {
		var err error
		if qb, err = sc.f.Builder(); err != nil {
			return "engine", err.Error(), nil
		}
	}
	fail := func(k, format string, a ...any) (string, string, []*pageInfo) {
		return k, fmt.Sprintf(format, a...), pages
	}
	classify := func(phase string, err error) (string, string, []*pageInfo) {
		if lx.Classify(err) == "ENGINE" {
			return "engine", err.Error(), pages
		}
		return phase + ":error:" + lx.Classify(err), err.Error(), pages
	}
	n := len(sc.sorted)
	p, err := l.first(ctx, s.Ctrl, sc.v, qb, sc.order, uint64(size))
	if err != nil {
		return classify("next", err)
	}
	pages = append(pages, p)
	for p.HasMore || p.Next != "" {
		if len(pages) > n+2 {
			return fail("next:does-not-terminate", "more than %d pages for %d entities", len(pages), n)
		}
		if p.Next == "" {
			return fail("next:hasMore-without-cursor", "page %d says hasMore but carries no next cursor", len(pages))
		}
		if p, err = l.cursor(ctx, s.Ctrl, p.Next); err != nil {
			return classify("next", err)
		}
		pages = append(pages, p)
	}
	// concatenation = the reference list, each entity once, in the requested order
	var got []string
	for i, pg := range pages {
		if len(pg.Keys) > size {
			return fail("next:page-too-long", "page %d has %d entities for page size %d", i+1, len(pg.Keys), size)
		}
		if i < len(pages)-1 && len(pg.Keys) != size {
			return fail("next:short-inner-page", "page %d of %d has %d entities for page size %d", i+1, len(pages), len(pg.Keys), size)
		}
		got = append(got, pg.Keys...)
	}
	seen := map[string]int{}
	for _, k := range got {
		seen[k]++
	}
	for _, k := range got {
		if seen[k] > 1 {
			return fail("next:duplicate", "entity %s returned %d times; pages=%v", k, seen[k], pageKeys(pages))
		}
	}
	want := map[string]bool{}
	for _, k := range sc.sorted {
		want[k] = true
		if seen[k] == 0 {
			return fail("next:missing", "entity %s never returned; expected %v; pages=%v", k, sc.sorted, pageKeys(pages))
		}
	}
	for _, k := range got {
		if !want[k] {
			return fail("next:unexpected", "entity %s returned but not selected by the reference; expected %v", k, sc.sorted)
		}
	}
	for i := range got {
		a, b := l.sortKey(got[i]), l.sortKey(sc.sorted[i])
		if a != b {
			return fail("next:order", "position %d holds %s, the %s order puts %s there; pages=%v", i, got[i], orderName(sc.order), sc.sorted[i], pageKeys(pages))
		}
	}
	if len(pages) > 1 && len(pages[len(pages)-1].Keys) == 0 {
		return fail("next:empty-last-page", "last of %d pages is empty", len(pages))
	}
	// previous of page k = page k-1
	cur := pages[len(pages)-1]
	for k := len(pages) - 1; k >= 1; k-- {
		if cur.Previous == "" {
			return fail("previous:no-cursor", "page %d of %d has no previous cursor", k+1, len(pages))
		}
		prev, err := l.cursor(ctx, s.Ctrl, cur.Previous)
		if err != nil {
			return classify("previous", err)
		}
		st.prevSteps.Add(1)
		if !equalStrings(prev.Keys, pages[k-1].Keys) {
			return fail("previous:page-mismatch", "previous of page %d returned %v, page %d was %v", k+1, prev.Keys, k, pages[k-1].Keys)
		}
		cur = prev
	}
	return "", "", pages
}

// sortKeys orders entity keys by the listing's sort key in the requested direction.
func sortKeys(l *listing, keys []string, o paginate.Order) []string {
	srt := append([]string(nil), keys...)
	sort.SliceStable(srt, func(i, j int) bool {
		a, b := l.sortKey(srt[i]), l.sortKey(srt[j])
		if a == b {
			return srt[i] < srt[j]
		}
		if o == paginate.OrderAsc {
			return l.less(a, b)
		}
		return l.less(b, a)
	})
	return srt
}

func pageKeys(pages []*pageInfo) [][]string {
	out := make([][]string, len(pages))
	for i, p := range pages {
		out[i] = p.Keys
	}
	return out
}

func runC21() int {
	r := ev.Start("C21", ev.LevelExploration, 120*time.Second, 15*time.Minute)
	ctx := context.Background()
	built, err := build(ctx, histories())
	if err != nil {
		r.EngineError(err.Error())
		return r.Finish(nil, []string{pgsimAssumption})
	}
	st := &c21Stats{perListing: map[string]*c21ListingStats{}}
	samples := ev.NewSamples(6)
	var scs []*c21Scenario
	for _, l := range listings() {
		st.perListing[l.Name] = &c21ListingStats{}
		for hi, b := range built {
			as := l.res.atoms(b)
			for _, v := range l.variants(b, r.Thorough()) {
				rows := l.res.rows(b.Ref, v)
				fs := l.filters(as)
				if r.Thorough() {
					// two more shapes: a negated atom, and a conjunction with a negation
					fs = append(fs, Not(At(as.core6[1])), And(At(as.core6[0]), Not(At(as.core6[2]))))
				}
				for fi, f := range fs {
					keys := l.expected(selectRows(rows, f, l.res.atom), v)
					for _, o := range []paginate.Order{paginate.OrderAsc, paginate.OrderDesc} {
						scs = append(scs, &c21Scenario{l: l, hi: hi, v: v, f: f, fi: fi, order: o, sorted: sortKeys(l, keys, o)})
					}
				}
			}
		}
	}
	var next atomic.Int64
	var stopped atomic.Bool
	var wg sync.WaitGroup
	for w := 0; w < workers(); w++ {
		wg.Add(1)
		go func() {
			defer wg.Done()
			sites := map[int]*site{}
			defer func() {
				for _, s := range sites {
					s.close()
				}
			}()
			for {
				if r.Expired() || r.HasEngineError() {
					stopped.Store(true)
					return
				}
				i := int(next.Add(1) - 1)
				if i >= len(scs) {
					return
				}
				sc := scs[i]
				s := sites[sc.hi]
				if s == nil {
					var err error
					if s, err = built[sc.hi].open(ctx); err != nil {
						r.EngineError("open site: " + err.Error())
						return
					}
					sites[sc.hi] = s
				}
				n := len(sc.sorted)
				for size := 1; size <= n+1; size++ {
					kind, what, pages := sc.walk(ctx, s, size, st)
					st.walks.Add(1)
					ls := st.perListing[sc.l.Name]
					st.mu.Lock()
					ls.Walks++
					if len(pages) > 1 {
						ls.MultiPage++
					}
					if len(pages) > ls.MaxPages {
						ls.MaxPages = len(pages)
					}
					if n > ls.MaxEntities {
						ls.MaxEntities = n
					}
					st.mu.Unlock()
					if len(pages) > 1 {
						st.multiPage.Add(1)
					}
					if len(pages) > 2 {
						st.threePlus.Add(1)
					}
					filter := any(nil)
					if sc.f != nil {
						filter = filterObj(sc.f)
					}
					desc := map[string]any{"listing": sc.l.Name, "history": s.B.H.Name, "variant": sc.v, "filter": filter, "order": orderName(sc.order), "pageSize": size}
					if kind == "engine" {
						r.EngineError(fmt.Sprintf("%v: %s", desc, what))
						return
					}
					if kind != "" {
						sig := "C21:" + sc.l.Name
						if sc.v.Group > 0 {
							sig += ":grouped"
						}
						sig += ":" + orderName(sc.order) + ":" + kind
						desc["history"] = s.B.H
						desc["expected"] = sc.sorted
						desc["pages"] = pages
						r.Violation(sig, fmt.Sprintf("%s history=%s variant=%s filter=%v order=%s pageSize=%d: %s", sc.l.Name, s.B.H.Name, sc.v.Name, jsonOf(sc.f), orderName(sc.order), size, what), desc)
						break // larger page sizes of the same scenario add nothing
					}
					if len(pages) == 3 && size > 1 && sc.fi > 0 {
						desc["pages"] = pageKeys(pages)
						samples.Add(desc)
					}
				}
			}
		}()
	}
	wg.Wait()
	exhaustive := !stopped.Load()
	// ---- API leg: every list route of api.NewRouter, cursors followed by a client
	var apiLeg map[string]any
	if exhaustive && !r.HasEngineError() {
		extra, err := build(ctx, []*History{schemasHistory()})
		if err != nil {
			r.EngineError(err.Error())
		} else {
			var done bool
			apiLeg, done = runC21HTTP(ctx, r, append(append([]*Built(nil), built...), extra...))
			exhaustive = exhaustive && done
		}
	}
	if exhaustive && !r.HasEngineError() {
		for name, ls := range st.perListing {
			if ls.MultiPage == 0 || ls.MaxPages < 3 {
				r.EngineError(fmt.Sprintf("vacuous: listing %s never needed three pages (max %d)", name, ls.MaxPages))
			}
		}
		if st.prevSteps.Load() == 0 {
			r.EngineError("vacuous: no previous cursor was ever followed")
		}
	}
	per := map[string]any{}
	for k, v := range st.perListing {
		per[k] = map[string]any{"walks": v.Walks, "multi_page_walks": v.MultiPage, "max_pages": v.MaxPages, "max_entities": v.MaxEntities}
	}
	return r.Finish(ev.Coverage{
		"evaluations":            st.walks.Load() + apiWalks(apiLeg, "walks"),
		"distinct_nontrivial":    st.multiPage.Load() + apiWalks(apiLeg, "multi_page_walks"),
		"controller_leg_walks":   st.walks.Load(),
		"api_leg":                apiLeg,
		"walks_with_3plus_pages": st.threePlus.Load(),
		"previous_steps":         st.prevSteps.Load(),
		"scenarios":              len(scs),
		"per_listing":            per,
		"rule":                   "3 fixed histories × every paginated listing (transactions by id, logs by id — column paginator; accounts by address, volumes by account with groupLvl 0,1,2 — offset paginator) × current state and one point in time (thorough: every point in time, volumes also by insertion date) × 3 filters (none, an address pattern or id bound, an $or/$not formula; thorough: 5, adding ¬a and a∧¬b) × asc and desc × EVERY page size 1..N+1 (N = number of matching entities, up to 16): follow `next` from the first page to the end, then `previous` from the last page back to the first. Concatenation of the pages must be the reference evaluator's entity set, each once, ordered by the sort key in the requested direction (byte order for addresses; for volumes the sort key is the account, the order of assets within an account is not constrained); every non-final page is full; previous-of-page-k returns page k−1 exactly. distinct_nontrivial = walks that needed at least two pages (both legs). API LEG (api_leg), after the controller leg: the same property as a client of the HTTP API sees it. Every list route of the real api.NewRouter — GET /v2/{ledger}/volumes, /transactions, /accounts, /logs, /schemas, GET /v2 (ledgers), and the v1 routes GET /{ledger}/transactions, /accounts, /balances, /logs — × the FULL cross product of the route's request-level parameter menus, fewest parameters first (volumes: end of window {absent, pit, legacy endTime} × start of window {absent, oot, legacy startTime} × insertionDate {absent, true} × groupBy {absent, 1, 2} × sort {absent, account:desc} × filter {absent, ?query=}; transactions: pit × reverse × sort=id:asc × expand {absent, volumes, effectiveVolumes} × filter; accounts: pit × sort=address:desc × expand × filter; logs: sort=id:asc × filter; schemas (a history with four versions inserted out of name order): sort {absent, version, version:asc, created_at:asc} × order {absent, asc}; ledgers (six ledgers over three buckets, one bucket soft-deleted): includeDeleted {absent, true} × sort=id:desc × bucket filter; v1 transactions: account × source × metadata[k] × startTime|start_time × endTime|end_time (thorough: × destination); v1 accounts: address × metadata[role] × balance+balanceOperator; v1 balances: address; v1 logs: start_time × end_time; the point in time is one minute after the base instant, which the future-dated transactions precede by insertion and follow by effective date, the window start is the first «now» transaction, which the back-dated transactions precede by effective date and follow by insertion; thorough: a second point in time, a second filter, the filter sent in the request body) × the 3 histories × page sizes 1, 2, 3 and «no pageSize parameter» (router default 4; thorough: every size 1..N+1 and none): the first request carries the parameters, every further page is requested with GET route?cursor=<next> ALONE (thorough: also with every parameter sent again beside the cursor), to the end, then `previous` back to the first page. Oracle: the concatenation of the pages equals the SAME request served as one page (pageSize=100): no entity twice, none missing, none extra, every entity the same JSON document (volumes, balances, expanded volumes, metadata), same order by the sort key, every page reports the requested pageSize, inner pages full, previous-of-page-k is page k−1; a request the route refuses must be refused identically whatever the page size; and the one-page listing of every v2 transactions/accounts/logs/volumes request without a window start equals the reference evaluator's selection in the requested order. Vacuity guards of the leg: every route needs three pages at least once, and for EVERY non-absent value of EVERY parameter menu of EVERY route there is a multi-page walk whose one-page listing changes when that parameter alone is dropped (load_bearing_params) — a handler that forgets or re-derives the parameter after the first page cannot pass",
		"samples":                samples.List(),
		"exhaustive":             exhaustive,
	}, []string{pgsimAssumption, httpAssumptionC21,
		"pgsim sorts text bytewise and its sort is stable; tie order between assets of one account in the volumes listing is therefore deterministic here although the SQL does not order by asset",
	})
}

func apiWalks(leg map[string]any, k string) int64 {
	if n, ok := leg[k].(int64); ok {
		return n
	}
	return 0
}

func jsonOf(f *F) string {
	if f == nil {
		return "none"
	}
	return f.JSON()
}

func init() {
	reg.Register("C21", runC21)
}
