package pquery

import (
	"context"
	"os"
	"testing"
)

// TestReplay re-executes the replay file named by PQ_REPLAY (any of C20, C21, C37).
// With PGSIM_TRACE=1 the SQL of the replayed queries follows the line
// "=== REPLAY QUERY ===" on stderr.
func TestReplay(t *testing.T) {
	path := os.Getenv("PQ_REPLAY")
	if path == "" {
		t.Skip("PQ_REPLAY not set")
	}
	out, err := Replay(context.Background(), path)
	if err != nil {
		t.Fatal(err)
	}
	t.Log("\n" + out)
}

// TestMatchAddress pins the reference evaluator's address semantics to the examples the
// repository documents (internal/storage/ledger/accounts_test.go,
// TestAccountsListAddressSegmentMatching) and to the property statement.
func TestMatchAddress(t *testing.T) {
	all := []string{"foo", "foo:a", "foo:d", "foo:a:b", "foo:a:b:c", "foobar", "bar:foo", "a:x:c", "a:b:c"}
	sel := func(p string) []string {
		var out []string
		for _, a := range all {
			if matchAddress(p, a) {
				out = append(out, a)
			}
		}
		return out
	}
	for _, c := range []struct {
		pattern string
		want    []string
	}{
		{"foo:a", []string{"foo:a"}},
		{"foo:", []string{"foo:a", "foo:d"}},
		{"foo::", []string{"foo:a:b"}},
		{"foo:...", []string{"foo", "foo:a", "foo:d", "foo:a:b", "foo:a:b:c"}},
		{"a::c", []string{"a:x:c", "a:b:c"}},
		{"::c", []string{"a:x:c", "a:b:c"}},
		{":foo", []string{"bar:foo"}},
		{"foo:a:...", []string{"foo:a", "foo:a:b", "foo:a:b:c"}},
	} {
		if got := sel(c.pattern); !equalStrings(got, c.want) {
			t.Errorf("pattern %q selects %v, want %v", c.pattern, got, c.want)
		}
	}
}

// TestFormulaCounts pins the sizes of the enumerated formula spaces.
func TestFormulaCounts(t *testing.T) {
	atoms := make([]*Atom, 10)
	for i := range atoms {
		s := "x"
		atoms[i] = &Atom{ID: i, Field: "address", Op: "$match", S: &s}
	}
	if n := len(depth2(atoms)); n != 1+10+10+2*45 {
		t.Errorf("depth2: %d", n)
	}
	if n := len(families(atoms)); n != 45+90+10*36+10*9*8 {
		t.Errorf("families: %d", n)
	}
	d2 := 6 + 6 + 2*15
	if n := len(depth3only(atoms[:6])); n != (d2-6)+2*(d2*(d2-1)/2-15) {
		t.Errorf("depth3only: %d", n)
	}
	for name, fs := range map[string][]*F{"depth2": depth2(atoms), "families": families(atoms), "depth3only": depth3only(atoms[:6])} {
		if n := len(dedupe(append([]*F(nil), fs...))); n != len(fs) {
			t.Errorf("%s enumerates %d formulas twice", name, len(fs)-n)
		}
	}
}
