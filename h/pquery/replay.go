package pquery

import (
	"context"
	"encoding/json"
	"fmt"
	"math/big"
	"os"
	"strings"
	"time"

	"github.com/formancehq/ledger/verifh/lx"
)

// parseF rebuilds a formula from the JSON stored in a replay file.
func parseF(o any) (*F, error) {
	if o == nil {
		return All(), nil
	}
	m, ok := o.(map[string]any)
	if !ok || len(m) != 1 {
		return nil, fmt.Errorf("filter node must be a single-key object, got %v", o)
	}
	for op, v := range m {
		switch op {
		case "$not":
			k, err := parseF(v)
			if err != nil {
				return nil, err
			}
			return Not(k), nil
		case "$and", "$or":
			l, ok := v.([]any)
			if !ok {
				return nil, fmt.Errorf("%s needs an array", op)
			}
			f := &F{Op: op[1:]}
			for _, e := range l {
				k, err := parseF(e)
				if err != nil {
					return nil, err
				}
				f.Kids = append(f.Kids, k)
			}
			return f, nil
		default:
			kv, ok := v.(map[string]any)
			if !ok || len(kv) != 1 {
				return nil, fmt.Errorf("%s needs a single-key object", op)
			}
			for field, val := range kv {
				a := &Atom{Field: field, Op: op}
				switch x := val.(type) {
				case string:
					if isDateField(field) {
						t, err := time.Parse(time.RFC3339Nano, x)
						if err != nil {
							return nil, err
						}
						a.T = &t
					} else {
						a.S = &x
					}
				case bool:
					a.B = &x
				case json.Number:
					n, ok := new(big.Int).SetString(x.String(), 10)
					if !ok {
						return nil, fmt.Errorf("bad number %s", x)
					}
					a.N = n
				case []any:
					for _, e := range x {
						a.List = append(a.List, fmt.Sprint(e))
					}
				default:
					return nil, fmt.Errorf("unsupported value %v", val)
				}
				return At(a), nil
			}
		}
	}
	return nil, fmt.Errorf("empty filter")
}

func isDateField(f string) bool {
	switch f {
	case "timestamp", "inserted_at", "reverted_at", "first_usage", "insertion_date", "date":
		return true
	}
	return false
}

func resourceByName(n string) *resource {
	for _, r := range allResources {
		if r.Name == n {
			return r
		}
	}
	return nil
}

// ReplayC20 re-executes a C20 replay file (history ops + filter JSON + variant) without
// the explorer and returns the verdict text. PGSIM_TRACE=1 shows the SQL.
func ReplayC20(ctx context.Context, path string) (string, error) {
	raw, err := os.ReadFile(path)
	if err != nil {
		return "", err
	}
	var file struct {
		Replay struct {
			Resource string  `json:"resource"`
			History  History `json:"history"`
			Variant  variant `json:"variant"`
			Filter   any     `json:"filter"`
		} `json:"replay"`
	}
	dec := json.NewDecoder(strings.NewReader(string(raw)))
	dec.UseNumber()
	if err := dec.Decode(&file); err != nil {
		return "", err
	}
	rp := file.Replay
	res := resourceByName(rp.Resource)
	if res == nil {
		return "", fmt.Errorf("unknown resource %q", rp.Resource)
	}
	f, err := parseF(rp.Filter)
	if err != nil {
		return "", err
	}
	boot, err := lx.Boot(ctx, []lx.LedgerSpec{{Name: ledgerName}})
	if err != nil {
		return "", err
	}
	b, err := buildOne(ctx, boot, &rp.History)
	if err != nil {
		return "", err
	}
	s, err := b.open(ctx)
	if err != nil {
		return "", err
	}
	defer s.close()
	fmt.Fprintln(os.Stderr, "=== REPLAY QUERY ===") // with PGSIM_TRACE=1 the query's SQL follows this line
	vd := evaluate(ctx, s, res, rp.Variant, res.rows(b.Ref, rp.Variant), f)
	verdict := "OK (implementation agrees with the reference)"
	if vd.bad() {
		verdict = "MISMATCH kind=" + vd.Kind + ": " + vd.Detail
	}
	return fmt.Sprintf("%s filter=%s variant=%s\n  expected: %v\n  listed:   %v\n  %s", res.Name, f.JSON(), rp.Variant.Name, vd.Want, vd.Got, verdict), nil
}
