package pquery

import (
	"context"
	"encoding/json"
	"fmt"
	"math/big"
	"os"
	"strings"
	"time"

	"github.com/formancehq/go-libs/v5/pkg/query"
	"github.com/formancehq/go-libs/v5/pkg/storage/bun/paginate"

	"github.com/formancehq/ledger/internal/storage/common"
	"github.com/formancehq/ledger/verifh/lx"
)

// parseF rebuilds a formula from the JSON stored in a replay file.
func parseF(o any) (*F, error) {
	if o == nil {
		return All(), nil
	}
	m, ok := o.(map[string]any)
	if !ok || len(m) != 1 {
		return nil, fmt.Errorf("filter node must be a single-key object, got %v", o)
	}
	for op, v := range m {
		switch op {
		case "$not":
			k, err := parseF(v)
			if err != nil {
				return nil, err
			}
			return Not(k), nil
		case "$and", "$or":
			l, ok := v.([]any)
			if !ok {
				return nil, fmt.Errorf("%s needs an array", op)
			}
			f := &F{Op: op[1:]}
			for _, e := range l {
				k, err := parseF(e)
				if err != nil {
					return nil, err
				}
				f.Kids = append(f.Kids, k)
			}
			return f, nil
		default:
			kv, ok := v.(map[string]any)
			if !ok || len(kv) != 1 {
				return nil, fmt.Errorf("%s needs a single-key object", op)
			}
			for field, val := range kv {
				a := &Atom{Field: field, Op: op}
				switch x := val.(type) {
				case string:
					if isDateField(field) {
						t, err := time.Parse(time.RFC3339Nano, x)
						if err != nil {
							return nil, err
						}
						a.T = &t
					} else {
						a.S = &x
					}
				case bool:
					a.B = &x
				case json.Number:
					n, ok := new(big.Int).SetString(x.String(), 10)
					if !ok {
						return nil, fmt.Errorf("bad number %s", x)
					}
					a.N = n
				case []any:
					for _, e := range x {
						a.List = append(a.List, fmt.Sprint(e))
					}
				default:
					return nil, fmt.Errorf("unsupported value %v", val)
				}
				return At(a), nil
			}
		}
	}
	return nil, fmt.Errorf("empty filter")
}

func isDateField(f string) bool {
	switch f {
	case "timestamp", "inserted_at", "reverted_at", "first_usage", "insertion_date", "date":
		return true
	}
	return false
}

func resourceByName(n string) *resource {
	for _, r := range allResources {
		if r.Name == n {
			return r
		}
	}
	return nil
}

// ReplayC20 re-executes a C20 replay file (history ops + filter JSON + variant) without
// the explorer and returns the verdict text. PGSIM_TRACE=1 shows the SQL.
func ReplayC20(ctx context.Context, path string) (string, error) {
	raw, err := os.ReadFile(path)
	if err != nil {
		return "", err
	}
	var file struct {
		Replay struct {
			Resource string            `json:"resource"`
			History  History           `json:"history"`
			Features map[string]string `json:"features"` // absent: the default feature set
			Variant  variant           `json:"variant"`
			Filter   any               `json:"filter"`
		} `json:"replay"`
	}
	dec := json.NewDecoder(strings.NewReader(string(raw)))
	dec.UseNumber()
	if err := dec.Decode(&file); err != nil {
		return "", err
	}
	rp := file.Replay
	res := resourceByName(rp.Resource)
	if res == nil {
		return "", fmt.Errorf("unknown resource %q", rp.Resource)
	}
	f, err := parseF(rp.Filter)
	if err != nil {
		return "", err
	}
	var cfg *FeatCfg
	if rp.Features != nil {
		cfg = &FeatCfg{Name: "replayed", Features: rp.Features}
	}
	bs, err := buildCfg(ctx, []*History{&rp.History}, cfg)
	if err != nil {
		return "", err
	}
	b := bs[0]
	s, err := b.open(ctx)
	if err != nil {
		return "", err
	}
	defer s.close()
	v := b.under(rp.Variant)
	fmt.Fprintln(os.Stderr, "=== REPLAY QUERY ===") // with PGSIM_TRACE=1 the query's SQL follows this line
	vd := evaluate(ctx, s, res, v, res.rows(b.Ref, v), f)
	verdict := "OK (implementation agrees with the reference)"
	if vd.bad() {
		verdict = "MISMATCH kind=" + vd.Kind + ": " + vd.Detail
	}
	return fmt.Sprintf("%s features=%v filter=%s variant=%s\n  expected: %v\n  listed:   %v\n  %s", res.Name, rp.Features, f.JSON(), v.Name, vd.Want, vd.Got, verdict), nil
}

// Replay dispatches on the "property" field of a replay file.
func Replay(ctx context.Context, path string) (string, error) {
	raw, err := os.ReadFile(path)
	if err != nil {
		return "", err
	}
	var head struct {
		Property string `json:"property"`
	}
	if err := json.Unmarshal(raw, &head); err != nil {
		return "", err
	}
	switch head.Property {
	case "C20":
		return ReplayC20(ctx, path)
	case "C21":
		return replayC21(ctx, raw)
	case "C37":
		return replayC37(ctx, raw)
	}
	return "", fmt.Errorf("no replayer for property %q", head.Property)
}

func rebuild(ctx context.Context, h *History) (*site, error) {
	boot, err := lx.Boot(ctx, []lx.LedgerSpec{{Name: ledgerName}})
	if err != nil {
		return nil, err
	}
	b, err := buildOne(ctx, boot, h)
	if err != nil {
		return nil, err
	}
	return b.open(ctx)
}

func replayC21(ctx context.Context, raw []byte) (string, error) {
	var head struct {
		Replay struct {
			Leg string `json:"leg"`
		} `json:"replay"`
	}
	if err := json.Unmarshal(raw, &head); err == nil && head.Replay.Leg == "http" {
		return replayC21HTTP(ctx, raw)
	}
	var file struct {
		Replay struct {
			Listing  string  `json:"listing"`
			History  History `json:"history"`
			Variant  variant `json:"variant"`
			Filter   any     `json:"filter"`
			Order    string  `json:"order"`
			PageSize int     `json:"pageSize"`
		} `json:"replay"`
	}
	dec := json.NewDecoder(strings.NewReader(string(raw)))
	dec.UseNumber()
	if err := dec.Decode(&file); err != nil {
		return "", err
	}
	rp := file.Replay
	var l *listing
	for _, x := range listings() {
		if x.Name == rp.Listing {
			l = x
		}
	}
	if l == nil {
		return "", fmt.Errorf("unknown listing %q", rp.Listing)
	}
	var f *F
	if rp.Filter != nil {
		var err error
		if f, err = parseF(rp.Filter); err != nil {
			return "", err
		}
	}
	s, err := rebuild(ctx, &rp.History)
	if err != nil {
		return "", err
	}
	defer s.close()
	order := paginate.Order(paginate.OrderAsc)
	if rp.Order == "desc" {
		order = paginate.OrderDesc
	}
	keys := l.expected(selectRows(l.res.rows(s.B.Ref, rp.Variant), f, l.res.atom), rp.Variant)
	sc := &c21Scenario{l: l, v: rp.Variant, f: f, order: order, sorted: sortKeys(l, keys, order)}
	fmt.Fprintln(os.Stderr, "=== REPLAY QUERY ===")
	kind, what, pages := sc.walk(ctx, s, rp.PageSize, &c21Stats{})
	verdict := "OK (pagination enumerates the reference list exactly once, in order; previous pages match)"
	if kind != "" {
		verdict = "MISMATCH kind=" + kind + ": " + what
	}
	return fmt.Sprintf("%s filter=%s variant=%s order=%s pageSize=%d\n  expected: %v\n  pages:    %v\n  %s", l.Name, jsonOf(f), rp.Variant.Name, rp.Order, rp.PageSize, sc.sorted, pageKeys(pages), verdict), nil
}

func replayC37(ctx context.Context, raw []byte) (string, error) {
	var file struct {
		Replay struct {
			History       History                 `json:"history"`
			Template      string                  `json:"template"`
			Vars          map[string]any          `json:"vars"`
			RequestParams json.RawMessage         `json:"requestParams"`
			Config        common.PaginationConfig `json:"paginationConfig"`
		} `json:"replay"`
	}
	if err := json.Unmarshal(raw, &file); err != nil {
		return "", err
	}
	rp := file.Replay
	var t *tpl
	for _, x := range templates() {
		if x.ID == rp.Template {
			t = x
		}
	}
	if t == nil {
		return "", fmt.Errorf("unknown template %q", rp.Template)
	}
	s, err := rebuild(ctx, &rp.History)
	if err != nil {
		return "", err
	}
	defer s.close()
	ov := string(rp.RequestParams)
	if ov == "null" {
		ov = ""
	}
	full := map[string]any{}
	for k, v := range t.Defaults {
		full[k] = v
	}
	for k, v := range rp.Vars {
		full[k] = v
	}
	eff := defaultParams(t.Resource, rp.Config)
	if err := eff.apply("template", t.Params); err != nil {
		return "", err
	}
	if err := eff.apply("request", ov); err != nil {
		return "", err
	}
	qb, err := query.ParseJSON(t.Direct(full))
	if err != nil {
		return "", err
	}
	fmt.Fprintln(os.Stderr, "=== REPLAY QUERY ===")
	want, werr := walkDirect(ctx, s.Ctrl, t.Resource, eff, qb, rp.Config)
	body := map[string]any{}
	if len(rp.Vars) > 0 {
		body["vars"] = rp.Vars
	}
	if ov != "" {
		body["params"] = json.RawMessage(ov)
	}
	got, _, gerr := walkTemplate(ctx, s.Ctrl, t.ID, body, rp.Config)
	if werr != nil || gerr != nil {
		return fmt.Sprintf("template %s: direct error=%v RunQuery error=%v", t.ID, werr, gerr), nil
	}
	verdict := "OK (RunQuery equals the direct query on every page)"
	if i, d := compareWalks(got, want); d != "" {
		var gp, wp *page
		if i < len(got) {
			gp = got[i]
		}
		if i < len(want) {
			wp = want[i]
		}
		verdict = fmt.Sprintf("MISMATCH page %d (%s)\n  RunQuery: %s\n  direct:   %s", i+1, d, gp.brief(), wp.brief())
	}
	return fmt.Sprintf("template %s vars=%s templateParams=%s requestParams=%s direct filter=%s\n  %s", t.ID, js(rp.Vars), orNull(t.Params), orNull(ov), t.Direct(full), verdict), nil
}
