package pquery

import (
	"fmt"
	"math/big"
	"sort"
	"strings"
	"time"

	"github.com/formancehq/ledger/verifh/lx"
)

// This file is the independent reference evaluator of the filter language over the
// reference ledger lx.Ref. It never looks at SQL; it implements the documented meaning:
//
//   - address patterns are sequences of ':'-separated segments. A pattern without empty
//     segment and without trailing "..." is an exact address. An empty segment is a
//     wildcard for exactly one segment, and the number of segments must be equal
//     ("a::c" = exactly three segments, first a, third c; "a:" = exactly two segments,
//     first a). A trailing "..." matches any number of further segments ("the whole
//     subtree"). /repo documents this form as «"users" at position 0 with any number of
//     segments» (internal/storage/ledger/utils_test.go), i.e. the root itself is part of
//     its subtree; prefixMatchesRoot records that reading.
//   - on transactions, `account` holds when any posting has a matching source or
//     destination, `source` / `destination` restrict the side.
//   - metadata[k] $match v: the key exists and its value is v; $exists k: the key exists;
//     $in: the key exists and its value is one of the list.
//   - balance[ASSET] op n on accounts: the account has a balance in ASSET and it compares
//     as stated (an account that never touched ASSET has no balance in it); on volumes the
//     entity is one (account, asset) row: balance[ASSET] additionally requires the row's
//     asset to be ASSET, `balance` compares the row's own balance.
//   - dates compare instants; `reverted` tests whether the transaction is reverted,
//     `reverted_at` compares the revert date of a reverted transaction.
//   - $and / $or are intersection / union, $not is set complement within the listing.
//   - with a point in time: transactions with timestamp <= PIT, accounts first used
//     <= PIT, metadata and revert marks as of PIT, volumes and balances folded over the
//     postings with effective (or, when asked, insertion) date <= PIT. "Metadata as of
//     PIT" needs the history of the metadata: on a ledger whose ACCOUNT_METADATA_HISTORY
//     (for account metadata: accounts, volumes, aggregated balances) resp.
//     TRANSACTION_METADATA_HISTORY (transactions) feature is DISABLED no history is
//     kept and a point-in-time query sees the current metadata (variant.accCur/txCur).
const prefixMatchesRoot = true

func matchAddress(pattern, addr string) bool {
	ps := strings.Split(pattern, ":")
	as := strings.Split(addr, ":")
	prefix := ps[len(ps)-1] == "..."
	wild := prefix
	for _, s := range ps {
		if s == "" {
			wild = true
		}
	}
	if !wild {
		return pattern == addr
	}
	if prefix {
		ps = ps[:len(ps)-1]
		if len(as) < len(ps) || (!prefixMatchesRoot && len(as) == len(ps)) {
			return false
		}
	} else if len(as) != len(ps) {
		return false
	}
	for i, s := range ps {
		if s != "" && as[i] != s {
			return false
		}
	}
	return true
}

func inList(l []string, s string) bool {
	for _, x := range l {
		if x == s {
			return true
		}
	}
	return false
}

func cmpOK(op string, c int) bool {
	switch op {
	case "$match":
		return c == 0
	case "$lt":
		return c < 0
	case "$lte":
		return c <= 0
	case "$gt":
		return c > 0
	case "$gte":
		return c >= 0
	}
	panic("reference: operator " + op + " is not a comparison")
}

func cmpTime(a, b time.Time) int {
	switch {
	case a.Before(b):
		return -1
	case a.After(b):
		return 1
	}
	return 0
}

// variant is the non-filter part of a query.
type variant struct {
	Name  string     `json:"name"`
	PIT   *time.Time `json:"pit,omitempty"`
	Ins   bool       `json:"useInsertionDate,omitempty"`
	Group int        `json:"groupLvl,omitempty"`
	// source of the metadata a point-in-time query sees: the revision as of the PIT
	// (false: the resource's metadata-history feature is SYNC) or the current metadata
	// (true: the feature is DISABLED, no history is kept). Set from the ledger's feature
	// configuration (Built.under); the zero value is the default feature set.
	accCur, txCur bool
}

func (v variant) asOf(ts, inserted time.Time) bool {
	if v.PIT == nil {
		return true
	}
	if v.Ins {
		return !inserted.After(*v.PIT)
	}
	return !ts.After(*v.PIT)
}

// row is one candidate entity with everything an atom may look at.
type row struct {
	key   string
	tx    *lx.RefTx
	meta  map[string]string
	revAt *time.Time
	acc   *lx.RefAcc
	vols  map[string]*lx.Vol // accounts: per-asset volumes as of the variant
	asset string             // volumes / aggregated: the row's asset
	vol   *lx.Vol
	log   *lx.RefLog
}

func metaAsOf(cur map[string]string, hist []lx.MetaRev, pit *time.Time, useCurrent bool) map[string]string {
	if pit == nil || useCurrent {
		return cur
	}
	if m := lx.MetaAt(hist, *pit); m != nil {
		return m
	}
	return map[string]string{}
}

func metaAtom(a *Atom, meta map[string]string) bool {
	if a.Field == "metadata" { // $exists
		_, ok := meta[*a.S]
		return ok
	}
	k := a.Field[len("metadata[") : len(a.Field)-1]
	v, ok := meta[k]
	if !ok {
		return false
	}
	if a.Op == "$in" {
		return inList(a.List, v)
	}
	return v == *a.S
}

func addrAtom(a *Atom, addr string) bool {
	if a.Op == "$in" {
		return inList(a.List, addr)
	}
	return matchAddress(*a.S, addr)
}

func balanceAsset(field string) (string, bool) {
	if field == "balance" {
		return "", false
	}
	return field[len("balance[") : len(field)-1], true
}

// ---------- transactions ----------

func txRows(ref *lx.Ref, v variant) []*row {
	var out []*row
	for _, t := range ref.Txs {
		if v.PIT != nil && t.TS.After(*v.PIT) {
			continue
		}
		r := &row{key: fmt.Sprint(t.ID), tx: t, meta: metaAsOf(t.Meta, t.MetaHist, v.PIT, v.txCur)}
		if t.RevertedAt != nil && (v.PIT == nil || !t.RevertedAt.After(*v.PIT)) {
			r.revAt = t.RevertedAt
		}
		out = append(out, r)
	}
	return out
}

func txAtom(a *Atom, r *row) bool {
	t := r.tx
	switch {
	case a.Field == "id":
		return cmpOK(a.Op, new(big.Int).SetUint64(t.ID).Cmp(a.N))
	case a.Field == "reference":
		if t.Reference == "" {
			return false
		}
		if a.Op == "$in" {
			return inList(a.List, t.Reference)
		}
		return t.Reference == *a.S
	case a.Field == "timestamp":
		return cmpOK(a.Op, cmpTime(t.TS, *a.T))
	case a.Field == "inserted_at":
		return cmpOK(a.Op, cmpTime(t.InsertedAt, *a.T))
	case a.Field == "reverted":
		return (r.revAt != nil) == *a.B
	case a.Field == "reverted_at":
		return r.revAt != nil && cmpOK(a.Op, cmpTime(*r.revAt, *a.T))
	case a.Field == "account" || a.Field == "source" || a.Field == "destination":
		for _, p := range t.Postings {
			if a.Field != "destination" && addrAtom(a, p.Source) {
				return true
			}
			if a.Field != "source" && addrAtom(a, p.Destination) {
				return true
			}
		}
		return false
	case strings.HasPrefix(a.Field, "metadata"):
		return metaAtom(a, r.meta)
	}
	panic("reference: transactions have no field " + a.Field)
}

// ---------- accounts ----------

func accRows(ref *lx.Ref, v variant) []*row {
	vols := ref.Volumes(func(t *lx.RefTx) bool { return v.PIT == nil || !t.TS.After(*v.PIT) })
	var out []*row
	for _, a := range ref.SortedAccounts() {
		if v.PIT != nil && a.FirstUsage.After(*v.PIT) {
			continue
		}
		out = append(out, &row{key: a.Addr, acc: a, meta: metaAsOf(a.Meta, a.MetaHist, v.PIT, v.accCur), vols: vols[a.Addr]})
	}
	return out
}

func accAtom(a *Atom, r *row) bool {
	switch {
	case a.Field == "address":
		return addrAtom(a, r.acc.Addr)
	case a.Field == "first_usage":
		return cmpOK(a.Op, cmpTime(r.acc.FirstUsage, *a.T))
	case a.Field == "insertion_date":
		return cmpOK(a.Op, cmpTime(r.acc.InsertionDate, *a.T))
	case a.Field == "balance":
		// no asset named: some asset the account has moved satisfies the test
		for _, vol := range r.vols {
			if vol != nil && cmpOK(a.Op, vol.Balance().Cmp(a.N)) {
				return true
			}
		}
		return false
	case strings.HasPrefix(a.Field, "balance"):
		asset, _ := balanceAsset(a.Field)
		vol := r.vols[asset]
		return vol != nil && cmpOK(a.Op, vol.Balance().Cmp(a.N))
	case strings.HasPrefix(a.Field, "metadata"):
		return metaAtom(a, r.meta)
	}
	panic("reference: accounts have no field " + a.Field)
}

// ---------- volumes and aggregated balances ----------

func volRows(ref *lx.Ref, v variant) []*row {
	vols := ref.Volumes(func(t *lx.RefTx) bool { return v.asOf(t.TS, t.InsertedAt) })
	var accs []string
	for a := range vols {
		accs = append(accs, a)
	}
	sort.Strings(accs)
	var out []*row
	for _, addr := range accs {
		var assets []string
		for as := range vols[addr] {
			assets = append(assets, as)
		}
		sort.Strings(assets)
		acc := ref.Accs[addr]
		for _, as := range assets {
			r := &row{key: addr + "|" + as, acc: acc, asset: as, vol: vols[addr][as]}
			if acc != nil {
				r.meta = metaAsOf(acc.Meta, acc.MetaHist, v.PIT, v.accCur)
			}
			out = append(out, r)
		}
	}
	return out
}

func volAtom(a *Atom, r *row) bool {
	switch {
	case a.Field == "address" || a.Field == "account":
		return addrAtom(a, r.acc.Addr)
	case a.Field == "first_usage":
		return cmpOK(a.Op, cmpTime(r.acc.FirstUsage, *a.T))
	case strings.HasPrefix(a.Field, "balance"):
		if asset, ok := balanceAsset(a.Field); ok && asset != r.asset {
			return false
		}
		return cmpOK(a.Op, r.vol.Balance().Cmp(a.N))
	case strings.HasPrefix(a.Field, "metadata"):
		return metaAtom(a, r.meta)
	}
	panic("reference: volumes have no field " + a.Field)
}

func groupKey(addr string, lvl int) string {
	if lvl <= 0 {
		return addr
	}
	segs := strings.Split(addr, ":")
	if len(segs) > lvl {
		segs = segs[:lvl]
	}
	return strings.Join(segs, ":")
}

// volEntity is one listed volumes entity.
type volEntity struct {
	Account, Asset string
	In, Out        *big.Int
}

func (e volEntity) String() string {
	return fmt.Sprintf("%s|%s|in=%s|out=%s", e.Account, e.Asset, e.In, e.Out)
}

// volEntities groups the selected rows by the first lvl segments (lvl 0: no grouping)
// and sorts them by (account, asset).
func volEntities(sel []*row, lvl int) []volEntity {
	idx := map[string]int{}
	var out []volEntity
	for _, r := range sel {
		g := groupKey(r.acc.Addr, lvl)
		k := g + "|" + r.asset
		i, ok := idx[k]
		if !ok {
			i = len(out)
			idx[k] = i
			out = append(out, volEntity{Account: g, Asset: r.asset, In: new(big.Int), Out: new(big.Int)})
		}
		out[i].In.Add(out[i].In, r.vol.In)
		out[i].Out.Add(out[i].Out, r.vol.Out)
	}
	sort.Slice(out, func(i, j int) bool {
		if out[i].Account != out[j].Account {
			return out[i].Account < out[j].Account
		}
		return out[i].Asset < out[j].Asset
	})
	return out
}

// aggEntities sums the balances of the selected rows per asset.
func aggEntities(sel []*row) []string {
	sum := map[string]*big.Int{}
	for _, r := range sel {
		if sum[r.asset] == nil {
			sum[r.asset] = new(big.Int)
		}
		sum[r.asset].Add(sum[r.asset], r.vol.Balance())
	}
	var out []string
	for as, b := range sum {
		out = append(out, as+"|balance="+b.String())
	}
	sort.Strings(out)
	return out
}

func aggAtom(a *Atom, r *row) bool {
	switch {
	case a.Field == "address":
		return addrAtom(a, r.acc.Addr)
	case strings.HasPrefix(a.Field, "metadata"):
		return metaAtom(a, r.meta)
	}
	panic("reference: aggregated balances have no field " + a.Field)
}

// ---------- logs ----------

func logRows(ref *lx.Ref) []*row {
	var out []*row
	for i := range ref.Logs {
		l := &ref.Logs[i]
		out = append(out, &row{key: fmt.Sprint(l.ID), log: l})
	}
	return out
}

func logAtom(a *Atom, r *row) bool {
	switch a.Field {
	case "id":
		return cmpOK(a.Op, new(big.Int).SetUint64(r.log.ID).Cmp(a.N))
	case "date":
		return cmpOK(a.Op, cmpTime(r.log.Date, *a.T))
	case "type":
		if a.Op == "$in" {
			return inList(a.List, r.log.Type)
		}
		return r.log.Type == *a.S
	}
	panic("reference: logs have no field " + a.Field)
}

// selectRows applies a formula.
func selectRows(rows []*row, f *F, atom func(*Atom, *row) bool) []*row {
	if f == nil {
		return rows
	}
	var out []*row
	for _, r := range rows {
		r := r
		if f.Eval(func(a *Atom) bool { return atom(a, r) }) {
			out = append(out, r)
		}
	}
	return out
}

func keysOf(rows []*row) []string {
	out := make([]string, len(rows))
	for i, r := range rows {
		out[i] = r.key
	}
	return out
}
