package pquery

import (
	"context"
	"encoding/json"
	"fmt"
	"os"
	"regexp"
	"runtime"
	"sort"
	"strconv"
	"strings"
	"sync"
	"sync/atomic"
	"time"

	"github.com/formancehq/ledger/verifh/ev"
	"github.com/formancehq/ledger/verifh/lx"
	"github.com/formancehq/ledger/verifh/reg"
)

// ---------- one evaluation ----------

// verdict of comparing the implementation with the reference on one (formula, variant).
type verdict struct {
	Kind       string   // "" ok | list | count | error:<class> | panic | engine
	Want       []string // reference entities
	Got        []string // listed entities
	Count      int
	Detail     string
	nonTrivial bool
	counted    bool // Count* was called and compared with the listing
}

func (v verdict) bad() bool { return v.Kind != "" }

func diffSets(want, got []string) string {
	w, g := map[string]int{}, map[string]int{}
	for _, s := range want {
		w[s]++
	}
	for _, s := range got {
		g[s]++
	}
	var missing, extra []string
	for s, n := range w {
		if g[s] < n {
			missing = append(missing, s)
		}
	}
	for s, n := range g {
		if w[s] < n {
			extra = append(extra, s)
		}
	}
	sort.Strings(missing)
	sort.Strings(extra)
	return fmt.Sprintf("missing=%v unexpected=%v", missing, extra)
}

func equalStrings(a, b []string) bool {
	if len(a) != len(b) {
		return false
	}
	for i := range a {
		if a[i] != b[i] {
			return false
		}
	}
	return true
}

// evaluate runs one query against the implementation and the reference.
func evaluate(ctx context.Context, s *site, res *resource, v variant, rows []*row, f *F) (out verdict) {
	sel := selectRows(rows, f, res.atom)
	out.Want = res.entities(sel, v)
	out.nonTrivial = len(sel) > 0 && len(sel) < len(rows)
	defer func() {
		if p := recover(); p != nil {
			out.Kind = "panic"
			out.Detail = fmt.Sprint(p)
		}
	}()
	qb, err := f.Builder()
	if err != nil {
		out.Kind, out.Detail = "engine", "harness produced an unparsable filter: "+err.Error()
		return
	}
	got, err := res.list(ctx, s.Ctrl, qb, v)
	if err != nil {
		cls := lx.Classify(err)
		if cls == "ENGINE" {
			out.Kind, out.Detail = "engine", err.Error()
			return
		}
		out.Kind, out.Detail = "error:"+cls, err.Error()
		return
	}
	out.Got = got
	if !equalStrings(out.Want, got) {
		out.Kind, out.Detail = "list", diffSets(out.Want, got)
		return
	}
	if res.count != nil {
		qb2, _ := f.Builder()
		n, err := res.count(ctx, s.Ctrl, qb2, v)
		if err != nil {
			cls := lx.Classify(err)
			if cls == "ENGINE" {
				out.Kind, out.Detail = "engine", err.Error()
				return
			}
			out.Kind, out.Detail = "count-error:"+cls, err.Error()
			return
		}
		out.Count = n
		out.counted = true
		if n != len(got) {
			out.Kind, out.Detail = "count", fmt.Sprintf("count=%d but %d entities listed", n, len(got))
		}
	}
	return
}

// ---------- the exploration ----------

type c20Task struct {
	res   *resource
	hi    int
	v     variant
	rows  []*row
	forms []*F
	from  int // offset of forms in the resource's formula list
	// feature-configuration dimension only: the rows as they would be with the other
	// metadata source (history as of the PIT <-> current metadata) for this resource
	altRows []*row
}

type c20Stats struct {
	mu          sync.Mutex
	nontrivial  map[string]bool // resource:formulaKey
	formulas    map[string]bool
	perRes      map[string]*resStats
	memo        sync.Map // resource|history|variant|formulaKey -> verdict
	minimised   atomic.Int64
	evaluations atomic.Int64
	counted     sync.Map             // resource -> *atomic.Int64: Count* calls compared with a listing
	perCfg      map[string]*cfgStats // resource|configuration
}

// cfgStats describes what a non-default feature configuration exercised for a resource.
type cfgStats struct {
	Evaluations int64 `json:"evaluations"`
	// evaluations (resp. evaluations of a single metadata atom) whose expected result
	// differs from what the other metadata source (history as of the PIT <-> current
	// metadata) would select: only these can tell a wrong source from the right one
	Discriminating     int64 `json:"source_discriminating_evaluations"`
	DiscriminatingAtom int64 `json:"source_discriminating_single_atom_evaluations"`
}

type resStats struct {
	Atoms        int            `json:"atoms"`
	Formulas     int            `json:"distinct_formulas"`
	Evaluations  int64          `json:"evaluations"`
	NonTrivial   int            `json:"distinct_nontrivial"`
	NonTrivialBy map[string]int `json:"nontrivial_evaluations_by_variant"`
	Failing      int64          `json:"failing_evaluations"`
	Counted      int64          `json:"count_calls_compared"`
	AtomKinds    int            `json:"atom_kinds"`
	// point-in-time variants × formulas mentioning a metadata atom, per non-default
	// feature configuration
	ByConfig map[string]*cfgStats `json:"metadata_at_pit_by_feature_configuration,omitempty"`
}

var digitsRe = regexp.MustCompile(`[0-9]+`)

func variantClass(name string) string { return digitsRe.ReplaceAllString(name, "") }

// closure returns f and everything reachable from it by reductions (by key).
func closure(f *F) map[string]*F {
	seen := map[string]*F{}
	var walk func(*F)
	walk = func(g *F) {
		k := g.Key()
		if _, ok := seen[k]; ok {
			return
		}
		seen[k] = g
		for _, r := range g.reductions() {
			walk(r)
		}
	}
	walk(f)
	return seen
}

type c20Run struct {
	r        *ev.Run
	built    []*Built
	defIdx   map[string]int // history name -> index in built of its default-configuration build
	thorough bool
	st       *c20Stats
	samples  *ev.Samples
}

func filterObj(f *F) any {
	if f == nil || f.Op == "all" {
		return nil
	}
	var o any
	_ = json.Unmarshal([]byte(f.JSON()), &o)
	return o
}

// memoEval evaluates f under variant v on the task's history, remembering the verdict:
// minimisation re-visits the same small formulas from many starting points.
func (c *c20Run) memoEval(ctx context.Context, s *site, res *resource, v variant, rows []*row, f *F) verdict {
	key := res.Name + "|" + s.B.Label() + "|" + v.Name + "|" + f.Key()
	if x, ok := c.st.memo.Load(key); ok {
		return x.(verdict)
	}
	vd := evaluate(ctx, s, res, v, rows, f)
	c.st.evaluations.Add(1)
	if vd.counted {
		n, _ := c.st.counted.LoadOrStore(res.Name, new(atomic.Int64))
		n.(*atomic.Int64).Add(1)
	}
	switch {
	case vd.Kind == "engine":
	case vd.bad():
		c.st.memo.Store(key, vd)
	default:
		c.st.memo.Store(key, verdict{nonTrivial: vd.nonTrivial}) // passing: the entity lists are not needed again
	}
	return vd
}

// report replaces a failing formula by the smallest failing formula reachable from it by
// simplification (children, and formulas with a simplified child; ties broken by shape),
// picks the simplest variant on which that one fails, and records the violation under a
// structural signature. Everything here is a deterministic function of the failing
// (history, variant, formula), so the set of signatures does not depend on scheduling.
//
// A failure seen on a non-default feature configuration is re-evaluated on the default
// configuration of the same history: when it fails there too the configuration is not
// part of the failure's structure and the signature is the one the default configuration
// gives; otherwise the signature names the configuration.
func (c *c20Run) report(ctx context.Context, siteOf func(int) *site, t *c20Task, f *F, vd verdict) {
	s := siteOf(t.hi)
	if s == nil {
		return
	}
	st := c.st
	st.mu.Lock()
	st.perRes[t.res.Name].Failing++
	st.mu.Unlock()
	type cand struct {
		f     *F
		size  int
		shape string
	}
	var cands []cand
	for _, g := range closure(f) {
		if n := g.size(); n < f.size() {
			cands = append(cands, cand{g, n, g.Shape() + "#" + g.Key()})
		}
	}
	sort.Slice(cands, func(i, j int) bool {
		if cands[i].size != cands[j].size {
			return cands[i].size < cands[j].size
		}
		return cands[i].shape < cands[j].shape
	})
	min, mvd := f, vd
	for _, cd := range cands {
		if c.r.Expired() {
			break
		}
		rv := c.memoEval(ctx, s, t.res, t.v, t.rows, cd.f)
		if rv.bad() && rv.Kind != "engine" {
			min, mvd = cd.f, rv
			break
		}
	}
	if min != f {
		st.minimised.Add(1)
	}
	// simplest variant on which the minimal formula fails
	v, vvd := t.v, mvd
	for _, cand := range t.res.variants(s.B, c.thorough) {
		if cand.Name == t.v.Name {
			break
		}
		cand = s.B.under(cand)
		rv := c.memoEval(ctx, s, t.res, cand, t.res.rows(s.B.Ref, cand), min)
		if rv.bad() && rv.Kind != "engine" {
			v, vvd = cand, rv
			break
		}
	}
	if s.B.Cfg != nil {
		if ds := siteOf(c.defIdx[s.B.H.Name]); ds != nil {
			dv := ds.B.under(v)
			rv := c.memoEval(ctx, ds, t.res, dv, t.res.rows(ds.B.Ref, dv), min)
			if rv.bad() && rv.Kind != "engine" {
				s, v, vvd = ds, dv, rv
			}
		}
	}
	sig := "C20:" + t.res.Name
	if vc := variantClass(v.Name); vc != "cur" {
		sig += ":" + vc
	}
	if l := s.B.Cfg.Label(); l != "" {
		sig += ":" + l
	}
	sig += ":" + min.Shape()
	if vvd.Kind != "list" {
		sig += ":" + vvd.Kind
	}
	what := fmt.Sprintf("%s history=%s variant=%s filter=%s: %s; expected %v, listed %v", t.res.Name, s.B.Label(), v.Name, min.JSON(), vvd.Detail, vvd.Want, vvd.Got)
	if s.B.Cfg != nil && v.PIT != nil && t.res.metaOwner != "" {
		src := "the metadata as of the point in time (its metadata-history feature is SYNC)"
		if (t.res.metaOwner == "tx" && v.txCur) || (t.res.metaOwner == "acc" && v.accCur) {
			src = "the current metadata (its metadata-history feature is DISABLED: no history is kept)"
		}
		what += "; on this ledger a point-in-time query on " + t.res.Name + " sees " + src
	}
	if min != f {
		what += fmt.Sprintf(" (minimised from %s)", f.JSON())
	}
	c.r.Violation(sig, what, map[string]any{
		"resource": t.res.Name,
		"history":  s.B.H,
		"features": s.B.Cfg.features(),
		"variant":  v,
		"filter":   filterObj(min),
		"expected": vvd.Want,
		"actual":   vvd.Got,
		"kind":     vvd.Kind,
		"detail":   vvd.Detail,
	})
}

func (c *c20Run) formulas(as atomSet) []*F {
	fs := depth2(as.all)
	fs = append(fs, families(as.core10)...)
	if c.thorough {
		fs = append(fs, depth3only(as.core10[:8])...)
	}
	return dedupe(fs)
}

// dedupe drops formulas enumerated by more than one generator (¬(a∨b) has depth 3).
func dedupe(fs []*F) []*F {
	seen := map[string]bool{}
	out := fs[:0]
	for _, f := range fs {
		if k := f.Key(); !seen[k] {
			seen[k] = true
			out = append(out, f)
		}
	}
	return out
}

// mentionsMetadata: does the formula contain a metadata atom?
func mentionsMetadata(f *F) bool {
	if f.Op == "atom" {
		return strings.HasPrefix(f.A.Field, "metadata")
	}
	for _, k := range f.Kids {
		if mentionsMetadata(k) {
			return true
		}
	}
	return false
}

func onlyMetadata(fs []*F) []*F {
	var out []*F
	for _, f := range fs {
		if mentionsMetadata(f) {
			out = append(out, f)
		}
	}
	return out
}

// cfgFormulas is the formula space of a non-default feature configuration: the formulas
// of the default space that mention a metadata atom (nothing else in a query depends on
// the metadata-history features). Quick: every a, ¬a, a∧b, a∨b with a metadata atom a
// and any atom b of the full set; thorough: the deeper families too.
func (c *c20Run) cfgFormulas(as atomSet) []*F {
	if c.thorough {
		return onlyMetadata(c.formulas(as))
	}
	return onlyMetadata(dedupe(depth2(as.all)))
}

// extraConfigs: the metadata-history feature configurations besides the default one
// (both SYNC). The two mixed ones tell the two features apart; both DISABLED (thorough)
// completes the square.
func extraConfigs(thorough bool) []*FeatCfg {
	cs := []*FeatCfg{metaHistCfg(true, false), metaHistCfg(false, true)}
	if thorough {
		cs = append(cs, metaHistCfg(false, false))
	}
	return cs
}

// flipSource returns v with the other metadata source for the resource's own metadata.
func flipSource(res *resource, v variant) variant {
	if res.metaOwner == "tx" {
		v.txCur = !v.txCur
	} else {
		v.accCur = !v.accCur
	}
	return v
}

func runC20() int {
	r := ev.Start("C20", ev.LevelExploration, 150*time.Second, 25*time.Minute)
	ctx := context.Background()
	built, err := build(ctx, histories())
	if err != nil {
		r.EngineError(err.Error())
		return r.Finish(nil, []string{pgsimAssumption})
	}
	nDefault := len(built)
	cfgs := extraConfigs(r.Thorough())
	for _, cfg := range cfgs {
		bs, err := buildCfg(ctx, histories(), cfg)
		if err != nil {
			r.EngineError(cfg.Name + ": " + err.Error())
			return r.Finish(nil, []string{pgsimAssumption})
		}
		built = append(built, bs...)
	}
	c := &c20Run{r: r, built: built, defIdx: map[string]int{}, thorough: r.Thorough(), samples: ev.NewSamples(8),
		st: &c20Stats{nontrivial: map[string]bool{}, formulas: map[string]bool{}, perRes: map[string]*resStats{}, perCfg: map[string]*cfgStats{}}}
	for i, b := range built[:nDefault] {
		c.defIdx[b.H.Name] = i
	}
	const chunk = 40
	var tasks []*c20Task
	variantNames := map[string][]string{}
	cfgVariantNames := map[string][]string{}
	cfgFormulaCount := map[string]int{}
	for _, res := range allResources {
		c.st.perRes[res.Name] = &resStats{NonTrivialBy: map[string]int{}}
		for hi, b := range built {
			as := res.atoms(b)
			var fs []*F
			if b.Cfg == nil {
				fs = c.formulas(as)
			} else {
				if res.metaOwner == "" {
					continue // no metadata, no point in time: nothing depends on the features
				}
				fs = c.cfgFormulas(as)
				cfgFormulaCount[res.Name] = len(fs)
				if c.st.perCfg[res.Name+"|"+b.Cfg.Name] == nil {
					cs := &cfgStats{}
					c.st.perCfg[res.Name+"|"+b.Cfg.Name] = cs
					if c.st.perRes[res.Name].ByConfig == nil {
						c.st.perRes[res.Name].ByConfig = map[string]*cfgStats{}
					}
					c.st.perRes[res.Name].ByConfig[b.Cfg.Name] = cs
				}
			}
			if hi == 0 {
				c.st.perRes[res.Name].Atoms = len(as.all)
				c.st.perRes[res.Name].Formulas = len(fs)
			}
			for _, v := range res.variants(b, c.thorough) {
				if hi == 0 {
					variantNames[res.Name] = append(variantNames[res.Name], v.Name)
				}
				if b.Cfg != nil && v.PIT == nil {
					continue // the current state does not depend on the metadata-history features
				}
				if hi == nDefault {
					cfgVariantNames[res.Name] = append(cfgVariantNames[res.Name], v.Name)
				}
				v = b.under(v)
				rows := res.rows(b.Ref, v)
				var altRows []*row
				if b.Cfg != nil {
					altRows = res.rows(b.Ref, flipSource(res, v))
				}
				for from := 0; from < len(fs); from += chunk {
					to := from + chunk
					if to > len(fs) {
						to = len(fs)
					}
					tasks = append(tasks, &c20Task{res: res, hi: hi, v: v, rows: rows, altRows: altRows, forms: fs[from:to], from: from})
				}
			}
		}
	}
	// Formulas are enumerated simplest first (absent filter, atoms, negated atoms, pairs,
	// then the deeper families): run the n-th chunk of every (resource, history, variant)
	// before any (n+1)-th chunk, so that a run cut short by the time budget has still seen
	// every resource and variant with the formulas that discriminate most per evaluation.
	// (The non-default feature configurations enumerate only formulas with a metadata
	// atom, so their first chunk holds every single metadata atom and its negation.)
	sort.SliceStable(tasks, func(i, j int) bool { return tasks[i].from < tasks[j].from })
	var next atomic.Int64
	var stopped atomic.Bool
	var wg sync.WaitGroup
	for w := 0; w < workers(); w++ {
		wg.Add(1)
		go func() {
			defer wg.Done()
			sites := map[int]*site{}
			defer func() {
				for _, s := range sites {
					s.close()
				}
			}()
			siteOf := func(hi int) *site {
				s := sites[hi]
				if s == nil {
					var err error
					s, err = built[hi].open(ctx)
					if err != nil {
						r.EngineError("open site: " + err.Error())
						return nil
					}
					sites[hi] = s
				}
				return s
			}
			const recycle = 60
			done := 0
			localNT := map[string]bool{}
			localAll := map[string]bool{}
			localEval := map[string]int64{}
			localNTV := map[string]int{}
			localCfg := map[string]*cfgStats{}
			defer func() {
				c.st.mu.Lock()
				for k := range localNT {
					c.st.nontrivial[k] = true
				}
				for k := range localAll {
					c.st.formulas[k] = true
				}
				for k, n := range localEval {
					c.st.perRes[k].Evaluations += n
				}
				for k, n := range localNTV {
					i := strings.Index(k, "|")
					c.st.perRes[k[:i]].NonTrivialBy[k[i+1:]] += n
				}
				for k, n := range localCfg {
					cs := c.st.perCfg[k]
					cs.Evaluations += n.Evaluations
					cs.Discriminating += n.Discriminating
					cs.DiscriminatingAtom += n.DiscriminatingAtom
				}
				c.st.mu.Unlock()
			}()
			for {
				if r.Expired() || r.HasEngineError() {
					stopped.Store(true)
					return
				}
				n := int(next.Add(1) - 1)
				if n >= len(tasks) {
					return
				}
				t := tasks[n]
				if done++; done%recycle == 0 {
					// pgsim caches parsed statements by SQL text and every query here is
					// a new text: drop the clones now and then to bound memory
					for k, s := range sites {
						s.close()
						delete(sites, k)
					}
				}
				s := siteOf(t.hi)
				if s == nil {
					return
				}
				var lc *cfgStats
				if s.B.Cfg != nil {
					k := t.res.Name + "|" + s.B.Cfg.Name
					if lc = localCfg[k]; lc == nil {
						lc = &cfgStats{}
						localCfg[k] = lc
					}
				}
				for _, f := range t.forms {
					vd := c.memoEval(ctx, s, t.res, t.v, t.rows, f)
					localEval[t.res.Name]++
					key := t.res.Name + ":" + f.Key()
					localAll[key] = true
					if vd.nonTrivial {
						localNT[key] = true
						localNTV[t.res.Name+"|"+variantClass(t.v.Name)]++
					}
					if lc != nil {
						lc.Evaluations++
						want := t.res.entities(selectRows(t.rows, f, t.res.atom), t.v)
						other := t.res.entities(selectRows(t.altRows, f, t.res.atom), t.v)
						if !equalStrings(want, other) {
							lc.Discriminating++
							if f.isAtom() {
								lc.DiscriminatingAtom++
							}
						}
					}
					if vd.Kind == "engine" {
						r.EngineError(fmt.Sprintf("%s history=%s variant=%s filter=%s: %s", t.res.Name, s.B.Label(), t.v.Name, f.JSON(), vd.Detail))
						return
					}
					if vd.bad() {
						c.report(ctx, siteOf, t, f, vd)
					} else if vd.nonTrivial && f.size() >= 3 {
						c.samples.Add(map[string]any{"resource": t.res.Name, "history": s.B.Label(), "variant": t.v.Name, "filter": filterObj(f), "selected": vd.Got})
					}
				}
			}
		}()
	}
	wg.Wait()

	st := c.st
	nt := 0
	for k := range st.nontrivial {
		nt++
		st.perRes[k[:strings.Index(k, ":")]].NonTrivial++
	}
	exhaustive := !stopped.Load()
	if exhaustive && !r.HasEngineError() {
		for _, res := range allResources {
			ps := st.perRes[res.Name]
			if ps.NonTrivial*4 < ps.Formulas {
				r.EngineError(fmt.Sprintf("vacuous: only %d of %d %s formulas select a proper non-empty subset on some history", ps.NonTrivial, ps.Formulas, res.Name))
			}
			for _, vn := range variantNames[res.Name] {
				if ps.NonTrivialBy[variantClass(vn)] == 0 {
					r.EngineError(fmt.Sprintf("vacuous: no %s formula is non-trivial under variant %s", res.Name, vn))
				}
			}
			// every kind of atom the property statement names (field × operator class ×
			// address-pattern kind) must, on its own, have selected a proper non-empty
			// subset somewhere: otherwise that kind of filter was only ever seen
			// matching everything or nothing
			kinds := map[string]bool{}
			for _, a := range res.atoms(built[0]).all {
				k := a.shape()
				kinds[k] = kinds[k] || st.nontrivial[res.Name+":"+At(a).Key()]
			}
			ps.AtomKinds = len(kinds)
			var dead []string
			for k, ok := range kinds {
				if !ok {
					dead = append(dead, k)
				}
			}
			sort.Strings(dead)
			if len(dead) > 0 {
				r.EngineError(fmt.Sprintf("vacuous: no %s atom of kind %v selects a proper non-empty subset on its own", res.Name, dead))
			}
			if n, ok := st.counted.Load(res.Name); ok {
				ps.Counted = n.(*atomic.Int64).Load()
			}
			if res.count != nil && ps.Counted == 0 {
				r.EngineError(fmt.Sprintf("vacuous: Count%s was never compared with a listing", res.Name))
			}
			// the feature-configuration dimension: on every non-default configuration a
			// single metadata atom at a point in time must have been expected to select
			// something else than it would with the other metadata source (history as of
			// the PIT <-> current metadata); otherwise no metadata write follows the
			// points in time used and the configuration cannot tell the sources apart
			if res.metaOwner != "" {
				for _, cfg := range cfgs {
					cs := st.perCfg[res.Name+"|"+cfg.Name]
					switch {
					case cs == nil || cs.Evaluations == 0:
						r.EngineError(fmt.Sprintf("vacuous: %s never queried at a point in time with a metadata filter on a ledger with %s", res.Name, cfg.Name))
					case cs.DiscriminatingAtom == 0:
						r.EngineError(fmt.Sprintf("vacuous: on the ledgers with %s no single metadata atom on %s at a point in time selects different sets with the metadata as of the PIT and with the current metadata", cfg.Name, res.Name))
					}
				}
			}
		}
	}
	var hs []any
	for _, b := range built {
		h := map[string]any{"name": b.H.Name, "ops": len(b.H.Ops), "transactions": len(b.Ref.Txs), "accounts": len(b.Ref.Accs), "logs": len(b.Ref.Logs), "pits": b.PITs}
		if b.Cfg != nil {
			h["features"] = b.Cfg.Features
		}
		hs = append(hs, h)
	}
	var cfgNames []string
	for _, cfg := range cfgs {
		cfgNames = append(cfgNames, cfg.Name)
	}
	rule := "fixed histories (back-dated/future/tied timestamps, reverts, metadata added/overwritten/deleted on accounts and transactions — also after the points in time used —, 1–3 segment addresses, 3 assets, zero/negative balances, metadata-only accounts) built through the real controller on pgsim × per resource EVERY formula a, ¬a, a∧b, a∨b over the full atom set (every supported field×operator of the property statement with 1–3 values: exact/partial/prefix addresses, $in, metadata match/$exists/$in, balance[asset] and balance comparisons, dates, reverted, reference, id, log type) plus the families ¬(a∨b), a∧(b∨c), a∨(b∧¬c), ¬(a∧¬b) over a reduced 10-atom set"
	if c.thorough {
		rule += " plus EVERY formula of depth 3 (¬f, f∧g, f∨g with f, g of depth ≤ 2) over an 8-atom set"
	}
	rule += " × current state and points in time (effective and insertion date, volumes grouped by 0..2 segments) on a ledger with the default feature set; List* must equal the entities selected by an independent Go evaluator over the reference ledger ($not = set complement), Count* must equal the number of listed entities. "
	rule += fmt.Sprintf("Feature-configuration dimension: the same histories on ledgers created with %s × transactions, accounts, volumes, aggregated balances × every point-in-time variant × EVERY formula of the space above that mentions a metadata atom", strings.Join(cfgNames, " / "))
	if !c.thorough {
		rule += " up to a, ¬a, a∧b, a∨b (b any atom of the full set)"
	}
	rule += "; there the reference reads the metadata as of the PIT when the resource's own metadata-history feature (TRANSACTION_METADATA_HISTORY for transactions, ACCOUNT_METADATA_HISTORY for accounts, volumes, aggregated balances) is SYNC and the current metadata when it is DISABLED. $like and the undocumented `updated_at` field are outside the property statement and not enumerated"
	return r.Finish(ev.Coverage{
		"evaluations":                          st.evaluations.Load(),
		"distinct_formulas":                    len(st.formulas),
		"distinct_nontrivial":                  nt,
		"per_resource":                         st.perRes,
		"variants":                             variantNames,
		"feature_configurations":               cfgNames,
		"feature_configuration_variants":       cfgVariantNames,
		"feature_configuration_formulas":       cfgFormulaCount,
		"histories":                            hs,
		"failing_minimised_to_smaller_formula": st.minimised.Load(),
		"rule":                                 rule,
		"samples":                              c.samples.List(),
		"exhaustive":                           exhaustive,
	}, []string{pgsimAssumption,
		"address pattern `a:...` is read as «a at position 0 with any number of segments» (the wording of /repo/internal/storage/ledger/utils_test.go), i.e. it also selects the bare account `a`",
		"balance[ASSET] on accounts is read as «the account has a balance in ASSET and it compares as stated»; an account that never moved ASSET is selected only through $not",
		"all histories keep MOVES_HISTORY=ON and effective volumes SYNC; of the features only the two metadata-history ones vary (both SYNC for the full space; the mixed combinations, and both DISABLED at the thorough tier, for point-in-time queries with a metadata filter)",
		"a point-in-time query on a ledger whose metadata-history feature for the resource is DISABLED is read as «filters see the current metadata» (what internal/storage/ledger/resource_accounts.go, resource_transactions.go and resource_aggregated_balances.go spell out, and what property C17 checks on unfiltered listings)"})
}

// workers is the degree of parallelism (PQ_WORKERS overrides, for experiments).
func workers() int {
	if n, err := strconv.Atoi(os.Getenv("PQ_WORKERS")); err == nil && n > 0 {
		return n
	}
	return runtime.NumCPU()
}

func init() {
	reg.Register("C20", runC20)
}
