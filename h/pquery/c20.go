package pquery

import (
	"context"
	"encoding/json"
	"fmt"
	"os"
	"regexp"
	"runtime"
	"sort"
	"strconv"
	"strings"
	"sync"
	"sync/atomic"
	"time"

	"github.com/formancehq/ledger/verifh/ev"
	"github.com/formancehq/ledger/verifh/lx"
	"github.com/formancehq/ledger/verifh/reg"
)

// ---------- one evaluation ----------

// verdict of comparing the implementation with the reference on one (formula, variant).
type verdict struct {
	Kind       string   // "" ok | list | count | error:<class> | panic | engine
	Want       []string // reference entities
	Got        []string // listed entities
	Count      int
	Detail     string
	nonTrivial bool
	counted    bool // Count* was called and compared with the listing
}

func (v verdict) bad() bool { return v.Kind != "" }

func diffSets(want, got []string) string {
	w, g := map[string]int{}, map[string]int{}
	for _, s := range want {
		w[s]++
	}
	for _, s := range got {
		g[s]++
	}
	var missing, extra []string
	for s, n := range w {
		if g[s] < n {
			missing = append(missing, s)
		}
	}
	for s, n := range g {
		if w[s] < n {
			extra = append(extra, s)
		}
	}
	sort.Strings(missing)
	sort.Strings(extra)
	return fmt.Sprintf("missing=%v unexpected=%v", missing, extra)
}

func equalStrings(a, b []string) bool {
	if len(a) != len(b) {
		return false
	}
	for i := range a {
		if a[i] != b[i] {
			return false
		}
	}
	return true
}

// evaluate runs one query against the implementation and the reference.
func evaluate(ctx context.Context, s *site, res *resource, v variant, rows []*row, f *F) (out verdict) {
	sel := selectRows(rows, f, res.atom)
	out.Want = res.entities(sel, v)
	out.nonTrivial = len(sel) > 0 && len(sel) < len(rows)
	defer func() {
		if p := recover(); p != nil {
			out.Kind = "panic"
			out.Detail = fmt.Sprint(p)
		}
	}()
	qb, err := f.Builder()
	if err != nil {
		out.Kind, out.Detail = "engine", "harness produced an unparsable filter: "+err.Error()
		return
	}
	got, err := res.list(ctx, s.Ctrl, qb, v)
	if err != nil {
		cls := lx.Classify(err)
		if cls == "ENGINE" {
			out.Kind, out.Detail = "engine", err.Error()
			return
		}
		out.Kind, out.Detail = "error:"+cls, err.Error()
		return
	}
	out.Got = got
	if !equalStrings(out.Want, got) {
		out.Kind, out.Detail = "list", diffSets(out.Want, got)
		return
	}
	if res.count != nil {
		qb2, _ := f.Builder()
		n, err := res.count(ctx, s.Ctrl, qb2, v)
		if err != nil {
			cls := lx.Classify(err)
			if cls == "ENGINE" {
				out.Kind, out.Detail = "engine", err.Error()
				return
			}
			out.Kind, out.Detail = "count-error:"+cls, err.Error()
			return
		}
		out.Count = n
		out.counted = true
		if n != len(got) {
			out.Kind, out.Detail = "count", fmt.Sprintf("count=%d but %d entities listed", n, len(got))
		}
	}
	return
}

// ---------- the exploration ----------

type c20Task struct {
	res   *resource
	hi    int
	v     variant
	rows  []*row
	forms []*F
	from  int // offset of forms in the resource's formula list
}

type c20Stats struct {
	mu          sync.Mutex
	nontrivial  map[string]bool // resource:formulaKey
	formulas    map[string]bool
	perRes      map[string]*resStats
	memo        sync.Map // resource|history|variant|formulaKey -> verdict
	minimised   atomic.Int64
	evaluations atomic.Int64
	counted     sync.Map // resource -> *atomic.Int64: Count* calls compared with a listing
}

type resStats struct {
	Atoms        int            `json:"atoms"`
	Formulas     int            `json:"distinct_formulas"`
	Evaluations  int64          `json:"evaluations"`
	NonTrivial   int            `json:"distinct_nontrivial"`
	NonTrivialBy map[string]int `json:"nontrivial_evaluations_by_variant"`
	Failing      int64          `json:"failing_evaluations"`
	Counted      int64          `json:"count_calls_compared"`
	AtomKinds    int            `json:"atom_kinds"`
}

var digitsRe = regexp.MustCompile(`[0-9]+`)

func variantClass(name string) string { return digitsRe.ReplaceAllString(name, "") }

// closure returns f and everything reachable from it by reductions (by key).
func closure(f *F) map[string]*F {
	seen := map[string]*F{}
	var walk func(*F)
	walk = func(g *F) {
		k := g.Key()
		if _, ok := seen[k]; ok {
			return
		}
		seen[k] = g
		for _, r := range g.reductions() {
			walk(r)
		}
	}
	walk(f)
	return seen
}

type c20Run struct {
	r        *ev.Run
	built    []*Built
	thorough bool
	st       *c20Stats
	samples  *ev.Samples
}

func filterObj(f *F) any {
	if f == nil || f.Op == "all" {
		return nil
	}
	var o any
	_ = json.Unmarshal([]byte(f.JSON()), &o)
	return o
}

// memoEval evaluates f under variant v on the task's history, remembering the verdict:
// minimisation re-visits the same small formulas from many starting points.
func (c *c20Run) memoEval(ctx context.Context, s *site, res *resource, v variant, rows []*row, f *F) verdict {
	key := res.Name + "|" + s.B.H.Name + "|" + v.Name + "|" + f.Key()
	if x, ok := c.st.memo.Load(key); ok {
		return x.(verdict)
	}
	vd := evaluate(ctx, s, res, v, rows, f)
	c.st.evaluations.Add(1)
	if vd.counted {
		n, _ := c.st.counted.LoadOrStore(res.Name, new(atomic.Int64))
		n.(*atomic.Int64).Add(1)
	}
	switch {
	case vd.Kind == "engine":
	case vd.bad():
		c.st.memo.Store(key, vd)
	default:
		c.st.memo.Store(key, verdict{nonTrivial: vd.nonTrivial}) // passing: the entity lists are not needed again
	}
	return vd
}

// report replaces a failing formula by the smallest failing formula reachable from it by
// simplification (children, and formulas with a simplified child; ties broken by shape),
// picks the simplest variant on which that one fails, and records the violation under a
// structural signature. Everything here is a deterministic function of the failing
// (history, variant, formula), so the set of signatures does not depend on scheduling.
func (c *c20Run) report(ctx context.Context, s *site, t *c20Task, f *F, vd verdict) {
	st := c.st
	st.mu.Lock()
	st.perRes[t.res.Name].Failing++
	st.mu.Unlock()
	type cand struct {
		f     *F
		size  int
		shape string
	}
	var cands []cand
	for _, g := range closure(f) {
		if n := g.size(); n < f.size() {
			cands = append(cands, cand{g, n, g.Shape() + "#" + g.Key()})
		}
	}
	sort.Slice(cands, func(i, j int) bool {
		if cands[i].size != cands[j].size {
			return cands[i].size < cands[j].size
		}
		return cands[i].shape < cands[j].shape
	})
	min, mvd := f, vd
	for _, cd := range cands {
		if c.r.Expired() {
			break
		}
		rv := c.memoEval(ctx, s, t.res, t.v, t.rows, cd.f)
		if rv.bad() && rv.Kind != "engine" {
			min, mvd = cd.f, rv
			break
		}
	}
	if min != f {
		st.minimised.Add(1)
	}
	// simplest variant on which the minimal formula fails
	v, vvd := t.v, mvd
	for _, cand := range t.res.variants(s.B, c.thorough) {
		if cand.Name == t.v.Name {
			break
		}
		rv := c.memoEval(ctx, s, t.res, cand, t.res.rows(s.B.Ref, cand), min)
		if rv.bad() && rv.Kind != "engine" {
			v, vvd = cand, rv
			break
		}
	}
	sig := "C20:" + t.res.Name
	if vc := variantClass(v.Name); vc != "cur" {
		sig += ":" + vc
	}
	sig += ":" + min.Shape()
	if vvd.Kind != "list" {
		sig += ":" + vvd.Kind
	}
	what := fmt.Sprintf("%s history=%s variant=%s filter=%s: %s; expected %v, listed %v", t.res.Name, s.B.H.Name, v.Name, min.JSON(), vvd.Detail, vvd.Want, vvd.Got)
	if min != f {
		what += fmt.Sprintf(" (minimised from %s)", f.JSON())
	}
	c.r.Violation(sig, what, map[string]any{
		"resource": t.res.Name,
		"history":  s.B.H,
		"variant":  v,
		"filter":   filterObj(min),
		"expected": vvd.Want,
		"actual":   vvd.Got,
		"kind":     vvd.Kind,
		"detail":   vvd.Detail,
	})
}

func (c *c20Run) formulas(as atomSet) []*F {
	fs := depth2(as.all)
	fs = append(fs, families(as.core10)...)
	if c.thorough {
		fs = append(fs, depth3only(as.core10[:8])...)
	}
	return dedupe(fs)
}

// dedupe drops formulas enumerated by more than one generator (¬(a∨b) has depth 3).
func dedupe(fs []*F) []*F {
	seen := map[string]bool{}
	out := fs[:0]
	for _, f := range fs {
		if k := f.Key(); !seen[k] {
			seen[k] = true
			out = append(out, f)
		}
	}
	return out
}

func runC20() int {
	r := ev.Start("C20", ev.LevelExploration, 150*time.Second, 25*time.Minute)
	ctx := context.Background()
	built, err := build(ctx, histories())
	if err != nil {
		r.EngineError(err.Error())
		return r.Finish(nil, []string{pgsimAssumption})
	}
	c := &c20Run{r: r, built: built, thorough: r.Thorough(), samples: ev.NewSamples(8),
		st: &c20Stats{nontrivial: map[string]bool{}, formulas: map[string]bool{}, perRes: map[string]*resStats{}}}
	const chunk = 40
	var tasks []*c20Task
	variantNames := map[string][]string{}
	for _, res := range allResources {
		c.st.perRes[res.Name] = &resStats{NonTrivialBy: map[string]int{}}
		for hi, b := range built {
			as := res.atoms(b)
			fs := c.formulas(as)
			if hi == 0 {
				c.st.perRes[res.Name].Atoms = len(as.all)
				c.st.perRes[res.Name].Formulas = len(fs)
			}
			for _, v := range res.variants(b, c.thorough) {
				if hi == 0 {
					variantNames[res.Name] = append(variantNames[res.Name], v.Name)
				}
				rows := res.rows(b.Ref, v)
				for from := 0; from < len(fs); from += chunk {
					to := from + chunk
					if to > len(fs) {
						to = len(fs)
					}
					tasks = append(tasks, &c20Task{res: res, hi: hi, v: v, rows: rows, forms: fs[from:to], from: from})
				}
			}
		}
	}
	// Formulas are enumerated simplest first (absent filter, atoms, negated atoms, pairs,
	// then the deeper families): run the n-th chunk of every (resource, history, variant)
	// before any (n+1)-th chunk, so that a run cut short by the time budget has still seen
	// every resource and variant with the formulas that discriminate most per evaluation.
	sort.SliceStable(tasks, func(i, j int) bool { return tasks[i].from < tasks[j].from })
	var next atomic.Int64
	var stopped atomic.Bool
	var wg sync.WaitGroup
	for w := 0; w < workers(); w++ {
		wg.Add(1)
		go func() {
			defer wg.Done()
			sites := map[int]*site{}
			defer func() {
				for _, s := range sites {
					s.close()
				}
			}()
			const recycle = 60
			done := 0
			localNT := map[string]bool{}
			localAll := map[string]bool{}
			localEval := map[string]int64{}
			localNTV := map[string]int{}
			defer func() {
				c.st.mu.Lock()
				for k := range localNT {
					c.st.nontrivial[k] = true
				}
				for k := range localAll {
					c.st.formulas[k] = true
				}
				for k, n := range localEval {
					c.st.perRes[k].Evaluations += n
				}
				for k, n := range localNTV {
					i := strings.Index(k, "|")
					c.st.perRes[k[:i]].NonTrivialBy[k[i+1:]] += n
				}
				c.st.mu.Unlock()
			}()
			for {
				if r.Expired() || r.HasEngineError() {
					stopped.Store(true)
					return
				}
				n := int(next.Add(1) - 1)
				if n >= len(tasks) {
					return
				}
				t := tasks[n]
				if done++; done%recycle == 0 {
					// pgsim caches parsed statements by SQL text and every query here is
					// a new text: drop the clones now and then to bound memory
					for k, s := range sites {
						s.close()
						delete(sites, k)
					}
				}
				s := sites[t.hi]
				if s == nil {
					var err error
					s, err = built[t.hi].open(ctx)
					if err != nil {
						r.EngineError("open site: " + err.Error())
						return
					}
					sites[t.hi] = s
				}
				for _, f := range t.forms {
					vd := c.memoEval(ctx, s, t.res, t.v, t.rows, f)
					localEval[t.res.Name]++
					key := t.res.Name + ":" + f.Key()
					localAll[key] = true
					if vd.nonTrivial {
						localNT[key] = true
						localNTV[t.res.Name+"|"+variantClass(t.v.Name)]++
					}
					if vd.Kind == "engine" {
						r.EngineError(fmt.Sprintf("%s history=%s variant=%s filter=%s: %s", t.res.Name, s.B.H.Name, t.v.Name, f.JSON(), vd.Detail))
						return
					}
					if vd.bad() {
						c.report(ctx, s, t, f, vd)
					} else if vd.nonTrivial && f.size() >= 3 {
						c.samples.Add(map[string]any{"resource": t.res.Name, "history": s.B.H.Name, "variant": t.v.Name, "filter": filterObj(f), "selected": vd.Got})
					}
				}
			}
		}()
	}
	wg.Wait()

	st := c.st
	nt := 0
	for k := range st.nontrivial {
		nt++
		st.perRes[k[:strings.Index(k, ":")]].NonTrivial++
	}
	exhaustive := !stopped.Load()
	if exhaustive && !r.HasEngineError() {
		for _, res := range allResources {
			ps := st.perRes[res.Name]
			if ps.NonTrivial*4 < ps.Formulas {
				r.EngineError(fmt.Sprintf("vacuous: only %d of %d %s formulas select a proper non-empty subset on some history", ps.NonTrivial, ps.Formulas, res.Name))
			}
			for _, vn := range variantNames[res.Name] {
				if ps.NonTrivialBy[variantClass(vn)] == 0 {
					r.EngineError(fmt.Sprintf("vacuous: no %s formula is non-trivial under variant %s", res.Name, vn))
				}
			}
			// every kind of atom the property statement names (field × operator class ×
			// address-pattern kind) must, on its own, have selected a proper non-empty
			// subset somewhere: otherwise that kind of filter was only ever seen
			// matching everything or nothing
			kinds := map[string]bool{}
			for _, a := range res.atoms(built[0]).all {
				k := a.shape()
				kinds[k] = kinds[k] || st.nontrivial[res.Name+":"+At(a).Key()]
			}
			ps.AtomKinds = len(kinds)
			var dead []string
			for k, ok := range kinds {
				if !ok {
					dead = append(dead, k)
				}
			}
			sort.Strings(dead)
			if len(dead) > 0 {
				r.EngineError(fmt.Sprintf("vacuous: no %s atom of kind %v selects a proper non-empty subset on its own", res.Name, dead))
			}
			if n, ok := st.counted.Load(res.Name); ok {
				ps.Counted = n.(*atomic.Int64).Load()
			}
			if res.count != nil && ps.Counted == 0 {
				r.EngineError(fmt.Sprintf("vacuous: Count%s was never compared with a listing", res.Name))
			}
		}
	}
	var hs []any
	for _, b := range built {
		hs = append(hs, map[string]any{"name": b.H.Name, "ops": len(b.H.Ops), "transactions": len(b.Ref.Txs), "accounts": len(b.Ref.Accs), "logs": len(b.Ref.Logs), "pits": b.PITs})
	}
	rule := "fixed histories (back-dated/future/tied timestamps, reverts, metadata added/overwritten/deleted on accounts and transactions, 1–3 segment addresses, 3 assets, zero/negative balances, metadata-only accounts) built through the real controller on pgsim × per resource EVERY formula a, ¬a, a∧b, a∨b over the full atom set (every supported field×operator of the property statement with 1–3 values: exact/partial/prefix addresses, $in, metadata match/$exists/$in, balance[asset] and balance comparisons, dates, reverted, reference, id, log type) plus the families ¬(a∨b), a∧(b∨c), a∨(b∧¬c), ¬(a∧¬b) over a reduced 10-atom set"
	if c.thorough {
		rule += " plus EVERY formula of depth 3 (¬f, f∧g, f∨g with f, g of depth ≤ 2) over an 8-atom set"
	}
	rule += " × current state and points in time (effective and insertion date, volumes grouped by 0..2 segments); List* must equal the entities selected by an independent Go evaluator over the reference ledger ($not = set complement), Count* must equal the number of listed entities. $like and the undocumented `updated_at` field are outside the property statement and not enumerated"
	return r.Finish(ev.Coverage{
		"evaluations":                          st.evaluations.Load(),
		"distinct_formulas":                    len(st.formulas),
		"distinct_nontrivial":                  nt,
		"per_resource":                         st.perRes,
		"variants":                             variantNames,
		"histories":                            hs,
		"failing_minimised_to_smaller_formula": st.minimised.Load(),
		"rule":                                 rule,
		"samples":                              c.samples.List(),
		"exhaustive":                           exhaustive,
	}, []string{pgsimAssumption,
		"address pattern `a:...` is read as «a at position 0 with any number of segments» (the wording of /repo/internal/storage/ledger/utils_test.go), i.e. it also selects the bare account `a`",
		"balance[ASSET] on accounts is read as «the account has a balance in ASSET and it compares as stated»; an account that never moved ASSET is selected only through $not",
		"all histories use the default feature set (MOVES_HISTORY=ON, effective volumes SYNC, metadata histories SYNC)"})
}

// workers is the degree of parallelism (PQ_WORKERS overrides, for experiments).
func workers() int {
	if n, err := strconv.Atoi(os.Getenv("PQ_WORKERS")); err == nil && n > 0 {
		return n
	}
	return runtime.NumCPU()
}

func init() {
	reg.Register("C20", runC20)
}
