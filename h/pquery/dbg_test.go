package pquery

import (
	"context"
	"os"
	"testing"
	"time"
)

func TestBuild(t *testing.T) {
	ctx := context.Background()
	bs, err := build(ctx, histories())
	if err != nil {
		t.Fatal(err)
	}
	for _, b := range bs {
		t.Logf("history %s: %d tx %d acc %d logs pits=%v", b.H.Name, len(b.Ref.Txs), len(b.Ref.Accs), len(b.Ref.Logs), b.PITs)
		for _, tx := range b.Ref.Txs {
			t.Logf("  tx %d ts=%s ins=%s rev=%v meta=%v", tx.ID, tx.TS.Format(dateLayout), tx.InsertedAt.Format(dateLayout), tx.RevertedAt, tx.Meta)
		}
		for _, a := range b.Ref.SortedAccounts() {
			t.Logf("  acc %s fu=%s ins=%s meta=%v hist=%v", a.Addr, a.FirstUsage.Format(dateLayout), a.InsertionDate.Format(dateLayout), a.Meta, a.MetaHist)
		}
		s, err := b.open(ctx)
		if err != nil {
			t.Fatal(err)
		}
		for _, res := range allResources {
			as := res.atoms(b)
			for _, v := range res.variants(b, true) {
				rows := res.rows(b.Ref, v)
				start := time.Now()
				bad := 0
				for _, a := range as.all {
					vd := evaluate(ctx, s, res, v, rows, At(a))
					if vd.bad() {
						bad++
						t.Logf("    %s %s %s: %s %s", res.Name, v.Name, At(a).JSON(), vd.Kind, vd.Detail)
					}
				}
				t.Logf("  %s/%s: %d atoms, %d bad, %v per eval", res.Name, v.Name, len(as.all), bad, time.Since(start)/time.Duration(len(as.all)))
			}
		}
		s.close()
	}
}

// TestReplay re-executes the replay file named by PQ_REPLAY.
func TestReplay(t *testing.T) {
	path := os.Getenv("PQ_REPLAY")
	if path == "" {
		t.Skip("PQ_REPLAY not set")
	}
	out, err := ReplayC20(context.Background(), path)
	if err != nil {
		t.Fatal(err)
	}
	t.Log("\n" + out)
}

func TestProfileC20(t *testing.T) {
	t.Setenv("VERIF_ROOT", "/tmp/pq")
	t.Setenv("VERIF_BUDGET_S", "25")
	runC20()
}
