package pquery

import (
	"context"
	"encoding/json"
	"fmt"
	mbig "math/big"
	"net/http"
	"sort"
	"strings"
	"sync"
	"sync/atomic"
	"time"

	"github.com/formancehq/go-libs/v5/pkg/query"
	"github.com/formancehq/go-libs/v5/pkg/storage/bun/paginate"
	libtime "github.com/formancehq/go-libs/v5/pkg/types/time"

	ledger "github.com/formancehq/ledger/internal"
	ledgercontroller "github.com/formancehq/ledger/internal/controller/ledger"
	"github.com/formancehq/ledger/internal/storage/common"
	"github.com/formancehq/ledger/verifh/ev"
	"github.com/formancehq/ledger/verifh/lx"
	"github.com/formancehq/ledger/verifh/reg"
)

const schemaVersion = "v1"

// tpl is one stored query template together with the hand-written direct query it
// describes: direct(bind) is the filter a client would send to the list endpoint.
type tpl struct {
	ID       string
	Resource string
	Params   string                        // raw JSON of the template's params ("" = none)
	Vars     string                        // raw JSON of the variable declarations ("" = none)
	Body     string                        // raw JSON of the filter body ("" = none)
	Defaults map[string]any                `json:"-"` // declared defaults, as the direct query sees them
	Menu     map[string][]any              `json:"-"` // per variable: the values bound by callers; nil entry = leave unbound (use the default)
	Direct   func(b map[string]any) string `json:"-"`
}

// Whole numbers outside the int64 range. The run-query HTTP handler decodes the request
// body without UseNumber, so a numeric variable bound by the caller reaches RunQuery as
// a float64; every value below is exactly representable as a float64, so the binding
// the caller wrote, the float64 the handler decodes and the integer of the equivalent
// direct query are one and the same number.
const (
	tenTo20 = "100000000000000000000" // 10^20 > 2^64
	two63   = "9223372036854775808"   // 2^63 = MaxInt64+1
)

// whole is a numeric binding written as a plain JSON integer of any magnitude.
func whole(s string) json.Number { return json.Number(s) }

// sci is a numeric binding the caller writes in exponent notation (Sent), which JSON
// allows for any number; Exact is the same whole number in plain digits, which is what
// the direct query's filter carries.
type sci struct{ Sent, Exact string }

func (s sci) MarshalJSON() ([]byte, error) { return []byte(s.Sent), nil }

// wholeBound returns the exact value of a numeric binding written as JSON text (nil for
// the small Go ints of the original menus and for non-numeric bindings).
func wholeBound(v any) *mbig.Int {
	var txt string
	switch x := v.(type) {
	case json.Number:
		txt = string(x)
	case sci:
		txt = x.Exact
	default:
		return nil
	}
	n, ok := new(mbig.Int).SetString(txt, 10)
	if !ok {
		panic("harness: numeric binding " + txt)
	}
	return n
}

// bigBound returns the exact value of a numeric binding whose magnitude is at least 2^63
// (nil otherwise).
func bigBound(v any) *mbig.Int {
	n := wholeBound(v)
	if n == nil || new(mbig.Int).Abs(n).Cmp(new(mbig.Int).Lsh(mbig.NewInt(1), 63)) < 0 {
		return nil
	}
	return n
}

// nearestFloat64 is the whole number the float64 nearest to v stands for.
func nearestFloat64(v *mbig.Int) *mbig.Int {
	f, _ := new(mbig.Float).SetInt(v).Float64()
	n, _ := new(mbig.Float).SetFloat64(f).Int(nil)
	return n
}

func tieJSON() string { return tieInstant().UTC().Format(time.RFC3339Nano) }

func js(v any) string {
	b, err := json.Marshal(v)
	if err != nil {
		panic(err)
	}
	return string(b)
}

// templates is the fixed template set: all four resources, every variable type
// (string with interpolation, int, boolean, date), defaults, $in lists, $exists, nested
// connectives, and template-level params (pageSize, sort, endTime, startTime, expand,
// groupBy, insertionDate). Every int variable is also bound to whole numbers outside the
// int64 range (whole(...), sci{...}): the request body is decoded as the HTTP handler
// decodes it, so they reach RunQuery as float64.
func templates() []*tpl {
	unbound := any(nil)
	return []*tpl{
		{ID: "tx_by_account", Resource: "transactions",
			Params:   `{"pageSize":2,"sort":"id:asc"}`,
			Vars:     `{"acc":"string","rev":{"type":"boolean","default":false}}`,
			Body:     `{"$and":[{"$match":{"account":"${acc}"}},{"$match":{"reverted":"${rev}"}}]}`,
			Defaults: map[string]any{"rev": false},
			Menu:     map[string][]any{"acc": {"a", "a:", "a:..."}, "rev": {unbound, true}},
			Direct: func(b map[string]any) string {
				return fmt.Sprintf(`{"$and":[{"$match":{"account":%s}},{"$match":{"reverted":%s}}]}`, js(b["acc"]), js(b["rev"]))
			}},
		{ID: "tx_since", Resource: "transactions",
			Params:   `{"expand":["volumes"],"endTime":"` + tieJSON() + `"}`,
			Vars:     `{"since":"date","minid":{"type":"int","default":1}}`,
			Body:     `{"$and":[{"$gte":{"timestamp":"${since}"}},{"$gte":{"id":"${minid}"}}]}`,
			Defaults: map[string]any{"minid": 1},
			Menu: map[string][]any{"since": {lx.Base.Add(-2 * time.Hour).Format(time.RFC3339Nano), lx.Base.Add(time.Second).Format(time.RFC3339Nano)},
				"minid": {unbound, 3, whole(two63)}},
			Direct: func(b map[string]any) string {
				return fmt.Sprintf(`{"$and":[{"$gte":{"timestamp":%s}},{"$gte":{"id":%s}}]}`, js(b["since"]), js(b["minid"]))
			}},
		{ID: "tx_meta", Resource: "transactions",
			Vars:     `{"key":"string","val":{"type":"string","default":"v"}}`,
			Body:     `{"$or":[{"$not":{"$exists":{"metadata":"${key}"}}},{"$match":{"metadata[k]":"${val}"}}]}`,
			Defaults: map[string]any{"val": "v"},
			Menu:     map[string][]any{"key": {"k", "m"}, "val": {unbound, "w"}},
			Direct: func(b map[string]any) string {
				return fmt.Sprintf(`{"$or":[{"$not":{"$exists":{"metadata":%s}}},{"$match":{"metadata[k]":%s}}]}`, js(b["key"]), js(b["val"]))
			}},
		{ID: "tx_all", Resource: "transactions",
			Menu:   map[string][]any{},
			Direct: func(map[string]any) string { return "" }},
		{ID: "acc_tree", Resource: "accounts",
			Params:   `{"pageSize":3,"sort":"address:desc"}`,
			Vars:     `{"root":"string","role":{"type":"string","default":"r"}}`,
			Body:     `{"$or":[{"$match":{"address":"${root}:..."}},{"$match":{"metadata[role]":"${role}"}}]}`,
			Defaults: map[string]any{"role": "r"},
			Menu:     map[string][]any{"root": {"a", "a:b", "b"}, "role": {unbound, "q"}},
			Direct: func(b map[string]any) string {
				return fmt.Sprintf(`{"$or":[{"$match":{"address":%s}},{"$match":{"metadata[role]":%s}}]}`, js(fmt.Sprint(b["root"])+":..."), js(b["role"]))
			}},
		{ID: "acc_rich", Resource: "accounts",
			Params:   `{"expand":["volumes"]}`,
			Vars:     `{"min":"int","seg":{"type":"string","default":"b"}}`,
			Body:     `{"$and":[{"$gt":{"balance[USD]":"${min}"}},{"$not":{"$match":{"address":"a:${seg}:"}}}]}`,
			Defaults: map[string]any{"seg": "b"},
			Menu:     map[string][]any{"min": {0, 30, -1000, whole(tenTo20), whole("-" + tenTo20), whole(two63), whole("9007199254740993")}, "seg": {unbound, "x"}},
			Direct: func(b map[string]any) string {
				return fmt.Sprintf(`{"$and":[{"$gt":{"balance[USD]":%s}},{"$not":{"$match":{"address":%s}}}]}`, js(b["min"]), js("a:"+fmt.Sprint(b["seg"])+":"))
			}},
		// string LITERALS of the template outside ASCII (2-, 3- and 4-byte UTF-8 sequences), next to
		// a variable and on their own: what is substituted is the variable, never the text around it
		{ID: "acc_unicode", Resource: "accounts",
			Vars: `{"tail":"string"}`,
			Body: `{"$or":[{"$match":{"metadata[ville]":"Zür${tail}"}},{"$match":{"metadata[ville]":"東京 🗼"}}]}`,
			Menu: map[string][]any{"tail": {"ich", "ïch", "x"}},
			Direct: func(b map[string]any) string {
				return fmt.Sprintf(`{"$or":[{"$match":{"metadata[ville]":%s}},{"$match":{"metadata[ville]":"東京 🗼"}}]}`, js("Zür"+fmt.Sprint(b["tail"])))
			}},
		{ID: "acc_in", Resource: "accounts",
			Params:   `{"endTime":"` + tieJSON() + `","pageSize":2}`,
			Vars:     `{"x":"string","y":{"type":"string","default":"a:b"}}`,
			Body:     `{"$in":{"address":["${x}","${y}","world"]}}`,
			Defaults: map[string]any{"y": "a:b"},
			Menu:     map[string][]any{"x": {"a", "zz"}, "y": {unbound, "a:b:c"}},
			Direct: func(b map[string]any) string {
				return fmt.Sprintf(`{"$in":{"address":[%s,%s,"world"]}}`, js(b["x"]), js(b["y"]))
			}},
		{ID: "logs_from", Resource: "logs",
			Params:   `{"pageSize":2}`,
			Vars:     `{"from":"int","kind":{"type":"string","default":"NEW_TRANSACTION"}}`,
			Body:     `{"$and":[{"$gte":{"id":"${from}"}},{"$match":{"type":"${kind}"}}]}`,
			Defaults: map[string]any{"kind": "NEW_TRANSACTION"},
			Menu:     map[string][]any{"from": {1, 3, whole(two63)}, "kind": {unbound, "SET_METADATA"}},
			Direct: func(b map[string]any) string {
				return fmt.Sprintf(`{"$and":[{"$gte":{"id":%s}},{"$match":{"type":%s}}]}`, js(b["from"]), js(b["kind"]))
			}},
		{ID: "logs_before", Resource: "logs",
			Params: `{"sort":"id:asc"}`,
			Vars:   `{"before":"date"}`,
			Body:   `{"$lt":{"date":"${before}"}}`,
			Menu:   map[string][]any{"before": {lx.Base.Add(time.Hour).Format(time.RFC3339Nano), lx.Base.Add(800 * time.Millisecond).Format(time.RFC3339Nano)}},
			Direct: func(b map[string]any) string { return fmt.Sprintf(`{"$lt":{"date":%s}}`, js(b["before"])) }},
		{ID: "vol_group", Resource: "volumes",
			Params: `{"groupBy":1,"pageSize":2}`,
			Vars:   `{"pat":"string"}`,
			Body:   `{"$match":{"account":"${pat}"}}`,
			Menu:   map[string][]any{"pat": {"a:...", "a::c", "world"}},
			Direct: func(b map[string]any) string { return fmt.Sprintf(`{"$match":{"account":%s}}`, js(b["pat"])) }},
		{ID: "vol_pit", Resource: "volumes",
			Params:   `{"endTime":"` + tieJSON() + `","insertionDate":false,"sort":"account:desc"}`,
			Vars:     `{"min":{"type":"int","default":0}}`,
			Body:     `{"$or":[{"$gte":{"balance[USD]":"${min}"}},{"$match":{"metadata[role]":"r"}}]}`,
			Defaults: map[string]any{"min": 0},
			Menu:     map[string][]any{"min": {unbound, 40, -5, whole(two63), sci{Sent: "1e20", Exact: tenTo20}, sci{Sent: "-1E+20", Exact: "-" + tenTo20}}},
			Direct: func(b map[string]any) string {
				return fmt.Sprintf(`{"$or":[{"$gte":{"balance[USD]":%s}},{"$match":{"metadata[role]":"r"}}]}`, js(b["min"]))
			}},
	}
}

// hugeHistory is the history whose USD balances lie outside the int64 range on both
// sides, so that a numeric variable bound to ±10^20 or 2^63 selects some but not all
// accounts: big:a 2·10^20 (3·10^20 received, 10^20 sent on to big:e), big:e 10^20, big:b
// 5·10^19, big:c and big:d 10^19 (all ≥ 2^63), a and a:b small, od −10^19 (> −10^20),
// od2 −12, world −3.6·10^20 (< −10^20). Every amount and
// every running total is a short decimal (at most two significant digits followed by
// zeros): see REPORT.md — the run-query HTTP response re-encodes numbers through float64.
func hugeHistory() *History {
	return &History{Name: "huge", Ops: []lx.Op{
		/* tx1 */ post(nil, "r1", md("k", "v"), p("world", "big:a", "USD", "300000000000000000000")),
		/* tx2 */ post(nil, "", md("k", "w"), p("world", "big:b", "USD", "50000000000000000000")),
		/* tx3 */ post(nil, "", nil, p("world", "big:c", "USD", "10000000000000000000")),
		/* tx4 */ {Kind: "script", Script: "send [USD 10000000000000000000] (\n source = @od allowing unbounded overdraft\n destination = @big:d\n)\nset_account_meta(@big:d, \"role\", \"r\")"},
		/* tx5 */ {Kind: "script", Script: "send [USD 12] (\n source = @od2 allowing unbounded overdraft\n destination = {\n 7/12 to @a\n remaining to @a:b\n }\n)\nset_tx_meta(\"m\", \"y\")"},
		{Kind: "accmeta", Address: "a", Meta: md("role", "q")},
		/* tx6 */ post(lx.TS(60*sec), "r2", nil, p("big:a", "big:e", "USD", "100000000000000000000")),
		// 2^53+1: neither this balance nor a variable bound to it survives a float64
		post(nil, "", nil, p("world", "p:y", "USD", "9007199254740993")),
		{Kind: "accmeta", Address: "big:b", Meta: md("ville", "Zürich")},
		{Kind: "accmeta", Address: "big:c", Meta: md("ville", "東京 🗼")},
		{Kind: "accmeta", Address: "big:d", Meta: md("ville", "ZÃ¼rich")}, // what a byte-wise copy of the literal would select
	}}
}

func schemaJSON(ts []*tpl) string {
	qs := map[string]any{}
	for _, t := range ts {
		q := map[string]any{"resource": t.Resource, "description": t.ID}
		if t.Params != "" {
			q["params"] = json.RawMessage(t.Params)
		}
		if t.Vars != "" {
			q["vars"] = json.RawMessage(t.Vars)
		}
		if t.Body != "" {
			q["body"] = json.RawMessage(t.Body)
		}
		qs[t.ID] = q
	}
	return js(map[string]any{"chart": map[string]any{"world": map[string]any{}}, "queries": qs})
}

// overrides is the menu of request-level params per resource ("" = none at all).
func overrides(resource string) []string {
	pit1 := lx.Base.Add(time.Second).Format(time.RFC3339Nano)
	common := []string{"", `{}`, `{"pageSize":1}`, `{"pageSize":50}`, `{"endTime":"` + pit1 + `"}`}
	switch resource {
	case "transactions":
		return append(common, `{"sort":"id:desc"}`, `{"sort":"timestamp:asc"}`, `{"expand":["effectiveVolumes"]}`, `{"expand":[]}`, `{"pageSize":3,"sort":"id:asc","expand":["volumes","effectiveVolumes"]}`)
	case "accounts":
		return append(common, `{"sort":"address:asc"}`, `{"sort":"first_usage:desc"}`, `{"expand":["effectiveVolumes"]}`, `{"expand":[]}`, `{"pageSize":2,"sort":"address:desc","expand":["volumes"]}`)
	case "logs":
		return []string{"", `{}`, `{"pageSize":1}`, `{"pageSize":50}`, `{"sort":"id:asc"}`, `{"sort":"id:desc","pageSize":3}`}
	case "volumes":
		return append(common, `{"sort":"account:asc"}`, `{"groupBy":2}`, `{"insertionDate":true}`, `{"startTime":"`+lx.Base.Add(-30*time.Minute).Format(time.RFC3339Nano)+`"}`, `{"groupBy":0,"pageSize":3,"sort":"account:desc"}`)
	}
	return nil
}

// withPairs adds the union of every two menu entries that mention disjoint parameters.
func withPairs(menu []string) []string {
	out := append([]string(nil), menu...)
	seen := map[string]bool{}
	for _, m := range menu {
		seen[m] = true
	}
	for i, a := range menu {
		for _, b := range menu[i+1:] {
			var ma, mb map[string]json.RawMessage
			if a == "" || b == "" || json.Unmarshal([]byte(a), &ma) != nil || json.Unmarshal([]byte(b), &mb) != nil || len(ma) == 0 || len(mb) == 0 {
				continue
			}
			disjoint := true
			for k := range mb {
				if _, ok := ma[k]; ok {
					disjoint = false
				}
			}
			if !disjoint {
				continue
			}
			for k, v := range mb {
				ma[k] = v
			}
			if u := js(ma); !seen[u] {
				seen[u] = true
				out = append(out, u)
			}
		}
	}
	return out
}

// effParams is the meaning of "template parameters overridden by the request
// parameters": start from the resource defaults, then apply the template's params, then
// the request's params, field by field — a field that a layer does not mention keeps
// the value it had.
type effParams struct {
	PageSize  uint64
	Column    string
	Order     paginate.Order
	PIT, OOT  *time.Time
	Expand    []string
	GroupBy   int
	Insertion bool
	set       map[string]string // field -> layer that set it last
}

func defaultParams(resource string, cfg common.PaginationConfig) effParams {
	e := effParams{PageSize: cfg.DefaultPageSize, set: map[string]string{}}
	switch resource {
	case "transactions", "logs":
		e.Column, e.Order = "id", paginate.OrderDesc
	case "accounts":
		e.Column, e.Order = "address", paginate.OrderAsc
	case "volumes":
		e.Column, e.Order = "account", paginate.OrderAsc
	}
	return e
}

func (e *effParams) apply(layer, raw string) error {
	if raw == "" {
		return nil
	}
	var m map[string]json.RawMessage
	if err := json.Unmarshal([]byte(raw), &m); err != nil {
		return err
	}
	for k, v := range m {
		e.set[k] = layer
		switch k {
		case "pageSize":
			if err := json.Unmarshal(v, &e.PageSize); err != nil {
				return err
			}
		case "sort":
			var s string
			if err := json.Unmarshal(v, &s); err != nil {
				return err
			}
			parts := strings.SplitN(s, ":", 2)
			e.Column = parts[0]
			if len(parts) > 1 {
				if strings.ToLower(parts[1]) == "desc" {
					e.Order = paginate.OrderDesc
				} else {
					e.Order = paginate.OrderAsc
				}
			}
		case "endTime", "startTime":
			var s string
			if err := json.Unmarshal(v, &s); err != nil {
				return err
			}
			t, err := time.Parse(time.RFC3339Nano, s)
			if err != nil {
				return err
			}
			if k == "endTime" {
				e.PIT = &t
			} else {
				e.OOT = &t
			}
		case "expand":
			e.Expand = nil
			if err := json.Unmarshal(v, &e.Expand); err != nil {
				return err
			}
		case "groupBy":
			if err := json.Unmarshal(v, &e.GroupBy); err != nil {
				return err
			}
		case "insertionDate":
			if err := json.Unmarshal(v, &e.Insertion); err != nil {
				return err
			}
		default:
			return fmt.Errorf("harness: unknown param %q", k)
		}
	}
	return nil
}

// dropKey returns the params layer raw without the field k.
func dropKey(raw, k string) string {
	if raw == "" {
		return raw
	}
	var m map[string]json.RawMessage
	if err := json.Unmarshal([]byte(raw), &m); err != nil {
		return raw
	}
	delete(m, k)
	return js(m)
}

// layerKeys lists the fields a params layer mentions, sorted.
func layerKeys(raw string) []string {
	if raw == "" {
		return nil
	}
	var m map[string]json.RawMessage
	if err := json.Unmarshal([]byte(raw), &m); err != nil {
		return nil
	}
	var ks []string
	for k := range m {
		ks = append(ks, k)
	}
	sort.Strings(ks)
	return ks
}

// effOf folds defaults ⊕ template params ⊕ request params.
func effOf(resource string, cfg common.PaginationConfig, tplParams, reqParams string) (effParams, error) {
	e := defaultParams(resource, cfg)
	if err := e.apply("template", tplParams); err != nil {
		return e, err
	}
	if err := e.apply("request", reqParams); err != nil {
		return e, err
	}
	return e, nil
}

func ltime(t *time.Time) *libtime.Time {
	if t == nil {
		return nil
	}
	x := libtime.New(*t)
	return &x
}

// page is a resource-independent view of one result page.
type page struct {
	Data     []string
	PageSize int
	HasMore  bool
	Next     string
	Previous string
}

func (p *page) brief() string {
	if p == nil {
		return "<no such page>"
	}
	return fmt.Sprintf("pageSize=%d hasMore=%v data=%v", p.PageSize, p.HasMore, short(p.Data))
}

func toPage[T any](c *paginate.Cursor[T]) *page {
	p := &page{PageSize: c.PageSize, HasMore: c.HasMore, Next: c.Next, Previous: c.Previous}
	for _, d := range c.Data {
		p.Data = append(p.Data, js(d))
	}
	return p
}

// directFirst issues the equivalent direct list call.
func directFirst(ctx context.Context, c ledgercontroller.Controller, resource string, e effParams, qb query.Builder, cfg common.PaginationConfig) (*page, error) {
	size := e.PageSize
	if size > cfg.MaxPageSize {
		size = cfg.MaxPageSize
	}
	order := e.Order
	anyQ := common.InitialPaginatedQuery[any]{PageSize: size, Column: e.Column, Order: &order,
		Options: common.ResourceQuery[any]{PIT: ltime(e.PIT), OOT: ltime(e.OOT), Builder: qb, Expand: e.Expand}}
	switch resource {
	case "transactions":
		cur, err := c.ListTransactions(ctx, anyQ)
		if err != nil {
			return nil, err
		}
		return toPage(cur), nil
	case "accounts":
		cur, err := c.ListAccounts(ctx, anyQ)
		if err != nil {
			return nil, err
		}
		return toPage(cur), nil
	case "logs":
		cur, err := c.ListLogs(ctx, anyQ)
		if err != nil {
			return nil, err
		}
		return toPage(cur), nil
	case "volumes":
		cur, err := c.GetVolumesWithBalances(ctx, common.InitialPaginatedQuery[ledger.GetVolumesOptions]{PageSize: size, Column: e.Column, Order: &order,
			Options: common.ResourceQuery[ledger.GetVolumesOptions]{PIT: ltime(e.PIT), OOT: ltime(e.OOT), Builder: qb, Expand: e.Expand,
				Opts: ledger.GetVolumesOptions{UseInsertionDate: e.Insertion, GroupLvl: e.GroupBy}}})
		if err != nil {
			return nil, err
		}
		return toPage(cur), nil
	}
	return nil, fmt.Errorf("harness: unknown resource %s", resource)
}

func directCursor(ctx context.Context, c ledgercontroller.Controller, resource, cursor string) (*page, error) {
	if resource == "volumes" {
		q, err := common.UnmarshalCursor[ledger.GetVolumesOptions](cursor)
		if err != nil {
			return nil, err
		}
		cur, err := c.GetVolumesWithBalances(ctx, q)
		if err != nil {
			return nil, err
		}
		return toPage(cur), nil
	}
	q, err := common.UnmarshalCursor[any](cursor)
	if err != nil {
		return nil, err
	}
	switch resource {
	case "transactions":
		cur, err := c.ListTransactions(ctx, q)
		if err != nil {
			return nil, err
		}
		return toPage(cur), nil
	case "accounts":
		cur, err := c.ListAccounts(ctx, q)
		if err != nil {
			return nil, err
		}
		return toPage(cur), nil
	default:
		cur, err := c.ListLogs(ctx, q)
		if err != nil {
			return nil, err
		}
		return toPage(cur), nil
	}
}

// runTemplate calls RunQuery the way the HTTP handler does (JSON body decoded into
// storagecommon.RunQuery).
func runTemplate(ctx context.Context, c ledgercontroller.Controller, id string, body map[string]any, cfg common.PaginationConfig) (*page, string, error) {
	var rqy common.RunQuery
	if err := json.Unmarshal([]byte(js(body)), &rqy); err != nil {
		return nil, "", err
	}
	kind, cur, err := c.RunQuery(ctx, schemaVersion, id, rqy, cfg)
	if err != nil {
		return nil, "", err
	}
	return toPage(cur), string(*kind), nil
}

func comparePages(a, b *page) string {
	switch {
	case a.PageSize != b.PageSize:
		return "page-size"
	case len(a.Data) != len(b.Data):
		return "data-length"
	}
	for i := range a.Data {
		if a.Data[i] != b.Data[i] {
			// same entities in another order, or different entities/fields?
			x, y := append([]string(nil), a.Data...), append([]string(nil), b.Data...)
			sort.Strings(x)
			sort.Strings(y)
			if equalStrings(x, y) {
				return "data-order"
			}
			return "data"
		}
	}
	switch {
	case a.HasMore != b.HasMore:
		return "has-more"
	case (a.Next == "") != (b.Next == ""):
		return "next-cursor-presence"
	case (a.Previous == "") != (b.Previous == ""):
		return "previous-cursor-presence"
	}
	return ""
}

type c37Case struct {
	t    *tpl
	bind map[string]any // variables sent by the caller
	full map[string]any // with defaults filled in: what the direct query uses
	ov   string
	cfg  common.PaginationConfig
	cfgN string
}

func bindings(t *tpl) (sent, full []map[string]any) {
	var names []string
	for n := range t.Menu {
		names = append(names, n)
	}
	sort.Strings(names)
	sent, full = []map[string]any{{}}, []map[string]any{{}}
	for k, v := range t.Defaults {
		full[0][k] = v
	}
	for _, n := range names {
		var ns, nf []map[string]any
		for i := range sent {
			for _, val := range t.Menu[n] {
				s2, f2 := map[string]any{}, map[string]any{}
				for k, v := range sent[i] {
					s2[k] = v
				}
				for k, v := range full[i] {
					f2[k] = v
				}
				if val != nil {
					s2[n], f2[n] = val, val
					if sc, ok := val.(sci); ok {
						f2[n] = json.Number(sc.Exact)
					}
				}
				ns, nf = append(ns, s2), append(nf, f2)
			}
		}
		sent, full = ns, nf
	}
	return
}

// walk is every page of one query, first page first.
type walk []*page

// walkDirect follows the direct list call's own next cursors.
func walkDirect(ctx context.Context, c ledgercontroller.Controller, resource string, e effParams, qb query.Builder, cfg common.PaginationConfig) (walk, error) {
	p, err := directFirst(ctx, c, resource, e, qb, cfg)
	if err != nil {
		return nil, err
	}
	w := walk{p}
	for p.Next != "" && len(w) < 60 {
		if p, err = directCursor(ctx, c, resource, p.Next); err != nil {
			return w, err
		}
		w = append(w, p)
	}
	return w, nil
}

// walkTemplate runs the template and follows the cursors RunQuery returns, through
// RunQuery itself.
func walkTemplate(ctx context.Context, c ledgercontroller.Controller, id string, body map[string]any, cfg common.PaginationConfig) (walk, string, error) {
	p, kind, err := runTemplate(ctx, c, id, body, cfg)
	if err != nil {
		return nil, "", err
	}
	w := walk{p}
	for p.Next != "" && len(w) < 60 {
		if p, _, err = runTemplate(ctx, c, id, map[string]any{"cursor": p.Next}, cfg); err != nil {
			return w, kind, err
		}
		w = append(w, p)
	}
	return w, kind, nil
}

// compareWalks returns the index of the first differing page and how it differs.
func compareWalks(a, b walk) (int, string) {
	for i := 0; i < len(a) && i < len(b); i++ {
		if d := comparePages(a[i], b[i]); d != "" {
			return i, d
		}
	}
	if len(a) != len(b) {
		return min(len(a), len(b)), "page-count"
	}
	return -1, ""
}

// resettable are the parameters whose loss diagnoseReset can recognise.
var resettable = []string{"pageSize", "endTime", "startTime", "expand"}

// diagnoseReset explains a difference by the hypothesis «the value that defaults ⊕
// template ⊕ request give to parameter P was replaced by the zero value»: it re-runs
// the direct query with every subset of the non-zero parameters among pageSize,
// endTime, startTime, expand zeroed (page size zero means the library default of 15,
// applied after the max-page-size clamp) and returns the smallest subset that
// reproduces exactly what RunQuery returned (nil when none does).
func diagnoseReset(ctx context.Context, s *site, cs *c37Case, eff effParams, qb func() query.Builder, got walk) []string {
	var cand []string
	for _, f := range resettable {
		switch f {
		case "pageSize":
			eff2 := eff.PageSize
			if eff2 > cs.cfg.MaxPageSize {
				eff2 = cs.cfg.MaxPageSize
			}
			if eff2 != paginate.QueryDefaultPageSize {
				cand = append(cand, f)
			}
		case "endTime":
			if eff.PIT != nil {
				cand = append(cand, f)
			}
		case "startTime":
			if eff.OOT != nil {
				cand = append(cand, f)
			}
		case "expand":
			if len(eff.Expand) > 0 {
				cand = append(cand, f)
			}
		}
	}
	var best []string
	for mask := 1; mask < 1<<len(cand); mask++ {
		e, cfg := eff, cs.cfg
		var sub []string
		for i, f := range cand {
			if mask&(1<<i) == 0 {
				continue
			}
			sub = append(sub, f)
			switch f {
			case "pageSize":
				e.PageSize = paginate.QueryDefaultPageSize
				cfg.MaxPageSize = 1 << 30
			case "endTime":
				e.PIT = nil
			case "startTime":
				e.OOT = nil
			case "expand":
				e.Expand = nil
			}
		}
		if best != nil && len(sub) >= len(best) {
			continue
		}
		w, err := walkDirect(ctx, s.Ctrl, cs.t.Resource, e, qb(), cfg)
		if err != nil {
			continue
		}
		if i, _ := compareWalks(got, w); i < 0 {
			best = sub
		}
	}
	return best
}

// int64Images are the values a whole number outside the int64 range turns into when it
// is squeezed through an int64 (or dropped): the hypotheses diagnoseNumeric tests, and
// the neighbours the vacuity guard requires the results to be distinguishable from.
func int64Images(v *mbig.Int) map[string]string {
	wrapped := new(mbig.Int).And(v, new(mbig.Int).SetUint64(^uint64(0))) // v mod 2^64 …
	if wrapped.Bit(63) == 1 {                                            // … read as a signed 64-bit integer
		wrapped.Sub(wrapped, new(mbig.Int).Lsh(mbig.NewInt(1), 64))
	}
	return map[string]string{
		"min-int64":     "-9223372036854775808",
		"max-int64":     "9223372036854775807",
		"wrapped-int64": wrapped.String(),
		"zero":          "0",
	}
}

var imageOrder = []string{"min-int64", "max-int64", "wrapped-int64", "zero"}

// withVar is the direct filter of the case with variable n bound to the integer txt.
func (cs *c37Case) withVar(n, txt string) func() query.Builder {
	f2 := map[string]any{}
	for k, v := range cs.full {
		f2[k] = v
	}
	f2[n] = json.Number(txt)
	return func() query.Builder {
		b, err := query.ParseJSON(cs.t.Direct(f2))
		if err != nil {
			panic(err)
		}
		return b
	}
}

// bigVars lists the variables the caller binds to a whole number of magnitude ≥ 2^63.
func (cs *c37Case) bigVars() (names []string, vals []*mbig.Int) {
	for n, v := range cs.bind {
		if bigBound(v) != nil {
			names = append(names, n)
		}
	}
	sort.Strings(names)
	for _, n := range names {
		vals = append(vals, bigBound(cs.bind[n]))
	}
	return
}

// diagnoseNumeric explains a difference by the hypothesis «the numeric variable n was
// substituted as another number»: the float64 nearest to it (when that is another
// number) or, for a whole number outside the int64 range, one of its int64 images. It
// re-runs the direct query with n replaced by each candidate and returns the variable,
// its class, the first candidate that reproduces exactly what RunQuery returned and that
// candidate's value ("" when none does).
func diagnoseNumeric(ctx context.Context, s *site, cs *c37Case, eff effParams, got walk) (name, class, image, value string) {
	var names []string
	for n, v := range cs.bind {
		if wholeBound(v) != nil {
			names = append(names, n)
		}
	}
	sort.Strings(names)
	for _, n := range names {
		v := wholeBound(cs.bind[n])
		var labels []string
		imgs := map[string]string{}
		class = "beyond-float64-precision"
		if f := nearestFloat64(v); f.Cmp(v) != 0 {
			labels, imgs["nearest-float64"] = append(labels, "nearest-float64"), f.String()
		}
		if bigBound(cs.bind[n]) != nil {
			class = "positive-beyond-int64"
			if v.Sign() < 0 {
				class = "negative-beyond-int64"
			}
			labels = append(labels, imageOrder...)
			for k, x := range int64Images(v) {
				imgs[k] = x
			}
		}
		for _, label := range labels {
			w, err := walkDirect(ctx, s.Ctrl, cs.t.Resource, eff, cs.withVar(n, imgs[label])(), cs.cfg)
			if err != nil {
				continue
			}
			if d, _ := compareWalks(got, w); d < 0 {
				return n, class, label, imgs[label]
			}
		}
	}
	return "", "", "", ""
}

func bigNamesOf(cs *c37Case) []string {
	n, _ := cs.bigVars()
	return n
}

func runC37() int {
	r := ev.Start("C37", ev.LevelExploration, 120*time.Second, 15*time.Minute)
	ctx := context.Background()
	ts := templates()
	hs := append(histories(), hugeHistory())
	for _, h := range hs {
		h.Ops = append(h.Ops, lx.Op{Kind: "schema", Schema: schemaVersion, SchemaData: schemaJSON(ts)})
	}
	built, err := build(ctx, hs)
	if err != nil {
		r.EngineError(err.Error())
		return r.Finish(nil, []string{pgsimAssumption})
	}
	cfgs := []struct {
		name string
		cfg  common.PaginationConfig
	}{
		{"default", common.PaginationConfig{DefaultPageSize: 15, MaxPageSize: 100}},
		{"small", common.PaginationConfig{DefaultPageSize: 4, MaxPageSize: 10}},
	}
	var cases []*c37Case
	for _, t := range ts {
		sent, full := bindings(t)
		for i := range sent {
			ovs := overrides(t.Resource)
			if r.Thorough() {
				ovs = withPairs(ovs)
			}
			for _, ov := range ovs {
				for _, c := range cfgs {
					cases = append(cases, &c37Case{t: t, bind: sent[i], full: full[i], ov: ov, cfg: c.cfg, cfgN: c.name})
				}
			}
		}
	}
	type job struct {
		hi int
		cs *c37Case
	}
	var jobs []job
	for hi := range built {
		for _, cs := range cases {
			jobs = append(jobs, job{hi, cs})
		}
	}
	var evaluations, followed, nontrivial, multiPage, previousFollowed, overrideSame, keptUnderRequest atomic.Int64
	var httpCases, httpPages, httpMultiPage, httpBigNumbers, httpBigCases atomic.Int64
	var bigCases, bigNontrivialPos, bigNontrivialNeg, sciCases atomic.Int64
	// "<sign>|<image>" (and the same with the template id appended) -> true once some
	// passing case binds a numeric variable to a whole number of that sign outside the
	// int64 range and the direct query with that int64 image substituted instead returns
	// other pages: a RunQuery squeezing the variable through an int64 cannot pass that case
	bigBearing := sync.Map{}
	bigPerTpl := sync.Map{} // template id -> *atomic.Int64
	ntKeys := sync.Map{}
	// load-bearing parameters: "template|<field>" / "request|<field>" (and the same
	// with the template id appended) -> true once some passing case was observed in
	// which removing that field from that layer changes the direct query's pages, i.e.
	// a RunQuery that ignored the field there would have been caught by that case
	bearing := sync.Map{}
	samples := ev.NewSamples(6)
	perTpl := map[string]*[3]int64{} // runs, nonempty, multi-page
	var mu sync.Mutex
	for _, t := range ts {
		perTpl[t.ID] = &[3]int64{}
	}
	var next atomic.Int64
	var stopped atomic.Bool
	var wg sync.WaitGroup
	for w := 0; w < workers(); w++ {
		wg.Add(1)
		go func() {
			defer wg.Done()
			sites := map[int]*site{}
			routers := map[string]http.Handler{}
			totals := map[string]int{}
			defer func() {
				for _, s := range sites {
					s.close()
				}
			}()
			for {
				if r.Expired() || r.HasEngineError() {
					stopped.Store(true)
					return
				}
				i := int(next.Add(1) - 1)
				if i >= len(jobs) {
					return
				}
				j := jobs[i]
				s := sites[j.hi]
				if s == nil {
					var err error
					if s, err = built[j.hi].open(ctx); err != nil {
						r.EngineError("open site: " + err.Error())
						return
					}
					sites[j.hi] = s
				}
				cs := j.cs
				t := cs.t
				desc := map[string]any{"history": s.B.H.Name, "template": t.ID, "vars": cs.bind, "requestParams": json.RawMessage(orNull(cs.ov)), "templateParams": json.RawMessage(orNull(t.Params)), "paginationConfig": cs.cfg}
				report := func(scope, kind, what string, extra map[string]any) {
					sig := fmt.Sprintf("C37:%s:%s", scope, kind)
					rp := map[string]any{"history": s.B.H, "templateDefinition": t, "directFilter": t.Direct(cs.full)}
					for k, v := range desc {
						if k != "history" {
							rp[k] = v
						}
					}
					for k, v := range extra {
						rp[k] = v
					}
					r.Violation(sig, fmt.Sprintf("template %s (%s) history=%s vars=%s templateParams=%s requestParams=%s config=%s: %s", t.ID, t.Resource, s.B.H.Name, js(cs.bind), orNull(t.Params), orNull(cs.ov), cs.cfgN, what), rp)
				}
				violation := func(kind, what string, extra map[string]any) { report(t.Resource, kind, what, extra) }
				// a lost parameter is a defect of the shared params merge, not of one
				// resource branch: its signature does not carry the resource
				paramReset := func(field, src, what string, extra map[string]any) {
					report("param-reset", field+":"+src+"-value-dropped", what, extra)
				}
				// the equivalent direct query
				eff := defaultParams(t.Resource, cs.cfg)
				if err := eff.apply("template", t.Params); err != nil {
					r.EngineError(err.Error())
					return
				}
				if err := eff.apply("request", cs.ov); err != nil {
					r.EngineError(err.Error())
					return
				}
				qb := func() query.Builder {
					b, err := query.ParseJSON(t.Direct(cs.full))
					if err != nil {
						panic(err)
					}
					return b
				}
				want, werr := walkDirect(ctx, s.Ctrl, t.Resource, eff, qb(), cs.cfg)
				body := map[string]any{}
				if len(cs.bind) > 0 {
					body["vars"] = cs.bind
				}
				if cs.ov != "" {
					body["params"] = json.RawMessage(cs.ov)
				}
				got, kind, gerr := walkTemplate(ctx, s.Ctrl, t.ID, body, cs.cfg)
				evaluations.Add(1)
				followed.Add(int64(len(got)))
				for _, e := range []error{werr, gerr} {
					if e != nil && lx.Classify(e) == "ENGINE" {
						r.EngineError(fmt.Sprintf("%v: %v", desc, e))
						return
					}
				}
				if (werr != nil) != (gerr != nil) {
					violation("error-mismatch", fmt.Sprintf("direct query error=%v, RunQuery error=%v", werr, gerr), nil)
					continue
				}
				if werr != nil {
					if lx.Classify(werr) != lx.Classify(gerr) {
						violation("error-class", fmt.Sprintf("direct query fails with %v, RunQuery with %v", werr, gerr), nil)
					}
					continue
				}
				if kind != t.Resource {
					violation("resource-kind", fmt.Sprintf("RunQuery reports resource %q", kind), nil)
					continue
				}
				if pi, d := compareWalks(got, want); d != "" {
					phase := "first-page"
					if pi > 0 {
						phase = "cursor"
					}
					var gp, wp *page
					if pi < len(got) {
						gp = got[pi]
					}
					if pi < len(want) {
						wp = want[pi]
					}
					what := fmt.Sprintf("page %d differs (%s): RunQuery %s; direct %s", pi+1, d, gp.brief(), wp.brief())
					extra := map[string]any{"differingPage": pi + 1, "runQuery": gp, "direct": wp}
					if n, class, img, val := diagnoseNumeric(ctx, s, cs, eff, got); n != "" {
						// a mis-converted numeric variable is a defect of the shared variable
						// substitution, not of one resource or template
						report("numeric-var", fmt.Sprintf("%s:substituted-as-%s", class, img), fmt.Sprintf("variable %s=%s (decoded from the request body as a float64) is substituted as %s: the result equals the direct query with that value; %s", n, js(cs.bind[n]), val, what), extra)
						continue
					}
					if lost := diagnoseReset(ctx, s, cs, eff, qb, got); lost != nil {
						// one violation per lost parameter: each is its own line of Overwrite
						for _, f := range lost {
							src := eff.set[f]
							if src == "" {
								src = "configured-default"
							}
							paramReset(f, src, fmt.Sprintf("the %s value of %s is replaced by the zero value (all of %v are; the result equals the direct query without them); %s", src, f, lost, what), extra)
						}
						continue
					}
					violation(fmt.Sprintf("%s:%s:%s", t.ID, phase, d), what, extra)
					continue
				}
				total, pages := 0, len(got)
				for _, p := range got {
					total += len(p.Data)
				}
				// previous cursor of the last page, when there is one
				if g, wnt := got[len(got)-1], want[len(want)-1]; g.Previous != "" {
					g2, _, gerr := runTemplate(ctx, s.Ctrl, t.ID, map[string]any{"cursor": g.Previous}, cs.cfg)
					w2, werr := directCursor(ctx, s.Ctrl, t.Resource, wnt.Previous)
					followed.Add(1)
					previousFollowed.Add(1)
					if gerr != nil || werr != nil {
						violation("cursor:previous:error", fmt.Sprintf("following previous: RunQuery error=%v direct error=%v", gerr, werr), nil)
						continue
					}
					if d := comparePages(g2, w2); d != "" {
						violation("cursor:previous:"+d, fmt.Sprintf("previous page differs (%s): RunQuery %s; direct %s", d, g2.brief(), w2.brief()), map[string]any{"runQuery": g2, "direct": w2})
						continue
					}
				}
				// the same comparison between the two HTTP routes a client calls
				rk := fmt.Sprintf("%d|%s", j.hi, cs.cfgN)
				router := routers[rk]
				if router == nil {
					router = newRouter(s.W, cs.cfg)
					routers[rk] = router
				}
				hst := &httpStats{}
				hg, herr := httpRunWalk(router, t.ID, js(body), hst)
				var hw *httpWalk
				if herr == nil {
					hw, herr = httpListWalk(router, t.Resource, eff, t.Direct(cs.full))
				}
				if herr != nil {
					r.EngineError(fmt.Sprintf("%v: http leg: %v", desc, herr))
					return
				}
				httpCases.Add(1)
				httpPages.Add(int64(len(hg.Exact)))
				httpBigNumbers.Add(int64(hst.bigNumbers))
				if len(hg.Exact) > 1 {
					httpMultiPage.Add(1)
				}
				httpReq := map[string]any{"run": "POST /v2/" + ledgerName + "/queries/" + t.ID + "/run?schemaVersion=" + schemaVersion + " " + js(body), "list": "GET " + listTarget(t.Resource, eff, t.Direct(cs.full))}
				switch {
				case (hg.Err != nil) != (hw.Err != nil) || (hg.Err != nil && len(hg.Exact) != len(hw.Exact)):
					eg, ew := "none", "none"
					if hg.Err != nil {
						eg = hg.Err.brief()
					}
					if hw.Err != nil {
						ew = hw.Err.brief()
					}
					report("http", "error-mismatch", fmt.Sprintf("after %d/%d pages the run-query route answers %s, the list route %s", len(hg.Exact), len(hw.Exact), eg, ew), httpReq)
					continue
				case hg.Err != nil:
					if hg.Err.Status != hw.Err.Status || errorCode(hg.Err.Body) != errorCode(hw.Err.Body) {
						report("http", "error-class", fmt.Sprintf("the run-query route answers %s, the list route %s", hg.Err.brief(), hw.Err.brief()), httpReq)
					}
					continue
				}
				if hg.Resource != t.Resource {
					report("http", "resource-kind", fmt.Sprintf("the run-query response says resource %q", hg.Resource), httpReq)
					continue
				}
				if pi, d := compareWalks(hg.Exact, hw.Exact); d != "" {
					phase := "first-page"
					if pi > 0 {
						phase = "cursor"
					}
					var gp, wp *page
					if pi < len(hg.Exact) {
						gp = hg.Exact[pi]
					}
					if pi < len(hw.Exact) {
						wp = hw.Exact[pi]
					}
					httpReq["differingPage"], httpReq["runQuery"], httpReq["direct"] = pi+1, gp, wp
					what := fmt.Sprintf("over HTTP, page %d differs (%s): run-query route %s; list route %s", pi+1, d, gp.brief(), wp.brief())
					if li, _ := compareWalks(hg.Lossy, hw.Lossy); li < 0 {
						// identical once every number is rounded to a float64: the entities are
						// the same, numbers lost precision in one of the two responses
						report("http", "response-number-precision", "the two responses differ only by float64 rounding of numbers; "+what, httpReq)
					} else {
						report("http", fmt.Sprintf("%s:%s:%s:%s", t.Resource, t.ID, phase, d), what, httpReq)
					}
					continue
				}
				if len(bigNamesOf(cs)) > 0 {
					httpBigCases.Add(1)
				}
				// measure what this (passing) case was able to detect: for every field of
				// the template layer that the request does not mention, and every field of
				// the request layer, would dropping it from that layer change the pages?
				tplKeys, reqKeys := layerKeys(t.Params), layerKeys(cs.ov)
				inReq := map[string]bool{}
				for _, k := range reqKeys {
					inReq[k] = true
				}
				probe := func(layer, k, tp, rp string) {
					gk, tk := layer+"|"+k, layer+"|"+k+"|"+t.ID
					if _, ok := bearing.Load(tk); ok {
						return
					}
					e2, err := effOf(t.Resource, cs.cfg, tp, rp)
					if err != nil {
						return
					}
					w2, err := walkDirect(ctx, s.Ctrl, t.Resource, e2, qb(), cs.cfg)
					if err != nil {
						return
					}
					if i, _ := compareWalks(want, w2); i >= 0 {
						bearing.Store(gk, true)
						bearing.Store(tk, true)
					}
				}
				for _, k := range tplKeys {
					if inReq[k] {
						overrideSame.Add(1)
						continue
					}
					if len(reqKeys) > 0 {
						keptUnderRequest.Add(1)
					}
					probe("template", k, dropKey(t.Params, k), cs.ov)
				}
				for _, k := range reqKeys {
					probe("request", k, t.Params, dropKey(cs.ov, k))
				}
				// measure what this (passing) case says about numeric variables outside the
				// int64 range: would substituting an int64 image have changed the pages?
				bigNames, bigVals := cs.bigVars()
				for i, n := range bigNames {
					sign := "positive"
					if bigVals[i].Sign() < 0 {
						sign = "negative"
					}
					imgs := int64Images(bigVals[i])
					for _, label := range imageOrder {
						gk, tk := sign+"|"+label, sign+"|"+label+"|"+t.ID
						if _, ok := bigBearing.Load(tk); ok {
							continue
						}
						w2, err := walkDirect(ctx, s.Ctrl, t.Resource, eff, cs.withVar(n, imgs[label])(), cs.cfg)
						if err != nil {
							continue
						}
						if d, _ := compareWalks(want, w2); d >= 0 {
							bigBearing.Store(gk, true)
							bigBearing.Store(tk, true)
						}
					}
				}
				// measure non-triviality: some but not all entities of the resource
				allKey := fmt.Sprintf("%d|%s|%v|%v|%d|%v", j.hi, t.Resource, eff.PIT, eff.OOT, eff.GroupBy, eff.Insertion)
				all, okc := totals[allKey]
				if !okc {
					e2 := eff
					e2.PageSize = 100
					p, err := directFirst(ctx, s.Ctrl, t.Resource, e2, nil, common.PaginationConfig{DefaultPageSize: 100, MaxPageSize: 100})
					if err == nil {
						all = len(p.Data)
					}
					totals[allKey] = all
				}
				mu.Lock()
				st := perTpl[t.ID]
				st[0]++
				if total > 0 {
					st[1]++
				}
				if pages > 1 {
					st[2]++
				}
				mu.Unlock()
				if pages > 1 {
					multiPage.Add(1)
				}
				if len(bigNames) > 0 {
					bigCases.Add(1)
					c, _ := bigPerTpl.LoadOrStore(t.ID, new(atomic.Int64))
					c.(*atomic.Int64).Add(1)
					for _, n := range bigNames {
						if _, ok := cs.bind[n].(sci); ok {
							sciCases.Add(1)
						}
					}
					if total > 0 && total < all {
						if bigVals[0].Sign() > 0 {
							bigNontrivialPos.Add(1)
						} else {
							bigNontrivialNeg.Add(1)
						}
					}
				}
				if total > 0 && (total < all || pages > 1) {
					key := fmt.Sprintf("%s|%s|%s|%s", t.ID, js(cs.bind), cs.ov, cs.cfgN)
					if _, dup := ntKeys.LoadOrStore(key, true); !dup {
						nontrivial.Add(1)
					}
					if pages > 1 && len(cs.bind) > 0 && cs.ov != "" {
						desc["pages"] = pages
						desc["entities"] = total
						samples.Add(desc)
					}
				}
			}
		}()
	}
	wg.Wait()
	exhaustive := !stopped.Load()
	per := map[string]any{}
	for id, st := range perTpl {
		per[id] = map[string]int64{"runs": st[0], "non_empty": st[1], "multi_page": st[2]}
		if exhaustive && r.ViolationCount() == 0 && !r.HasEngineError() && (st[1] == 0 || st[2] == 0) {
			r.EngineError(fmt.Sprintf("vacuous: template %s never returned data (%d) or never needed a second page (%d)", id, st[1], st[2]))
		}
	}
	var bearingKeys []string
	bearing.Range(func(k, _ any) bool { bearingKeys = append(bearingKeys, k.(string)); return true })
	sort.Strings(bearingKeys)
	var bigBearingKeys []string
	bigBearing.Range(func(k, _ any) bool { bigBearingKeys = append(bigBearingKeys, k.(string)); return true })
	sort.Strings(bigBearingKeys)
	if exhaustive && r.ViolationCount() == 0 && !r.HasEngineError() {
		has := func(k string) bool { _, ok := bearing.Load(k); return ok }
		// every parameter kind the statement's «template parameters overridden by the
		// request parameters» ranges over must have mattered at least once in each layer
		for _, k := range []string{"pageSize", "sort", "endTime", "expand", "groupBy"} {
			if !has("template|" + k) {
				r.EngineError("vacuous: no passing case in which the template's " + k + " changes the result (a RunQuery ignoring it would go unnoticed)")
			}
		}
		for _, k := range []string{"pageSize", "sort", "endTime", "startTime", "expand", "groupBy", "insertionDate"} {
			if !has("request|" + k) {
				r.EngineError("vacuous: no passing case in which the request's " + k + " changes the result (a RunQuery ignoring it would go unnoticed)")
			}
		}
		// … and each template that declares params must have at least one of them matter
		for _, t := range ts {
			if t.Params == "" {
				continue
			}
			any := false
			for _, k := range layerKeys(t.Params) {
				any = any || has("template|"+k+"|"+t.ID)
			}
			if !any {
				r.EngineError("vacuous: none of the params of template " + t.ID + " ever changed a result")
			}
		}
		if overrideSame.Load() == 0 || keptUnderRequest.Load() == 0 {
			r.EngineError(fmt.Sprintf("vacuous: request overriding a field the template sets: %d cases; template field surviving a request that sets other fields: %d cases", overrideSame.Load(), keptUnderRequest.Load()))
		}
		// numeric variables bound to whole numbers outside the int64 range: both signs must
		// have selected some-but-not-all entities, and for both signs each int64 image
		// (saturation to either end, two's-complement wrap, zero) must have been
		// distinguishable from the exact value in some passing case
		hasBig := func(k string) bool { _, ok := bigBearing.Load(k); return ok }
		for _, sign := range []string{"positive", "negative"} {
			for _, label := range imageOrder {
				if !hasBig(sign + "|" + label) {
					r.EngineError("vacuous: no passing case in which a " + sign + " numeric variable beyond the int64 range gives other pages than its image " + label + " (a RunQuery converting it through an int64 that way would go unnoticed)")
				}
			}
		}
		if bigNontrivialPos.Load() == 0 || bigNontrivialNeg.Load() == 0 || sciCases.Load() == 0 {
			r.EngineError(fmt.Sprintf("vacuous: numeric variables beyond the int64 range selecting some but not all entities: %d positive, %d negative cases; bound in exponent notation: %d cases", bigNontrivialPos.Load(), bigNontrivialNeg.Load(), sciCases.Load()))
		}
		for _, t := range ts {
			for n, vals := range t.Menu {
				for _, v := range vals {
					if bigBound(v) == nil {
						continue
					}
					if c, ok := bigPerTpl.Load(t.ID); !ok || c.(*atomic.Int64).Load() == 0 {
						r.EngineError("vacuous: template " + t.ID + " declares the out-of-int64 binding " + n + "=" + js(v) + " but no case with it passed")
					}
				}
			}
		}
		if httpCases.Load() != evaluations.Load() || httpMultiPage.Load() == 0 || httpBigNumbers.Load() == 0 || httpBigCases.Load() == 0 {
			r.EngineError(fmt.Sprintf("vacuous: HTTP leg ran for %d of %d cases, %d multi-page, %d with a numeric variable beyond the int64 range, %d numbers of magnitude ≥ 2^63 in run-query responses", httpCases.Load(), evaluations.Load(), httpMultiPage.Load(), httpBigCases.Load(), httpBigNumbers.Load()))
		}
		if multiPage.Load() == 0 || previousFollowed.Load() == 0 {
			r.EngineError(fmt.Sprintf("vacuous: multi-page runs %d, previous cursors followed %d", multiPage.Load(), previousFollowed.Load()))
		}
	}
	return r.Finish(ev.Coverage{
		"load_bearing_params":                bearingKeys,
		"http_cases":                         httpCases.Load(),
		"http_pages":                         httpPages.Load(),
		"http_multi_page_runs":               httpMultiPage.Load(),
		"http_cases_numeric_beyond_int64":    httpBigCases.Load(),
		"http_response_numbers_beyond_int64": httpBigNumbers.Load(),
		"numeric_beyond_int64_cases":         bigCases.Load(),
		"numeric_beyond_int64_nontrivial":    map[string]int64{"positive": bigNontrivialPos.Load(), "negative": bigNontrivialNeg.Load()},
		"numeric_exponent_notation_cases":    sciCases.Load(),
		"numeric_beyond_int64_load_bearing":  bigBearingKeys,
		"request_overrides_template_field":   overrideSame.Load(),
		"template_field_kept_under_request":  keptUnderRequest.Load(),
		"previous_cursors_followed":          previousFollowed.Load(),
		"evaluations":                        evaluations.Load(),
		"distinct_nontrivial":                nontrivial.Load(),
		"cursor_steps":                       followed.Load(),
		"multi_page_runs":                    multiPage.Load(),
		"templates":                          len(ts),
		"cases_per_history":                  len(cases),
		"per_template":                       per,
		"rule":                               "a schema with 12 query templates (transactions ×4, accounts ×4 — one with non-ASCII string literals around a variable —, logs ×2, volumes ×2; string variables with ${…} interpolation, int, boolean and date variables, declared defaults, $in lists, $exists, $and/$or/$not bodies; template params pageSize, sort, endTime, expand, groupBy, insertionDate) is inserted through the real InsertSchema path at the end of each of 4 histories (the fourth, «huge», holds USD balances outside the int64 range on both sides: 2·10^20 … 10^19 ≥ 2^63, −10^19, −3.6·10^20); then RunQuery is called — with the request body decoded exactly as the HTTP handler decodes it (encoding/json without UseNumber: numeric variables arrive as float64) — for EVERY combination of the variable menus (each variable: 2–6 values, or left unbound when it has a default; every int variable is also bound to whole numbers outside the int64 range: 2^63 for transaction/log ids, ±10^20 and 2^63 for balances, in plain digits and in exponent notation 1e20 / -1E+20, all exactly representable as float64 so that the number the caller wrote, the float64 the handler sees and the integer of the direct query are the same number) × EVERY entry of the request-params menu (none, {}, pageSize, sort column/order, endTime, startTime, expand (a list, or the empty list that clears the template's), groupBy, insertionDate, a combination; thorough: also the union of every two entries on disjoint parameters) × two pagination configurations (default 15/max 100; default 4/max 10). Oracle: first page (entities with all expanded fields, page size, hasMore, presence of cursors) equals the direct List* call built by hand from the substituted filter and from defaults ⊕ template params ⊕ request params applied field by field; every page reached through the returned next cursors (and the previous cursor of the last page) equals the page reached through the direct call's cursors. HTTP leg, for every case that passes: the same comparison between the two routes a client calls, served by the real api.NewRouter configured with the case's pagination configuration — POST /v2/l1/queries/{id}/run?schemaVersion=v1 (and its cursors through the same route) against GET /v2/l1/{transactions|accounts|logs|volumes} with the substituted filter in ?query= and the effective parameters in the query string (and its cursors through ?cursor=); entities are compared as JSON documents with every number taken at its exact value (volumes, balances and amounts included), plus status/errorCode and the «resource» member. A difference that a numeric variable substituted as the nearest float64 or as an int64 image (saturation to MinInt64/MaxInt64, two's-complement wrap, zero) reproduces exactly is reported under the shared signature C37:numeric-var:<class>:substituted-as-<image>; HTTP responses that differ only by float64 rounding of numbers under C37:http:response-number-precision. Vacuity guards (measured on passing cases): every template returns data and needs a second page at least once; for each of pageSize, sort, endTime, expand, groupBy set by a TEMPLATE and each of pageSize, sort, endTime, startTime, expand, groupBy, insertionDate set by a REQUEST there is a case in which removing that field from that layer changes the direct query's pages (load_bearing_params), so an implementation ignoring it cannot pass; requests override template-set fields and leave other template-set fields in force; previous cursors are followed; numeric variables beyond the int64 range: for each sign some passing case selects some but not all entities (numeric_beyond_int64_nontrivial), for each sign and each int64 image some passing case in which the direct query with that image substituted returns other pages (numeric_beyond_int64_load_bearing), every template that declares such a binding passes with it, exponent notation is exercised; the HTTP leg ran for every case, followed cursors, and run-query responses carried numbers of magnitude ≥ 2^63 (http_response_numbers_beyond_int64). distinct_nontrivial = distinct (template, binding, request params, config) whose result is non-empty and either a proper subset of the resource or multi-page, on some history",
		"samples":                            samples.List(),
		"exhaustive":                         exhaustive,
	}, []string{pgsimAssumption, httpAssumptionC37,
		"«template parameters overridden by the request parameters» is read field-wise: a request that does not mention a parameter leaves the template's (or default) value in force"})
}

func orNull(s string) string {
	if s == "" {
		return "null"
	}
	return s
}

func short(d []string) []string {
	out := make([]string, len(d))
	for i, s := range d {
		if len(s) > 90 {
			s = s[:90] + "…"
		}
		out[i] = s
	}
	return out
}

func init() {
	reg.Register("C37", runC37)
}
