package pquery

import (
	"context"
	"fmt"
	"math/big"
	"sort"
	"time"

	"github.com/formancehq/go-libs/v5/pkg/query"
	"github.com/formancehq/go-libs/v5/pkg/storage/bun/paginate"
	libtime "github.com/formancehq/go-libs/v5/pkg/types/time"

	ledger "github.com/formancehq/ledger/internal"
	ledgercontroller "github.com/formancehq/ledger/internal/controller/ledger"
	"github.com/formancehq/ledger/internal/storage/common"
	"github.com/formancehq/ledger/verifh/lx"
)

// atomSet is the atom universe of one resource for one history: all atoms, the reduced
// set used by the structured families, and the six used for full depth 3.
type atomSet struct {
	all, core10, core6 []*Atom
}

type resource struct {
	Name string
	// whose metadata the resource's metadata filters look at: "tx", "acc", or "" (the
	// resource has neither metadata nor points in time)
	metaOwner string
	atoms     func(b *Built) atomSet
	variants  func(b *Built, thorough bool) []variant
	rows      func(ref *lx.Ref, v variant) []*row
	atom      func(*Atom, *row) bool
	entities  func(sel []*row, v variant) []string
	list      func(ctx context.Context, c ledgercontroller.Controller, qb query.Builder, v variant) ([]string, error)
	count     func(ctx context.Context, c ledgercontroller.Controller, qb query.Builder, v variant) (int, error)
}

func pitOf(v variant) *libtime.Time {
	if v.PIT == nil {
		return nil
	}
	t := libtime.New(*v.PIT)
	return &t
}

func rq(qb query.Builder, v variant) common.ResourceQuery[any] {
	return common.ResourceQuery[any]{PIT: pitOf(v), Builder: qb}
}

// follow reads every page of a listing through its `next` cursors.
func follow[T any, O any](ctx context.Context, first common.PaginatedQuery[O],
	page func(context.Context, common.PaginatedQuery[O]) (*paginate.Cursor[T], error)) ([]T, error) {
	var out []T
	q := first
	for i := 0; i < 1000; i++ {
		c, err := page(ctx, q)
		if err != nil {
			return nil, err
		}
		out = append(out, c.Data...)
		if !c.HasMore || c.Next == "" {
			return out, nil
		}
		nq, err := common.UnmarshalCursor[O](c.Next)
		if err != nil {
			return nil, fmt.Errorf("bad next cursor: %w", err)
		}
		q = nq
	}
	return nil, fmt.Errorf("pagination did not terminate")
}

const bigPage = 100

func sorted(s []string) []string { sort.Strings(s); return s }

func pitVariants(b *Built, thorough bool) []variant {
	vs := []variant{{Name: "cur"}}
	n := 2
	if thorough {
		n = len(b.PITs)
	}
	for i := 0; i < n && i < len(b.PITs); i++ {
		vs = append(vs, variant{Name: fmt.Sprintf("pit%d", i), PIT: &b.PITs[i]})
	}
	return vs
}

func tieInstant() time.Time { return lx.Base.Add(60 * time.Second) }

// ---------- transactions ----------

func txAtoms(b *Built) atomSet {
	ref := b.Ref
	al := &atomList{}
	ts1, tie := ref.Txs[1].TS, tieInstant()
	var s atomSet
	for _, op := range cmpOps {
		al.num("id", op, 2)
		al.num("id", op, 4)
	}
	refR1 := al.str("reference", "$match", "r1")
	al.str("reference", "$match", "zz")
	al.in("reference", "r1", "r2")
	al.in("reference", "zz")
	var tsLteTie *Atom
	for _, op := range cmpOps {
		al.date("timestamp", op, ts1)
		x := al.date("timestamp", op, tie)
		if op == "$lte" {
			tsLteTie = x
		}
	}
	al.date("inserted_at", "$lt", ref.Txs[2].InsertedAt)
	al.date("inserted_at", "$gte", ref.Txs[2].InsertedAt)
	revTrue := al.boolean("reverted", true)
	al.boolean("reverted", false)
	revAt := lx.Base
	for _, t := range ref.Txs {
		if t.RevertedAt != nil {
			revAt = *t.RevertedAt
			break
		}
	}
	al.date("reverted_at", "$match", revAt)
	al.date("reverted_at", "$lt", revAt)
	al.date("reverted_at", "$gte", revAt)
	accA := al.str("account", "$match", "a")
	al.str("account", "$match", "a:b:c")
	al.str("account", "$match", "a:")
	accPartial := al.str("account", "$match", "a::c")
	al.str("account", "$match", ":b:")
	accPrefix := al.str("account", "$match", "a:...")
	al.str("account", "$match", "a:b:...")
	al.str("source", "$match", "world")
	al.str("source", "$match", "a:")
	al.str("source", "$match", "a:...")
	al.str("destination", "$match", "a:b")
	dstPartial := al.str("destination", "$match", "::c")
	al.str("destination", "$match", "a:...")
	accIn := al.in("account", "a", "a:b")
	al.in("source", "world", "x")
	al.in("destination", "a:x:c", "zz")
	metaKV := al.str("metadata[k]", "$match", "v")
	al.str("metadata[k]", "$match", "w")
	al.str("metadata[m]", "$match", "x")
	existsK := al.str("metadata", "$exists", "k")
	al.str("metadata", "$exists", "m")
	al.in("metadata[k]", "v", "w")
	s.all = al.l
	s.core6 = []*Atom{accPrefix, accPartial, metaKV, revTrue, refR1, tsLteTie}
	s.core10 = append(append([]*Atom(nil), s.core6...), accA, accIn, dstPartial, existsK)
	return s
}

func txIDs(txs []ledger.Transaction) []string {
	out := make([]string, len(txs))
	for i, t := range txs {
		out[i] = fmt.Sprint(*t.ID)
	}
	return out
}

var resTransactions = &resource{
	Name:      "transactions",
	metaOwner: "tx",
	atoms:     txAtoms,
	variants:  pitVariants,
	rows:      txRows,
	atom:      txAtom,
	entities:  func(sel []*row, _ variant) []string { return sorted(keysOf(sel)) },
	list: func(ctx context.Context, c ledgercontroller.Controller, qb query.Builder, v variant) ([]string, error) {
		txs, err := follow(ctx, common.PaginatedQuery[any](common.InitialPaginatedQuery[any]{PageSize: bigPage, Options: rq(qb, v)}), c.ListTransactions)
		if err != nil {
			return nil, err
		}
		return sorted(txIDs(txs)), nil
	},
	count: func(ctx context.Context, c ledgercontroller.Controller, qb query.Builder, v variant) (int, error) {
		return c.CountTransactions(ctx, rq(qb, v))
	},
}

// ---------- accounts ----------

func accAtoms(b *Built) atomSet {
	ref := b.Ref
	al := &atomList{}
	ts1, tie := ref.Txs[1].TS, tieInstant()
	var s atomSet
	al.str("address", "$match", "a")
	addrAB := al.str("address", "$match", "a:b")
	al.str("address", "$match", "a:b:c")
	al.str("address", "$match", "only:meta")
	al.str("address", "$match", "a:")
	addrPartial := al.str("address", "$match", "a::c")
	al.str("address", "$match", ":b:")
	al.str("address", "$match", "::c")
	addrPrefix := al.str("address", "$match", "a:...")
	al.str("address", "$match", "a:b:...")
	addrIn := al.in("address", "a", "a:b")
	al.in("address", "only:meta", "zz")
	var fuLte *Atom
	for _, op := range cmpOps {
		x := al.date("first_usage", op, ts1)
		al.date("first_usage", op, tie)
		if op == "$lte" {
			fuLte = x
		}
	}
	al.date("insertion_date", "$lt", ref.Txs[2].InsertedAt)
	al.date("insertion_date", "$gte", ref.Txs[2].InsertedAt)
	var balGt0, balLt0 *Atom
	for _, op := range cmpOps {
		x := al.num("balance[USD]", op, 0)
		al.num("balance[USD]", op, 30)
		switch op {
		case "$gt":
			balGt0 = x
		case "$lt":
			balLt0 = x
		}
	}
	al.num("balance[EUR/2]", "$lt", 0)
	al.num("balance[EUR/2]", "$gte", 0)
	al.num("balance[EUR/2]", "$gt", 0)
	al.num("balance[COIN]", "$gt", 0)
	// no asset named (all the v1 `balance` parameter can say): the test holds when it holds
	// for one of the assets the account has moved
	al.num("balance", "$lt", 0)
	al.num("balance", "$gte", 0)
	al.num("balance", "$gt", 10)
	al.num("balance", "$match", 0)
	metaKV := al.str("metadata[k]", "$match", "v")
	al.str("metadata[k]", "$match", "w")
	metaRole := al.str("metadata[role]", "$match", "r")
	al.str("metadata[role]", "$match", "q")
	existsK := al.str("metadata", "$exists", "k")
	al.str("metadata", "$exists", "role")
	al.in("metadata[role]", "r", "q")
	s.all = al.l
	s.core6 = []*Atom{addrPrefix, addrPartial, metaRole, existsK, balGt0, fuLte}
	s.core10 = append(append([]*Atom(nil), s.core6...), addrAB, addrIn, balLt0, metaKV)
	return s
}

var resAccounts = &resource{
	Name:      "accounts",
	metaOwner: "acc",
	atoms:     accAtoms,
	variants:  pitVariants,
	rows:      accRows,
	atom:      accAtom,
	entities:  func(sel []*row, _ variant) []string { return sorted(keysOf(sel)) },
	list: func(ctx context.Context, c ledgercontroller.Controller, qb query.Builder, v variant) ([]string, error) {
		accs, err := follow(ctx, common.PaginatedQuery[any](common.InitialPaginatedQuery[any]{PageSize: bigPage, Options: rq(qb, v)}), c.ListAccounts)
		if err != nil {
			return nil, err
		}
		out := make([]string, len(accs))
		for i, a := range accs {
			out[i] = a.Address
		}
		return sorted(out), nil
	},
	count: func(ctx context.Context, c ledgercontroller.Controller, qb query.Builder, v variant) (int, error) {
		return c.CountAccounts(ctx, rq(qb, v))
	},
}

// ---------- volumes ----------

func volAtoms(b *Built) atomSet {
	ref := b.Ref
	al := &atomList{alias: map[string]string{"account": "address"}}
	ts1, tie := ref.Txs[1].TS, tieInstant()
	var s atomSet
	accA := al.str("account", "$match", "a")
	al.str("account", "$match", "a:b:c")
	al.str("account", "$match", "a:")
	accPartial := al.str("account", "$match", "a::c")
	al.str("account", "$match", "::c")
	accPrefix := al.str("account", "$match", "a:...")
	al.str("account", "$match", "a:b:...")
	addrPartial := al.str("address", "$match", "a:")
	al.str("address", "$match", "a:b")
	accIn := al.in("account", "a", "a:b")
	al.in("address", "a:b:c", "zz")
	var balGt0, balLt0 *Atom
	for _, op := range cmpOps {
		x := al.num("balance[USD]", op, 0)
		al.num("balance[USD]", op, 30)
		if op == "$gt" {
			balGt0 = x
		}
	}
	balLt0 = al.num("balance", "$lt", 0)
	al.num("balance", "$gte", 0)
	al.num("balance", "$gt", 10)
	al.num("balance[EUR/2]", "$gt", 0)
	var fuLte *Atom
	for _, op := range cmpOps {
		x := al.date("first_usage", op, ts1)
		if op == "$lte" {
			fuLte = x
		}
	}
	al.date("first_usage", "$lt", tie)
	al.str("metadata[k]", "$match", "v")
	metaRole := al.str("metadata[role]", "$match", "r")
	al.str("metadata[role]", "$match", "q")
	existsK := al.str("metadata", "$exists", "k")
	al.str("metadata", "$exists", "role")
	al.in("metadata[role]", "r", "q")
	s.all = al.l
	s.core6 = []*Atom{accPrefix, accPartial, metaRole, existsK, balGt0, fuLte}
	s.core10 = append(append([]*Atom(nil), s.core6...), accA, accIn, balLt0, addrPartial)
	return s
}

func volVariants(b *Built, thorough bool) []variant {
	p := b.PITs
	vs := []variant{
		{Name: "cur"},
		{Name: "pit0", PIT: &p[0]},
		{Name: "pit1", PIT: &p[1]},
		{Name: "pit1-ins", PIT: &p[1], Ins: true},
		{Name: "cur-g1", Group: 1},
		{Name: "pit0-g2", PIT: &p[0], Group: 2},
	}
	if thorough {
		vs = append(vs, variant{Name: "cur-g2", Group: 2}, variant{Name: "pit1-g1", PIT: &p[1], Group: 1})
		if len(p) > 2 {
			vs = append(vs, variant{Name: "pit2", PIT: &p[2]}, variant{Name: "pit2-ins", PIT: &p[2], Ins: true})
		}
	}
	return vs
}

func volQuery(qb query.Builder, v variant) common.ResourceQuery[ledger.GetVolumesOptions] {
	return common.ResourceQuery[ledger.GetVolumesOptions]{PIT: pitOf(v), Builder: qb,
		Opts: ledger.GetVolumesOptions{UseInsertionDate: v.Ins, GroupLvl: v.Group}}
}

func volStrings(es []volEntity) []string {
	out := make([]string, len(es))
	for i, e := range es {
		out[i] = e.String()
	}
	return out
}

func volOfAPI(x ledger.VolumesWithBalanceByAssetByAccount) volEntity {
	return volEntity{Account: x.Account, Asset: x.Asset, In: x.Input, Out: x.Output}
}

var resVolumes = &resource{
	Name:      "volumes",
	metaOwner: "acc",
	atoms:     volAtoms,
	variants:  volVariants,
	rows:      volRows,
	atom:      volAtom,
	entities:  func(sel []*row, v variant) []string { return sorted(volStrings(volEntities(sel, v.Group))) },
	list: func(ctx context.Context, c ledgercontroller.Controller, qb query.Builder, v variant) ([]string, error) {
		vols, err := follow(ctx, common.PaginatedQuery[ledger.GetVolumesOptions](common.InitialPaginatedQuery[ledger.GetVolumesOptions]{PageSize: bigPage, Options: volQuery(qb, v)}), c.GetVolumesWithBalances)
		if err != nil {
			return nil, err
		}
		out := make([]string, len(vols))
		for i, x := range vols {
			out[i] = volOfAPI(x).String()
			if x.Balance == nil || x.Input == nil || x.Output == nil || x.Balance.Cmp(new(big.Int).Sub(x.Input, x.Output)) != 0 {
				out[i] += fmt.Sprintf("|balance=%v(!)", x.Balance)
			}
		}
		return sorted(out), nil
	},
}

// ---------- aggregated balances ----------

func aggAtoms(b *Built) atomSet {
	al := &atomList{}
	var s atomSet
	addrA := al.str("address", "$match", "a")
	al.str("address", "$match", "a:b:c")
	addrOne := al.str("address", "$match", "a:")
	addrPartial := al.str("address", "$match", "a::c")
	addrC := al.str("address", "$match", "::c")
	addrPrefix := al.str("address", "$match", "a:...")
	al.str("address", "$match", "a:b:...")
	addrIn := al.in("address", "a", "a:b")
	al.in("address", "zz")
	metaKV := al.str("metadata[k]", "$match", "v")
	al.str("metadata[k]", "$match", "w")
	metaRole := al.str("metadata[role]", "$match", "r")
	al.str("metadata[role]", "$match", "q")
	existsK := al.str("metadata", "$exists", "k")
	existsRole := al.str("metadata", "$exists", "role")
	al.in("metadata[role]", "r", "q")
	s.all = al.l
	s.core6 = []*Atom{addrPrefix, addrPartial, addrA, metaRole, existsK, addrIn}
	s.core10 = append(append([]*Atom(nil), s.core6...), addrOne, metaKV, existsRole, addrC)
	return s
}

func aggVariants(b *Built, thorough bool) []variant {
	p := b.PITs
	vs := []variant{
		{Name: "cur"},
		{Name: "pit0", PIT: &p[0]},
		{Name: "pit1", PIT: &p[1]},
		{Name: "pit1-ins", PIT: &p[1], Ins: true},
	}
	if thorough && len(p) > 2 {
		vs = append(vs, variant{Name: "pit2", PIT: &p[2]}, variant{Name: "pit2-ins", PIT: &p[2], Ins: true})
	}
	return vs
}

var resAggregated = &resource{
	Name:      "aggregated",
	metaOwner: "acc",
	atoms:     aggAtoms,
	variants:  aggVariants,
	rows:      volRows,
	atom:      aggAtom,
	entities:  func(sel []*row, _ variant) []string { return aggEntities(sel) },
	list: func(ctx context.Context, c ledgercontroller.Controller, qb query.Builder, v variant) ([]string, error) {
		ab, err := c.GetAggregatedBalances(ctx, common.ResourceQuery[ledger.GetAggregatedVolumesOptions]{PIT: pitOf(v), Builder: qb,
			Opts: ledger.GetAggregatedVolumesOptions{UseInsertionDate: v.Ins}})
		if err != nil {
			return nil, err
		}
		var out []string
		for as, bal := range ab {
			out = append(out, fmt.Sprintf("%s|balance=%v", as, bal))
		}
		return sorted(out), nil
	},
}

// ---------- logs ----------

func logAtoms(b *Built) atomSet {
	ref := b.Ref
	al := &atomList{}
	var s atomSet
	var idLte2, idGte4 *Atom
	for _, op := range cmpOps {
		x := al.num("id", op, 2)
		y := al.num("id", op, 4)
		if op == "$lte" {
			idLte2 = x
		}
		if op == "$gte" {
			idGte4 = y
		}
	}
	d1, d3 := ref.Logs[1].Date, ref.Logs[3].Date
	var dateLt *Atom
	for _, op := range cmpOps {
		x := al.date("date", op, d1)
		al.date("date", op, d3)
		if op == "$gt" {
			dateLt = x
		}
	}
	typeNew := al.str("type", "$match", "NEW_TRANSACTION")
	typeMeta := al.str("type", "$match", "SET_METADATA")
	typeRev := al.str("type", "$match", "REVERTED_TRANSACTION")
	typeIn := al.in("type", "NEW_TRANSACTION", "REVERTED_TRANSACTION")
	s.all = al.l
	s.core6 = []*Atom{idLte2, idGte4, dateLt, typeNew, typeMeta, typeRev}
	s.core10 = append(append([]*Atom(nil), s.core6...), typeIn, al.l[0], al.l[12], al.l[17])
	return s
}

var resLogs = &resource{
	Name:     "logs",
	atoms:    logAtoms,
	variants: func(*Built, bool) []variant { return []variant{{Name: "cur"}} },
	rows:     func(ref *lx.Ref, _ variant) []*row { return logRows(ref) },
	atom:     logAtom,
	entities: func(sel []*row, _ variant) []string { return sorted(keysOf(sel)) },
	list: func(ctx context.Context, c ledgercontroller.Controller, qb query.Builder, v variant) ([]string, error) {
		logs, err := follow(ctx, common.PaginatedQuery[any](common.InitialPaginatedQuery[any]{PageSize: bigPage, Options: rq(qb, v)}), c.ListLogs)
		if err != nil {
			return nil, err
		}
		out := make([]string, len(logs))
		for i, l := range logs {
			out[i] = fmt.Sprint(*l.ID)
		}
		return sorted(out), nil
	},
}

var allResources = []*resource{resTransactions, resAccounts, resVolumes, resAggregated, resLogs}
