// pqcheck runs one pquery check (C20, C21, C37) without linking the other check
// packages: `pqcheck C20`. Same protocol and exit codes as `vcheck run`.
package main

import (
	"fmt"
	"os"

	_ "github.com/formancehq/ledger/verifh/pquery"
	"github.com/formancehq/ledger/verifh/reg"
)

func main() {
	if len(os.Args) < 2 {
		fmt.Println("usage: pqcheck <ID>")
		os.Exit(2)
	}
	c, ok := reg.Lookup(os.Args[1])
	if !ok {
		fmt.Printf("ENGINE-ERROR property=%s not registered\n", os.Args[1])
		os.Exit(2)
	}
	os.Exit(c())
}
