package pquery

import (
	"bytes"
	"context"
	"encoding/json"
	"fmt"
	"math/big"
	"net/http"
	"net/http/httptest"
	"net/url"
	"strconv"
	"strings"
	"time"

	"github.com/formancehq/go-libs/v5/pkg/authn/jwt"
	logging "github.com/formancehq/go-libs/v5/pkg/observe/log"
	"github.com/formancehq/go-libs/v5/pkg/storage/bun/paginate"

	"github.com/formancehq/ledger/internal/api"
	"github.com/formancehq/ledger/internal/storage/common"
	"github.com/formancehq/ledger/verifh/world"
)

// The HTTP leg of C37: the same comparison as the controller-level one, but between the
// two routes a client really calls — POST /v2/{ledger}/queries/{id}/run (body decoded by
// the real handler, response rendered by the real handler) and GET /v2/{ledger}/
// {transactions|accounts|logs|volumes} with the substituted filter in ?query= and the
// effective parameters in the query string — served in-process by the real api.NewRouter.

const httpAssumptionC37 = "HTTP leg: requests are served in-process by the real api.NewRouter (all middlewares, no authentication, pagination configuration of the case) through net/http/httptest; no TCP socket"

func newRouter(w *world.World, cfg common.PaginationConfig) http.Handler {
	return api.NewRouter(w.Sys, jwt.NewNoAuth(), nil, "develop", false, api.WithPaginationConfiguration(cfg))
}

type httpResp struct {
	Status int
	Body   string
	Log    string
}

func (r httpResp) brief() string {
	b := r.Body
	if len(b) > 300 {
		b = b[:300] + "…"
	}
	s := fmt.Sprintf("%d %s", r.Status, strings.TrimSpace(b))
	if r.Status >= 500 && r.Log != "" {
		l := r.Log
		if len(l) > 300 {
			l = l[:300] + "…"
		}
		s += " log=" + strings.TrimSpace(l)
	}
	return s
}

func httpDo(h http.Handler, method, target, body string) httpResp {
	req, err := http.NewRequest(method, "http://ledger.test"+target, strings.NewReader(body))
	if err != nil {
		panic(err)
	}
	req.RequestURI = target
	req.RemoteAddr = "192.0.2.1:1234"
	if body == "" {
		req.Body = http.NoBody
		req.ContentLength = 0
	} else {
		req.Header.Set("Content-Type", "application/json")
	}
	logw := &bytes.Buffer{}
	lg := logging.NewDefaultLoggerWithLevel(logw, logging.ErrorLevel, false, false)
	req = req.WithContext(logging.ContextWithLogger(context.Background(), lg))
	rec := httptest.NewRecorder()
	h.ServeHTTP(rec, req)
	return httpResp{Status: rec.Code, Body: rec.Body.String(), Log: logw.String()}
}

// httpStats counts what the HTTP leg saw in the responses it compared.
type httpStats struct {
	bigNumbers int // number tokens of magnitude ≥ 2^63 in run-query responses
}

var two63Rat = new(big.Rat).SetInt(new(big.Int).Lsh(big.NewInt(1), 63))

// canonNumbers rewrites every JSON number of v as its exact value in plain notation
// (1e+21 and 1000000000000000000000 are the same number; 9223372036854775808 and
// 9223372036854776000 are not). With lossy set, every number is first rounded to the
// nearest float64: two documents equal only under lossy differ by float64 rounding alone.
func canonNumbers(v any, lossy bool, st *httpStats) any {
	switch x := v.(type) {
	case map[string]any:
		for k, e := range x {
			x[k] = canonNumbers(e, lossy, st)
		}
		return x
	case []any:
		for i, e := range x {
			x[i] = canonNumbers(e, lossy, st)
		}
		return x
	case json.Number:
		rat, ok := new(big.Rat).SetString(string(x))
		if !ok {
			return x
		}
		if st != nil && new(big.Rat).Abs(rat).Cmp(two63Rat) >= 0 {
			st.bigNumbers++
		}
		if lossy {
			f, _ := rat.Float64()
			rat.SetFloat64(f)
		}
		if rat.IsInt() {
			return json.Number(rat.Num().String())
		}
		return json.Number(rat.RatString())
	}
	return v
}

func canonJSON(raw []byte, lossy bool, st *httpStats) (string, error) {
	dec := json.NewDecoder(bytes.NewReader(raw))
	dec.UseNumber()
	var v any
	if err := dec.Decode(&v); err != nil {
		return "", err
	}
	return js(canonNumbers(v, lossy, st)), nil
}

// httpPage decodes a 200 cursor response into a page whose entities are canonical JSON
// (keys sorted, numbers exact); lossy is the same page with every number rounded to a
// float64. resource is the "resource" member (run-query responses only).
func httpPage(body string, st *httpStats) (exact, lossy *page, resource string, err error) {
	var env struct {
		Cursor *struct {
			PageSize int               `json:"pageSize"`
			HasMore  bool              `json:"hasMore"`
			Previous string            `json:"previous"`
			Next     string            `json:"next"`
			Data     []json.RawMessage `json:"data"`
		} `json:"cursor"`
		Resource string `json:"resource"`
	}
	if err := json.Unmarshal([]byte(body), &env); err != nil {
		return nil, nil, "", err
	}
	if env.Cursor == nil {
		return nil, nil, "", fmt.Errorf("no cursor member")
	}
	mk := func() *page {
		return &page{PageSize: env.Cursor.PageSize, HasMore: env.Cursor.HasMore, Next: env.Cursor.Next, Previous: env.Cursor.Previous}
	}
	exact, lossy = mk(), mk()
	for _, d := range env.Cursor.Data {
		e, err := canonJSON(d, false, st)
		if err != nil {
			return nil, nil, "", err
		}
		l, err := canonJSON(d, true, nil)
		if err != nil {
			return nil, nil, "", err
		}
		exact.Data, lossy.Data = append(exact.Data, e), append(lossy.Data, l)
	}
	return exact, lossy, env.Resource, nil
}

// httpWalk is every page of one query over HTTP; Err is the first non-200 response.
type httpWalk struct {
	Exact, Lossy walk
	Resource     string
	Err          *httpResp
}

func (w *httpWalk) add(resp httpResp, st *httpStats) (next string, err error) {
	if resp.Status != http.StatusOK {
		w.Err = &resp
		return "", nil
	}
	e, l, res, err := httpPage(resp.Body, st)
	if err != nil {
		return "", fmt.Errorf("undecodable 200 response %s: %w", resp.brief(), err)
	}
	if len(w.Exact) == 0 {
		w.Resource = res
	}
	w.Exact, w.Lossy = append(w.Exact, e), append(w.Lossy, l)
	return e.Next, nil
}

// httpRunWalk POSTs the run-query route and follows the cursors it returns through the
// same route.
func httpRunWalk(h http.Handler, id, body string, st *httpStats) (*httpWalk, error) {
	target := "/v2/" + ledgerName + "/queries/" + url.PathEscape(id) + "/run?schemaVersion=" + schemaVersion
	w := &httpWalk{}
	next, err := w.add(httpDo(h, http.MethodPost, target, body), st)
	for err == nil && next != "" && w.Err == nil && len(w.Exact) < 60 {
		next, err = w.add(httpDo(h, http.MethodPost, target, js(map[string]any{"cursor": next})), st)
	}
	return w, err
}

// listTarget is the direct list request a client writes for the effective parameters.
func listTarget(resource string, e effParams, filter string) string {
	q := url.Values{}
	if filter != "" {
		q.Set("query", filter)
	}
	if e.set["pageSize"] != "" {
		q.Set("pageSize", strconv.FormatUint(e.PageSize, 10))
	}
	if e.set["sort"] != "" {
		order := "asc"
		if e.Order == paginate.OrderDesc {
			order = "desc"
		}
		q.Set("sort", e.Column+":"+order)
	}
	if e.PIT != nil {
		q.Set("pit", e.PIT.UTC().Format(time.RFC3339Nano))
	}
	if e.OOT != nil {
		q.Set("oot", e.OOT.UTC().Format(time.RFC3339Nano))
	}
	for _, x := range e.Expand {
		q.Add("expand", x)
	}
	if e.GroupBy > 0 {
		q.Set("groupBy", strconv.Itoa(e.GroupBy))
	}
	if e.Insertion {
		q.Set("insertionDate", "true")
	}
	target := "/v2/" + ledgerName + "/" + resource
	if enc := q.Encode(); enc != "" {
		target += "?" + enc
	}
	return target
}

// httpListWalk GETs the list route and follows its cursors.
func httpListWalk(h http.Handler, resource string, e effParams, filter string) (*httpWalk, error) {
	w := &httpWalk{}
	next, err := w.add(httpDo(h, http.MethodGet, listTarget(resource, e, filter), ""), nil)
	for err == nil && next != "" && w.Err == nil && len(w.Exact) < 60 {
		next, err = w.add(httpDo(h, http.MethodGet, "/v2/"+ledgerName+"/"+resource+"?cursor="+url.QueryEscape(next), ""), nil)
	}
	return w, err
}

func errorCode(body string) string {
	var m struct {
		ErrorCode string `json:"errorCode"`
	}
	_ = json.Unmarshal([]byte(body), &m)
	return m.ErrorCode
}
