// Package pquery holds the query-side property checks: C20 (filters select exactly the
// matching entities), C21 (cursor pagination) and C37 (query templates).
//
// All three use the same skeleton: a fixed, small set of ledger histories is built once
// by applying lx.Op sequences through the real controller stack on pgsim; the resulting
// databases are snapshots that every worker clones; the reference ledger lx.Ref mirrors
// the committed effects and an independent evaluator (refeval.go) says what each query
// means.
package pquery

import (
	"context"
	"fmt"
	"time"

	ledger "github.com/formancehq/ledger/internal"
	ledgercontroller "github.com/formancehq/ledger/internal/controller/ledger"
	"github.com/formancehq/ledger/verifh/lx"
	"github.com/formancehq/ledger/verifh/pgsim"
	"github.com/formancehq/ledger/verifh/world"
)

const ledgerName = "l1"

const (
	sec  = int64(1_000_000)
	hour = 3600 * sec
)

var pgsimAssumption = "pgsim: hand-written in-process model of the Postgres subset the ledger uses (READ COMMITTED MVCC, row/advisory locks, triggers, PL/pgSQL, jsonb/jsonpath operators, DISTINCT ON, window functions, lateral joins); it cannot be validated against a real server in this sandbox"

// History is a named operation sequence; every operation must succeed.
type History struct {
	Name string  `json:"name"`
	Ops  []lx.Op `json:"ops"`
}

// Built is a history after execution: the database snapshot, the reference ledger and
// the points in time the checks use.
type Built struct {
	H    *History
	Cfg  *FeatCfg // feature configuration of the ledger (nil: the default feature set)
	info ledger.Ledger
	DB   *pgsim.DB
	Ref  *lx.Ref
	PITs []time.Time // interesting instants, most discriminating first
}

// FeatCfg is a ledger feature configuration, restricted to what matters to the meaning
// of a query: whether the metadata of accounts / of transactions is historised. A point
// in time query reads the metadata as of that instant when the resource's own history
// feature is SYNC and the current metadata when it is DISABLED (the rule property C17
// checks on unfiltered listings, see lx/pit.go).
type FeatCfg struct {
	Name     string            `json:"name"`
	Features map[string]string `json:"features"`
}

func (c *FeatCfg) on(feature string) bool {
	if c == nil {
		return true
	}
	v, ok := c.Features[feature]
	return !ok || v == "SYNC"
}

// AccHist / TxHist: is the metadata history of accounts / transactions kept?
func (c *FeatCfg) AccHist() bool { return c.on("ACCOUNT_METADATA_HISTORY") }
func (c *FeatCfg) TxHist() bool  { return c.on("TRANSACTION_METADATA_HISTORY") }

func (c *FeatCfg) features() map[string]string {
	if c == nil {
		return nil
	}
	return c.Features
}

// Label names the configuration in signatures and evidence ("" for the default set).
func (c *FeatCfg) Label() string {
	if c == nil {
		return ""
	}
	return c.Name
}

func onOff(b bool) string {
	if b {
		return "SYNC"
	}
	return "DISABLED"
}

func metaHistCfg(acc, tx bool) *FeatCfg {
	return &FeatCfg{
		Name:     "acc-meta-history=" + onOff(acc) + ",tx-meta-history=" + onOff(tx),
		Features: map[string]string{"ACCOUNT_METADATA_HISTORY": onOff(acc), "TRANSACTION_METADATA_HISTORY": onOff(tx)},
	}
}

// Label identifies the built history (history name, and the feature configuration when
// it is not the default one).
func (b *Built) Label() string {
	if b.Cfg == nil {
		return b.H.Name
	}
	return b.H.Name + "@" + b.Cfg.Name
}

// under decorates a variant with the metadata sources of the ledger's configuration.
func (b *Built) under(v variant) variant {
	v.accCur, v.txCur = !b.Cfg.AccHist(), !b.Cfg.TxHist()
	return v
}

func p(src, dst, asset, amt string) lx.P { return lx.P{Src: src, Dst: dst, Ast: asset, Amt: amt} }

func post(ts *int64, ref string, meta map[string]string, ps ...lx.P) lx.Op {
	return lx.Op{Kind: "post", Postings: ps, TSOff: ts, Ref: ref, Meta: meta}
}

func md(kv ...string) map[string]string {
	m := map[string]string{}
	for i := 0; i+1 < len(kv); i += 2 {
		m[kv[i]] = kv[i+1]
	}
	return m
}

// histories returns the fixed history set. Together they contain: back-dated and
// future transactions, two transactions at the same explicit instant, reverts (plain
// and forced into a negative balance), metadata on accounts and transactions that is
// added, overwritten and deleted after the fact (so that "as of PIT" differs from
// "current"), accounts with one to three segments (a, a:b, a:b:c, a:x:c, b:a, ab — the
// last is a string prefix but not a segment prefix of a:…), three assets, zero and
// negative balances (world, an overdraft account, a force-reverted one) and accounts
// that exist through metadata only.
func histories() []*History {
	back, fut, tie := lx.TS(-hour), lx.TS(hour), lx.TS(60*sec)
	rich := &History{Name: "rich", Ops: []lx.Op{
		/* tx1 */ post(nil, "r1", md("k", "v"), p("world", "a", "USD", "100")),
		/* tx2 */ post(nil, "", md("k", "w"), p("world", "a:b", "USD", "50"), p("world", "a:b", "EUR/2", "20")),
		/* tx3 */ post(back, "", md("t", "old"), p("world", "a:b:c", "USD", "30")),
		/* tx4 */ post(fut, "r2", nil, p("a", "a:x:c", "USD", "40")),
		/* tx5 */ post(tie, "", nil, p("a:b", "a", "EUR/2", "5")),
		/* tx6 */ post(tie, "", md("k", "v"), p("a:b:c", "a:x:c", "USD", "10")),
		/* tx7 */ {Kind: "script", Script: "send [EUR/2 15] (\n source = @x allowing overdraft up to [EUR/2 100]\n destination = @a:x:c\n)\nset_account_meta(@a:x:c, \"role\", \"r\")\nset_tx_meta(\"m\", \"y\")"},
		/* tx8 */ {Kind: "revert", TxID: 6},
		{Kind: "accmeta", Address: "a:b", Meta: md("role", "r", "k", "v")},
		{Kind: "accmeta", Address: "only:meta", Meta: md("role", "q")},
		{Kind: "accmeta", Address: "a", Meta: md("role", "q")},
		{Kind: "txmeta", TxID: 1, Meta: md("m", "x")},
		{Kind: "txmeta", TxID: 3, Meta: md("k", "v")},
		{Kind: "delaccmeta", Address: "a:b", Key: "k"},
		{Kind: "deltxmeta", TxID: 1, Key: "k"},
		/* tx9 */ post(nil, "", nil, p("world", "a:b", "USD", "1")),
	}}
	small := &History{Name: "small", Ops: []lx.Op{
		/* tx1 */ post(nil, "r1", md("k", "v"), p("world", "a", "USD", "10")),
		/* tx2 */ post(back, "", nil, p("a", "a:b", "USD", "3")),
		/* tx3 */ post(fut, "r2", md("k", "w"), p("world", "c", "EUR/2", "7")),
		{Kind: "accmeta", Address: "c", Meta: md("k", "v")},
		/* tx4 */ {Kind: "revert", TxID: 1, Force: true},
		{Kind: "accmeta", Address: "a:b", Meta: md("role", "r")},
	}}
	segs := &History{Name: "segments", Ops: []lx.Op{
		/* tx1 */ post(nil, "", md("k", "v"), p("world", "ab", "USD", "5")),
		/* tx2 */ post(nil, "r1", md("k", "w"), p("world", "b:a", "USD", "6"), p("world", "a", "USD", "7")),
		/* tx3 */ post(tie, "", nil, p("a", "a:b:c", "USD", "2")),
		/* tx4 */ post(tie, "r2", md("m", "x"), p("b:a", "a:x:c", "USD", "6")),
		{Kind: "accmeta", Address: "ab", Meta: md("role", "r")},
		{Kind: "accmeta", Address: "a:b", Meta: md("k", "v")},
		/* tx5 */ post(back, "", md("k", "v"), p("world", "a:b:c", "COIN", "9")),
		{Kind: "delaccmeta", Address: "ab", Key: "role"},
		{Kind: "accmeta", Address: "a:x:c", Meta: md("role", "q", "k", "w")},
		/* tx6 */ {Kind: "revert", TxID: 3, AtEff: true},
	}}
	return []*History{rich, small, segs}
}

// build executes every history on a clone of one booted database.
func build(ctx context.Context, hs []*History) ([]*Built, error) {
	return buildCfg(ctx, hs, nil)
}

// buildCfg executes every history on a ledger created with the given feature
// configuration (nil: the default feature set).
func buildCfg(ctx context.Context, hs []*History, cfg *FeatCfg) ([]*Built, error) {
	spec := lx.LedgerSpec{Name: ledgerName}
	if cfg != nil {
		spec.Features = cfg.Features
	}
	boot, err := lx.Boot(ctx, []lx.LedgerSpec{spec})
	if err != nil {
		return nil, err
	}
	var out []*Built
	for _, h := range hs {
		b, err := buildOne(ctx, boot, h)
		if err != nil {
			return nil, fmt.Errorf("history %s: %w", h.Name, err)
		}
		b.Cfg = cfg
		if cfg != nil {
			f := lx.FeatOf(b.info)
			if f.AccMetaHistory != cfg.AccHist() || f.TxMetaHistory != cfg.TxHist() {
				return nil, fmt.Errorf("history %s: ledger features %v do not reflect configuration %s", h.Name, b.info.Features, cfg.Name)
			}
		}
		out = append(out, b)
	}
	return out, nil
}

func buildOne(ctx context.Context, boot *pgsim.DB, h *History) (*Built, error) {
	pg := boot.Clone()
	w := world.Attach(pg)
	defer w.Close()
	ctrl, err := w.Sys.GetLedgerController(ctx, ledgerName)
	if err != nil {
		return nil, err
	}
	ref := lx.NewRef()
	for i, op := range h.Ops {
		out := lx.Apply(ctx, ctrl, op)
		if !out.OK() {
			return nil, fmt.Errorf("op %d (%s) failed [%s]: %v", i, op, out.Class, out.Err)
		}
		if err := ref.Commit(op, out); err != nil {
			return nil, fmt.Errorf("op %d (%s): reference: %v", i, op, err)
		}
	}
	b := &Built{H: h, DB: pg, Ref: ref, info: ctrl.Info()}
	// Points in time: (1) an instant that coincides exactly with explicit timestamps
	// (boundary of "<="), (2) the timestamp of the first "now" transaction (before the
	// later metadata edits and most writes), (3) the timestamp of the last "now"
	// transaction (after the metadata edits, before the future-dated writes).
	var explicit, firstNow, lastNow time.Time
	for i, t := range ref.Txs {
		op := txOp(h, i)
		if op != nil && op.TSOff != nil && *op.TSOff > 0 && explicit.IsZero() {
			explicit = t.TS
		}
		if op != nil && op.TSOff == nil && !(op.Kind == "revert" && op.AtEff) {
			if firstNow.IsZero() {
				firstNow = t.TS
			}
			lastNow = t.TS
		}
	}
	if explicit.IsZero() || firstNow.IsZero() {
		return nil, fmt.Errorf("history lacks explicit/implicit timestamps")
	}
	if !lastNow.Before(lx.Base.Add(60 * time.Second)) {
		return nil, fmt.Errorf("logical clock ran past the explicit timestamps (last now = %s)", lastNow)
	}
	b.PITs = []time.Time{explicit, firstNow}
	if !lastNow.Equal(firstNow) {
		b.PITs = append(b.PITs, lastNow)
	}
	return b, nil
}

// txOp returns the operation that created the i-th transaction of the history.
func txOp(h *History, i int) *lx.Op {
	n := 0
	for k := range h.Ops {
		switch h.Ops[k].Kind {
		case "post", "script", "revert":
			if n == i {
				return &h.Ops[k]
			}
			n++
		}
	}
	return nil
}

// site is one worker's private copy of a built history with a live controller stack.
type site struct {
	B    *Built
	W    *world.World
	Ctrl ledgercontroller.Controller
}

func (b *Built) open(ctx context.Context) (*site, error) {
	w := world.Attach(b.DB.Clone())
	c, err := w.Sys.GetLedgerController(ctx, ledgerName)
	if err != nil {
		w.Close()
		return nil, err
	}
	return &site{B: b, W: w, Ctrl: c}, nil
}

func (s *site) close() { s.W.Close() }
