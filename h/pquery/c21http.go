package pquery

import (
	"context"
	"encoding/json"
	"fmt"
	"net/http"
	"net/url"
	"sort"
	"strconv"
	"strings"
	"sync"
	"sync/atomic"
	"time"

	"github.com/formancehq/go-libs/v5/pkg/storage/bun/paginate"

	"github.com/formancehq/ledger/internal/storage/common"
	"github.com/formancehq/ledger/verifh/ev"
	"github.com/formancehq/ledger/verifh/lx"
	"github.com/formancehq/ledger/verifh/pgsim"
	"github.com/formancehq/ledger/verifh/world"
)

// The API leg of C21. The controller leg (c21.go) hands the storage layer a typed query and
// decodes the cursors itself; what a client of the ledger does is different: it writes a GET
// request whose query string carries the filter and the request-level parameters of the route
// (pit/oot and their legacy spellings, insertionDate, groupBy, expand, sort, reverse,
// includeDeleted, the v1 filter parameters ...), and then follows `cursor.next` by sending
// the cursor ALONE. Everything the first request said must therefore travel inside the
// cursor, and the handler must not re-derive any of it from the (now empty) query string.
// This leg enumerates, for every list route of api.NewRouter, the full cross product of the
// route's request-level parameter menus and walks each of them with every page size of the
// tier, comparing the concatenation of the pages with the same request served as one page.

const httpAssumptionC21 = "API leg: requests are served in-process by the real api.NewRouter (all middlewares, no authentication, v2 pagination configuration default 4 / max 100 so that a request without pageSize is paginated too; the v1 routes have their built-in 15 / 1000) through net/http/httptest; no TCP socket"

var c21PaginationCfg = common.PaginationConfig{MaxPageSize: 100, DefaultPageSize: 4}

// onePage is the page size of the reference request: larger than any listing of the
// histories, within the maximum page size of both API versions.
const onePage = 100

type hKV struct {
	K string `json:"k"`
	V string `json:"v"`
}

// hAnchor is what a request means for the reference evaluator (v2 ledger listings only).
type hAnchor struct {
	v     variant
	f     *F
	order paginate.Order
	ok    bool // false: the reference model has no reading of this request (OOT, v1 filters ...)
}

// hVal is one value of a request-level dimension: the query-string pairs (and body) it adds
// to the request. The first value of every dimension adds nothing (parameter absent).
type hVal struct {
	Label string
	Tag   string // history-independent name of the value (the parameter it sets)
	KVs   []hKV
	Body  string
	ref   func(a *hAnchor)
}

type hDim struct {
	Name string
	Vals []hVal
}

func absent() hVal { return hVal{Label: "-"} }

func kv(k, v string) hVal { return hVal{Label: k + "=" + v, Tag: k, KVs: []hKV{{k, v}}} }

// kvt: the tag carries the value too (several values of one parameter in a menu).
func kvt(k, v string) hVal { return hVal{Label: k + "=" + v, Tag: k + "=" + v, KVs: []hKV{{k, v}}} }

func (v hVal) with(ref func(a *hAnchor)) hVal { v.ref = ref; return v }

func noRef(a *hAnchor) { a.ok = false }

// hRoute is one list route as a client sees it.
type hRoute struct {
	Name        string
	Path        string
	system      bool // served by the system world (GET /v2), not by a ledger history
	history     func(b *Built) bool
	dims        func(b *Built, thorough bool) []hDim
	id          func(e map[string]any) string // the unique key of an entity
	sortKey     func(id string) string        // the part of it the listing is ordered by
	refKey      func(e map[string]any) string // the entity as the reference listing spells it
	l           *listing                      // reference listing (nil: none)
	defOrder    paginate.Order
	defaultSize int
}

func field(e map[string]any, k string) string { return fmt.Sprint(e[k]) }

func fieldID(k string) func(map[string]any) string {
	return func(e map[string]any) string {
		if _, ok := e[k]; !ok {
			return ""
		}
		return field(e, k)
	}
}

func tfmt(t time.Time) string { return t.UTC().Format(time.RFC3339Nano) }

func stdHistory(b *Built) bool { return b.H.Name != schemasHistoryName }

const schemasHistoryName = "schemas"

// schemasHistory: four schema versions inserted in an order that is neither the
// lexicographic nor the reverse lexicographic order of their names.
func schemasHistory() *History {
	tie := lx.TS(60 * sec)
	h := &History{Name: schemasHistoryName, Ops: []lx.Op{
		post(nil, "", nil, p("world", "a", "USD", "1")),
		post(tie, "", nil, p("world", "a", "USD", "1")),
	}}
	for _, v := range []string{"v2", "v10", "v1", "v3"} {
		h.Ops = append(h.Ops, lx.Op{Kind: "schema", Schema: v, SchemaData: `{"chart":{"world":{}}}`})
	}
	return h
}

func filterVals(fs []*F, thorough bool) []hVal {
	vals := []hVal{absent()}
	add := func(f *F, tag string, body bool) {
		v := kv("query", f.JSON())
		if body {
			v = hVal{Label: "body=" + f.JSON(), Body: f.JSON()}
		}
		v.Tag = tag
		vals = append(vals, v.with(func(a *hAnchor) { a.f = f }))
	}
	add(fs[1], "query(atom)", false)
	if thorough {
		add(fs[2], "query(formula)", false)
		add(fs[1], "query in the body", true) // the v2 handlers also read the filter from the request body
	}
	return vals
}

func pitRef(t time.Time) func(a *hAnchor) {
	return func(a *hAnchor) { a.v.PIT = &t }
}

// pitVals: no point in time, or one minute after the base instant — every "now" write of
// the history is before it by both dates, the future-dated transactions are inserted before
// it and effective after it (thorough: also the date of the first "now" transaction, which
// the back-dated transactions precede by their effective date and follow by insertion).
func pitVals(b *Built, thorough bool) []hVal {
	end := tieInstant()
	vals := []hVal{absent(), kv("pit", tfmt(end)).with(pitRef(end))}
	if thorough {
		v := kv("pit", tfmt(b.PITs[1])).with(pitRef(b.PITs[1]))
		v.Tag = "pit(first now)"
		vals = append(vals, v)
	}
	return vals
}

func orderRef(o paginate.Order) func(a *hAnchor) {
	return func(a *hAnchor) { a.order = o }
}

func httpRoutes() []*hRoute {
	ls := listings()
	lTx, lLogs, lAccs, lVols := ls[0], ls[1], ls[2], ls[3]
	asc, desc := paginate.Order(paginate.OrderAsc), paginate.Order(paginate.OrderDesc)
	ident := func(s string) string { return s }
	v2 := "/v2/" + ledgerName
	v1 := "/" + ledgerName // the v1 API is mounted at the root

	v2tx := &hRoute{Name: "v2/transactions", Path: v2 + "/transactions", history: stdHistory, id: fieldID("id"), sortKey: ident, refKey: fieldID("id"),
		l: lTx, defOrder: desc, defaultSize: int(c21PaginationCfg.DefaultPageSize),
		dims: func(b *Built, th bool) []hDim {
			return []hDim{
				{"pit", pitVals(b, th)},
				{"reverse", []hVal{absent(), kv("reverse", "true").with(orderRef(asc))}},
				{"sort", []hVal{absent(), kv("sort", "id:asc").with(orderRef(asc))}},
				{"expand", []hVal{absent(), kvt("expand", "volumes"), kvt("expand", "effectiveVolumes")}},
				{"query", filterVals(lTx.filters(lTx.res.atoms(b)), th)},
			}
		}}
	v2logs := &hRoute{Name: "v2/logs", Path: v2 + "/logs", history: stdHistory, id: fieldID("id"), sortKey: ident, refKey: fieldID("id"),
		l: lLogs, defOrder: desc, defaultSize: int(c21PaginationCfg.DefaultPageSize),
		dims: func(b *Built, th bool) []hDim {
			return []hDim{
				{"sort", []hVal{absent(), kv("sort", "id:asc").with(orderRef(asc))}},
				{"query", filterVals(lLogs.filters(lLogs.res.atoms(b)), th)},
			}
		}}
	v2accs := &hRoute{Name: "v2/accounts", Path: v2 + "/accounts", history: stdHistory, id: fieldID("address"), sortKey: ident, refKey: fieldID("address"),
		l: lAccs, defOrder: asc, defaultSize: int(c21PaginationCfg.DefaultPageSize),
		dims: func(b *Built, th bool) []hDim {
			return []hDim{
				{"pit", pitVals(b, th)},
				{"sort", []hVal{absent(), kv("sort", "address:desc").with(orderRef(desc))}},
				{"expand", []hVal{absent(), kvt("expand", "volumes"), kvt("expand", "effectiveVolumes")}},
				{"query", filterVals(lAccs.filters(lAccs.res.atoms(b)), th)},
			}
		}}
	volID := func(e map[string]any) string {
		if _, ok := e["account"]; !ok {
			return ""
		}
		return field(e, "account") + "|" + field(e, "asset")
	}
	v2vols := &hRoute{Name: "v2/volumes", Path: v2 + "/volumes", history: stdHistory, id: volID,
		sortKey: func(id string) string { return id[:strings.Index(id, "|")] },
		refKey: func(e map[string]any) string {
			return fmt.Sprintf("%s|%s|in=%s|out=%s", field(e, "account"), field(e, "asset"), field(e, "input"), field(e, "output"))
		},
		l: lVols, defOrder: asc, defaultSize: int(c21PaginationCfg.DefaultPageSize),
		dims: func(b *Built, th bool) []hDim {
			// end of the window: one minute after the base instant (the future-dated
			// transactions are inserted before it and effective after it); start of the
			// window: the first "now" transaction (the back-dated transactions are effective
			// before it and inserted after it)
			end, start := tieInstant(), b.PITs[1]
			return []hDim{
				{"end", append(pitVals(b, th), kv("endTime", tfmt(end)).with(pitRef(end)))},
				{"start", []hVal{absent(), kv("oot", tfmt(start)).with(noRef), kv("startTime", tfmt(start)).with(noRef)}},
				{"insertionDate", []hVal{absent(), kv("insertionDate", "true").with(func(a *hAnchor) { a.v.Ins = true })}},
				{"groupBy", []hVal{absent(), kvt("groupBy", "1").with(func(a *hAnchor) { a.v.Group = 1 }), kvt("groupBy", "2").with(func(a *hAnchor) { a.v.Group = 2 })}},
				{"sort", []hVal{absent(), kv("sort", "account:desc").with(orderRef(desc))}},
				{"query", filterVals(lVols.filters(lVols.res.atoms(b)), th)},
			}
		}}
	v2schemas := &hRoute{Name: "v2/schemas", Path: v2 + "/schemas", history: func(b *Built) bool { return b.H.Name == schemasHistoryName },
		id: fieldID("version"), sortKey: ident, defaultSize: int(c21PaginationCfg.DefaultPageSize),
		dims: func(b *Built, th bool) []hDim {
			return []hDim{
				{"sort", []hVal{absent(), kvt("sort", "version"), kvt("sort", "version:asc"), kvt("sort", "created_at:asc")}},
				{"order", []hVal{absent(), kv("order", "asc")}},
			}
		}}
	v2ledgers := &hRoute{Name: "v2/ledgers", Path: "/v2", system: true, id: fieldID("name"), sortKey: ident, defaultSize: int(c21PaginationCfg.DefaultPageSize),
		dims: func(*Built, bool) []hDim {
			return []hDim{
				{"includeDeleted", []hVal{absent(), kv("includeDeleted", "true")}},
				{"sort", []hVal{absent(), kv("sort", "id:desc")}},
				{"query", []hVal{absent(), kvt("query", `{"$match":{"bucket":"`+sysBuckets[0]+`"}}`), kvt("query", `{"$match":{"bucket":"`+sysBuckets[1]+`"}}`)}},
			}
		}}

	v1accs := &hRoute{Name: "v1/accounts", Path: v1 + "/accounts", history: stdHistory, id: fieldID("address"), sortKey: ident, defaultSize: 15,
		dims: func(b *Built, th bool) []hDim {
			return []hDim{
				{"address", []hVal{absent(), kv("address", "a:...")}},
				{"metadata", []hVal{absent(), kv("metadata[role]", "r")}},
				{"balance", []hVal{absent(), {Label: "balance>=0", Tag: "balance+balanceOperator", KVs: []hKV{{"balance", "0"}, {"balanceOperator", "gte"}}}}},
			}
		}}
	v1bal := &hRoute{Name: "v1/balances", Path: v1 + "/balances", history: stdHistory, defaultSize: 15, sortKey: ident,
		id: func(e map[string]any) string {
			if len(e) != 1 {
				return ""
			}
			for k := range e {
				return k
			}
			return ""
		},
		dims: func(b *Built, th bool) []hDim {
			return []hDim{{"address", []hVal{absent(), kv("address", "a:...")}}}
		}}
	v1tx := &hRoute{Name: "v1/transactions", Path: v1 + "/transactions", history: stdHistory, id: fieldID("txid"), sortKey: ident, defaultSize: 15,
		dims: func(b *Built, th bool) []hDim {
			ds := []hDim{
				{"account", []hVal{absent(), kv("account", "a:...")}},
				{"source", []hVal{absent(), kv("source", "world")}},
				{"metadata", []hVal{absent(), kv("metadata[k]", "v")}},
				// ?after= is not in the menu: the v1 handlers hand its value to the filter as a
				// string and the request is refused (400 «expected numeric value, got string»)
				// whatever the page size — nothing to paginate (see out/FINDINGS.md)
				{"start", []hVal{absent(), kv("startTime", tfmt(b.PITs[1])), kv("start_time", tfmt(b.PITs[1]))}},
				{"end", []hVal{absent(), kv("endTime", tfmt(lx.Base.Add(30*time.Minute))), kv("end_time", tfmt(lx.Base.Add(30*time.Minute)))}},
			}
			// (?reference= selects at most one transaction: nothing to paginate)
			if th {
				ds = append(ds, hDim{"destination", []hVal{absent(), kv("destination", "a:...")}})
			}
			return ds
		}}
	v1logs := &hRoute{Name: "v1/logs", Path: v1 + "/logs", history: stdHistory, id: fieldID("id"), sortKey: ident, defaultSize: 15,
		dims: func(b *Built, th bool) []hDim {
			return []hDim{
				{"start_time", []hVal{absent(), kv("start_time", tfmt(b.Ref.Logs[1].Date))}},
				{"end_time", []hVal{absent(), kv("end_time", tfmt(b.Ref.Logs[len(b.Ref.Logs)-1].Date))}},
			}
		}}
	// the routes of the property's own list first (volumes: the richest parameter set)
	return []*hRoute{v2vols, v2tx, v2accs, v2logs, v2ledgers, v2schemas, v1tx, v1accs, v1bal, v1logs}
}

// ---------- the system world of GET /v2 ----------

var sysBuckets = []string{"c21b1", "c21b2", "c21b3"}

// systemHistory is the fixed population of the ledgers listing: six ledgers over three
// buckets, created in an order that interleaves the buckets; the second bucket is then
// soft-deleted (DELETE /v2/_/buckets/{bucket}), which marks its two ledgers as deleted.
func systemSpecs() []lx.LedgerSpec {
	return []lx.LedgerSpec{
		{Name: "la", Bucket: sysBuckets[0]}, {Name: "lb", Bucket: sysBuckets[1]}, {Name: "lc", Bucket: sysBuckets[0]},
		{Name: "ld", Bucket: sysBuckets[2]}, {Name: "le", Bucket: sysBuckets[1]}, {Name: "lf", Bucket: sysBuckets[0]},
	}
}

func buildSystem(ctx context.Context) (*pgsim.DB, error) {
	pg, err := lx.Boot(ctx, systemSpecs())
	if err != nil {
		return nil, err
	}
	w := world.Attach(pg)
	defer w.Close()
	if err := w.Sys.DeleteBucket(ctx, sysBuckets[1]); err != nil {
		return nil, fmt.Errorf("soft delete of bucket %s: %w", sysBuckets[1], err)
	}
	return pg, nil
}

// ---------- pages ----------

type hPage struct {
	IDs      []string `json:"ids"`
	Ents     []string `json:"-"`
	RefKeys  []string `json:"-"`
	PageSize int      `json:"pageSize"`
	HasMore  bool     `json:"hasMore"`
	Next     string   `json:"-"`
	Previous string   `json:"-"`
}

func (rt *hRoute) parse(body string) (*hPage, error) {
	var env struct {
		Cursor *struct {
			PageSize int               `json:"pageSize"`
			HasMore  bool              `json:"hasMore"`
			Previous string            `json:"previous"`
			Next     string            `json:"next"`
			Data     []json.RawMessage `json:"data"`
		} `json:"cursor"`
	}
	if err := json.Unmarshal([]byte(body), &env); err != nil {
		return nil, err
	}
	if env.Cursor == nil {
		return nil, fmt.Errorf("no cursor member")
	}
	pg := &hPage{PageSize: env.Cursor.PageSize, HasMore: env.Cursor.HasMore, Next: env.Cursor.Next, Previous: env.Cursor.Previous}
	for _, d := range env.Cursor.Data {
		canon, err := canonJSON(d, false, nil)
		if err != nil {
			return nil, err
		}
		dec := json.NewDecoder(strings.NewReader(string(d)))
		dec.UseNumber()
		var m map[string]any
		if err := dec.Decode(&m); err != nil {
			return nil, fmt.Errorf("entity %s is not an object: %w", d, err)
		}
		id := rt.id(m)
		if id == "" {
			return nil, fmt.Errorf("entity %s carries no key", d)
		}
		pg.IDs, pg.Ents = append(pg.IDs, id), append(pg.Ents, canon)
		if rt.refKey != nil {
			pg.RefKeys = append(pg.RefKeys, rt.refKey(m))
		}
	}
	return pg, nil
}

func hTarget(path string, kvs []hKV) string {
	if len(kvs) == 0 {
		return path
	}
	parts := make([]string, len(kvs))
	for i, x := range kvs {
		parts[i] = url.QueryEscape(x.K) + "=" + url.QueryEscape(x.V)
	}
	return path + "?" + strings.Join(parts, "&")
}

func withKV(kvs []hKV, k, v string) []hKV {
	return append(append([]hKV(nil), kvs...), hKV{k, v})
}

func hIDs(pages []*hPage) [][]string {
	out := make([][]string, len(pages))
	for i, pg := range pages {
		out[i] = pg.IDs
	}
	return out
}

// hReq is one enumerated request: the route, the parameters it carries, the page size
// ("" = no pageSize parameter: the route's default) and the way the cursors are followed:
// "alone" (GET route?cursor=…, what SDKs do) or "resend" (every parameter of the first
// request is sent again beside the cursor).
type hReq struct {
	rt     *hRoute
	KVs    []hKV
	Body   string
	Size   string
	Follow string
}

func (q hReq) String() string {
	s := "GET " + hTarget(q.rt.Path, q.kvsWithSize())
	if q.Body != "" {
		s += " body=" + q.Body
	}
	if q.Follow == "resend" {
		return s + ", then the same request with &cursor=<next>"
	}
	return s + ", then GET " + q.rt.Path + "?cursor=<next>"
}

func (q hReq) kvsWithSize() []hKV {
	if q.Size == "" {
		return q.KVs
	}
	return withKV(q.KVs, "pageSize", q.Size)
}

func (q hReq) size() int {
	if q.Size == "" {
		return q.rt.defaultSize
	}
	n, _ := strconv.Atoi(q.Size)
	return n
}

func (q hReq) cursorTarget(cur string) (string, string) {
	if q.Follow == "resend" {
		return hTarget(q.rt.Path, withKV(q.kvsWithSize(), "cursor", cur)), q.Body
	}
	return hTarget(q.rt.Path, []hKV{{"cursor", cur}}), ""
}

func hEngine(resp httpResp) bool {
	return strings.Contains(resp.Log, "pgsim:") || strings.Contains(resp.Body, "pgsim:")
}

// single serves the request as one page. rejected: the route answered an error (status,
// errorCode) — the paginated form must then answer the same.
func (q hReq) single(h http.Handler) (pg *hPage, rejected *httpResp, err error) {
	resp := httpDo(h, http.MethodGet, hTarget(q.rt.Path, withKV(q.KVs, "pageSize", strconv.Itoa(onePage))), q.Body)
	if hEngine(resp) {
		return nil, nil, fmt.Errorf("engine: %s", resp.brief())
	}
	if resp.Status != http.StatusOK {
		if resp.Status >= 500 {
			return nil, nil, fmt.Errorf("one-page request answered %s", resp.brief())
		}
		return nil, &resp, nil
	}
	pg, err = q.rt.parse(resp.Body)
	if err != nil {
		return nil, nil, fmt.Errorf("one-page response undecodable (%v): %s", err, resp.brief())
	}
	if pg.HasMore || pg.Next != "" {
		return nil, nil, fmt.Errorf("one-page request (pageSize=%d) is not complete: %d entities, hasMore=%v", onePage, len(pg.IDs), pg.HasMore)
	}
	seen := map[string]bool{}
	for _, id := range pg.IDs {
		if seen[id] {
			return nil, nil, fmt.Errorf("one-page listing holds %s twice: %v", id, pg.IDs)
		}
		seen[id] = true
	}
	return pg, nil, nil
}

// walk follows next cursors from the first page to the end and previous cursors back, and
// compares with the one-page listing. kind "" = the property holds; kind "engine" = harness.
func (q hReq) walk(h http.Handler, one *hPage, prevSteps *atomic.Int64) (kind, what string, pages []*hPage) {
	rt := q.rt
	size := q.size()
	fail := func(k, format string, a ...any) (string, string, []*hPage) {
		return k, fmt.Sprintf(format, a...), pages
	}
	get := func(phase, target, body string) (*hPage, string, string) {
		resp := httpDo(h, http.MethodGet, target, body)
		if hEngine(resp) {
			return nil, "engine", resp.brief()
		}
		if resp.Status != http.StatusOK {
			return nil, fmt.Sprintf("%s:error:%d", phase, resp.Status), fmt.Sprintf("GET %s answered %s", target, resp.brief())
		}
		pg, err := rt.parse(resp.Body)
		if err != nil {
			return nil, phase + ":undecodable", fmt.Sprintf("GET %s: %v: %s", target, err, resp.brief())
		}
		return pg, "", ""
	}
	n := len(one.IDs)
	pg, k, w := get("first", hTarget(rt.Path, q.kvsWithSize()), q.Body)
	if k != "" {
		return k, w, pages
	}
	pages = append(pages, pg)
	for pg.HasMore || pg.Next != "" {
		if len(pages) > n+2 {
			return fail("next:does-not-terminate", "more than %d pages for %d entities", len(pages), n)
		}
		if pg.Next == "" {
			return fail("next:hasMore-without-cursor", "page %d says hasMore but carries no next cursor", len(pages))
		}
		t, b := q.cursorTarget(pg.Next)
		if pg, k, w = get("next", t, b); k != "" {
			return k, w, pages
		}
		pages = append(pages, pg)
	}
	var ids, ents []string
	for i, pg := range pages {
		if pg.PageSize != size {
			return fail("next:page-size", "page %d reports pageSize %d, the request asked for %d", i+1, pg.PageSize, size)
		}
		if len(pg.IDs) > size {
			return fail("next:page-too-long", "page %d has %d entities for page size %d", i+1, len(pg.IDs), size)
		}
		if i < len(pages)-1 && len(pg.IDs) != size {
			return fail("next:short-inner-page", "page %d of %d has %d entities for page size %d", i+1, len(pages), len(pg.IDs), size)
		}
		ids, ents = append(ids, pg.IDs...), append(ents, pg.Ents...)
	}
	seen := map[string]int{}
	for _, id := range ids {
		seen[id]++
	}
	for _, id := range ids {
		if seen[id] > 1 {
			return fail("next:duplicate", "entity %s returned %d times; pages=%v; one page=%v", id, seen[id], hIDs(pages), one.IDs)
		}
	}
	want := map[string]string{}
	for i, id := range one.IDs {
		want[id] = one.Ents[i]
		if seen[id] == 0 {
			return fail("next:missing", "entity %s of the one-page listing never returned; pages=%v; one page=%v", id, hIDs(pages), one.IDs)
		}
	}
	for i, id := range ids {
		e, ok := want[id]
		if !ok {
			return fail("next:unexpected", "entity %s returned but absent from the one-page listing; pages=%v; one page=%v", id, hIDs(pages), one.IDs)
		}
		if e != ents[i] {
			return fail("next:entity-differs", "entity %s is %s in the pages and %s in the one-page listing", id, ents[i], e)
		}
	}
	for i := range ids {
		if a, b := rt.sortKey(ids[i]), rt.sortKey(one.IDs[i]); a != b {
			return fail("next:order", "position %d holds %s, the one-page listing has %s there; pages=%v; one page=%v", i, ids[i], one.IDs[i], hIDs(pages), one.IDs)
		}
	}
	if len(pages) > 1 && len(pages[len(pages)-1].IDs) == 0 {
		return fail("next:empty-last-page", "last of %d pages is empty", len(pages))
	}
	cur := pages[len(pages)-1]
	for k := len(pages) - 1; k >= 1; k-- {
		if cur.Previous == "" {
			return fail("previous:no-cursor", "page %d of %d has no previous cursor", k+1, len(pages))
		}
		t, b := q.cursorTarget(cur.Previous)
		prev, kd, w := get("previous", t, b)
		if kd != "" {
			return kd, w, pages
		}
		if prevSteps != nil {
			prevSteps.Add(1)
		}
		if !equalStrings(prev.Ents, pages[k-1].Ents) {
			return fail("previous:page-mismatch", "previous of page %d returned %v, page %d was %v", k+1, prev.Ents, k, pages[k-1].Ents)
		}
		cur = prev
	}
	return "", "", pages
}

// ---------- scenarios ----------

type hScenario struct {
	rt     *hRoute
	si     int // site index (len(built) = the system world)
	dims   []hDim
	choice []int
	// filled by the run
	done     bool
	oneSig   string // digest of the one-page listing ("" when rejected)
	maxPages int
}

func (sc *hScenario) key(choice []int) string {
	return fmt.Sprintf("%s|%d|%v", sc.rt.Name, sc.si, choice)
}

func (sc *hScenario) request() hReq {
	q := hReq{rt: sc.rt}
	for i, c := range sc.choice {
		v := sc.dims[i].Vals[c]
		q.KVs = append(q.KVs, v.KVs...)
		if v.Body != "" {
			q.Body = v.Body
		}
	}
	return q
}

func (sc *hScenario) present() int {
	n := 0
	for _, c := range sc.choice {
		if c != 0 {
			n++
		}
	}
	return n
}

// anchor evaluates the request on the reference model.
func (sc *hScenario) anchor(b *Built) ([]string, bool) {
	if sc.rt.l == nil {
		return nil, false
	}
	a := &hAnchor{order: sc.rt.defOrder, ok: true}
	for i, c := range sc.choice {
		if r := sc.dims[i].Vals[c].ref; r != nil {
			r(a)
		}
	}
	if !a.ok {
		return nil, false
	}
	l := sc.rt.l
	v := b.under(a.v)
	return sortKeys(l, l.expected(selectRows(l.res.rows(b.Ref, v), a.f, l.res.atom), v), a.order), true
}

// choices enumerates the cross product of the dimensions, fewest parameters first.
func choices(dims []hDim) [][]int {
	out := [][]int{{}}
	for _, d := range dims {
		var next [][]int
		for _, c := range out {
			for i := range d.Vals {
				next = append(next, append(append([]int(nil), c...), i))
			}
		}
		out = next
	}
	cnt := func(c []int) int {
		n := 0
		for _, x := range c {
			if x != 0 {
				n++
			}
		}
		return n
	}
	sort.SliceStable(out, func(i, j int) bool { return cnt(out[i]) < cnt(out[j]) })
	return out
}

// hSite is one worker's private world with its router.
type hSite struct {
	w *world.World
	h http.Handler
	b *Built
}

func openHTTPSite(ctx context.Context, built []*Built, sys *pgsim.DB, si int) (*hSite, error) {
	if si == len(built) {
		w := world.Attach(sys.Clone())
		return &hSite{w: w, h: newRouter(w, c21PaginationCfg)}, nil
	}
	s, err := built[si].open(ctx)
	if err != nil {
		return nil, err
	}
	return &hSite{w: s.W, h: newRouter(s.W, c21PaginationCfg), b: built[si]}, nil
}

// diagnose names the request-level parameter the pages after the first were computed
// without, when there is one: pages 2.. equal the tail of the one-page listing of the same
// request minus that parameter.
func (sc *hScenario) diagnose(h http.Handler, size int, own *hPage, pages []*hPage) string {
	if len(pages) < 2 || len(pages[0].Ents) != size {
		return ""
	}
	var tail []string
	for _, pg := range pages[1:] {
		tail = append(tail, pg.Ents...)
	}
	for i, c := range sc.choice {
		if c == 0 {
			continue
		}
		alt := &hScenario{rt: sc.rt, dims: sc.dims, choice: append([]int(nil), sc.choice...)}
		alt.choice[i] = 0
		one, rej, err := alt.request().single(h)
		if err != nil || rej != nil || len(one.Ents) < size || equalStrings(one.Ents, own.Ents) {
			continue
		}
		if equalStrings(one.Ents[size:], tail) {
			return fmt.Sprintf(" — the pages after the first are those of the same request WITHOUT %s (%s): the parameter is honoured on the first page and lost when the cursor is followed", sc.dims[i].Name, sc.dims[i].Vals[c].Label)
		}
	}
	return ""
}

type c21HTTPStats struct {
	mu        sync.Mutex
	perRoute  map[string]*c21ListingStats
	rejected  map[string]int64
	anchored  atomic.Int64
	walks     atomic.Int64
	multiPage atomic.Int64
	threePlus atomic.Int64
	prevSteps atomic.Int64
	requests  atomic.Int64
}

func pageSizesHTTP(n int, thorough bool) []string {
	sizes := []string{"1", "2", "3", ""}
	if thorough {
		sizes = nil
		for s := 1; s <= n+1; s++ {
			sizes = append(sizes, strconv.Itoa(s))
		}
		sizes = append(sizes, "")
	}
	return sizes
}

// runC21HTTP is the API leg; it returns the coverage of the leg and whether it ran to the end.
func runC21HTTP(ctx context.Context, r *ev.Run, built []*Built) (map[string]any, bool) {
	sys, err := buildSystem(ctx)
	if err != nil {
		r.EngineError("system world: " + err.Error())
		return nil, false
	}
	routes := httpRoutes()
	st := &c21HTTPStats{perRoute: map[string]*c21ListingStats{}, rejected: map[string]int64{}}
	var scs []*hScenario
	byKey := map[string]*hScenario{}
	for _, rt := range routes {
		st.perRoute[rt.Name] = &c21ListingStats{}
		var sites []int
		if rt.system {
			sites = []int{len(built)}
		} else {
			for i, b := range built {
				if rt.history(b) {
					sites = append(sites, i)
				}
			}
		}
		for _, si := range sites {
			var b *Built
			if si < len(built) {
				b = built[si]
			}
			dims := rt.dims(b, r.Thorough())
			for _, c := range choices(dims) {
				sc := &hScenario{rt: rt, si: si, dims: dims, choice: c}
				scs = append(scs, sc)
				byKey[sc.key(c)] = sc
			}
		}
	}
	// fewest parameters first across routes too, so that a run cut by its budget has seen
	// every route
	sort.SliceStable(scs, func(i, j int) bool { return scs[i].present() < scs[j].present() })
	follows := []string{"alone"}
	if r.Thorough() {
		follows = append(follows, "resend")
	}
	var next atomic.Int64
	var stopped atomic.Bool
	var wg sync.WaitGroup
	for w := 0; w < workers(); w++ {
		wg.Add(1)
		go func() {
			defer wg.Done()
			sites := map[int]*hSite{}
			defer func() {
				for _, s := range sites {
					s.w.Close()
				}
			}()
			for {
				if r.Expired() || r.HasEngineError() {
					stopped.Store(true)
					return
				}
				i := int(next.Add(1) - 1)
				if i >= len(scs) {
					return
				}
				sc := scs[i]
				s := sites[sc.si]
				if s == nil {
					var err error
					if s, err = openHTTPSite(ctx, built, sys, sc.si); err != nil {
						r.EngineError("open site: " + err.Error())
						return
					}
					sites[sc.si] = s
				}
				runHTTPScenario(r, st, s, sc, follows)
			}
		}()
	}
	wg.Wait()
	exhaustive := !stopped.Load()
	// load-bearing parameters: for every value of every dimension of every route there
	// must be a multi-page walk whose one-page listing changes when that parameter alone is
	// dropped from the request — otherwise losing it on the way could not be seen
	loadBearing := map[string]map[string]bool{}
	for _, sc := range scs {
		if !sc.done || sc.oneSig == "" || sc.maxPages < 2 {
			continue
		}
		for i, c := range sc.choice {
			if c == 0 {
				continue
			}
			alt := append([]int(nil), sc.choice...)
			alt[i] = 0
			o := byKey[sc.key(alt)]
			if o == nil || !o.done || o.oneSig == sc.oneSig {
				continue
			}
			if loadBearing[sc.rt.Name] == nil {
				loadBearing[sc.rt.Name] = map[string]bool{}
			}
			loadBearing[sc.rt.Name][sc.dims[i].Vals[c].Tag] = true
		}
	}
	lb := map[string][]string{}
	if exhaustive && !r.HasEngineError() && r.ViolationCount() == 0 {
		seenVal := map[string]bool{}
		for _, sc := range scs {
			for _, d := range sc.dims {
				for _, v := range d.Vals[1:] {
					k := sc.rt.Name + " " + v.Tag
					if seenVal[k] {
						continue
					}
					seenVal[k] = true
					if !loadBearing[sc.rt.Name][v.Tag] {
						r.EngineError(fmt.Sprintf("vacuous: API leg: on %s no multi-page walk depends on %s (dropping it never changes the listing, on any history)", sc.rt.Name, v.Tag))
					}
				}
			}
		}
		for name, ls := range st.perRoute {
			if ls.MultiPage == 0 || ls.MaxPages < 3 {
				r.EngineError(fmt.Sprintf("vacuous: API leg: route %s never needed three pages (max %d)", name, ls.MaxPages))
			}
		}
		if st.prevSteps.Load() == 0 {
			r.EngineError("vacuous: API leg: no previous cursor was ever followed")
		}
		if st.anchored.Load() == 0 {
			r.EngineError("vacuous: API leg: no one-page listing was compared with the reference evaluator")
		}
	}
	for rt, m := range loadBearing {
		for v := range m {
			lb[rt] = append(lb[rt], v)
		}
		sort.Strings(lb[rt])
	}
	per := map[string]any{}
	for k, v := range st.perRoute {
		per[k] = map[string]any{"walks": v.Walks, "multi_page_walks": v.MultiPage, "max_pages": v.MaxPages, "max_entities": v.MaxEntities}
	}
	return map[string]any{
		"scenarios":                        len(scs),
		"walks":                            st.walks.Load(),
		"multi_page_walks":                 st.multiPage.Load(),
		"walks_with_3plus_pages":           st.threePlus.Load(),
		"previous_steps":                   st.prevSteps.Load(),
		"one_page_listings_equal_to_model": st.anchored.Load(),
		"requests_rejected_identically":    st.rejected,
		"per_route":                        per,
		"load_bearing_params":              lb,
	}, exhaustive
}

func runHTTPScenario(r *ev.Run, st *c21HTTPStats, s *hSite, sc *hScenario, follows []string) {
	q := sc.request()
	histName, hist := "system", any(map[string]any{"ledgers": systemSpecs(), "deletedBucket": sysBuckets[1]})
	if s.b != nil {
		histName, hist = s.b.H.Name, s.b.H
	}
	desc := func(q hReq) map[string]any {
		return map[string]any{"leg": "http", "route": sc.rt.Name, "history": hist, "params": q.KVs, "body": q.Body, "pageSize": q.Size, "follow": q.Follow}
	}
	one, rej, err := q.single(s.h)
	if err != nil {
		r.EngineError(fmt.Sprintf("%s history=%s %s: %v", sc.rt.Name, histName, hTarget(sc.rt.Path, q.KVs), err))
		return
	}
	if rej != nil {
		// the paginated form must be refused the same way
		q.Size = "2"
		resp := httpDo(s.h, http.MethodGet, hTarget(sc.rt.Path, q.kvsWithSize()), q.Body)
		if resp.Status != rej.Status || errorCode(resp.Body) != errorCode(rej.Body) {
			r.Violation("C21:http:"+sc.rt.Name+":first:status", fmt.Sprintf("history=%s: %s answered %s with pageSize=%d and %s with pageSize=2", histName, hTarget(sc.rt.Path, q.KVs), rej.brief(), onePage, resp.brief()), desc(q))
		}
		st.mu.Lock()
		st.rejected[fmt.Sprintf("%s:%d:%s", sc.rt.Name, rej.Status, errorCode(rej.Body))]++
		st.mu.Unlock()
		sc.done = true
		return
	}
	sc.oneSig = strings.Join(one.Ents, "\n") + "\n#"
	if want, ok := sc.anchor(s.b); ok {
		got := one.RefKeys
		bad := len(got) != len(want)
		if !bad {
			if !equalStrings(sorted(append([]string(nil), got...)), sorted(append([]string(nil), want...))) {
				bad = true
			}
			for i := 0; !bad && i < len(got); i++ {
				bad = sc.rt.l.sortKey(got[i]) != sc.rt.l.sortKey(want[i])
			}
		}
		if bad {
			r.Violation("C21:http:"+sc.rt.Name+":one-page-vs-reference", fmt.Sprintf("history=%s: GET %s lists %v, the reference evaluator selects %v", histName, hTarget(sc.rt.Path, withKV(q.KVs, "pageSize", strconv.Itoa(onePage))), got, want), desc(q))
			sc.done = true
			return
		}
		st.anchored.Add(1)
	}
	n := len(one.IDs)
	ls := st.perRoute[sc.rt.Name]
loop:
	for _, follow := range follows {
		for _, size := range pageSizesHTTP(n, r.Thorough()) {
			q.Size, q.Follow = size, follow
			kind, what, pages := q.walk(s.h, one, &st.prevSteps)
			st.walks.Add(1)
			st.mu.Lock()
			ls.Walks++
			if len(pages) > 1 {
				ls.MultiPage++
			}
			if len(pages) > ls.MaxPages {
				ls.MaxPages = len(pages)
			}
			if n > ls.MaxEntities {
				ls.MaxEntities = n
			}
			st.mu.Unlock()
			if len(pages) > sc.maxPages {
				sc.maxPages = len(pages)
			}
			if len(pages) > 1 {
				st.multiPage.Add(1)
			}
			if len(pages) > 2 {
				st.threePlus.Add(1)
			}
			if kind == "engine" {
				r.EngineError(fmt.Sprintf("%s history=%s %s: %s", sc.rt.Name, histName, q, what))
				return
			}
			if kind != "" {
				if strings.HasPrefix(kind, "next:") {
					what += sc.diagnose(s.h, q.size(), one, pages)
				}
				d := desc(q)
				d["onePage"] = one.IDs
				d["pages"] = pages
				r.Violation("C21:http:"+sc.rt.Name+":"+follow+":"+kind, fmt.Sprintf("history=%s: %s: %s", histName, q, what), d)
				break loop
			}
		}
	}
	sc.done = true
}

// replayC21HTTP re-executes one API-leg replay.
func replayC21HTTP(ctx context.Context, raw []byte) (string, error) {
	var file struct {
		Replay struct {
			Route    string          `json:"route"`
			History  json.RawMessage `json:"history"`
			Params   []hKV           `json:"params"`
			Body     string          `json:"body"`
			PageSize string          `json:"pageSize"`
			Follow   string          `json:"follow"`
		} `json:"replay"`
	}
	if err := json.Unmarshal(raw, &file); err != nil {
		return "", err
	}
	rp := file.Replay
	var rt *hRoute
	for _, x := range httpRoutes() {
		if x.Name == rp.Route {
			rt = x
		}
	}
	if rt == nil {
		return "", fmt.Errorf("unknown route %q", rp.Route)
	}
	var w *world.World
	if rt.system {
		pg, err := buildSystem(ctx)
		if err != nil {
			return "", err
		}
		w = world.Attach(pg)
	} else {
		var h History
		if err := json.Unmarshal(rp.History, &h); err != nil {
			return "", err
		}
		s, err := rebuild(ctx, &h)
		if err != nil {
			return "", err
		}
		w = s.W
	}
	defer w.Close()
	router := newRouter(w, c21PaginationCfg)
	q := hReq{rt: rt, KVs: rp.Params, Body: rp.Body, Size: rp.PageSize, Follow: rp.Follow}
	one, rej, err := q.single(router)
	if err != nil {
		return "", err
	}
	if rej != nil {
		return fmt.Sprintf("%s\n  one-page request refused: %s", q, rej.brief()), nil
	}
	kind, what, pages := q.walk(router, one, nil)
	verdict := "OK (the pages enumerate the one-page listing exactly once, in order; previous pages match)"
	if kind != "" {
		verdict = "MISMATCH kind=" + kind + ": " + what
	}
	return fmt.Sprintf("%s\n  one page: %v\n  pages:    %v\n  %s", q, one.IDs, hIDs(pages), verdict), nil
}
