package props

import (
	"context"

	"fmt"
	ledgercontroller "github.com/formancehq/ledger/internal/controller/ledger"
	"sort"
	"time"

	"github.com/formancehq/ledger/verifh/ev"
	"github.com/formancehq/ledger/verifh/lx"
	"github.com/formancehq/ledger/verifh/reg"
)

var c02Sigs = []string{"acc:volumes", "acc:get-volumes", "acc:effective-volumes", "vol:", "agg:", "read:", "ref:"}

var pgsimAssumption = "pgsim: hand-written in-process model of the Postgres subset the ledger uses (READ COMMITTED MVCC, row/advisory locks, triggers, PL/pgSQL); it cannot be validated against a real server in this sandbox"

func seqCoverage(e *lx.SeqExplorer, st *lx.SeqStats, rule string) ev.Coverage {
	return ev.Coverage{
		"states":                        st.States,
		"transitions":                   st.Transitions,
		"traces_validated_against_impl": st.Paths,
		"samples":                       st.Samples,
		"alphabet":                      len(e.Alphabet),
		"depth_completed":               st.DepthDone,
		"depth_target":                  e.Depth,
		"exhaustive":                    st.Exhaustive && st.DepthDone == e.Depth,
		"distinct_outcomes":             st.Outcomes,
		"other_observations":            st.Observations,
		"rule":                          rule,
	}
}

// vacuous fails a run whose exploration never produced the outcomes the oracle needs.
func vacuous(r *ev.Run, st *lx.SeqStats, need ...string) {
	if r.ViolationCount() > 0 || st.DepthDone == 0 {
		return
	}
	for _, n := range need {
		if st.Outcomes[n] == 0 {
			r.EngineError(fmt.Sprintf("vacuous exploration: outcome %q never occurred", n))
		}
	}
}

func init() {
	// for ReplaySeq: the oracle of both configurations of C02
	seqSets["C02"] = seqCheck{id: "C02", sigs: c02Sigs, restart: true, check: func(ctx context.Context, s *lx.StepInfo, rep *lx.Report) {
		for _, n := range sortedLedgers(s.Ctrls) {
			if n == "twin" {
				continue
			}
			sub := &lx.Report{}
			lx.CheckCurrent(ctx, s.Ctrls[n], s.Refs[n], sub)
			for _, m := range sub.Items {
				rep.Add(m.Sig, "%s: %s", n, m.What)
			}
		}
		if s.Ctrls["twin"] != nil {
			twinLeg(ctx, s, rep, func(c ledgercontroller.Controller, sub *lx.Report) { lx.CheckCurrent(ctx, c, s.Ref, sub) })
		}
	}}
	reg.Register("C02", func() int {
		r := ev.Start("C02", ev.LevelMC, 100*time.Second, 15*time.Minute)
		// first configuration (small, run first so that a time cut never drops it): the population of the ledger's BUCKET changes during the
		// history (a neighbour created beside it, the bucket soft-deleted with its rows left
		// in place, a ledger created in the soft-deleted bucket, the bucket restored): the
		// volumes every routable ledger reports must still be the fold of ITS OWN postings
		var stb *lx.SeqStats
		var eb *lx.SeqExplorer
		{
			eb = &lx.SeqExplorer{
				Ledgers:  []lx.LedgerSpec{{Name: "l3", Bucket: "b2"}},
				Alphabet: c02BucketAlphabet(),
				Depth:    ev.Pick(r, 3, 5),
				Restart:  true,
				Sigs:     c02Sigs,
				Check: func(ctx context.Context, s *lx.StepInfo, rep *lx.Report) {
					for _, n := range sortedLedgers(s.Ctrls) {
						sub := &lx.Report{}
						lx.CheckCurrent(ctx, s.Ctrls[n], s.Refs[n], sub)
						for _, m := range sub.Items {
							rep.Add(m.Sig, "%s: %s", n, m.What)
						}
					}
				},
			}
			var err error
			stb, err = eb.Run(context.Background(), r)
			if err != nil {
				r.EngineError(err.Error())
				return r.Finish(nil, []string{pgsimAssumption})
			}
			vacuous(r, stb, "post:ok", "createledger:ok", "deletebucket:ok", "restorebucket:ok")
		}
		e := &lx.SeqExplorer{
			Ledgers:  []lx.LedgerSpec{{Name: "l1"}, {Name: "twin", Bucket: "twinb"}},
			Alphabet: append(coreAlphabet(), retriedOps()...),
			Depth:    ev.Pick(r, 3, 4),
			Restart:  true,
			Sigs:     c02Sigs,
			Check: func(ctx context.Context, s *lx.StepInfo, rep *lx.Report) {
				lx.CheckCurrent(ctx, s.Ctrl, s.Ref, rep)
				// the same volumes on the ledger reached through export + import of this history
				twinLeg(ctx, s, rep, func(c ledgercontroller.Controller, sub *lx.Report) {
					lx.CheckCurrent(ctx, c, s.Ref, sub)
				})
			},
		}
		st, err := e.Run(context.Background(), r)
		if err != nil {
			r.EngineError(err.Error())
			return r.Finish(nil, []string{pgsimAssumption})
		}
		vacuous(r, st, "post:ok", "post:insufficient_funds", "revert:ok", "script:ok")
		{
			st.Paths += stb.Paths
			st.Transitions += stb.Transitions
			st.States += stb.States
			for k, v := range stb.Outcomes {
				st.Outcomes["bucket-lifecycle/"+k] += v
			}
			for k, v := range stb.Observations {
				st.Observations["bucket-lifecycle/"+k] += v
			}
			st.Exhaustive = st.Exhaustive && stb.Exhaustive && stb.DepthDone == eb.Depth
		}
		return r.Finish(seqCoverage(e, st, "every sequence of length<=depth over the write alphabet (creates by postings/script incl. src==dst, multi-posting, 2^64+1, back/future dated, reverts, metadata, dry run, failing writes), executed through the real system controller on pgsim; after each sequence GetAccount/ListAccounts(expand volumes, effectiveVolumes), GetVolumesWithBalances and GetAggregatedBalances are compared with a reference fold of the committed postings, from the live process and from a freshly attached one, and on a twin ledger into which the export of the history is imported; before that, every sequence (length<=3 quick / 5 thorough) over the bucket-lifecycle alphabet (postings on l3 and on a ledger l4 created beside it in the same bucket, soft delete and restore of the bucket), same comparison for every routable ledger"),
			[]string{pgsimAssumption})
	})
}

// c02BucketAlphabet: two ledgers of one bucket whose postings touch the SAME accounts and
// asset with different amounts, and the system-level operations that change which of them
// are live.
func c02BucketAlphabet() []lx.Op {
	p := func(s, d, a, n string) lx.P { return lx.P{Src: s, Dst: d, Ast: a, Amt: n} }
	return []lx.Op{
		{Kind: "post", Ledger: "l3", Name: "fund100", Postings: []lx.P{p("world", "a", "USD", "100")}},
		{Kind: "post", Ledger: "l3", Name: "a>b30", Postings: []lx.P{p("a", "b", "USD", "30")}},
		{Kind: "createledger", Ledger: "l4", Address: "b2", Name: "create-l4-in-b2"},
		{Kind: "post", Ledger: "l4", Name: "fund7", Postings: []lx.P{p("world", "a", "USD", "7")}},
		{Kind: "deletebucket", Address: "b2", Name: "delete-bucket-b2"},
		{Kind: "restorebucket", Address: "b2", Name: "restore-bucket-b2"},
	}
}

func sortedLedgers[V any](m map[string]V) []string {
	out := make([]string, 0, len(m))
	for k := range m {
		out = append(out, k)
	}
	sort.Strings(out)
	return out
}
