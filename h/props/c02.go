package props

import (
	"context"
	"fmt"
	"time"

	"github.com/formancehq/ledger/verifh/ev"
	"github.com/formancehq/ledger/verifh/lx"
	"github.com/formancehq/ledger/verifh/reg"
)

var pgsimAssumption = "pgsim: hand-written in-process model of the Postgres subset the ledger uses (READ COMMITTED MVCC, row/advisory locks, triggers, PL/pgSQL); it cannot be validated against a real server in this sandbox"

func seqCoverage(e *lx.SeqExplorer, st *lx.SeqStats, rule string) ev.Coverage {
	return ev.Coverage{
		"states":                        st.States,
		"transitions":                   st.Transitions,
		"traces_validated_against_impl": st.Paths,
		"samples":                       st.Samples,
		"alphabet":                      len(e.Alphabet),
		"depth_completed":               st.DepthDone,
		"depth_target":                  e.Depth,
		"exhaustive":                    st.Exhaustive && st.DepthDone == e.Depth,
		"distinct_outcomes":             st.Outcomes,
		"other_observations":            st.Observations,
		"rule":                          rule,
	}
}

// vacuous fails a run whose exploration never produced the outcomes the oracle needs.
func vacuous(r *ev.Run, st *lx.SeqStats, need ...string) {
	if r.ViolationCount() > 0 || st.DepthDone == 0 {
		return
	}
	for _, n := range need {
		if st.Outcomes[n] == 0 {
			r.EngineError(fmt.Sprintf("vacuous exploration: outcome %q never occurred", n))
		}
	}
}

func init() {
	reg.Register("C02", func() int {
		r := ev.Start("C02", ev.LevelMC, 100*time.Second, 15*time.Minute)
		e := &lx.SeqExplorer{
			Ledgers:  []lx.LedgerSpec{{Name: "l1"}},
			Alphabet: append(coreAlphabet(), retriedOps()...),
			Depth:    ev.Pick(r, 3, 4),
			Restart:  true,
			Sigs:     []string{"acc:volumes", "acc:get-volumes", "acc:effective-volumes", "vol:", "agg:", "read:", "ref:"},
			Check: func(ctx context.Context, s *lx.StepInfo, rep *lx.Report) {
				lx.CheckCurrent(ctx, s.Ctrl, s.Ref, rep)
			},
		}
		st, err := e.Run(context.Background(), r)
		if err != nil {
			r.EngineError(err.Error())
			return r.Finish(nil, []string{pgsimAssumption})
		}
		vacuous(r, st, "post:ok", "post:insufficient_funds", "revert:ok", "script:ok")
		return r.Finish(seqCoverage(e, st, "every sequence of length<=depth over the write alphabet (creates by postings/script incl. src==dst, multi-posting, 2^64+1, back/future dated, reverts, metadata, dry run, failing writes), executed through the real system controller on pgsim; after each sequence GetAccount/ListAccounts(expand volumes, effectiveVolumes), GetVolumesWithBalances and GetAggregatedBalances are compared with a reference fold of the committed postings, from the live process and from a freshly attached one"),
			[]string{pgsimAssumption})
	})
}
