package props

import (
	"context"
	"fmt"
	"math/big"
	"sort"
	"strings"
	"time"

	ledger "github.com/formancehq/ledger/internal"
	ledgercontroller "github.com/formancehq/ledger/internal/controller/ledger"
	"github.com/formancehq/ledger/verifh/ev"
	"github.com/formancehq/ledger/verifh/lx"
	"github.com/formancehq/ledger/verifh/pgsim"
	"github.com/formancehq/ledger/verifh/reg"
	"github.com/formancehq/ledger/verifh/sched"
	"github.com/formancehq/ledger/verifh/world"
)

// baseState boots ledgers and applies prefix operations sequentially.
func baseState(ledgers []lx.LedgerSpec, prefix []lx.Op) (*pgsim.DB, map[string]*lx.Ref, error) {
	ctx := context.Background()
	pg, err := lx.Boot(ctx, ledgers)
	if err != nil {
		return nil, nil, err
	}
	w := world.Attach(pg)
	defer w.Close()
	refs := map[string]*lx.Ref{}
	for _, l := range ledgers {
		refs[l.Name] = lx.NewRef()
	}
	for _, op := range prefix {
		name := op.Ledger
		if name == "" {
			name = ledgers[0].Name
		}
		c, err := w.Sys.GetLedgerController(ctx, name)
		if err != nil {
			return nil, nil, err
		}
		out := lx.Apply(ctx, c, op)
		if !out.OK() {
			return nil, nil, fmt.Errorf("prefix op %s failed: %v", op, out.Err)
		}
		if err := refs[name].Commit(op, out); err != nil {
			return nil, nil, err
		}
	}
	return pg, refs, nil
}

// opResult is what a scheduled thread observed for one operation.
type opResult struct {
	Thread    int
	Op        lx.Op
	Out       lx.Outcome
	CommitPos int // position of the thread's last COMMIT when the op returned
}

type concState struct {
	Results []*opResult // in program order per thread, threads concatenated
	Refs    map[string]*lx.Ref
}

// opsScenario: thread i applies threadOps[i] in order, through a controller resolved
// before the threads start (one controller facade per thread, as one HTTP request has).
func opsScenario(name string, base *pgsim.DB, baseRefs map[string]*lx.Ref, defaultLedger string, threadOps [][]lx.Op,
	check func(ctx context.Context, w *world.World, st *concState, run *sched.Run) [][2]string) *sched.Scenario {
	return &sched.Scenario{
		Name: name, Base: base, Threads: len(threadOps),
		New: func(w *world.World) ([]func(ctx context.Context), any) {
			st := &concState{Refs: map[string]*lx.Ref{}}
			for k, v := range baseRefs {
				st.Refs[k] = v.Clone()
			}
			var bodies []func(ctx context.Context)
			for ti, ops := range threadOps {
				ti, ops := ti, ops
				ctrls := make([]ledgercontroller.Controller, len(ops))
				results := make([]*opResult, len(ops))
				for i, op := range ops {
					ln := op.Ledger
					if ln == "" {
						ln = defaultLedger
					}
					c, err := w.Sys.GetLedgerController(context.Background(), ln)
					if err != nil {
						panic(err)
					}
					ctrls[i] = c
					results[i] = &opResult{Thread: ti, Op: op, CommitPos: -1}
					st.Results = append(st.Results, results[i])
				}
				bodies = append(bodies, func(ctx context.Context) {
					for i, op := range ops {
						results[i].Out = lx.Apply(ctx, ctrls[i], op)
						results[i].CommitPos = sched.LastCommitPos(ctx)
					}
				})
			}
			return bodies, st
		},
		Check: func(ctx context.Context, w *world.World, state any, run *sched.Run) [][2]string {
			return check(ctx, w, state.(*concState), run)
		},
		Outcome: func(state any) string {
			st := state.(*concState)
			var parts []string
			for _, r := range st.Results {
				c := r.Out.Class
				if r.Out.OK() {
					c = "ok"
					if r.Out.Hit {
						c = "hit"
					}
				}
				parts = append(parts, fmt.Sprintf("T%d:%s:%s", r.Thread, r.Op.String(), c))
			}
			// commit order of successful writes
			ord := committedInOrder(st)
			var o []string
			for _, r := range ord {
				o = append(o, fmt.Sprintf("T%d", r.Thread))
			}
			return strings.Join(parts, " ") + " order=" + strings.Join(o, ">")
		},
	}
}

// committedInOrder returns successful, effective writes sorted by commit position.
func committedInOrder(st *concState) []*opResult {
	var out []*opResult
	for _, r := range st.Results {
		if r.Out.OK() && !r.Op.DryRun && !r.Out.Hit {
			out = append(out, r)
		}
	}
	sort.SliceStable(out, func(i, j int) bool { return out[i].CommitPos < out[j].CommitPos })
	return out
}

// applyCommitted replays the committed writes on the reference in commit order.
func applyCommitted(st *concState, ledgerOf func(lx.Op) string) (map[string]*lx.Ref, error) {
	refs := map[string]*lx.Ref{}
	for k, v := range st.Refs {
		refs[k] = v.Clone()
	}
	for _, r := range committedInOrder(st) {
		if err := refs[ledgerOf(r.Op)].Commit(r.Op, r.Out); err != nil {
			return nil, err
		}
	}
	return refs, nil
}

type concCheck struct {
	id        string
	scenarios func() ([]*sched.Scenario, error)
	boundQ    int
	boundT    int
	quick     time.Duration
	thorough  time.Duration
	rule      string
	// minOutcomes: a scenario with fewer distinct outcomes never made threads collide
	minOutcomes int
	// sequential (optional): a bounded-exhaustive SEQUENTIAL part of the check, run before
	// the K2 exploration (it is the cheaper, simpler space). It reports violations /
	// engine errors on r itself and returns what it covered (stored in the evidence under
	// "sequential") and whether it enumerated its whole space.
	sequential func(r *ev.Run) (cov map[string]any, complete bool)
}

func registerConc(cc concCheck, register func(string, reg.Check)) {
	concSets[cc.id] = cc.scenarios
	register(cc.id, func() int {
		r := ev.Start(cc.id, ev.LevelMC, cc.quick, cc.thorough)
		scs, err := cc.scenarios()
		if err != nil {
			r.EngineError(err.Error())
			return r.Finish(nil, []string{pgsimAssumption})
		}
		bound := ev.Pick(r, cc.boundQ, cc.boundT)
		var seqCov map[string]any
		seqComplete := true
		if cc.sequential != nil {
			seqCov, seqComplete = cc.sequential(r)
		}
		var all []*sched.Stats
		var schedules, points int64
		complete := seqComplete
		colliding := 0
		var single []string
		samples := []any{}
		for _, sc := range scs {
			sc := sc
			st := sched.Explore(context.Background(), sc, bound, r.Expired,
				func(v sched.Violation) {
					r.Violation(cc.id+":"+v.Sig, fmt.Sprintf("[%s] %s", v.Scenario, v.What), map[string]any{"scenario": v.Scenario, "schedule": v.Schedule})
				},
				func(msg string) { r.EngineError(msg) })
			all = append(all, st)
			schedules += st.Schedules
			points += st.Points
			if !st.Complete {
				complete = false
			}
			if len(st.Outcomes) >= cc.minOutcomes {
				colliding++
			} else {
				single = append(single, sc.Name)
			}
			if st.Sample != nil {
				samples = append(samples, map[string]any{"scenario": sc.Name, "schedule_choices": st.Sample})
			}
			if r.Expired() {
				complete = false
				break
			}
		}
		if len(samples) == 0 {
			samples = append(samples, map[string]any{"scenarios": len(scs)})
		}
		if colliding == 0 && complete && r.ViolationCount() == 0 {
			r.EngineError(fmt.Sprintf("vacuous: no scenario produced %d or more distinct outcomes (threads never collided)", cc.minOutcomes))
		}
		cov := ev.Coverage{
			"states":                        points,
			"transitions":                   points,
			"traces_validated_against_impl": schedules,
			"schedules":                     schedules,
			"samples":                       samples,
			"preemption_bound":              bound,
			"exhaustive":                    complete,
			"scenarios":                     all,
			"single_outcome_scenarios":      single,
			"rule":                          cc.rule + " — 'states' counts scheduling decision points visited (stateless search: every schedule is executed from the initial state on the real code)",
		}
		if seqCov != nil {
			cov["sequential"] = seqCov
		}
		return r.Finish(cov, []string{pgsimAssumption, "scheduling points = every database/sql driver call (begin, statement, commit, rollback) and every lock wait inside pgsim; Go code between two driver calls runs atomically (no shared mutable Go state is held across driver calls in the ledger)"})
	})
}

func bi(s string) *big.Int { b, _ := new(big.Int).SetString(s, 10); return b }

var _ = ledger.WORLD
