package props

import (
	"context"
	"encoding/json"
	"fmt"
	"os"
	"strings"

	"github.com/formancehq/ledger/verifh/lx"
	"github.com/formancehq/ledger/verifh/pimport"
	"github.com/formancehq/ledger/verifh/sched"
)

// concSets maps a property id to the K2 scenario set its check explores, so that a
// recorded (scenario, schedule) pair can be re-executed without the explorer.
var concSets = map[string]func() ([]*sched.Scenario, error){}

type concReplayFile struct {
	Property string `json:"property"`
	Replay   struct {
		Scenario string `json:"scenario"`
		Schedule []int  `json:"schedule"`
		// sequential cases (C34 start states)
		c34SeqReplay
	} `json:"replay"`
	Signature string `json:"signature"`
}

// ReplayConc re-executes one recorded schedule (a plain loop over the recorded
// choices, default choice afterwards), prints every scheduling decision and the
// oracle's verdict. Returns 0 if the oracle is silent, 1 if it reports, 2 on error.
func ReplayConc(path string) int {
	b, err := os.ReadFile(path)
	if err != nil {
		fmt.Println("ENGINE-ERROR", err)
		return 2
	}
	var rn struct {
		Property string `json:"property"`
		Replay   struct {
			Kind string                 `json:"kind"`
			Case pimport.RenumberedCase `json:"case"`
			Logs int                    `json:"logs"`
		} `json:"replay"`
	}
	if err := json.Unmarshal(b, &rn); err == nil && rn.Replay.Kind == "renumbered-import" {
		verdict, err := pimport.ReplayRenumbered(rn.Property, rn.Replay.Case, rn.Replay.Logs)
		if err != nil {
			fmt.Println("ENGINE-ERROR", err)
			return 2
		}
		if len(verdict) == 0 {
			fmt.Println("replay: oracle silent")
			return 0
		}
		for _, v := range verdict {
			fmt.Printf("replay: %s: %s\n", v[0], v[1])
		}
		return 1
	}
	var sq struct {
		Property string `json:"property"`
		Replay   struct {
			Ledgers []lx.LedgerSpec `json:"ledgers"`
			Ops     []lx.Op         `json:"ops"`
		} `json:"replay"`
	}
	if err := json.Unmarshal(b, &sq); err == nil && len(sq.Replay.Ledgers) > 0 && len(sq.Replay.Ops) > 0 {
		return ReplaySeq(sq.Property, sq.Replay.Ledgers, sq.Replay.Ops)
	}
	var rr struct {
		Replay struct {
			Kind string                `json:"kind"`
			Case pimport.ReusedRefCase `json:"case"`
		} `json:"replay"`
	}
	if err := json.Unmarshal(b, &rr); err == nil && rr.Replay.Kind == "reused-reference-import" {
		n, err := pimport.ReplayReusedReference(rr.Replay.Case)
		if err != nil {
			fmt.Println("ENGINE-ERROR", err)
			return 2
		}
		if n == 0 {
			fmt.Println("replay: oracle silent")
			return 0
		}
		fmt.Printf("replay: %d finding(s), printed above\n", n)
		return 1
	}
	var di struct {
		Replay struct {
			Kind string        `json:"kind"`
			Case c34ImportCase `json:"case"`
		} `json:"replay"`
	}
	if err := json.Unmarshal(b, &di); err == nil && di.Replay.Kind == "disordered-import" {
		verdict, err := c34ReplayDisordered(di.Replay.Case)
		if err != nil {
			fmt.Println("ENGINE-ERROR", err)
			return 2
		}
		if len(verdict) == 0 {
			fmt.Println("replay: oracle silent")
			return 0
		}
		for _, v := range verdict {
			fmt.Printf("replay: %s: %s\n", v[0], v[1])
		}
		return 1
	}
	var f concReplayFile
	if err := json.Unmarshal(b, &f); err == nil && f.Property == "C34" && f.Replay.Scenario == "" && f.Replay.Kind != "" {
		verdict, err := c34ReplaySequential(f.Replay.c34SeqReplay)
		if err != nil {
			fmt.Println("ENGINE-ERROR", err)
			return 2
		}
		if len(verdict) == 0 {
			fmt.Println("replay: oracle silent")
			return 0
		}
		for _, v := range verdict {
			fmt.Printf("replay: %s: %s\n", v[0], v[1])
		}
		return 1
	}
	if err := json.Unmarshal(b, &f); err != nil || f.Replay.Scenario == "" {
		fmt.Println("ENGINE-ERROR not a schedule replay file:", path)
		return 2
	}
	set, ok := concSets[f.Property]
	if !ok {
		fmt.Println("ENGINE-ERROR no scenario set registered for", f.Property)
		return 2
	}
	scs, err := set()
	if err != nil {
		fmt.Println("ENGINE-ERROR", err)
		return 2
	}
	for _, sc := range scs {
		if sc.Name != f.Replay.Scenario {
			continue
		}
		verdict, run := sched.Replay(context.Background(), sc, f.Replay.Schedule)
		for i, p := range run.Points {
			fmt.Printf("  %3d enabled=%v -> T%d%s  %s\n", i, p.Enabled, p.Enabled[p.Chosen], map[bool]string{true: " (deadlock victim)", false: ""}[p.Victim], oneLineSQL(p.What))
		}
		if run.Stuck != "" || run.HorizonHit {
			fmt.Println("ENGINE-ERROR replay did not complete:", run.Stuck)
			return 2
		}
		if len(verdict) == 0 {
			fmt.Println("replay: oracle silent")
			return 0
		}
		for _, v := range verdict {
			fmt.Printf("replay: %s: %s\n", v[0], v[1])
		}
		return 1
	}
	fmt.Println("ENGINE-ERROR unknown scenario", f.Replay.Scenario)
	return 2
}

func oneLineSQL(s string) string {
	s = strings.Join(strings.Fields(s), " ")
	if len(s) > 150 {
		s = s[:150] + "…"
	}
	return s
}

// ReplaySeq re-executes one recorded operation sequence of a K1 check (a plain loop over the
// operations on a freshly booted database, then the check's oracle, from the live process and
// — when the check does so — from a freshly attached one) and prints what the oracle reports
// under the check's signature filter.
func ReplaySeq(id string, ledgers []lx.LedgerSpec, ops []lx.Op) int {
	sc, ok := seqSets[id]
	if !ok {
		fmt.Println("ENGINE-ERROR no sequence check registered for", id)
		return 2
	}
	e := &lx.SeqExplorer{Ledgers: ledgers, Alphabet: ops, Depth: len(ops), Restart: sc.restart, Sigs: sc.sigs, Check: sc.check}
	rep, err := e.RunPath(context.Background(), ops)
	if err != nil {
		fmt.Println("ENGINE-ERROR", err)
		return 2
	}
	n := 0
	for _, m := range rep.Items {
		mark := "observation"
		for _, p := range sc.sigs {
			if strings.HasPrefix(m.Sig, p) || strings.HasPrefix(m.Sig, "restart:"+p) {
				mark = "replay"
			}
		}
		if mark == "replay" {
			n++
		}
		fmt.Printf("%s: %s:%s: %s\n", mark, id, m.Sig, m.What)
	}
	if n == 0 {
		fmt.Println("replay: oracle silent")
		return 0
	}
	return 1
}
