package props

import (
	"context"
	"fmt"
	"math/big"
	"strings"
	"time"

	"github.com/formancehq/ledger/verifh/lx"
	"github.com/formancehq/ledger/verifh/reg"
	"github.com/formancehq/ledger/verifh/sched"
	"github.com/formancehq/ledger/verifh/world"
)

func overdraftScript(src, dst, amount, allowance string) string {
	clause := ""
	switch allowance {
	case "":
	case "unbounded":
		clause = " allowing unbounded overdraft"
	default:
		clause = fmt.Sprintf(" allowing overdraft up to [USD %s]", allowance)
	}
	return fmt.Sprintf("send [USD %s] (\n source = @%s%s\n destination = @%s\n)", amount, src, clause, dst)
}

// allowanceOf returns the overdraft allowance an operation declares for account
// (nil = unlimited).
func allowanceOf(op lx.Op, account string) *big.Int {
	switch op.Kind {
	case "post", "revert":
		if op.Force {
			return nil
		}
		return big.NewInt(0)
	case "script":
		if strings.Contains(op.Script, "@"+account+" allowing unbounded overdraft") {
			return nil
		}
		marker := "@" + account + " allowing overdraft up to [USD "
		if i := strings.Index(op.Script, marker); i >= 0 {
			rest := op.Script[i+len(marker):]
			if j := strings.IndexByte(rest, ']'); j >= 0 {
				if b, ok := new(big.Int).SetString(rest[:j], 10); ok {
					return b
				}
			}
		}
		return big.NewInt(0)
	}
	return big.NewInt(0)
}

// overdraftOracle replays the committed writes in commit order on the reference and
// checks, for each, every non-world source account against min(balance before, -allowance).
func overdraftOracle(ctx context.Context, w *world.World, st *concState, run *sched.Run) [][2]string {
	var out [][2]string
	ref := st.Refs["l1"].Clone()
	for _, r := range committedInOrder(st) {
		before := ref.Volumes(nil)
		if err := ref.Commit(r.Op, r.Out); err != nil {
			out = append(out, [2]string{"ref:uninterpretable", err.Error()})
			continue
		}
		after := ref.Volumes(nil)
		tx := ref.Txs[len(ref.Txs)-1]
		seen := map[string]bool{}
		for _, p := range tx.Postings {
			key := p.Source + "|" + p.Asset
			if p.Source == "world" || seen[key] {
				continue
			}
			seen[key] = true
			allow := allowanceOf(r.Op, p.Source)
			if allow == nil {
				continue
			}
			b0 := before.Balance(p.Source, p.Asset)
			b1 := after.Balance(p.Source, p.Asset)
			floor := new(big.Int).Neg(allow)
			if b0.Cmp(floor) < 0 {
				floor = b0
			}
			if b1.Cmp(floor) < 0 {
				kind := r.Op.Kind
				if kind == "script" && allow.Sign() > 0 {
					kind = "script-bounded-overdraft"
				}
				out = append(out, [2]string{"overdraft:" + kind, fmt.Sprintf("T%d %s committed at position %d took %s/%s from %s to %s (allowance %s)", r.Thread, r.Op, r.CommitPos, p.Source, p.Asset, b0, b1, allow)})
			}
		}
	}
	// the database agrees with the replay (no lost update hides an overdraft)
	c, err := w.Sys.GetLedgerController(ctx, "l1")
	if err != nil {
		return append(out, [2]string{"read:controller", err.Error()})
	}
	rep := &lx.Report{}
	lx.CheckCurrent(ctx, c, ref, rep)
	for _, m := range rep.Items {
		if strings.HasPrefix(m.Sig, "acc:volumes") || strings.HasPrefix(m.Sig, "vol:") || strings.HasPrefix(m.Sig, "agg:") || strings.HasPrefix(m.Sig, "tx:count") || strings.HasPrefix(m.Sig, "read:") {
			out = append(out, [2]string{"state:" + m.Sig, m.What})
		}
	}
	return out
}

func c06Scenarios() ([]*sched.Scenario, error) {
	l := []lx.LedgerSpec{{Name: "l1"}}
	var scs []*sched.Scenario
	mk := func(name string, prefix []lx.Op, threads [][]lx.Op) error {
		base, refs, err := baseState(l, prefix)
		if err != nil {
			return fmt.Errorf("%s: %w", name, err)
		}
		scs = append(scs, opsScenario(name, base, refs, "l1", threads, overdraftOracle))
		return nil
	}
	inUse := post("seed", p("world", "z", "USD", "1"))
	if err := mk("S1-two-sends-of-60-from-100", []lx.Op{post("fund", p("world", "a", "USD", "100"))},
		[][]lx.Op{{post("a>b60", p("a", "b", "USD", "60"))}, {post("a>c60", p("a", "c", "USD", "60"))}}); err != nil {
		return nil, err
	}
	if err := mk("S2-never-used-pair-bounded-overdraft", []lx.Op{inUse},
		[][]lx.Op{
			{{Kind: "script", Name: "x>y100/od100", Script: overdraftScript("x", "y", "100", "100")}},
			{{Kind: "script", Name: "x>w100/od100", Script: overdraftScript("x", "w", "100", "100")}},
		}); err != nil {
		return nil, err
	}
	// ONE script drawing twice on the same bounded-overdraft account (two sends; an in-order
	// source naming the account twice): the allowance is granted once per transaction, not once
	// per use (seeded change C06c left the emptied source's in-script balance at 0 instead of -X)
	twice := func(a1, a2 string) string {
		return fmt.Sprintf("send [USD %s] (\n source = @x allowing overdraft up to [USD 100]\n destination = @y\n)\nsend [USD %s] (\n source = @x allowing overdraft up to [USD 100]\n destination = @v\n)", a1, a2)
	}
	inOrderTwice := "send [USD 180] (\n source = {\n  max [USD 60] from @x allowing overdraft up to [USD 100]\n  @x allowing overdraft up to [USD 100]\n }\n destination = @y\n)"
	if err := mk("S9-one-script-draws-twice-on-a-bounded-overdraft-account", []lx.Op{inUse},
		[][]lx.Op{
			{{Kind: "script", Name: "x>y60,x>v120/od100", Script: twice("60", "120")}},
			{{Kind: "script", Name: "x>y60,x>v40/od100", Script: twice("60", "40")}},
		}); err != nil {
		return nil, err
	}
	if err := mk("S10-in-order-source-names-the-bounded-overdraft-account-twice", []lx.Op{inUse},
		[][]lx.Op{
			{{Kind: "script", Name: "{max60 x, x}>y180/od100", Script: inOrderTwice}},
			{{Kind: "script", Name: "x>w100/od100", Script: overdraftScript("x", "w", "100", "100")}},
		}); err != nil {
		return nil, err
	}
	if err := mk("S3-never-used-pair-unbounded", []lx.Op{inUse},
		[][]lx.Op{
			{{Kind: "script", Name: "x>y100/unb", Script: overdraftScript("x", "y", "100", "unbounded")}},
			{{Kind: "script", Name: "x>w100/unb", Script: overdraftScript("x", "w", "100", "unbounded")}},
		}); err != nil {
		return nil, err
	}
	if err := mk("S4-send-vs-revert-of-funding", []lx.Op{inUse, post("fund", p("world", "a", "USD", "100"))},
		[][]lx.Op{{post("a>b100", p("a", "b", "USD", "100"))}, {{Kind: "revert", Name: "revert-fund", TxID: 2}}}); err != nil {
		return nil, err
	}
	if err := mk("S5-two-reverts-draining", []lx.Op{inUse, post("f1", p("world", "a", "USD", "60")), post("f2", p("world", "a", "USD", "60")), post("spend", p("a", "b", "USD", "60"))},
		[][]lx.Op{{{Kind: "revert", Name: "revert-f1", TxID: 2}}, {{Kind: "revert", Name: "revert-f2", TxID: 3}}}); err != nil {
		return nil, err
	}
	if err := mk("S6-three-writers-opposite-order", []lx.Op{post("fa", p("world", "a", "USD", "15")), post("fb", p("world", "b", "USD", "15"))},
		[][]lx.Op{
			{post("a>c10;b>c10", p("a", "c", "USD", "10"), p("b", "c", "USD", "10"))},
			{post("b>c10;a>c10", p("b", "c", "USD", "10"), p("a", "c", "USD", "10"))},
			{post("a>b5", p("a", "b", "USD", "5"))},
		}); err != nil {
		return nil, err
	}
	// two opposite transfers: each writer locks its own source (GetBalances) and then needs the
	// other's row for its volume update -> a REAL deadlock; Postgres picks a victim (scheduler
	// choice), the ledger retries it (forgeLogRetry). The third writer drains a concurrently.
	if err := mk("S8-opposite-transfers-deadlock-and-retry", []lx.Op{post("fa", p("world", "a", "USD", "10")), post("fb", p("world", "b", "USD", "10"))},
		[][]lx.Op{
			{post("a>b10", p("a", "b", "USD", "10"))},
			{post("b>a10", p("b", "a", "USD", "10"))},
			{post("a>c10", p("a", "c", "USD", "10"))},
		}); err != nil {
		return nil, err
	}
	if err := mk("S7-existing-zero-row-bounded-overdraft", []lx.Op{inUse, post("touch", p("world", "x", "USD", "5")), post("untouch", p("x", "world", "USD", "5"))},
		[][]lx.Op{
			{{Kind: "script", Name: "x>y100/od100", Script: overdraftScript("x", "y", "100", "100")}},
			{{Kind: "script", Name: "x>w100/od100", Script: overdraftScript("x", "w", "100", "100")}},
		}); err != nil {
		return nil, err
	}
	return scs, nil
}

func init() {
	registerConc(concCheck{
		id: "C06", scenarios: c06Scenarios, boundQ: 2, boundT: -1, quick: 100 * time.Second, thorough: 15 * time.Minute, minOutcomes: 2,
		rule: "10 closed scenarios (two sends of 60 from 100; two bounded-overdraft sends from a NEVER-USED account/asset; one script drawing twice on the same bounded-overdraft account (two sends, totals above and at the allowance) and an in-order source naming it twice; same unbounded (must both succeed); send vs non-forced revert of the funding; two non-forced reverts draining one account; three writers touching two accounts in opposite order; bounded overdraft on an existing zero row); every schedule with <= bound preemptions (thorough: all schedules) at driver-call granularity, pgsim row locks/READ COMMITTED snapshots deciding who blocks and what each statement sees; oracle: committed writes replayed in commit order, every non-world source must end >= min(balance before, -declared allowance), and the final volumes equal the replay",
	}, reg.Register)
}
