package props

import (
	"context"
	"crypto/sha256"
	"encoding/hex"
	"fmt"
	"strconv"
	"strings"
	"sync"
	"time"

	logging "github.com/formancehq/go-libs/v5/pkg/observe/log"

	"github.com/formancehq/ledger/internal/storage"
	"github.com/formancehq/ledger/verifh/lx"
	"github.com/formancehq/ledger/verifh/pgsim"
	"github.com/formancehq/ledger/verifh/reg"
	"github.com/formancehq/ledger/verifh/sched"
	"github.com/formancehq/ledger/verifh/world"
)

// onceSchedule makes AsyncBlockRunner.Run execute its (unexported) run exactly once:
// the first Next is "now", the second one (asked right after run returned) is far away
// and signals completion.
type onceSchedule struct {
	mu    sync.Mutex
	calls int
	done  chan struct{}
}

func (s *onceSchedule) Next(t time.Time) time.Time {
	s.mu.Lock()
	defer s.mu.Unlock()
	s.calls++
	if s.calls == 1 {
		return t
	}
	if s.calls == 2 {
		close(s.done)
	}
	return t.Add(1000 * time.Hour)
}

// runBlockBuilder drives the real AsyncBlockRunner once.
func runBlockBuilder(ctx context.Context, w *world.World, maxBlockSize int) error {
	sch := &onceSchedule{done: make(chan struct{})}
	runner := storage.NewAsyncBlockRunner(logging.NewDefaultLogger(discard{}, false, false, false), w.Bun, storage.AsyncBlockRunnerConfig{MaxBlockSize: maxBlockSize, Schedule: sch})
	errc := make(chan error, 1)
	go func() { errc <- runner.Run(ctx) }()
	select {
	case <-sch.done:
	case <-time.After(30 * time.Second):
		return fmt.Errorf("block runner did not complete a run")
	}
	stopCtx, cancel := context.WithTimeout(context.Background(), 10*time.Second)
	defer cancel()
	if err := runner.Stop(stopCtx); err != nil {
		return err
	}
	return <-errc
}

type discard struct{}

func (discard) Write(p []byte) (int, error) { return len(p), nil }

// blockOracle: at quiescence (after a final builder run) the blocks of l1 form a chain
// whose id ranges partition the committed log ids and whose hashes are the documented
// digest of the previous block hash and the block's logs.
func blockOracle(ctx context.Context, w *world.World, maxBlockSize int) [][2]string {
	if err := runBlockBuilder(ctx, w, maxBlockSize); err != nil {
		return [][2]string{{"blocks:builder-error", err.Error()}}
	}
	out, _, _ := blockOracleOn(ctx, w, "_default", "l1", maxBlockSize)
	return out
}

// blockOracleOn evaluates the oracle on one ledger WITHOUT running the builder (the
// caller brought the system to quiescence); it also returns how many committed logs and
// how many blocks it judged (vacuity accounting).
func blockOracleOn(ctx context.Context, w *world.World, bucket, name string, maxBlockSize int) (out [][2]string, nLogs, nBlocks int) {
	logs, err := lx.RawRows(ctx, w, `select id, type, encode(memento, 'hex'), (to_json(date::timestamp)#>>'{}'), coalesce(idempotency_key, '') from "`+bucket+`".logs where ledger = '`+name+`' order by id`)
	if err != nil {
		return [][2]string{{"read:logs", err.Error()}}, 0, 0
	}
	blocks, err := lx.RawRows(ctx, w, `select id, previous, from_id, to_id, encode(hash, 'hex') from "`+bucket+`".logs_blocks where ledger = '`+name+`' order by to_id, id`)
	if err != nil {
		return [][2]string{{"read:blocks", err.Error()}}, 0, 0
	}
	nLogs, nBlocks = len(logs), len(blocks)
	atoi := func(s string) int64 { n, _ := strconv.ParseInt(s, 10, 64); return n }
	covered := map[int64]int{}
	prevID, prevTo := int64(0), int64(0)
	prevHash := ""
	for i, b := range blocks {
		id, previous, from, to := atoi(b[0]), atoi(b[1]), atoi(b[2]), atoi(b[3])
		if previous != prevID {
			out = append(out, [2]string{"blocks:chain-broken", fmt.Sprintf("block #%d (id %d) has previous=%d, the preceding block is %d", i, id, previous, prevID)})
		}
		if from != prevTo {
			out = append(out, [2]string{"blocks:range-not-contiguous", fmt.Sprintf("block id %d covers (%d,%d], the preceding block ended at %d", id, from, to, prevTo)})
		}
		var sb strings.Builder
		sb.WriteString("\\x" + prevHash)
		n := 0
		for _, l := range logs {
			lid := atoi(l[0])
			if lid > from && lid <= to {
				covered[lid]++
				n++
				mem, _ := hex.DecodeString(l[2])
				sb.WriteString(l[1])
				sb.WriteString(escapeBytea(mem))
				sb.WriteString(l[3])
				sb.WriteString(l[4])
				sb.WriteString(l[0])
			}
		}
		h := sha256.Sum256([]byte(sb.String()))
		if hex.EncodeToString(h[:]) != b[4] {
			// was the block hashed while some log of its range was not committed yet?
			var inRange [][]string
			for _, l := range logs {
				if lid := atoi(l[0]); lid > from && lid <= to {
					inRange = append(inRange, l)
				}
			}
			sig := "blocks:hash"
			if len(inRange) <= 12 {
				for mask := 1; mask < 1<<len(inRange)-1; mask++ {
					var sub strings.Builder
					sub.WriteString("\\x" + prevHash)
					var missing []string
					for k, l := range inRange {
						if mask&(1<<k) == 0 {
							missing = append(missing, l[0])
							continue
						}
						mem, _ := hex.DecodeString(l[2])
						sub.WriteString(l[1] + escapeBytea(mem) + l[3] + l[4] + l[0])
					}
					hs := sha256.Sum256([]byte(sub.String()))
					if hex.EncodeToString(hs[:]) == b[4] {
						sig = "blocks:late-log-skipped"
						out = append(out, [2]string{sig, fmt.Sprintf("block id %d covers (%d,%d] but its hash only includes the logs committed when it was built: logs %v of that range committed later and are in no block hash", id, from, to, missing)})
						break
					}
				}
			}
			if sig == "blocks:hash" {
				out = append(out, [2]string{sig, fmt.Sprintf("block id %d (%d,%d] stored hash %s != digest of its %d committed logs %s", id, from, to, b[4], n, hex.EncodeToString(h[:]))})
			}
		}
		if n == 0 {
			// the ranges PARTITION the committed ids: a part of a partition is never empty
			out = append(out, [2]string{"blocks:empty-block", fmt.Sprintf("block id %d covers (%d,%d], a range holding no committed log", id, from, to)})
		}
		if n > maxBlockSize {
			out = append(out, [2]string{"blocks:size", fmt.Sprintf("block id %d holds %d logs, max block size is %d", id, n, maxBlockSize)})
		}
		prevID, prevTo, prevHash = id, to, b[4]
	}
	for _, l := range logs {
		lid := atoi(l[0])
		if covered[lid] != 1 {
			out = append(out, [2]string{fmt.Sprintf("blocks:log-covered-%d-times", covered[lid]), fmt.Sprintf("committed log %d is covered by %d blocks", lid, covered[lid])})
		}
	}
	return out, nLogs, nBlocks
}

// escapeBytea is encode(bytea, 'escape').
func escapeBytea(b []byte) string {
	var sb strings.Builder
	for _, c := range b {
		switch {
		case c == 0 || c >= 0x80:
			fmt.Fprintf(&sb, "\\%03o", c)
		case c == '\\':
			sb.WriteString("\\\\")
		default:
			sb.WriteByte(c)
		}
	}
	return sb.String()
}

func c34Scenarios() ([]*sched.Scenario, error) {
	ledgers := []lx.LedgerSpec{{Name: "l1", Features: map[string]string{"HASH_LOGS": "ASYNC"}}}
	mk := func(name string, prefix []lx.Op, writers [][]lx.Op, builders int, maxBlock int, prebuild bool) (*sched.Scenario, error) {
		base, refs, err := baseState(ledgers, prefix)
		if err != nil {
			return nil, err
		}
		if prebuild {
			w := world.Attach(base)
			err := runBlockBuilder(context.Background(), w, maxBlock)
			w.Close()
			if err != nil {
				return nil, err
			}
		}
		inner := opsScenario(name, base, refs, "l1", writers, func(ctx context.Context, w *world.World, st *concState, run *sched.Run) [][2]string {
			return nil
		})
		return &sched.Scenario{
			Name: name, Base: base, Threads: len(writers) + builders,
			New: func(w *world.World) ([]func(ctx context.Context), any) {
				bodies, st := inner.New(w)
				for i := 0; i < builders; i++ {
					bodies = append(bodies, func(ctx context.Context) {
						_ = runBlockBuilder(ctx, w, maxBlock)
					})
				}
				return bodies, st
			},
			Check: func(ctx context.Context, w *world.World, state any, run *sched.Run) [][2]string {
				out := blockOracle(ctx, w, maxBlock)
				return append(out, finalState(ctx, w, state.(*concState), func(s string) bool { return strings.HasPrefix(s, "log:count") })...)
			},
			Outcome: func(state any) string {
				return inner.Outcome(state)
			},
		}, nil
	}
	seed := post("seed", p("world", "z", "USD", "1"))
	fa, fb := post("fund-a", p("world", "a", "USD", "5")), post("fund-b", p("world", "b", "USD", "5"))
	var scs []*sched.Scenario
	for _, d := range []struct {
		name     string
		prefix   []lx.Op
		writers  [][]lx.Op
		builders int
		max      int
		prebuild bool
	}{
		{"two-disjoint-writers-one-builder", []lx.Op{seed, fa, fb}, [][]lx.Op{{post("a>c", p("a", "c", "USD", "1"))}, {post("b>d", p("b", "d", "USD", "1"))}}, 1, 2, true},
		{"writer-and-two-builders", []lx.Op{seed, fa, fb}, [][]lx.Op{{post("a>c", p("a", "c", "USD", "1")), post("a>c2", p("a", "c", "USD", "1"))}}, 2, 1, false},
		{"metadata-writers-one-builder", []lx.Op{seed}, [][]lx.Op{
			{{Kind: "accmeta", Name: "accmeta-q", Address: "q", Meta: map[string]string{"k": "v"}}},
			{{Kind: "txmeta", Name: "txmeta1", TxID: 1, Meta: map[string]string{"k": "v"}}}}, 1, 10, false},
	} {
		sc, err := mk(d.name, d.prefix, d.writers, d.builders, d.max, d.prebuild)
		if err != nil {
			return nil, err
		}
		scs = append(scs, sc)
	}
	return scs, nil
}

func init() {
	registerConc(concCheck{
		id: "C34", scenarios: c34Scenarios, boundQ: 2, boundT: 3, quick: 100 * time.Second, thorough: 15 * time.Minute, minOutcomes: 2,
		sequential: c34Sequential,
		rule:       "HASH_LOGS=ASYNC; (A) SEQUENTIAL start states (evidence field `sequential`): every history of <= depth steps (quick 3, thorough 4) over {import of 5 exported logs through the real Import, single write, atomic bulk, non-atomic bulk, builder run, and three steps that BURN log ids (nextval is never rolled back): a dryRun write (1 id), an atomic bulk whose third element fails after two elements inserted their log (2 ids), a write whose first log INSERT is reported as a deadlock victim after it ran and that the ledger retries (1 id, then a committed log)} on a pristine ledger x every max block size of the menu (quick 1,2,10; thorough 1,2,3,10) -- so the committed log ids have holes of 1, 2, 3.. unused ids, shorter than / equal to / longer than the block size, before, between and after builder runs (evidence fields `id_holes_by_max_block_size`, `id_holes_by_sole_burner_kind`) --, then a final run of the real AsyncBlockRunner (ledger listing, pagination, processLedger, create_blocks) and the oracle below -- this covers the imported-and-untouched ledger (committed logs, state still `initializing`), imported-then-written, bulk-only and pristine ledgers, with and without builder runs in between; plus a FLEET of 17 ASYNC ledgers (> one page of the builder's listing) over two buckets in cycled start states and one SYNC ledger: one builder run, oracle on each ASYNC ledger; (B) CONCURRENT: 3 scenarios (two writers on disjoint accounts || the block builder; one writer of two logs || two block builders with block size 1; two metadata writers || the builder); the builder thread runs the real AsyncBlockRunner (its cron loop with a one-shot schedule) which calls the create_blocks/create_block procedures executed from the migration text; every schedule with <= bound preemptions; oracle after a final builder run at quiescence: blocks chain on `previous`, (from_id, to_id] ranges are contiguous, no block range is empty, every committed log id is covered exactly once, each stored hash == sha256 over the text `previous hash || type||encode(memento,'escape')||date||idempotency key||id ...` recomputed in Go from the committed logs of the range",
	}, reg.Register)
}

var _ = pgsim.ModeFree
