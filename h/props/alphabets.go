// Package props holds the pgsim-based property checks (one file per group).
package props

import (
	"github.com/formancehq/ledger/verifh/lx"
)

const hour = int64(3600_000_000)

func post(name string, ps ...lx.P) lx.Op { return lx.Op{Kind: "post", Name: name, Postings: ps} }

func p(src, dst, asset, amt string) lx.P { return lx.P{Src: src, Dst: dst, Ast: asset, Amt: amt} }

const big64 = "18446744073709551617" // 2^64+1

// coreAlphabet is the shared write alphabet of the accounting-state properties,
// ordered simplest first. Transaction ids 1 and 2 are the targets of reverts and
// metadata operations (they exist or not depending on the prefix: both cases matter).
func coreAlphabet() []lx.Op {
	back, fut := -hour, hour
	a := []lx.Op{
		post("fund-a", p("world", "a", "USD", "100")),
		post("a>c30", p("a", "c", "USD", "30")),
		post("a>a5", p("a", "a", "USD", "5")),
		post("multi", p("world", "a", "EUR/2", "5"), p("a", "a:b", "EUR/2", "5"), p("world", "a:b", "USD", "1")),
		post("huge", p("world", "c", "USD", big64)),
		{Kind: "post", Name: "back-dated", Postings: []lx.P{p("world", "a", "USD", "7")}, TSOff: &back},
		{Kind: "post", Name: "future", Postings: []lx.P{p("a", "c", "USD", "7")}, TSOff: &fut},
		{Kind: "script", Name: "send-all", Script: "send [USD *] (\n source = @a\n destination = @c\n)"},
		{Kind: "script", Name: "allot", Script: "send [USD 10] (\n source = @a\n destination = {\n 1/3 to @c\n remaining to @a:b\n }\n)\nset_account_meta(@c, \"tag\", \"x\")", ScriptAccMeta: map[string]map[string]string{"c": {"tag": "x"}}},
		{Kind: "revert", Name: "revert1", TxID: 1},
		{Kind: "revert", Name: "revert2-force-eff", TxID: 2, Force: true, AtEff: true},
		{Kind: "accmeta", Name: "accmeta-a", Address: "a", Meta: map[string]string{"k": "v"}},
		{Kind: "txmeta", Name: "txmeta1", TxID: 1, Meta: map[string]string{"m": "x"}},
		{Kind: "post", Name: "dry", Postings: []lx.P{p("world", "a", "USD", "1")}, DryRun: true},
		post("overdraw", p("a", "c", "USD", "1000")),
		{Kind: "deltxmeta", Name: "deltxmeta1", TxID: 1, Key: "m"},
	}
	return a
}

// retriedOps: writes whose first attempt is aborted by an injected deadlock (40P01 at their
// 2nd statement) and redone by the ledger's retry loop: a retried dry run still leaves no trace,
// a retried write is applied once (seeded changes C02b / C07 / C08b removed the dry-run rollback
// from the retry path).
func retriedOps() []lx.Op {
	return []lx.Op{
		{Kind: "post", Name: "dry-retried", Postings: []lx.P{p("world", "a", "USD", "3")}, DryRun: true, DeadlockAt: 2},
		{Kind: "post", Name: "post-retried", Postings: []lx.P{p("world", "a", "USD", "4")}, DeadlockAt: 2},
	}
}
