package props

import (
	"bytes"
	"context"
	"fmt"
	"github.com/formancehq/ledger/verifh/pgsim"
	"strings"
	"time"

	ledger "github.com/formancehq/ledger/internal"
	"github.com/formancehq/ledger/internal/storage/common"
	"github.com/formancehq/ledger/verifh/lx"
	"github.com/formancehq/ledger/verifh/pimport"
	"github.com/formancehq/ledger/verifh/reg"
	"github.com/formancehq/ledger/verifh/sched"
	"github.com/formancehq/ledger/verifh/world"
)

func ledgerOfOp(op lx.Op) string {
	if op.Ledger == "" {
		return "l1"
	}
	return op.Ledger
}

// finalState replays the committed writes (commit order) on the references and
// compares every read of every ledger with them. keep filters mismatch signatures.
func finalState(ctx context.Context, w *world.World, st *concState, keep func(sig string) bool) [][2]string {
	var out [][2]string
	refs, err := applyCommitted(st, ledgerOfOp)
	if err != nil {
		return [][2]string{{"ref:uninterpretable", err.Error()}}
	}
	for name, ref := range refs {
		c, err := w.Sys.GetLedgerController(ctx, name)
		if err != nil {
			out = append(out, [2]string{"read:controller", err.Error()})
			continue
		}
		rep := &lx.Report{}
		lx.CheckCurrent(ctx, c, ref, rep)
		for _, m := range rep.Items {
			if keep == nil || keep(m.Sig) {
				out = append(out, [2]string{"state:" + m.Sig, name + ": " + m.What})
			}
		}
	}
	return out
}

func notIDOrder(sig string) bool {
	return !strings.HasPrefix(sig, "log:id") && !strings.HasPrefix(sig, "log:order") && !strings.HasPrefix(sig, "tx:order")
}

// ---------- C09: hash chain ----------

func hashChainOracle(ctx context.Context, w *world.World, st *concState, run *sched.Run) [][2]string {
	var out [][2]string
	for name := range st.Refs {
		c, err := w.Sys.GetLedgerController(ctx, name)
		if err != nil {
			return [][2]string{{"read:controller", err.Error()}}
		}
		logs, err := lx.ListLogs(ctx, c)
		if err != nil {
			return [][2]string{{"read:ListLogs", err.Error()}}
		}
		var prev *ledger.Log
		for i := range logs {
			cp := logs[i]
			cp.Hash = nil
			cp.ComputeHash(prev)
			if !bytes.Equal(cp.Hash, logs[i].Hash) {
				kind := "mismatch"
				if len(logs[i].Hash) == 0 {
					kind = "missing"
				}
				// does it chain from some other predecessor? (fork)
				for j := 0; j < i-1; j++ {
					alt := logs[i]
					alt.Hash = nil
					alt.ComputeHash(&logs[j])
					if bytes.Equal(alt.Hash, logs[i].Hash) {
						kind = "fork"
					}
				}
				if i > 0 {
					alt := logs[i]
					alt.Hash = nil
					alt.ComputeHash(nil)
					if bytes.Equal(alt.Hash, logs[i].Hash) {
						kind = "fork-from-genesis"
					}
				}
				out = append(out, [2]string{"chain:" + kind, fmt.Sprintf("%s: log %d (%s) stored hash %x, chain hash from log %v is %x", name, *logs[i].ID, logs[i].Type, logs[i].Hash, prevID(prev), cp.Hash)})
			}
			prev = &logs[i]
		}
	}
	return append(out, finalState(ctx, w, st, func(s string) bool { return strings.HasPrefix(s, "log:count") })...)
}

func prevID(l *ledger.Log) any {
	if l == nil {
		return "none"
	}
	return *l.ID
}

// ---------- C16 / C08: ids vs commit order ----------

func idOrderOracle(ctx context.Context, w *world.World, st *concState, run *sched.Run) [][2]string {
	var out [][2]string
	lastTx, lastLog := map[string]uint64{}, map[string]uint64{}
	seenTx, seenLog := map[string]bool{}, map[string]bool{}
	for _, ref := range st.Refs {
		_ = ref
	}
	for name, ref := range st.Refs {
		for _, t := range ref.Txs {
			if t.ID > lastTx[name] {
				lastTx[name] = t.ID
			}
			seenTx[fmt.Sprintf("%s/%d", name, t.ID)] = true
		}
		for _, l := range ref.Logs {
			if l.ID > lastLog[name] {
				lastLog[name] = l.ID
			}
			seenLog[fmt.Sprintf("%s/%d", name, l.ID)] = true
		}
	}
	for _, r := range committedInOrder(st) {
		name := ledgerOfOp(r.Op)
		if r.Out.Log != nil && r.Out.Log.ID != nil {
			id := *r.Out.Log.ID
			k := fmt.Sprintf("%s/%d", name, id)
			if seenLog[k] {
				out = append(out, [2]string{"ids:log:duplicate", fmt.Sprintf("%s: log id %d used twice", name, id)})
			}
			seenLog[k] = true
			if id < lastLog[name] {
				tag := "hash-logs-not-sync"
				if c, err := w.Sys.GetLedgerController(ctx, name); err == nil && c.Info().Features["HASH_LOGS"] == "SYNC" {
					tag = "hash-logs-sync"
				}
				out = append(out, [2]string{"ids:log:commit-order:" + tag, fmt.Sprintf("%s: T%d %s committed at position %d with log id %d after log id %d had been committed", name, r.Thread, r.Op, r.CommitPos, id, lastLog[name])})
			} else {
				lastLog[name] = id
			}
		}
		if r.Out.Tx != nil && r.Out.Tx.ID != nil {
			id := *r.Out.Tx.ID
			k := fmt.Sprintf("%s/%d", name, id)
			if seenTx[k] {
				out = append(out, [2]string{"ids:tx:duplicate", fmt.Sprintf("%s: transaction id %d used twice", name, id)})
			}
			seenTx[k] = true
			if id < lastTx[name] {
				// does it share an account with the transaction that overtook it? (row locks
				// on accounts_volumes order the id allocation of overlapping transactions)
				tag := "disjoint-accounts"
				mine := map[string]bool{}
				for _, po := range r.Out.Tx.Postings {
					mine[po.Source], mine[po.Destination] = true, true
				}
				for _, o := range committedInOrder(st) {
					if o.Out.Tx != nil && o.Out.Tx.ID != nil && *o.Out.Tx.ID == lastTx[name] && ledgerOfOp(o.Op) == name {
						for _, po := range o.Out.Tx.Postings {
							if mine[po.Source] || mine[po.Destination] {
								tag = "shared-accounts"
							}
						}
					}
				}
				out = append(out, [2]string{"ids:tx:commit-order:" + tag, fmt.Sprintf("%s: T%d %s committed at position %d with transaction id %d after transaction id %d had been committed", name, r.Thread, r.Op, r.CommitPos, id, lastTx[name])})
			} else {
				lastTx[name] = id
			}
		}
	}
	return append(out, finalState(ctx, w, st, notIDOrder)...)
}

// ---------- C14: references ----------

func referenceOracle(ctx context.Context, w *world.World, st *concState, run *sched.Run) [][2]string {
	var out [][2]string
	won := map[string]int{}
	for _, r := range st.Results {
		if r.Op.Ref == "" {
			continue
		}
		key := ledgerOfOp(r.Op) + "/" + r.Op.Ref
		switch {
		case r.Out.OK():
			won[key]++
		case r.Out.Class == "reference_conflict":
		default:
			out = append(out, [2]string{"reference:loser-error-kind:" + r.Out.Class, fmt.Sprintf("T%d %s failed with %q (%v), not a reference conflict", r.Thread, r.Op, r.Out.Class, r.Out.Err)})
		}
	}
	for key, n := range won {
		if n > 1 {
			out = append(out, [2]string{"reference:duplicate", fmt.Sprintf("%d writers succeeded with reference %s", n, key)})
		}
	}
	for name := range st.Refs {
		c, err := w.Sys.GetLedgerController(ctx, name)
		if err != nil {
			continue
		}
		txs, err := lx.ListTxs(ctx, c, common.ResourceQuery[any]{})
		if err != nil {
			out = append(out, [2]string{"read:ListTransactions", err.Error()})
			continue
		}
		cnt := map[string]int{}
		for _, t := range txs {
			if t.Reference != "" {
				cnt[t.Reference]++
			}
		}
		for ref, n := range cnt {
			if n > 1 {
				out = append(out, [2]string{"reference:duplicate-stored", fmt.Sprintf("%s: %d transactions carry reference %q", name, n, ref)})
			}
		}
	}
	return append(out, finalState(ctx, w, st, notIDOrder)...)
}

// ---------- C15: concurrent reverts ----------

func revertOnceOracle(ctx context.Context, w *world.World, st *concState, run *sched.Run) [][2]string {
	var out [][2]string
	okCount := map[uint64]int{}
	for _, r := range st.Results {
		if r.Op.Kind != "revert" {
			continue
		}
		switch {
		case r.Out.OK():
			okCount[r.Op.TxID]++
		case r.Out.Class == "already_reverted":
		default:
			out = append(out, [2]string{"revert:loser-error-kind:" + r.Out.Class, fmt.Sprintf("T%d %s failed with %q (%v)", r.Thread, r.Op, r.Out.Class, r.Out.Err)})
		}
	}
	for id, n := range okCount {
		if n > 1 {
			out = append(out, [2]string{"revert:twice", fmt.Sprintf("transaction %d reverted %d times", id, n)})
		}
	}
	return append(out, finalState(ctx, w, st, notIDOrder)...)
}

// ---------- C13: idempotency ----------

func idempotencyOracle(ctx context.Context, w *world.World, st *concState, run *sched.Run) [][2]string {
	var out [][2]string
	type grp struct {
		applied []*opResult
		all     []*opResult
	}
	groups := map[string]*grp{}
	for _, r := range st.Results {
		if r.Op.IK == "" {
			continue
		}
		k := ledgerOfOp(r.Op) + "/" + r.Op.IK
		g := groups[k]
		if g == nil {
			g = &grp{}
			groups[k] = g
		}
		g.all = append(g.all, r)
		if r.Out.OK() && !r.Out.Hit && !r.Op.DryRun {
			g.applied = append(g.applied, r)
		}
	}
	for k, g := range groups {
		if len(g.applied) > 1 {
			out = append(out, [2]string{"ik:applied-twice", fmt.Sprintf("idempotency key %s: %d requests were applied", k, len(g.applied))})
		}
		sameInput := true
		for _, r := range g.all[1:] {
			if fmt.Sprintf("%+v", stripName(r.Op)) != fmt.Sprintf("%+v", stripName(g.all[0].Op)) {
				sameInput = false
			}
		}
		for _, r := range g.all {
			switch {
			case r.Out.OK() && r.Out.Hit:
				// must point at the applied log
				if len(g.applied) == 1 && r.Out.Log != nil && g.applied[0].Out.Log != nil && *r.Out.Log.ID != *g.applied[0].Out.Log.ID {
					out = append(out, [2]string{"ik:hit-other-log", fmt.Sprintf("key %s: hit returned log %d, the applied request created log %d", k, *r.Out.Log.ID, *g.applied[0].Out.Log.ID)})
				}
			case r.Out.OK():
			case r.Out.Class == "idempotency_conflict" || r.Out.Class == "deadlock" || r.Out.Class == "canceled":
				// explicit retryable / conflict error: allowed by the property
			case r.Out.Class == "idempotency_input_mismatch":
				if sameInput {
					out = append(out, [2]string{"ik:same-input-rejected", fmt.Sprintf("key %s: T%d got an input-mismatch error for the same input", k, r.Thread)})
				}
			default:
				if sameInput && len(g.applied) > 0 {
					out = append(out, [2]string{"ik:business-error:" + r.Out.Class, fmt.Sprintf("key %s: T%d %s got %q (%v) although the same request was applied (log %v)", k, r.Thread, r.Op, r.Out.Class, r.Out.Err, logID(g.applied[0]))})
				} else if !sameInput && r.Out.Class != "idempotency_input_mismatch" {
					// different input: the loser must get a validation error, not something else;
					// but it may also legitimately be the one that is applied
				}
			}
		}
		if !sameInput && len(g.applied) > 0 {
			for _, r := range g.all {
				if r == g.applied[0] {
					continue
				}
				if r.Out.OK() {
					out = append(out, [2]string{"ik:different-input-accepted", fmt.Sprintf("key %s: T%d %s succeeded (hit=%v) although another input holds the key", k, r.Thread, r.Op, r.Out.Hit)})
				}
			}
		}
	}
	return append(out, finalState(ctx, w, st, notIDOrder)...)
}

func logID(r *opResult) any {
	if r.Out.Log == nil || r.Out.Log.ID == nil {
		return "?"
	}
	return *r.Out.Log.ID
}

func stripName(o lx.Op) lx.Op { o.Name = ""; return o }

func mkScenarios(ledgers []lx.LedgerSpec, oracle func(context.Context, *world.World, *concState, *sched.Run) [][2]string,
	defs ...scenarioDef) func() ([]*sched.Scenario, error) {
	return func() ([]*sched.Scenario, error) {
		var scs []*sched.Scenario
		for _, d := range defs {
			l := ledgers
			if d.ledgers != nil {
				l = d.ledgers
			}
			base, refs, err := baseState(l, d.prefix)
			if err != nil {
				return nil, fmt.Errorf("%s: %w", d.name, err)
			}
			sc := opsScenario(d.name, base, refs, l[0].Name, d.threads, oracle)
			if d.deadlockAt != nil {
				at := d.deadlockAt
				sc.Fault = func(thread, call int, op, sql string) error {
					if c, ok := at[thread]; ok && c == call && (op == "exec" || op == "query") {
						return &pgsim.StmtFault{Code: "40P01", Msg: "deadlock detected"}
					}
					return nil
				}
			}
			scs = append(scs, sc)
		}
		return scs, nil
	}
}

type scenarioDef struct {
	name    string
	ledgers []lx.LedgerSpec
	prefix  []lx.Op
	threads [][]lx.Op
	// deadlockAt: thread -> 1-based index of the driver call of that thread which fails, once,
	// with SQLSTATE 40P01 (K2 x K3): the ledger's retry path (forgeLogRetry) is then explored
	// under every schedule without spending preemptions on building a real lock cycle
	deadlockAt map[int]int
}

// twelveAmounts: one request, twelve postings with pairwise distinct amounts and two assets.
func twelveAmounts(ik string) lx.Op {
	var ps []lx.P
	for i := 1; i <= 12; i++ {
		ast := "USD"
		if i%2 == 0 {
			ast = "EUR"
		}
		ps = append(ps, p("world", fmt.Sprintf("m%d", i%3), ast, fmt.Sprint(i)))
	}
	return lx.Op{Kind: "post", Name: "12-amounts ik=" + ik, Postings: ps, IK: ik}
}

var longRef = strings.Repeat("ref-0123456789-", 140) // 2100 bytes

func init() {
	one := []lx.LedgerSpec{{Name: "l1"}}
	seed := post("seed", p("world", "z", "USD", "1"))
	fundA := post("fund-a", p("world", "a", "USD", "100"))

	registerConc(concCheck{
		id: "C09", boundQ: 2, boundT: -1, quick: 100 * time.Second, thorough: 12 * time.Minute, minOutcomes: 2,
		sequential: pimport.RenumberedImports("C09"),
		scenarios: mkScenarios(one, hashChainOracle,
			scenarioDef{name: "two-posts-disjoint-accounts", prefix: []lx.Op{seed}, threads: [][]lx.Op{
				{post("w>a", p("world", "a", "USD", "1"))}, {post("w>b", p("world", "b", "USD", "1"))}}},
			scenarioDef{name: "post-accmeta-revert", prefix: []lx.Op{seed, fundA}, threads: [][]lx.Op{
				{post("w>b", p("world", "b", "USD", "1"))},
				// '&', '<', '>' are the characters Go's JSON encoder escapes and jsonb output does
				// not: the stored chain must still be the documented one (seeded change C09)
				{{Kind: "accmeta", Name: "accmeta-q", Address: "q", Meta: map[string]string{"k": "R&D <v>"}}},
				{{Kind: "revert", Name: "revert2", TxID: 2}}}},
			scenarioDef{name: "first-writes-on-pristine-ledger", threads: [][]lx.Op{
				{post("w>a", p("world", "a", "USD", "1"))}, {post("w>b", p("world", "b", "USD", "1"))}}},
			// opposite transfers deadlock for real (row locks taken in opposite order); the victim is
			// retried while a third writer appends: the chain must stay linear through the retry
			scenarioDef{name: "opposite-transfers-deadlock-retry-and-writer", prefix: []lx.Op{seed, post("fund-a", p("world", "a", "USD", "5")), post("fund-b", p("world", "b", "USD", "5"))}, threads: [][]lx.Op{
				{post("a>b", p("a", "b", "USD", "1"))},
				{post("b>a", p("b", "a", "USD", "1"))},
				{post("w>c", p("world", "c", "USD", "1"))}}},
			// T0's first attempt is aborted by an injected 40P01 at its 3rd driver call: its write is
			// redone by the retry loop while two other writers append
			scenarioDef{name: "retried-writer-among-two-writers", prefix: []lx.Op{seed}, deadlockAt: map[int]int{0: 3}, threads: [][]lx.Op{
				{post("w>a", p("world", "a", "USD", "1"))},
				{post("w>b", p("world", "b", "USD", "1"))},
				{post("w>c", p("world", "c", "USD", "1"))}}},
			scenarioDef{name: "two-ops-each", prefix: []lx.Op{seed}, threads: [][]lx.Op{
				{post("w>a", p("world", "a", "USD", "1")), {Kind: "txmeta", Name: "txmeta1", TxID: 1, Meta: map[string]string{"k": "v"}}},
				{post("w>b", p("world", "b", "USD", "1")), {Kind: "accmeta", Name: "accmeta-b", Address: "b", Meta: map[string]string{"k": "v"}}}}},
		),
		rule: "HASH_LOGS=SYNC; 4 scenarios (two creates on disjoint accounts; create || account-metadata || revert; the two first writes on a pristine ledger; two threads of two writes each); every schedule with <= bound preemptions (thorough: all) at driver-call granularity including the pg_advisory_xact_lock wait; oracle: for ListLogs ascending, stored hash of each log == Log.ComputeHash(previous stored log) (set_log_hash/compute_hash run from the migration text), classified fork / mismatch / missing; one log per committed write",
	}, reg.Register)

	registerConc(concCheck{
		id: "C16", boundQ: 2, boundT: -1, quick: 100 * time.Second, thorough: 12 * time.Minute, minOutcomes: 2,
		sequential: pimport.RenumberedImports("C16"),
		scenarios: mkScenarios(one, idOrderOracle,
			scenarioDef{name: "two-creates-sharing-world", prefix: []lx.Op{seed}, threads: [][]lx.Op{
				{post("w>a", p("world", "a", "USD", "1"))}, {post("w>b", p("world", "b", "USD", "1"))}}},
			scenarioDef{name: "two-creates-disjoint-accounts", prefix: []lx.Op{seed, post("fund-a", p("world", "a", "USD", "5")), post("fund-b", p("world", "b", "USD", "5"))}, threads: [][]lx.Op{
				{post("a>c", p("a", "c", "USD", "1"))}, {post("b>d", p("b", "d", "USD", "1"))}}},
			scenarioDef{name: "create-and-failing-create", prefix: []lx.Op{seed}, threads: [][]lx.Op{
				{post("w>a", p("world", "a", "USD", "1"))}, {post("overdraw", p("c", "b", "USD", "5"))}, {post("w>d", p("world", "d", "USD", "1"))}}},
			scenarioDef{name: "two-ledgers-one-bucket", ledgers: []lx.LedgerSpec{{Name: "l1", Bucket: "b1"}, {Name: "l2", Bucket: "b1"}},
				prefix: []lx.Op{seed, {Kind: "post", Ledger: "l2", Name: "seed2", Postings: []lx.P{p("world", "z", "USD", "1")}}},
				threads: [][]lx.Op{
					{post("l1:w>a", p("world", "a", "USD", "1"))},
					{{Kind: "post", Ledger: "l2", Name: "l2:w>a", Postings: []lx.P{p("world", "a", "USD", "1")}}},
					{{Kind: "accmeta", Ledger: "l2", Name: "l2:accmeta", Address: "q", Meta: map[string]string{"k": "v"}}}}},
			// two writes per thread: the second write of a thread reuses that thread's database
			// session after the other thread's session has drawn ids of its own (seeded change C16b
			// created the id sequences with CACHE 10: each session hands out a private range, so a
			// later write on the first session gets a SMALLER id than one already committed)
			scenarioDef{name: "two-writes-each-on-two-sessions", prefix: []lx.Op{seed}, threads: [][]lx.Op{
				{post("w>a", p("world", "a", "USD", "1")), post("w>a2", p("world", "a", "USD", "2"))},
				{post("w>b", p("world", "b", "USD", "1")), {Kind: "accmeta", Name: "accmeta-b", Address: "b", Meta: map[string]string{"k": "v"}}}}},
			scenarioDef{name: "hash-logs-disabled", ledgers: []lx.LedgerSpec{{Name: "l1", Features: map[string]string{"HASH_LOGS": "DISABLED"}}}, prefix: []lx.Op{seed}, threads: [][]lx.Op{
				{post("w>a", p("world", "a", "USD", "1"))}, {{Kind: "accmeta", Name: "accmeta-q", Address: "q", Meta: map[string]string{"k": "v"}}}}},
		),
		rule: "6 scenarios (two creates sharing world; two creates on disjoint accounts; creates with a failing one in between (rollback => id gap); two ledgers sharing a bucket; two writes per thread, i.e. per database session (sequence options such as CACHE are executed by pgsim per session); HASH_LOGS=DISABLED where no advisory lock orders log insertion); every schedule with <= bound preemptions (thorough: all); oracle: transaction ids and log ids unique per ledger and, along the order in which COMMITs executed, never decreasing per ledger; ids of different ledgers independent; final state == replay of committed writes",
	}, reg.Register)

	registerConc(concCheck{
		id: "C14", boundQ: 2, boundT: -1, quick: 100 * time.Second, thorough: 10 * time.Minute, minOutcomes: 2,
		sequential: pimport.ReusedReferenceImports(),
		scenarios: mkScenarios(one, referenceOracle,
			scenarioDef{name: "two-creates-same-reference", prefix: []lx.Op{seed}, threads: [][]lx.Op{
				{{Kind: "post", Name: "w>a ref=r", Postings: []lx.P{p("world", "a", "USD", "1")}, Ref: "r"}},
				{{Kind: "post", Name: "w>b ref=r", Postings: []lx.P{p("world", "b", "USD", "2")}, Ref: "r"}}}},
			scenarioDef{name: "three-creates-same-reference-script", prefix: []lx.Op{seed}, threads: [][]lx.Op{
				{{Kind: "post", Name: "w>a ref=r", Postings: []lx.P{p("world", "a", "USD", "1")}, Ref: "r"}},
				{{Kind: "script", Name: "script ref=r", Script: "send [USD 3] (\n source = @world\n destination = @c\n)", Ref: "r"}},
				{{Kind: "post", Name: "w>b ref=r", Postings: []lx.P{p("world", "b", "USD", "2")}, Ref: "r"}}}},
			scenarioDef{name: "same-reference-two-ledgers-one-bucket", ledgers: []lx.LedgerSpec{{Name: "l1", Bucket: "b1"}, {Name: "l2", Bucket: "b1"}},
				prefix: []lx.Op{seed, {Kind: "post", Ledger: "l2", Name: "seed2", Postings: []lx.P{p("world", "z", "USD", "1")}}},
				threads: [][]lx.Op{
					{{Kind: "post", Name: "l1 ref=r", Postings: []lx.P{p("world", "a", "USD", "1")}, Ref: "r"}},
					{{Kind: "post", Ledger: "l2", Name: "l2 ref=r", Postings: []lx.P{p("world", "a", "USD", "1")}, Ref: "r"}}}},
			// a long reference (2100 bytes): uniqueness must not depend on the length of the value
			// (seeded change C14 rebuilt the unique index with a predicate on octet_length)
			scenarioDef{name: "two-creates-same-long-reference", prefix: []lx.Op{seed}, threads: [][]lx.Op{
				{{Kind: "post", Name: "w>a ref=long", Postings: []lx.P{p("world", "a", "USD", "1")}, Ref: longRef}},
				{{Kind: "post", Name: "w>b ref=long", Postings: []lx.P{p("world", "b", "USD", "2")}, Ref: longRef}}}},
			// opposite transfers sharing a reference: they deadlock for real, the victim is retried
			// and meets the reference on its second attempt: still a reference conflict, nothing else
			scenarioDef{name: "opposite-transfers-deadlock-same-reference", prefix: []lx.Op{seed, post("fund-a", p("world", "a", "USD", "5")), post("fund-b", p("world", "b", "USD", "5"))}, threads: [][]lx.Op{
				{{Kind: "post", Name: "a>b ref=r", Postings: []lx.P{p("a", "b", "USD", "1")}, Ref: "r"}},
				{{Kind: "post", Name: "b>a ref=r", Postings: []lx.P{p("b", "a", "USD", "1")}, Ref: "r"}}}},
			scenarioDef{name: "two-references-crossed", prefix: []lx.Op{seed}, threads: [][]lx.Op{
				{{Kind: "post", Name: "w>a ref=r", Postings: []lx.P{p("world", "a", "USD", "1")}, Ref: "r"}, {Kind: "post", Name: "w>a ref=s", Postings: []lx.P{p("world", "a", "USD", "1")}, Ref: "s"}},
				{{Kind: "post", Name: "w>b ref=s", Postings: []lx.P{p("world", "b", "USD", "2")}, Ref: "s"}, {Kind: "post", Name: "w>b ref=r", Postings: []lx.P{p("world", "b", "USD", "2")}, Ref: "r"}}}},
		),
		rule: "5 scenarios (2 and 3 concurrent creates sharing a reference, by postings and by script; the same reference in two ledgers of one bucket; a 2100-byte reference; a reference that already exists vs a new one); every schedule with <= bound preemptions (thorough: all), the partial unique index (ledger, reference) where reference <> '' deciding who waits and who gets 23505; oracle: at most one success and one stored transaction per (ledger, reference), every loser gets ErrTransactionReferenceConflict, the final state equals the replay of the winners only (losers leave no trace), cross-ledger both succeed",
	}, reg.Register)

	registerConc(concCheck{
		id: "C13", boundQ: 2, boundT: -1, quick: 110 * time.Second, thorough: 15 * time.Minute, minOutcomes: 2,
		scenarios: mkScenarios(one, idempotencyOracle,
			scenarioDef{name: "same-ik-same-create", prefix: []lx.Op{seed}, threads: [][]lx.Op{
				{{Kind: "post", Name: "w>a ik=k", Postings: []lx.P{p("world", "a", "USD", "1")}, IK: "k"}},
				{{Kind: "post", Name: "w>a ik=k", Postings: []lx.P{p("world", "a", "USD", "1")}, IK: "k"}}}},
			scenarioDef{name: "same-ik-funds-for-one", prefix: []lx.Op{seed, post("fund", p("world", "a", "USD", "10"))}, threads: [][]lx.Op{
				{{Kind: "post", Name: "a>b10 ik=k", Postings: []lx.P{p("a", "b", "USD", "10")}, IK: "k"}},
				{{Kind: "post", Name: "a>b10 ik=k", Postings: []lx.P{p("a", "b", "USD", "10")}, IK: "k"}}}},
			scenarioDef{name: "same-ik-revert", prefix: []lx.Op{seed, fundA}, threads: [][]lx.Op{
				{{Kind: "revert", Name: "revert2 ik=k", TxID: 2, IK: "k"}},
				{{Kind: "revert", Name: "revert2 ik=k", TxID: 2, IK: "k"}}}},
			scenarioDef{name: "same-ik-delete-metadata", prefix: []lx.Op{seed, {Kind: "txmeta", Name: "m", TxID: 1, Meta: map[string]string{"k": "v"}}}, threads: [][]lx.Op{
				{{Kind: "deltxmeta", Name: "del ik=k", TxID: 1, Key: "k", IK: "k"}},
				{{Kind: "deltxmeta", Name: "del ik=k", TxID: 1, Key: "k", IK: "k"}}}},
			scenarioDef{name: "same-ik-three-account-metadata", prefix: []lx.Op{seed}, threads: [][]lx.Op{
				{{Kind: "accmeta", Name: "accmeta ik=k", Address: "q", Meta: map[string]string{"k": "v"}, IK: "k"}},
				{{Kind: "accmeta", Name: "accmeta ik=k", Address: "q", Meta: map[string]string{"k": "v"}, IK: "k"}},
				{{Kind: "accmeta", Name: "accmeta ik=k", Address: "q", Meta: map[string]string{"k": "v"}, IK: "k"}}}},
			scenarioDef{name: "same-ik-different-input", prefix: []lx.Op{seed}, threads: [][]lx.Op{
				{{Kind: "post", Name: "w>a1 ik=k", Postings: []lx.P{p("world", "a", "USD", "1")}, IK: "k"}},
				{{Kind: "post", Name: "w>a2 ik=k", Postings: []lx.P{p("world", "a", "USD", "2")}, IK: "k"}}}},
			// a request whose input the write path itself enriches (script metadata merged
			// with the request's, account metadata parameter, variables): the repeat must still
			// be recognised as the same input (seeded change C13 let set_tx_meta keys leak into
			// the caller's metadata map before the idempotency hash was taken)
			scenarioDef{name: "same-ik-script-with-request-and-script-metadata", prefix: []lx.Op{seed}, threads: [][]lx.Op{
				{{Kind: "script", Name: "script-meta ik=k", Script: "vars {\n account $d\n}\nsend [USD 1] (\n source = @world\n destination = $d\n)\nset_tx_meta(\"cat\", \"x\")\nset_account_meta($d, \"k\", \"v\")", Vars: map[string]string{"d": "a"}, Meta: map[string]string{"m": "1"}, AccMeta: map[string]map[string]string{"q": {"p": "1"}}, IK: "k"}},
				{{Kind: "script", Name: "script-meta ik=k", Script: "vars {\n account $d\n}\nsend [USD 1] (\n source = @world\n destination = $d\n)\nset_tx_meta(\"cat\", \"x\")\nset_account_meta($d, \"k\", \"v\")", Vars: map[string]string{"d": "a"}, Meta: map[string]string{"m": "1"}, AccMeta: map[string]map[string]string{"q": {"p": "1"}}, IK: "k"}}}},
			// the same key on two opposite transfers (different inputs) that deadlock for real: the
			// victim's retry must end in a key conflict / input mismatch, never in a second effect
			scenarioDef{name: "opposite-transfers-deadlock-same-ik", prefix: []lx.Op{seed, post("fund-a", p("world", "a", "USD", "5")), post("fund-b", p("world", "b", "USD", "5"))}, threads: [][]lx.Op{
				{{Kind: "post", Name: "a>b ik=k", Postings: []lx.P{p("a", "b", "USD", "1")}, IK: "k"}},
				{{Kind: "post", Name: "b>a ik=k", Postings: []lx.P{p("b", "a", "USD", "1")}, IK: "k"}}}},
			// a postings request with twelve distinct (amount, asset) pairs, sent twice by each
			// thread: the script generated from the postings is part of the hashed input, so it
			// must be the same text every time (seeded change C13c emitted its variable
			// declarations in map-iteration order: a repeat was refused as a different input)
			scenarioDef{name: "same-ik-twelve-amounts-twice-each", prefix: []lx.Op{seed}, threads: [][]lx.Op{
				{twelveAmounts("k"), twelveAmounts("k")},
				{twelveAmounts("k"), twelveAmounts("k")}}},
			scenarioDef{name: "sequential-repeat-then-concurrent", prefix: []lx.Op{seed, {Kind: "post", Name: "w>a ik=k", Postings: []lx.P{p("world", "a", "USD", "1")}, IK: "k"}}, threads: [][]lx.Op{
				{{Kind: "post", Name: "w>a ik=k", Postings: []lx.P{p("world", "a", "USD", "1")}, IK: "k"}},
				{{Kind: "post", Name: "w>a2 ik=k", Postings: []lx.P{p("world", "a", "USD", "2")}, IK: "k"}}}},
		),
		rule: "9 scenarios sharing an idempotency key (same create; one request of twelve postings with pairwise distinct amounts sent twice by each of two threads; same spend with funds for only one; same revert; same delete-metadata; three same account-metadata writes; different inputs; the same script with variables, request metadata, script metadata and an account-metadata parameter; a key already used then repeated and reused concurrently); every schedule with <= bound preemptions (thorough: all), the unique index logs(ledger, idempotency_key) and forgeLog's retry deciding the outcome; oracle: at most one request applied per key, every other caller gets the original log flagged as a hit or an explicit conflict/retryable error, never a business error contradicting the committed outcome; a different input never succeeds; final state == replay of the applied requests",
	}, reg.Register)
}

// ---------- concurrent halves of C15 and C08 ----------

func c15Conc() ([]*sched.Scenario, error) {
	one := []lx.LedgerSpec{{Name: "l1"}}
	seed := post("seed", p("world", "z", "USD", "1"))
	fund := post("fund-a", p("world", "a", "USD", "100"))
	return mkScenarios(one, revertOnceOracle,
		scenarioDef{name: "two-reverts-of-one-transaction", prefix: []lx.Op{seed, fund}, threads: [][]lx.Op{
			{{Kind: "revert", Name: "revert2", TxID: 2}}, {{Kind: "revert", Name: "revert2-force", TxID: 2, Force: true}}}},
		scenarioDef{name: "three-reverts-mixed-options", prefix: []lx.Op{seed, fund}, threads: [][]lx.Op{
			{{Kind: "revert", Name: "revert2", TxID: 2}}, {{Kind: "revert", Name: "revert2-eff", TxID: 2, AtEff: true}}, {{Kind: "revert", Name: "revert2-force", TxID: 2, Force: true}}}},
		scenarioDef{name: "revert-vs-revert-of-another", prefix: []lx.Op{seed, fund}, threads: [][]lx.Op{
			{{Kind: "revert", Name: "revert2", TxID: 2}}, {{Kind: "revert", Name: "revert1", TxID: 1, Force: true}}}},
	)()
}

// journalOrderOracle: along commit order log ids strictly increase (C08), one log per
// committed write, final state == replay.
func journalOrderOracle(ctx context.Context, w *world.World, st *concState, run *sched.Run) [][2]string {
	var out [][2]string
	last := map[string]uint64{}
	for name, ref := range st.Refs {
		for _, l := range ref.Logs {
			if l.ID > last[name] {
				last[name] = l.ID
			}
		}
	}
	for _, r := range committedInOrder(st) {
		name := ledgerOfOp(r.Op)
		if r.Out.Log == nil || r.Out.Log.ID == nil {
			out = append(out, [2]string{"journal:no-log", fmt.Sprintf("T%d %s succeeded without a log", r.Thread, r.Op)})
			continue
		}
		id := *r.Out.Log.ID
		if id <= last[name] {
			tag := "hash-logs-not-sync"
			if c, err := w.Sys.GetLedgerController(ctx, name); err == nil && c.Info().Features["HASH_LOGS"] == "SYNC" {
				tag = "hash-logs-sync"
			}
			out = append(out, [2]string{"journal:commit-order:" + tag, fmt.Sprintf("%s: T%d %s committed at position %d with log id %d, log id %d was committed before", name, r.Thread, r.Op, r.CommitPos, id, last[name])})
		} else {
			last[name] = id
		}
	}
	return append(out, finalState(ctx, w, st, func(s string) bool { return strings.HasPrefix(s, "log:count") || strings.HasPrefix(s, "tx:count") })...)
}

func c08Conc() ([]*sched.Scenario, error) {
	one := []lx.LedgerSpec{{Name: "l1"}}
	seed := post("seed", p("world", "z", "USD", "1"))
	fa, fb := post("fund-a", p("world", "a", "USD", "5")), post("fund-b", p("world", "b", "USD", "5"))
	return mkScenarios(one, journalOrderOracle,
		scenarioDef{name: "two-disjoint-creates", prefix: []lx.Op{seed, fa, fb}, threads: [][]lx.Op{
			{post("a>c", p("a", "c", "USD", "1"))}, {post("b>d", p("b", "d", "USD", "1"))}}},
		scenarioDef{name: "mixed-kinds-three-writers", prefix: []lx.Op{seed, fa, fb}, threads: [][]lx.Op{
			{post("a>c", p("a", "c", "USD", "1"))},
			{{Kind: "accmeta", Name: "accmeta-q", Address: "q", Meta: map[string]string{"k": "v"}}},
			{{Kind: "txmeta", Name: "txmeta1", TxID: 1, Meta: map[string]string{"k": "v"}}, {Kind: "post", Name: "dry", Postings: []lx.P{p("world", "e", "USD", "1")}, DryRun: true}}}},
		scenarioDef{name: "writer-vs-failing-writer", prefix: []lx.Op{seed, fa}, threads: [][]lx.Op{
			{post("a>c", p("a", "c", "USD", "1"))}, {post("overdraw", p("nobody", "c", "USD", "1"))}, {post("a>d", p("a", "d", "USD", "1"))}}},
		// opposite transfers deadlock for real; one of them is a dry run: whichever is the victim
		// is retried, and a retried dry run must still append no log
		scenarioDef{name: "opposite-transfers-deadlock-one-dry-run", prefix: []lx.Op{seed, fa, fb}, threads: [][]lx.Op{
			{post("a>b", p("a", "b", "USD", "1"))},
			{{Kind: "post", Name: "b>a dry", Postings: []lx.P{p("b", "a", "USD", "1")}, DryRun: true}},
			{post("w>e", p("world", "e", "USD", "1"))}}},
		scenarioDef{name: "retried-dry-run-and-retried-writer-among-writers", prefix: []lx.Op{seed, fa, fb}, deadlockAt: map[int]int{0: 3, 1: 3}, threads: [][]lx.Op{
			{{Kind: "post", Name: "w>e dry", Postings: []lx.P{p("world", "e", "USD", "1")}, DryRun: true}},
			{post("a>c", p("a", "c", "USD", "1"))},
			{post("b>d", p("b", "d", "USD", "1"))}}},
		scenarioDef{name: "hash-logs-disabled-two-writers", ledgers: []lx.LedgerSpec{{Name: "l1", Features: map[string]string{"HASH_LOGS": "DISABLED"}}}, prefix: []lx.Op{seed, fa, fb}, threads: [][]lx.Op{
			{post("a>c", p("a", "c", "USD", "1"))}, {post("b>d", p("b", "d", "USD", "1"))}}},
	)()
}
