package props

import (
	"context"
	"fmt"
	ledgercontroller "github.com/formancehq/ledger/internal/controller/ledger"
	"strings"
	"time"

	"github.com/formancehq/ledger/verifh/ev"
	"github.com/formancehq/ledger/verifh/lx"
	"github.com/formancehq/ledger/verifh/reg"
	"github.com/formancehq/ledger/verifh/sched"
)

type seqCheck struct {
	id             string
	quick, thor    time.Duration
	depthQ, depthT int
	alphabet       []lx.Op
	configs        [][]lx.LedgerSpec // one exploration per configuration
	// cfgAlphabet / cfgDepth, when set, give a configuration its own alphabet and its own
	// depth bound (given the tier's depth); nil: the check's alphabet and depth
	cfgAlphabet func(cfg []lx.LedgerSpec) []lx.Op
	cfgDepth    func(cfg []lx.LedgerSpec, depth int) int
	sigs        []string
	check       func(ctx context.Context, s *lx.StepInfo, rep *lx.Report)
	need        []string
	rule        string
	restart     bool
	// post, when set, runs once after the sequential exploration: cross-path oracles
	// (what one path returned compared with what another path returned), their vacuity
	// guards and their evidence fields
	post func(r *ev.Run, total *lx.SeqStats, cov ev.Coverage)
	// conc, when set, is a concurrent (K2) half run after the sequential one
	conc       func() ([]*sched.Scenario, error)
	concBoundQ int
	concBoundT int
}

// seqSets maps a property id to its K1 check, so that a recorded operation sequence can be
// re-executed without the explorer (ReplaySeq).
var seqSets = map[string]seqCheck{}

func registerSeq(sc seqCheck) {
	seqSets[sc.id] = sc
	if sc.conc != nil {
		concSets[sc.id] = sc.conc
	}
	reg.Register(sc.id, func() int {
		r := ev.Start(sc.id, ev.LevelMC, sc.quick, sc.thor)
		if len(sc.configs) == 0 {
			sc.configs = [][]lx.LedgerSpec{{{Name: "l1"}}}
		}
		total := &lx.SeqStats{Outcomes: map[string]int64{}, Observations: map[string]int64{}, Exhaustive: true}
		depth := ev.Pick(r, sc.depthQ, sc.depthT)
		var last *lx.SeqExplorer
		minDepth := depth
		// depth-major over the configurations: every configuration at depth 1, then every one at
		// depth 2, ... so that a run cut by its time budget has covered ALL configurations to the
		// same depth (the mixed feature combinations come last in the list)
		minDepth = 0
	depths:
		for d := 1; d <= depth; d++ {
			for _, cfg := range sc.configs {
				if sc.cfgDepth != nil && d > sc.cfgDepth(cfg, depth) {
					continue
				}
				alphabet := sc.alphabet
				if sc.cfgAlphabet != nil {
					alphabet = sc.cfgAlphabet(cfg)
				}
				e := &lx.SeqExplorer{Ledgers: cfg, Alphabet: alphabet, Depth: d, OnlyDepth: d, Restart: sc.restart, Sigs: sc.sigs, Check: sc.check}
				last = e
				st, err := e.Run(context.Background(), r)
				if err != nil {
					r.EngineError(err.Error())
					return r.Finish(nil, []string{pgsimAssumption})
				}
				total.States += st.States
				total.Transitions += st.Transitions
				total.Paths += st.Paths
				for k, v := range st.Outcomes {
					total.Outcomes[k] += v
				}
				for k, v := range st.Observations {
					total.Observations[k] += v
				}
				if total.Samples == nil {
					total.Samples = st.Samples
				}
				if !st.Exhaustive || r.Expired() {
					total.Exhaustive = false
					break depths
				}
			}
			minDepth = d
		}
		total.DepthDone = minDepth
		vacuous(r, total, sc.need...)
		cov := seqCoverage(last, total, sc.rule)
		cov["configurations"] = len(sc.configs)
		if sc.post != nil {
			sc.post(r, total, cov)
		}
		if sc.conc != nil && !r.Expired() {
			concPhase(r, cov, sc.conc, sc.concBoundQ, sc.concBoundT)
		}
		return r.Finish(cov, []string{pgsimAssumption})
	})
}

// twinLeg evaluates fn on the twin ledger reached through export + import of the ledger under
// test (lx.ImportedTwin): the same oracle, the same reference; signatures get the suffix
// ":twin" (so that they fall under the same signature filters).
func twinLeg(ctx context.Context, s *lx.StepInfo, rep *lx.Report, fn func(c ledgercontroller.Controller, sub *lx.Report)) {
	if s.Last.Ledger != "" && s.Last.Ledger != "l1" {
		return
	}
	tc, err := lx.ImportedTwin(ctx, s, "twin")
	if err != nil {
		rep.Add("read:twin:import", "%v", err)
		return
	}
	if tc == nil {
		return
	}
	sub := &lx.Report{}
	fn(tc, sub)
	for _, m := range sub.Items {
		rep.Add(m.Sig+":twin", "imported twin: %s", m.What)
	}
}

// withTwin adds to every configuration an empty ledger `twin` with the same features, in
// another bucket.
func withTwin(cfgs [][]lx.LedgerSpec) [][]lx.LedgerSpec {
	var out [][]lx.LedgerSpec
	for _, c := range cfgs {
		out = append(out, append(append([]lx.LedgerSpec{}, c...), lx.LedgerSpec{Name: "twin", Bucket: "twinb", Features: c[0].Features}))
	}
	return out
}

func tsAlphabet() []lx.Op {
	// two accounts, one asset, effective timestamps T-1h, T, T (tie), T+1h
	var out []lx.Op
	for _, off := range []int64{-hour, 0, 0, hour} {
		off := off
		out = append(out,
			lx.Op{Kind: "post", Name: fmt.Sprintf("w>a10@%+dh", off/hour), Postings: []lx.P{p("world", "a", "USD", "10")}, TSOff: &off},
			lx.Op{Kind: "post", Name: fmt.Sprintf("a>b3@%+dh", off/hour), Postings: []lx.P{p("a", "b", "USD", "3")}, TSOff: &off, Force: true},
		)
	}
	// the two "T" entries are identical ops: keep one of each and add distinct variants
	dedup := map[string]bool{}
	var uniq []lx.Op
	for _, o := range out {
		if !dedup[o.Name] {
			dedup[o.Name] = true
			uniq = append(uniq, o)
		}
	}
	zero := int64(0)
	uniq = append(uniq,
		lx.Op{Kind: "post", Name: "a>a1@0h", Postings: []lx.P{p("a", "a", "USD", "1")}, TSOff: &zero, Force: true},
		lx.Op{Kind: "post", Name: "w>a1;a>b1 now", Postings: []lx.P{p("world", "a", "USD", "1"), p("a", "b", "USD", "1")}},
		lx.Op{Kind: "revert", Name: "revert1-eff", TxID: 1, AtEff: true, Force: true},
		lx.Op{Kind: "revert", Name: "revert2-now", TxID: 2, Force: true},
	)
	return uniq
}

func metaAlphabet() []lx.Op {
	back, fut := -hour, hour
	return []lx.Op{
		{Kind: "post", Name: "create-with-meta", Postings: []lx.P{p("world", "a", "USD", "10")}, Meta: map[string]string{"k": "v0"}},
		{Kind: "post", Name: "create-backdated", Postings: []lx.P{p("world", "b", "USD", "10")}, TSOff: &back},
		{Kind: "script", Name: "script-meta", Script: "send [USD 1] (\n source = @world\n destination = @a\n)\nset_tx_meta(\"k\", \"s\")\nset_account_meta(@a, \"role\", \"script\")", ScriptAccMeta: map[string]map[string]string{"a": {"role": "script"}}},
		{Kind: "post", Name: "create-accmeta-param", Postings: []lx.P{p("world", "a", "USD", "1")}, AccMeta: map[string]map[string]string{"a": {"role": "param"}, "z": {"only": "meta"}}},
		{Kind: "txmeta", Name: "txmeta1-k=v1", TxID: 1, Meta: map[string]string{"k": "v1"}},
		{Kind: "txmeta", Name: "txmeta1-j=w", TxID: 1, Meta: map[string]string{"j": "w"}},
		{Kind: "deltxmeta", Name: "deltxmeta1-k", TxID: 1, Key: "k"},
		{Kind: "accmeta", Name: "accmeta-a-role=x", Address: "a", Meta: map[string]string{"role": "x"}},
		{Kind: "accmeta", Name: "accmeta-a-tier=1", Address: "a", Meta: map[string]string{"tier": "1"}},
		{Kind: "accmeta", Name: "accmeta-new-q", Address: "q", Meta: map[string]string{"role": "q"}},
		{Kind: "delaccmeta", Name: "delaccmeta-a-role", Address: "a", Key: "role"},
		{Kind: "revert", Name: "revert1", TxID: 1, Force: true, Meta: map[string]string{"why": "test"}},
		// the script and the request both give metadata to the SAME account, under different
		// keys: both must be kept (seeded change C17b replaced the key-wise merge by maps.Copy)
		{Kind: "script", Name: "script-meta+param-same-account", Script: "send [USD 1] (\n source = @world\n destination = @a\n)\nset_account_meta(@a, \"kyc\", \"done\")",
			ScriptAccMeta: map[string]map[string]string{"a": {"kyc": "done"}}, AccMeta: map[string]map[string]string{"a": {"tier": "gold"}}},
		// (appended last: other alphabets slice this one by index)
		// post-dated, with metadata: its first revision is dated at its (future) timestamp,
		// the later revisions at the (earlier) date of each write — revision order and date
		// order disagree (seeded change C17 ordered the PIT revision lookup by date)
		{Kind: "post", Name: "create-future-with-meta", Postings: []lx.P{p("world", "a", "USD", "3")}, Meta: map[string]string{"k": "f0"}, TSOff: &fut},
		// back-dated, with metadata for an account that may already have some: the new account
		// revision is dated at the instant of the WRITE, not at the transaction's (earlier)
		// timestamp — a read at a point in time between the two must not see it yet (seeded
		// change C17c dated the account rows of a transaction with its timestamp)
		{Kind: "post", Name: "create-backdated-accmeta-a", Postings: []lx.P{p("world", "a", "USD", "4")}, AccMeta: map[string]map[string]string{"a": {"kyc": "done"}}, TSOff: &back},
	}
}

// metaOnlyOps create accounts that carry metadata without taking part in any posting,
// from inside a create-transaction (AccountMetadata parameter, set_account_meta in a
// script). The addresses sort AFTER every posting account ("world" included) and, for the
// second pair, BETWEEN them: the list handed to UpsertAccounts is a sorted merge of both
// sets (seeded change C08 dropped a metadata-only account sorting last).
func metaOnlyOps() []lx.Op {
	return []lx.Op{
		{Kind: "post", Name: "create-metaonly-param", Postings: []lx.P{p("world", "a", "USD", "2")}, AccMeta: map[string]map[string]string{"zz:last": {"only": "param"}, "m:mid": {"only": "param"}}},
		{Kind: "script", Name: "script-metaonly", Script: "send [USD 2] (\n source = @world\n destination = @a\n)\nset_account_meta(@zz:script, \"only\", \"script\")\nset_account_meta(@b:mid, \"only\", \"script\")", ScriptAccMeta: map[string]map[string]string{"zz:script": {"only": "script"}, "b:mid": {"only": "script"}}},
	}
}

func featureCombos(keys ...string) [][]lx.LedgerSpec {
	values := map[string][]string{
		"ACCOUNT_METADATA_HISTORY":                    {"SYNC", "DISABLED"},
		"TRANSACTION_METADATA_HISTORY":                {"SYNC", "DISABLED"},
		"HASH_LOGS":                                   {"SYNC", "ASYNC", "DISABLED"},
		"MOVES_HISTORY":                               {"ON", "OFF"},
		"MOVES_HISTORY_POST_COMMIT_EFFECTIVE_VOLUMES": {"SYNC", "DISABLED"},
	}
	out := [][]lx.LedgerSpec{{{Name: "l1", Features: map[string]string{}}}}
	for _, k := range keys {
		var next [][]lx.LedgerSpec
		for _, base := range out {
			for _, v := range values[k] {
				f := map[string]string{}
				for kk, vv := range base[0].Features {
					f[kk] = vv
				}
				f[k] = v
				next = append(next, []lx.LedgerSpec{{Name: "l1", Features: f}})
			}
		}
		out = next
	}
	return out
}

func init() {
	registerSeq(seqCheck{
		id: "C01", quick: 100 * time.Second, thor: 15 * time.Minute, depthQ: 3, depthT: 4,
		alphabet: append(coreAlphabet(), retriedOps()...), restart: false,
		sigs:    []string{"conserve:", "read:", "ref:"},
		configs: withTwin([][]lx.LedgerSpec{{{Name: "l1"}}}),
		check: func(ctx context.Context, s *lx.StepInfo, rep *lx.Report) {
			lx.CheckConservation(ctx, s.W, s.Ctrl, s.Ref, rep)
			twinLeg(ctx, s, rep, func(c ledgercontroller.Controller, sub *lx.Report) {
				lx.CheckConservation(ctx, s.W, c, s.Ref, sub)
			})
		},
		need: []string{"post:ok", "revert:ok", "script:ok", "post:insufficient_funds"},
		rule: "every sequence of length<=depth over the 16-op write alphabet (postings incl. src==dst, multi-posting, 2^64+1, back/future dated; Numscript send-all and allotment; reverts forced/at effective date; metadata; dry run; failing writes); after each sequence, per asset, total input == total output in the volumes listing, aggregated balances are 0, at the current time and at every recorded instant +-1us in both date modes, and in the raw accounts_volumes and moves tables; the same on a twin ledger into which the export of the history is imported",
	})
	registerSeq(seqCheck{
		id: "C03", quick: 100 * time.Second, thor: 15 * time.Minute, depthQ: 3, depthT: 4,
		alphabet: coreAlphabet(), restart: true,
		sigs:    []string{"tx:pcv", "tx:get-pcv", "tx:precommit", "tx:json", "moves:", "log:pcv", "log:unknown-tx", "read:", "ref:"},
		configs: withTwin([][]lx.LedgerSpec{{{Name: "l1"}}}),
		check: func(ctx context.Context, s *lx.StepInfo, rep *lx.Report) {
			lx.CheckCurrent(ctx, s.Ctrl, s.Ref, rep)
			lx.CheckPCVDetails(ctx, s.W, s.Ctrl, s.Ref, rep)
			// the post-commit volumes of an imported transaction are recomputed by the import
			twinLeg(ctx, s, rep, func(c ledgercontroller.Controller, sub *lx.Report) {
				lx.CheckCurrent(ctx, c, s.Ref, sub)
				lx.CheckPCVDetails(ctx, s.W, c, s.Ref, sub)
			})
		},
		need: []string{"post:ok", "revert:ok", "script:ok"},
		rule: "every sequence of length<=depth over the write alphabet (incl. transactions touching one account several times and source==destination); after each sequence, for EVERY transaction of the history (so earlier ones are re-checked after every later write: immutability): postCommitVolumes from ListTransactions and GetTransaction == reference volumes right after that transaction, JSON preCommitVolumes == volumes right before it, each row of moves in seq order == running fold in posting order, NEW_TRANSACTION/REVERTED_TRANSACTION log payloads carry the same values; the same on a twin ledger into which the export of the history is imported",
	})
	registerSeq(seqCheck{
		id: "C04", quick: 100 * time.Second, thor: 15 * time.Minute, depthQ: 3, depthT: 5,
		alphabet: tsAlphabet(), restart: false,
		sigs:    []string{"tx:pcev", "pit:acc:effective-volumes", "acc:effective-volumes", "read:", "ref:"},
		configs: withTwin([][]lx.LedgerSpec{{{Name: "l1"}}}),
		check: func(ctx context.Context, s *lx.StepInfo, rep *lx.Report) {
			lx.CheckCurrent(ctx, s.Ctrl, s.Ref, rep)
			lx.CheckPIT(ctx, s.Ctrl, s.Ref, rep)
			// effective volumes are rebuilt by the import from the transactions' timestamps
			twinLeg(ctx, s, rep, func(c ledgercontroller.Controller, sub *lx.Report) {
				lx.CheckCurrent(ctx, c, s.Ref, sub)
				lx.CheckPIT(ctx, c, s.Ref, sub)
			})
		},
		need: []string{"post:ok", "revert:ok"},
		rule: "every sequence of length<=depth over creates with effective timestamps T-1h, T, T+1h (ties forced by repeating T), src==dst, two-posting transactions and reverts at effective date / now, on a 2-account 1-asset universe with MOVES_HISTORY_POST_COMMIT_EFFECTIVE_VOLUMES=SYNC; after each sequence, for every transaction GetTransaction/ListTransactions(expand=effectiveVolumes) == fold of postings ordered by (effective timestamp, insertion order) up to that transaction, and ListAccounts(pit, expand=effectiveVolumes) == fold up to pit at every recorded instant; the same on a twin ledger into which the export of the history is imported",
	})
	registerSeq(seqCheck{
		id: "C05", quick: 110 * time.Second, thor: 15 * time.Minute, depthQ: 3, depthT: 4,
		alphabet: append(coreAlphabet()[:11], tsAlphabet()[:2]...), restart: false,
		sigs:    []string{"pit:", "vol:value:pit", "vol:balance:pit", "vol:missing:pit", "vol:unexpected:pit", "vol:duplicate:pit", "vol:order:pit", "vol:value:window", "vol:missing:window", "vol:unexpected:window", "vol:balance:window", "agg:value:pit", "agg:missing:pit", "agg:unexpected:pit", "read:", "ref:"},
		configs: [][]lx.LedgerSpec{{{Name: "l1"}, {Name: "twin", Bucket: "twinb"}}},
		check: func(ctx context.Context, s *lx.StepInfo, rep *lx.Report) {
			lx.CheckPIT(ctx, s.Ctrl, s.Ref, rep)
			// the same point-in-time reads on the ledger reached through export + import (the dates a
			// point-in-time read depends on — timestamps, insertion dates, revert dates — travel in
			// the logs): same reference, signatures prefixed by "pit:twin:"
			if s.Last.Ledger != "" && s.Last.Ledger != "l1" {
				return
			}
			tc, err := lx.ImportedTwin(ctx, s, "twin")
			if err != nil {
				rep.Add("pit:twin:import", "%v", err)
				return
			}
			if tc != nil {
				sub := &lx.Report{}
				lx.CheckPIT(ctx, tc, s.Ref, sub)
				for _, m := range sub.Items {
					rep.Add("pit:twin:"+m.Sig, "imported twin: %s", m.What)
				}
			}
		},
		need: []string{"post:ok", "revert:ok"},
		rule: "every sequence of length<=depth over back-dated/now/future creates, scripts and reverts; after each sequence, at every recorded instant (each effective timestamp, insertion date, revert date, metadata date, each also -1us and +1us) and in both date modes: GetVolumesWithBalances(PIT), GetVolumesWithBalances(OOT,PIT) for every ordered pair of recorded dates, GetVolumesWithBalances(OOT alone) for every recorded date, GetAggregatedBalances(PIT), ListAccounts(PIT, expand volumes/effectiveVolumes) and ListTransactions(PIT) == reference folds; accounts listed iff first usage <= t, transactions iff timestamp <= t, reverted flag iff revert date <= t; the same reads with the same reference on a twin ledger (other bucket) into which the export of the history is imported",
	})
	registerSeq(seqCheck{
		id: "C15", quick: 100 * time.Second, thor: 15 * time.Minute, depthQ: 3, depthT: 4,
		alphabet: append(append([]lx.Op{}, coreAlphabet()[:7]...),
			lx.Op{Kind: "revert", Name: "revert1", TxID: 1},
			lx.Op{Kind: "revert", Name: "revert1-force", TxID: 1, Force: true},
			lx.Op{Kind: "revert", Name: "revert1-eff", TxID: 1, AtEff: true, Meta: map[string]string{"why": "x"}},
			lx.Op{Kind: "revert", Name: "revert2-force-eff", TxID: 2, Force: true, AtEff: true},
			lx.Op{Kind: "revert", Name: "revert3", TxID: 3},
			lx.Op{Kind: "revert", Name: "revert2-dry", TxID: 2, DryRun: true, Force: true},
			// the request's own metadata uses the reserved key of the revert mark (what a client
			// re-sending the metadata of a revert transaction does): the mark must still name the
			// transaction being reverted (seeded change C15c let the request win the merge)
			lx.Op{Kind: "revert", Name: "revert1-meta-claims-other", TxID: 1, Force: true, Meta: map[string]string{"com.formance.spec/state/reverts": "7", "why": "y"}},
		), restart: true,
		sigs: []string{"revert:", "tx:reverted-flag", "tx:postings", "tx:count", "read:", "ref:"},
		check: func(ctx context.Context, s *lx.StepInfo, rep *lx.Report) {
			lx.CheckRevert(ctx, s, rep)
			lx.CheckCurrent(ctx, s.Ctrl, s.Ref, rep)
		},
		need: []string{"revert:ok", "revert:already_reverted", "revert:insufficient_funds", "revert:not_found"},
		conc: c15Conc, concBoundQ: 2, concBoundT: -1,
		rule: "every sequence of length<=depth over creates and reverts (plain, forced, at effective date, dry run; reverts of reverts through ids 2 and 3; second reverts); after each sequence ending in a revert: postings swapped and reversed, revert metadata mark, timestamp rule, exactly one new transaction, the original marked reverted once (ListTransactions/GetTransaction), second revert = already_reverted with an unchanged database, balances equal the fold without the pair",
	})
	registerSeq(seqCheck{
		id: "C18", quick: 100 * time.Second, thor: 15 * time.Minute, depthQ: 3, depthT: 4,
		alphabet: append(append(append([]lx.Op{}, coreAlphabet()[:9]...), metaAlphabet()[7:11]...), metaOnlyOps()...), restart: true,
		sigs:    []string{"acc:missing", "acc:unexpected", "acc:first-usage", "acc:insertion-date", "acc:order", "pit:acc:set", "pit:acc:unexpected", "read:", "ref:"},
		configs: withTwin([][]lx.LedgerSpec{{{Name: "l1"}}}),
		check: func(ctx context.Context, s *lx.StepInfo, rep *lx.Report) {
			lx.CheckCurrent(ctx, s.Ctrl, s.Ref, rep)
			lx.CheckPIT(ctx, s.Ctrl, s.Ref, rep)
			twinLeg(ctx, s, rep, func(c ledgercontroller.Controller, sub *lx.Report) {
				lx.CheckCurrent(ctx, c, s.Ref, sub)
				lx.CheckPIT(ctx, c, s.Ref, sub)
			})
		},
		need: []string{"post:ok", "accmeta:ok", "post:insufficient_funds"},
		rule: "every sequence of length<=depth over back/future-dated creates, scripts, failing creates and metadata-only account writes; after each sequence the listed account set == accounts involved in a committed transaction or given metadata, firstUsage == earliest effective timestamp (lowered by back-dating), insertionDate == date of first creation and unchanged by every later write (all accounts re-checked after every sequence), and the PIT listing shows an account iff first usage <= t",
	})
	registerSeq(seqCheck{
		id: "C17", quick: 110 * time.Second, thor: 15 * time.Minute, depthQ: 3, depthT: 4,
		alphabet: append(metaAlphabet(), metaOnlyOps()[1]), restart: true,
		configs: withTwin(featureCombos("ACCOUNT_METADATA_HISTORY", "TRANSACTION_METADATA_HISTORY")),
		// acc:missing: metadata written to an account that cannot be read back at all
		sigs: []string{"acc:missing", "tx:metadata", "acc:metadata", "pit:tx:metadata", "pit:acc:metadata", "tx:get-mismatch", "read:", "ref:"},
		check: func(ctx context.Context, s *lx.StepInfo, rep *lx.Report) {
			lx.CheckCurrent(ctx, s.Ctrl, s.Ref, rep)
			lx.CheckPIT(ctx, s.Ctrl, s.Ref, rep)
			twinLeg(ctx, s, rep, func(c ledgercontroller.Controller, sub *lx.Report) {
				tw := &lx.Report{}
				lx.CheckCurrent(ctx, c, s.Ref, tw)
				lx.CheckPIT(ctx, c, s.Ref, tw)
				// root cause known on the unchanged tree (known_findings.json): importing a
				// DELETE_METADATA log of an ACCOUNT dates the new revision at the time of the
				// import (store.DeleteAccountMetadata takes no date), not at the log's date.
				// Structural precondition: the history holds a committed account-metadata
				// deletion; observable: a point-in-time account-metadata mismatch on the twin.
				deleted := false
				for _, op := range s.Path {
					if op.Kind == "delaccmeta" {
						for _, l := range s.Ref.Logs {
							if l.Type == "DELETE_METADATA" {
								deleted = true
							}
						}
					}
				}
				for _, m := range tw.Items {
					sig := m.Sig
					if deleted && strings.HasPrefix(sig, "pit:acc:metadata") {
						sig += ":after-account-metadata-deletion"
					}
					sub.Add(sig, "%s", m.What)
				}
			})
		},
		need: []string{"txmeta:ok", "accmeta:ok", "deltxmeta:ok", "delaccmeta:ok", "script:ok"},
		rule: "for each of the 4 combinations of ACCOUNT_/TRANSACTION_METADATA_HISTORY: every sequence of length<=depth over metadata at creation, set_tx_meta/set_account_meta in scripts, AccountMetadata parameter, save/delete on accounts and transactions, metadata-only accounts, revert with metadata; after each sequence current metadata == last-write-wins fold minus deleted keys, and a read at every recorded instant returns the revision at that instant when the corresponding feature is SYNC, the current metadata when it is DISABLED",
	})
	registerSeq(seqCheck{
		id: "C08", quick: 100 * time.Second, thor: 15 * time.Minute, depthQ: 3, depthT: 4,
		alphabet: append(append(append([]lx.Op{}, coreAlphabet()...), metaAlphabet()[9:11]...), metaOnlyOps()...), restart: false,
		sigs: []string{"journal:", "log:count", "log:order", "log:id", "read:", "ref:"},
		check: func(ctx context.Context, s *lx.StepInfo, rep *lx.Report) {
			lx.CheckJournal(ctx, s, rep)
			lx.CheckCurrent(ctx, s.Ctrl, s.Ref, rep)
		},
		need: []string{"post:ok", "revert:ok", "script:ok", "txmeta:ok", "accmeta:ok", "post:insufficient_funds"},
		conc: c08Conc, concBoundQ: 2, concBoundT: -1,
		rule: "sequential half: every sequence of length<=depth over all write kinds plus dry runs and failing writes (every read API runs after each sequence, before the log count is taken); after each sequence the last operation appended exactly 1 log if it was a successful non-dry-run write and 0 otherwise, log ids strictly increase, and a ledger rebuilt from the log payloads alone (transactions, revert marks, accounts, metadata, volumes) equals what every read API returns. The concurrent half (ids vs commit order) is the K2 scenario set.",
	})
}
