package props

import (
	"context"
	"fmt"
	"runtime"
	"runtime/debug"
	"sort"
	"strconv"
	"strings"
	"sync"
	"sync/atomic"

	ledger "github.com/formancehq/ledger/internal"
	ledgercontroller "github.com/formancehq/ledger/internal/controller/ledger"
	"github.com/formancehq/ledger/verifh/ev"
	"github.com/formancehq/ledger/verifh/lx"
	"github.com/formancehq/ledger/verifh/pgsim"
	"github.com/formancehq/ledger/verifh/pimport"
	"github.com/formancehq/ledger/verifh/world"
)

// ---------------------------------------------------------------------------------
// C34, sequential half: HOW a HASH_LOGS=ASYNC ledger got its logs.
//
// The K2 scenarios of c34.go all start from a ledger that regular writes already moved
// to `in-use`. The property quantifies over histories: the committed logs of a ledger
// may also come from Import (which leaves the ledger `initializing`), from bulks, or
// not exist at all, and the builder (AsyncBlockRunner.run: list the ASYNC ledgers, page
// by page, call create_blocks for each) must bring ANY of them to the state the oracle
// demands. Two bounded-exhaustive spaces:
//
//   - histories: every sequence of <= depth steps over the alphabet
//     {import, write, atomic-bulk, bulk, build, dry-run, failing-atomic-bulk,
//     retried-write} applied to a pristine ledger, times every max block size of a menu;
//     then a final builder run and the block oracle. The last three steps BURN log ids:
//     InsertLog draws the id with nextval, which no rollback ever gives back, so the
//     committed ids of a ledger are increasing but NOT dense. A dry run burns one id, the
//     failing atomic bulk two (two elements reach InsertLog, the third one fails), the
//     retried write one (first attempt aborted on its log INSERT, redone by the ledger's
//     retry loop) before committing the next one: within the depth the histories hold
//     holes of 1, 2, 3.. unused ids before, between and after committed logs and builder
//     runs, smaller than, equal to and larger than the max block size;
//   - fleet: one system holding more ASYNC ledgers than one page of the builder's ledger
//     listing, spread over two buckets, one ledger per distinct start state (cycled),
//     plus a HASH_LOGS=SYNC ledger; ONE builder run; the block oracle on every ASYNC
//     ledger.
// ---------------------------------------------------------------------------------

const (
	c34Import = "import"
	c34Write  = "write"
	c34Atomic = "atomic-bulk"
	c34Bulk   = "bulk"
	c34Build  = "build"
	// id burners (see the header)
	c34Dry        = "dry-run"
	c34FailAtomic = "failing-atomic-bulk"
	c34Retried    = "retried-write"
)

// c34Alphabet is ordered simplest first; the id burners come last.
var c34Alphabet = []string{c34Import, c34Write, c34Atomic, c34Bulk, c34Build, c34Dry, c34FailAtomic, c34Retried}

// c34BurnsOnly: steps that commit nothing whatever happens (they are no fill path).
var c34BurnsOnly = map[string]bool{c34Dry: true, c34FailAtomic: true}

// c34Burners: every step meant to leave unused log ids behind.
var c34Burners = []string{c34Dry, c34FailAtomic, c34Retried}

// c34SourceLogs exports the logs of a small source ledger (every log type the default
// write alphabet produces: two new transactions, transaction and account metadata, a
// revert). They are what `import` feeds to the real Import.
func c34SourceLogs(ctx context.Context) ([]ledger.Log, error) {
	pg, _, err := baseState([]lx.LedgerSpec{{Name: "src"}}, []lx.Op{
		post("fund-a", p("world", "a", "USD", "5")),
		post("a>c", p("a", "c", "USD", "1")),
		{Kind: "txmeta", Name: "txmeta1", TxID: 1, Meta: map[string]string{"k": "v"}},
		{Kind: "accmeta", Name: "accmeta-q", Address: "q", Meta: map[string]string{"k": "v"}},
		{Kind: "revert", Name: "revert2", TxID: 2},
	})
	if err != nil {
		return nil, err
	}
	w := world.Attach(pg)
	defer w.Close()
	c, err := w.Sys.GetLedgerController(ctx, "src")
	if err != nil {
		return nil, err
	}
	var logs []ledger.Log
	err = c.Export(ctx, ledgercontroller.ExportWriterFn(func(_ context.Context, l ledger.Log) error {
		logs = append(logs, l)
		return nil
	}))
	if err != nil {
		return nil, err
	}
	if len(logs) != 5 {
		return nil, fmt.Errorf("source ledger exported %d logs, 5 expected", len(logs))
	}
	return logs, nil
}

// c34Step applies one step of a history to ledger name through a controller resolved for
// that step (as one HTTP request has). ok=false: the request was rejected (an import on
// a ledger that is not pristine...), the history goes on. For failing-atomic-bulk ok
// means that the bulk failed as a whole, as intended.
func c34Step(ctx context.Context, w *world.World, name, step string, src []ledger.Log, maxBlock int) (ok bool, err error) {
	if step == c34Build {
		if err := runBlockBuilder(ctx, w, maxBlock); err != nil {
			return false, fmt.Errorf("builder run failed: %w", err)
		}
		return true, nil
	}
	c, err := w.Sys.GetLedgerController(ctx, name)
	if err != nil {
		return false, err
	}
	engine := func(e error) error {
		if e != nil && (lx.Classify(e) == "ENGINE" || strings.Contains(e.Error(), "pgsim:")) {
			return e
		}
		return nil
	}
	switch step {
	case c34Import:
		ch := make(chan ledger.Log, len(src))
		for _, l := range src {
			ch <- l
		}
		close(ch)
		e := c.Import(ctx, ch)
		return e == nil, engine(e)
	case c34Write:
		out := lx.Apply(ctx, c, post("w", p("world", "w", "USD", "3")))
		return out.OK(), engine(out.Err)
	case c34Atomic, c34Bulk:
		ops := []lx.Op{
			post("b1", p("world", "b", "USD", "2")),
			{Kind: "accmeta", Name: "accmeta-b", Address: "b", Meta: map[string]string{"bulk": step}},
		}
		bo, e := pimport.RunBulkOps(ctx, c, step == c34Atomic, ops)
		if e != nil {
			return false, e
		}
		if e := engine(bo.RunErr); e != nil {
			return false, e
		}
		for _, ee := range bo.ElemErr {
			if e := engine(ee); e != nil {
				return false, e
			}
		}
		return bo.AllOK, nil
	case c34Dry:
		// runs the whole write, log INSERT included, then rolls back: one id burnt
		out := lx.Apply(ctx, c, lx.Op{Kind: "post", Name: "dry", Postings: []lx.P{p("world", "w", "USD", "3")}, DryRun: true})
		return out.OK(), engine(out.Err)
	case c34FailAtomic:
		// two elements insert their log, the third one fails (nothing was ever sent to
		// `nofunds`): the whole bulk is rolled back, two ids burnt
		ops := []lx.Op{
			post("fb1", p("world", "b", "USD", "2")),
			{Kind: "accmeta", Name: "accmeta-fb", Address: "b", Meta: map[string]string{"bulk": step}},
			post("fb-nofunds", p("nofunds", "b", "USD", "1")),
		}
		bo, e := pimport.RunBulkOps(ctx, c, true, ops)
		if e != nil {
			return false, e
		}
		if e := engine(bo.RunErr); e != nil {
			return false, e
		}
		for _, ee := range bo.ElemErr {
			if e := engine(ee); e != nil {
				return false, e
			}
		}
		return !bo.AllOK, nil
	case c34Retried:
		// The first log INSERT of the request is reported as a deadlock victim (40P01) AFTER
		// it ran (pgsim.StmtFault.Late: its nextval is drawn, as when the INSERT waits on the
		// idempotency-key index of an in-progress transaction): the attempt is rolled back,
		// its id burnt, and the ledger's retry loop (forgeLogRetry) redoes the write.
		fired := 0
		logsTable := `INSERT INTO "_default".logs `
		prev := w.Hook
		w.Hook = func(_ context.Context, _ *pgsim.Session, hop, sql string) error {
			if fired == 0 && (hop == "exec" || hop == "query") && strings.HasPrefix(strings.TrimSpace(sql), logsTable) {
				fired++
				return &pgsim.StmtFault{Code: "40P01", Msg: "deadlock detected", Late: true}
			}
			return nil
		}
		out := lx.Apply(ctx, c, post("wr", p("world", "w", "USD", "3")))
		w.Hook = prev
		if e := engine(out.Err); e != nil {
			return false, e
		}
		if fired == 0 {
			return false, fmt.Errorf("retried-write: the write issued no statement starting with %q, no fault was injected", logsTable)
		}
		return out.OK(), nil
	}
	return false, fmt.Errorf("unknown step %q", step)
}

// c34Class names the start state a history produced: the set of fill paths that
// committed logs, in alphabet order ("pristine" when none did).
func c34Class(filled map[string]bool) string {
	var parts []string
	for _, s := range c34Alphabet {
		if filled[s] {
			parts = append(parts, s)
		}
	}
	if len(parts) == 0 {
		return "pristine"
	}
	return strings.Join(parts, "+")
}

type c34Eval struct {
	Viol     [][2]string
	Class    string // fill paths that committed logs
	State    string // _system.ledgers.state when the oracle ran
	Logs     int
	Blocks   int
	Rejected int
	Builds   int // builder runs before the final one
	// id holes: runs of unused log ids that are FOLLOWED by a committed log (the run
	// 1..k before the first committed log included), read off the committed ids
	IDs              []int64
	MaxHole          int  // longest such run
	HoleGE           bool // some run is >= the max block size
	HoleGEAfterBlock bool // ... and it opened after a builder run had already made a block
}

// c34LogIDs: the committed log ids of a ledger of the default bucket, increasing.
func c34LogIDs(ctx context.Context, w *world.World, name string) ([]int64, error) {
	rows, err := lx.RawRows(ctx, w, `select id from "_default".logs where ledger = '`+name+`' order by id`)
	if err != nil {
		return nil, err
	}
	out := make([]int64, 0, len(rows))
	for _, r := range rows {
		n, err := strconv.ParseInt(r[0], 10, 64)
		if err != nil {
			return nil, fmt.Errorf("log id %q: %v", r[0], err)
		}
		out = append(out, n)
	}
	return out, nil
}

// c34HoleTag is the part of a violation signature that tells whether the committed ids
// of the history were dense ("" then).
func (e *c34Eval) c34HoleTag() string {
	switch {
	case e.HoleGE:
		return "id-hole-ge-block-size:"
	case e.MaxHole > 0:
		return "id-hole-lt-block-size:"
	}
	return ""
}

func c34LedgerState(ctx context.Context, w *world.World, name string) (string, error) {
	rows, err := lx.RawRows(ctx, w, `select state from _system.ledgers where name = '`+name+`'`)
	if err != nil {
		return "", err
	}
	if len(rows) != 1 {
		return "", fmt.Errorf("ledger %s: %d rows in _system.ledgers", name, len(rows))
	}
	return rows[0][0], nil
}

// c34RunHistory executes one history on a clone of base, then the final builder run and
// the oracle. A non-nil error is a harness/engine problem, never a verdict.
func c34RunHistory(ctx context.Context, base *pgsim.DB, src []ledger.Log, steps []string, maxBlock int) (*c34Eval, error) {
	w := world.Attach(base.Clone())
	defer w.Close()
	res := &c34Eval{}
	filled := map[string]bool{}
	prevMax := int64(0) // highest committed id before the step
	blockMade := false  // a builder run inside the history found committed logs
	for i, s := range steps {
		ok, err := c34Step(ctx, w, "l1", s, src, maxBlock)
		if err != nil {
			return nil, fmt.Errorf("step %d (%s): %w", i, s, err)
		}
		switch {
		case s == c34Build:
			res.Builds++
			if prevMax > 0 {
				blockMade = true
			}
		case c34BurnsOnly[s]:
			if !ok {
				res.Rejected++
			}
		case ok:
			filled[s] = true
		default:
			res.Rejected++
		}
		if s == c34Build {
			continue
		}
		ids, err := c34LogIDs(ctx, w, "l1")
		if err != nil {
			return nil, fmt.Errorf("step %d (%s): reading log ids: %w", i, s, err)
		}
		for _, id := range ids {
			if id <= prevMax {
				continue
			}
			if hole := int(id - prevMax - 1); hole > 0 {
				if hole > res.MaxHole {
					res.MaxHole = hole
				}
				if hole >= maxBlock {
					res.HoleGE = true
					if blockMade {
						res.HoleGEAfterBlock = true
					}
				}
			}
			prevMax = id
		}
		res.IDs = ids
	}
	res.Class = c34Class(filled)
	if err := runBlockBuilder(ctx, w, maxBlock); err != nil {
		return nil, fmt.Errorf("final builder run failed: %w", err)
	}
	st, err := c34LedgerState(ctx, w, "l1")
	if err != nil {
		return nil, err
	}
	res.State = st
	res.Viol, res.Logs, res.Blocks = blockOracleOn(ctx, w, "_default", "l1", maxBlock)
	for _, v := range res.Viol {
		if strings.HasPrefix(v[0], "read:") {
			return nil, fmt.Errorf("oracle read failed: %s", v[1])
		}
	}
	return res, nil
}

// c34Histories lists every step sequence of length <= depth, shortest first, in
// alphabet order (simplest first).
func c34Histories(depth int) [][]string {
	out := [][]string{{}}
	level := [][]string{{}}
	for d := 0; d < depth; d++ {
		var next [][]string
		for _, h := range level {
			for _, s := range c34Alphabet {
				next = append(next, append(append([]string(nil), h...), s))
			}
		}
		out = append(out, next...)
		level = next
	}
	return out
}

// ---------- fleet ----------

type c34FleetLedger struct {
	Name   string
	Bucket string
	Steps  []string
}

// c34FleetMenu: the distinct start states, simplest first.
var c34FleetMenu = [][]string{
	{c34Import},           // imported and untouched: committed logs, still `initializing`
	{c34Write},            // regular writes
	{c34Atomic},           // written through an atomic bulk only
	{},                    // pristine
	{c34Import, c34Write}, // imported then written
	{c34Bulk},             // written through a non-atomic bulk only
}

const c34FleetSize = 17 // > one page (15) of the builder's ledger listing

func c34Fleet() []c34FleetLedger {
	var out []c34FleetLedger
	for i := 0; i < c34FleetSize; i++ {
		b := "_default"
		if i%2 == 1 {
			b = "b2"
		}
		out = append(out, c34FleetLedger{Name: fmt.Sprintf("f%02d", i+1), Bucket: b, Steps: c34FleetMenu[i%len(c34FleetMenu)]})
	}
	return out
}

// c34FleetBase boots the fleet (plus a HASH_LOGS=SYNC ledger the builder must leave to
// the synchronous hashing) and brings every ledger to its start state. No builder ran.
func c34FleetBase(ctx context.Context, src []ledger.Log) (*pgsim.DB, []c34FleetLedger, error) {
	fleet := c34Fleet()
	specs := []lx.LedgerSpec{{Name: "sync1"}}
	for _, f := range fleet {
		specs = append(specs, lx.LedgerSpec{Name: f.Name, Bucket: f.Bucket, Features: map[string]string{"HASH_LOGS": "ASYNC"}})
	}
	pg, err := lx.Boot(ctx, specs)
	if err != nil {
		return nil, nil, err
	}
	w := world.Attach(pg)
	defer w.Close()
	if ok, err := c34Step(ctx, w, "sync1", c34Write, nil, 0); err != nil || !ok {
		return nil, nil, fmt.Errorf("fleet: write on sync1 failed: %v", err)
	}
	for _, f := range fleet {
		for _, s := range f.Steps {
			ok, err := c34Step(ctx, w, f.Name, s, src, 0)
			if err != nil {
				return nil, nil, fmt.Errorf("fleet: %s on %s: %w", s, f.Name, err)
			}
			if !ok {
				return nil, nil, fmt.Errorf("fleet: %s on %s was rejected", s, f.Name)
			}
		}
	}
	return pg, fleet, nil
}

type c34FleetEval struct {
	Ledger c34FleetLedger
	c34Eval
}

// c34RunFleet: ONE run of the real builder over the whole fleet, then the oracle on
// every ASYNC ledger.
func c34RunFleet(ctx context.Context, base *pgsim.DB, fleet []c34FleetLedger, maxBlock int) ([]c34FleetEval, error) {
	w := world.Attach(base.Clone())
	defer w.Close()
	if err := runBlockBuilder(ctx, w, maxBlock); err != nil {
		return nil, fmt.Errorf("fleet builder run failed: %w", err)
	}
	var out []c34FleetEval
	for _, f := range fleet {
		e := c34FleetEval{Ledger: f}
		filled := map[string]bool{}
		for _, s := range f.Steps {
			filled[s] = true
		}
		e.Class = c34Class(filled)
		st, err := c34LedgerState(ctx, w, f.Name)
		if err != nil {
			return nil, err
		}
		e.State = st
		e.Viol, e.Logs, e.Blocks = blockOracleOn(ctx, w, f.Bucket, f.Name, maxBlock)
		for _, v := range e.Viol {
			if strings.HasPrefix(v[0], "read:") {
				return nil, fmt.Errorf("oracle read failed on %s: %s", f.Name, v[1])
			}
		}
		out = append(out, e)
	}
	return out, nil
}

// ---------- the sequential part of the check ----------

type c34SeqReplay struct {
	Kind      string   `json:"kind"` // "history" | "fleet"
	Steps     []string `json:"steps,omitempty"`
	BlockSize int      `json:"max_block_size"`
	Ledger    string   `json:"ledger,omitempty"`
}

func c34Sequential(r *ev.Run) (map[string]any, bool) {
	ctx := context.Background()
	depth := ev.Pick(r, 3, 4)
	sizes := ev.Pick(r, []int{1, 2, 10}, []int{1, 2, 3, 10})
	cov := map[string]any{"alphabet": c34Alphabet, "depth": depth, "max_block_sizes": sizes}

	src, err := c34SourceLogs(ctx)
	if err != nil {
		r.EngineError("C34 sequential: source logs: " + err.Error())
		return cov, false
	}
	base, err := lx.Boot(ctx, []lx.LedgerSpec{{Name: "l1", Features: map[string]string{"HASH_LOGS": "ASYNC"}}})
	if err != nil {
		r.EngineError("C34 sequential: boot: " + err.Error())
		return cov, false
	}

	// ----- imports whose ids are not in stream order, builder between two of their commits
	dcov, dcomplete := c34DisorderedImports(r, base, src)
	cov["disordered_imports"] = dcov
	if r.HasEngineError() {
		return cov, false
	}

	// ----- histories
	hists := c34Histories(depth)
	type task struct {
		steps []string
		size  int
	}
	var tasks []task
	for _, h := range hists {
		for _, sz := range sizes {
			tasks = append(tasks, task{h, sz})
		}
	}
	results := make([]*c34Eval, len(tasks))
	var next atomic.Int64
	var stopped atomic.Bool
	var wg sync.WaitGroup
	for wi := 0; wi < runtime.NumCPU(); wi++ {
		wg.Add(1)
		go func() {
			defer wg.Done()
			for {
				i := int(next.Add(1) - 1)
				if i >= len(tasks) {
					return
				}
				if r.Expired() || r.HasEngineError() {
					stopped.Store(true)
					return
				}
				func() {
					defer func() {
						if p := recover(); p != nil {
							r.EngineError(fmt.Sprintf("C34 sequential: panic in history %v size %d: %v\n%s", tasks[i].steps, tasks[i].size, p, debug.Stack()))
						}
					}()
					res, err := c34RunHistory(ctx, base, src, tasks[i].steps, tasks[i].size)
					if err != nil {
						r.EngineError(fmt.Sprintf("C34 sequential: history %v size %d: %v", tasks[i].steps, tasks[i].size, err))
						return
					}
					results[i] = res
				}()
			}
		}()
	}
	wg.Wait()
	complete := !stopped.Load() && !r.HasEngineError() && dcomplete

	type classStat struct {
		Evaluations int            `json:"evaluations"`
		States      map[string]int `json:"ledger_state_at_oracle"`
		MaxLogs     int            `json:"max_committed_logs"`
		MaxBlocks   int            `json:"max_blocks"`
		MultiBlock  int            `json:"evaluations_with_2_or_more_chained_blocks"`
		Silent      int            `json:"oracle_silent"`
	}
	classes := map[string]*classStat{}
	var evaluated, rejectedSteps, midBuilds int
	var sample, holeSample any
	// id holes (runs of unused ids followed by a committed log), per max block size
	type holeStat struct {
		WithHole     int         `json:"evaluations_with_an_id_hole"`
		HoleLT       int         `json:"evaluations_with_every_hole_below_block_size"`
		HoleGE       int         `json:"evaluations_with_a_hole_ge_block_size"`
		HoleGEBlock  int         `json:"of_which_the_hole_opened_after_a_builder_run_made_a_block"`
		HoleGESilent int         `json:"evaluations_with_a_hole_ge_block_size_oracle_silent"`
		HoleSizes    map[int]int `json:"evaluations_by_longest_hole"`
	}
	holes := map[int]*holeStat{}
	for _, sz := range sizes {
		holes[sz] = &holeStat{HoleSizes: map[int]int{}}
	}
	// a burner kind is credited with a hole when it is the only burner kind of the history
	burnerHoles := map[string]int{}
	soleBurner := func(steps []string) string {
		kind := ""
		for _, st := range steps {
			for _, b := range c34Burners {
				if st == b {
					if kind != "" && kind != b {
						return ""
					}
					kind = b
				}
			}
		}
		return kind
	}
	for i, res := range results {
		if res == nil {
			continue
		}
		evaluated++
		rejectedSteps += res.Rejected
		midBuilds += res.Builds
		cs := classes[res.Class]
		if cs == nil {
			cs = &classStat{States: map[string]int{}}
			classes[res.Class] = cs
		}
		cs.Evaluations++
		cs.States[res.State]++
		if res.Logs > cs.MaxLogs {
			cs.MaxLogs = res.Logs
		}
		if res.Blocks > cs.MaxBlocks {
			cs.MaxBlocks = res.Blocks
		}
		if res.Blocks >= 2 {
			cs.MultiBlock++
		}
		if len(res.Viol) == 0 {
			cs.Silent++
		}
		if res.MaxHole > 0 {
			hs := holes[tasks[i].size]
			hs.WithHole++
			hs.HoleSizes[res.MaxHole]++
			if res.HoleGE {
				hs.HoleGE++
				if res.HoleGEAfterBlock {
					hs.HoleGEBlock++
				}
				if len(res.Viol) == 0 {
					hs.HoleGESilent++
				}
			} else {
				hs.HoleLT++
			}
			if k := soleBurner(tasks[i].steps); k != "" {
				burnerHoles[k]++
			}
			if holeSample == nil && res.HoleGEAfterBlock && len(res.Viol) == 0 {
				holeSample = map[string]any{"history": tasks[i].steps, "max_block_size": tasks[i].size, "committed_log_ids": res.IDs, "longest_id_hole": res.MaxHole, "blocks": res.Blocks}
			}
		}
		for _, v := range res.Viol {
			r.Violation("C34:history:"+res.Class+":"+res.State+":"+res.c34HoleTag()+v[0],
				fmt.Sprintf("[history %v on a pristine HASH_LOGS=ASYNC ledger, max block size %d, ledger state %s, committed log ids %v (longest run of unused ids before a committed log: %d), %d blocks after the final builder run] %s", tasks[i].steps, tasks[i].size, res.State, res.IDs, res.MaxHole, res.Blocks, v[1]),
				c34SeqReplay{Kind: "history", Steps: tasks[i].steps, BlockSize: tasks[i].size})
		}
		if sample == nil && res.Class == c34Import && len(res.Viol) == 0 {
			sample = map[string]any{"history": tasks[i].steps, "max_block_size": tasks[i].size, "ledger_state": res.State, "committed_logs": res.Logs, "blocks": res.Blocks}
		}
	}
	cov["histories"] = len(hists)
	cov["evaluations"] = evaluated
	cov["planned_evaluations"] = len(tasks)
	cov["rejected_steps"] = rejectedSteps
	cov["builder_runs_inside_histories"] = midBuilds
	cov["start_state_classes"] = classes
	if sample != nil {
		cov["sample"] = sample
	}
	cov["id_burning_steps"] = map[string]string{
		c34Dry:        "dryRun=true write: the log INSERT runs, the transaction is rolled back (1 id)",
		c34FailAtomic: "atomic bulk of 3 elements, the third fails with insufficient funds after the first two inserted their log: the bulk is rolled back (2 ids)",
		c34Retried:    "write whose first log INSERT is reported 40P01 after it ran (nextval drawn), attempt rolled back and redone by the ledger's retry loop (1 id, then a committed log)",
	}
	holesCov := map[string]any{}
	for _, sz := range sizes {
		holesCov[strconv.Itoa(sz)] = holes[sz]
	}
	cov["id_holes_by_max_block_size"] = holesCov
	cov["id_holes_by_sole_burner_kind"] = burnerHoles
	if holeSample != nil {
		cov["id_hole_sample"] = holeSample
	}

	// ----- fleet
	fleetCov := map[string]any{"ledgers": c34FleetSize, "buckets": 2, "start_states": c34FleetMenu}
	cov["fleet"] = fleetCov
	fleetDone := false
	fleetInitWithBlocks := 0
	if complete && !r.Expired() {
		fbase, fleet, err := c34FleetBase(ctx, src)
		if err != nil {
			r.EngineError("C34 sequential: " + err.Error())
			return cov, false
		}
		fleetDone = true
		perLedger := map[string]any{}
		for _, sz := range sizes {
			evs, err := c34RunFleet(ctx, fbase, fleet, sz)
			if err != nil {
				r.EngineError("C34 sequential: " + err.Error())
				return cov, false
			}
			for _, e := range evs {
				if sz == sizes[0] {
					perLedger[e.Ledger.Name] = map[string]any{"bucket": e.Ledger.Bucket, "start_state": e.Class, "ledger_state": e.State, "committed_logs": e.Logs, "blocks": e.Blocks}
				}
				if e.State == "initializing" && e.Logs > 0 && e.Blocks > 0 {
					fleetInitWithBlocks++
				}
				for _, v := range e.Viol {
					r.Violation("C34:fleet:"+e.Class+":"+e.State+":"+v[0],
						fmt.Sprintf("[fleet of %d HASH_LOGS=ASYNC ledgers over 2 buckets, one builder run, max block size %d; ledger %s (bucket %s, start state %s, ledger state %s, %d committed logs, %d blocks)] %s", c34FleetSize, sz, e.Ledger.Name, e.Ledger.Bucket, e.Class, e.State, e.Logs, e.Blocks, v[1]),
						c34SeqReplay{Kind: "fleet", BlockSize: sz, Ledger: e.Ledger.Name})
				}
			}
		}
		fleetCov["evaluations"] = len(sizes) * c34FleetSize
		fleetCov["per_ledger_at_first_block_size"] = perLedger
	} else {
		complete = false
	}

	// ----- vacuity guards: the start-state dimension must really have been walked
	if complete && r.ViolationCount() == 0 {
		need := func(class, state string) {
			cs := classes[class]
			switch {
			case cs == nil || cs.States[state] == 0:
				r.EngineError(fmt.Sprintf("vacuous: no history ended in start state %q with the ledger %s", class, state))
			case class != "pristine" && (cs.MaxLogs == 0 || cs.MultiBlock == 0):
				r.EngineError(fmt.Sprintf("vacuous: start state %q never gave committed logs hashed into >= 2 chained blocks", class))
			}
		}
		need("pristine", "initializing")
		need(c34Import, "initializing") // imported and untouched
		need(c34Import+"+"+c34Write, "in-use")
		need(c34Write, "in-use")
		need(c34Atomic, "in-use") // written through an atomic bulk only
		need(c34Bulk, "in-use")
		if midBuilds == 0 {
			r.EngineError("vacuous: no history ran the builder between two fills")
		}
		if rejectedSteps == 0 {
			r.EngineError("vacuous: no import was ever rejected (import on a written ledger is part of the alphabet)")
		}
		// the committed ids must really have had holes: every burner kind opened one, and
		// for every block size a burnt run between two committed logs can reach within the
		// depth (write, failing-atomic-bulk x (depth-2), retried-write: 2*(depth-2)+1 ids;
		// runs before the first committed log get longer but are not counted on)
		// some history had a hole >= the block size FOLLOWED by committed logs and a builder
		// run; and some such hole opened after a builder run had already made a block
		for _, b := range c34Burners {
			if burnerHoles[b] == 0 {
				r.EngineError(fmt.Sprintf("vacuous: no history whose only id-burning step kind is %q has an unused log id before a committed log", b))
			}
		}
		reach := 2*(depth-2) + 1
		afterBlock := 0
		for _, sz := range sizes {
			hs := holes[sz]
			afterBlock += hs.HoleGEBlock
			if sz > reach {
				continue
			}
			if hs.HoleGE == 0 {
				r.EngineError(fmt.Sprintf("vacuous: max block size %d: no history has >= %d consecutive unused log ids followed by a committed log and a builder run", sz, sz))
			}
			if sz > 1 && hs.HoleLT == 0 {
				r.EngineError(fmt.Sprintf("vacuous: max block size %d: no history has a hole of unused log ids shorter than the block size", sz))
			}
		}
		if afterBlock == 0 {
			r.EngineError("vacuous: no history has a hole >= the block size, followed by committed logs, that opened after a builder run had made a block")
		}
		if fleetDone && fleetInitWithBlocks == 0 {
			r.EngineError("vacuous: the fleet holds no `initializing` ledger with committed logs and blocks")
		}
	}
	names := make([]string, 0, len(classes))
	for k := range classes {
		names = append(names, k)
	}
	sort.Strings(names)
	cov["start_state_class_names"] = names
	return cov, complete
}

// c34ReplaySequential re-executes a recorded sequential case.
func c34ReplaySequential(rp c34SeqReplay) ([][2]string, error) {
	ctx := context.Background()
	src, err := c34SourceLogs(ctx)
	if err != nil {
		return nil, err
	}
	switch rp.Kind {
	case "history":
		base, err := lx.Boot(ctx, []lx.LedgerSpec{{Name: "l1", Features: map[string]string{"HASH_LOGS": "ASYNC"}}})
		if err != nil {
			return nil, err
		}
		res, err := c34RunHistory(ctx, base, src, rp.Steps, rp.BlockSize)
		if err != nil {
			return nil, err
		}
		return res.Viol, nil
	case "fleet":
		fbase, fleet, err := c34FleetBase(ctx, src)
		if err != nil {
			return nil, err
		}
		evs, err := c34RunFleet(ctx, fbase, fleet, rp.BlockSize)
		if err != nil {
			return nil, err
		}
		var out [][2]string
		for _, e := range evs {
			for _, v := range e.Viol {
				out = append(out, [2]string{v[0], e.Ledger.Name + ": " + v[1]})
			}
		}
		return out, nil
	}
	return nil, fmt.Errorf("unknown sequential replay kind %q", rp.Kind)
}
