package props

import (
	"context"
	"fmt"
	"runtime"
	"runtime/debug"
	"sort"
	"strings"
	"sync"
	"sync/atomic"

	ledger "github.com/formancehq/ledger/internal"
	ledgercontroller "github.com/formancehq/ledger/internal/controller/ledger"
	"github.com/formancehq/ledger/verifh/ev"
	"github.com/formancehq/ledger/verifh/lx"
	"github.com/formancehq/ledger/verifh/pgsim"
	"github.com/formancehq/ledger/verifh/pimport"
	"github.com/formancehq/ledger/verifh/world"
)

// ---------------------------------------------------------------------------------
// C34, sequential half: HOW a HASH_LOGS=ASYNC ledger got its logs.
//
// The K2 scenarios of c34.go all start from a ledger that regular writes already moved
// to `in-use`. The property quantifies over histories: the committed logs of a ledger
// may also come from Import (which leaves the ledger `initializing`), from bulks, or
// not exist at all, and the builder (AsyncBlockRunner.run: list the ASYNC ledgers, page
// by page, call create_blocks for each) must bring ANY of them to the state the oracle
// demands. Two bounded-exhaustive spaces:
//
//   - histories: every sequence of <= depth steps over the alphabet
//     {import, write, atomic-bulk, bulk, build} applied to a pristine ledger, times
//     every max block size of a menu; then a final builder run and the block oracle;
//   - fleet: one system holding more ASYNC ledgers than one page of the builder's ledger
//     listing, spread over two buckets, one ledger per distinct start state (cycled),
//     plus a HASH_LOGS=SYNC ledger; ONE builder run; the block oracle on every ASYNC
//     ledger.
// ---------------------------------------------------------------------------------

const (
	c34Import = "import"
	c34Write  = "write"
	c34Atomic = "atomic-bulk"
	c34Bulk   = "bulk"
	c34Build  = "build"
)

// c34Alphabet is ordered simplest first.
var c34Alphabet = []string{c34Import, c34Write, c34Atomic, c34Bulk, c34Build}

// c34SourceLogs exports the logs of a small source ledger (every log type the default
// write alphabet produces: two new transactions, transaction and account metadata, a
// revert). They are what `import` feeds to the real Import.
func c34SourceLogs(ctx context.Context) ([]ledger.Log, error) {
	pg, _, err := baseState([]lx.LedgerSpec{{Name: "src"}}, []lx.Op{
		post("fund-a", p("world", "a", "USD", "5")),
		post("a>c", p("a", "c", "USD", "1")),
		{Kind: "txmeta", Name: "txmeta1", TxID: 1, Meta: map[string]string{"k": "v"}},
		{Kind: "accmeta", Name: "accmeta-q", Address: "q", Meta: map[string]string{"k": "v"}},
		{Kind: "revert", Name: "revert2", TxID: 2},
	})
	if err != nil {
		return nil, err
	}
	w := world.Attach(pg)
	defer w.Close()
	c, err := w.Sys.GetLedgerController(ctx, "src")
	if err != nil {
		return nil, err
	}
	var logs []ledger.Log
	err = c.Export(ctx, ledgercontroller.ExportWriterFn(func(_ context.Context, l ledger.Log) error {
		logs = append(logs, l)
		return nil
	}))
	if err != nil {
		return nil, err
	}
	if len(logs) != 5 {
		return nil, fmt.Errorf("source ledger exported %d logs, 5 expected", len(logs))
	}
	return logs, nil
}

// c34Step applies one step of a history to ledger name through a controller resolved for
// that step (as one HTTP request has). ok=false: the request was rejected (an import on
// a ledger that is not pristine...), the history goes on.
func c34Step(ctx context.Context, w *world.World, name, step string, src []ledger.Log, maxBlock int) (ok bool, err error) {
	if step == c34Build {
		if err := runBlockBuilder(ctx, w, maxBlock); err != nil {
			return false, fmt.Errorf("builder run failed: %w", err)
		}
		return true, nil
	}
	c, err := w.Sys.GetLedgerController(ctx, name)
	if err != nil {
		return false, err
	}
	engine := func(e error) error {
		if e != nil && (lx.Classify(e) == "ENGINE" || strings.Contains(e.Error(), "pgsim:")) {
			return e
		}
		return nil
	}
	switch step {
	case c34Import:
		ch := make(chan ledger.Log, len(src))
		for _, l := range src {
			ch <- l
		}
		close(ch)
		e := c.Import(ctx, ch)
		return e == nil, engine(e)
	case c34Write:
		out := lx.Apply(ctx, c, post("w", p("world", "w", "USD", "3")))
		return out.OK(), engine(out.Err)
	case c34Atomic, c34Bulk:
		ops := []lx.Op{
			post("b1", p("world", "b", "USD", "2")),
			{Kind: "accmeta", Name: "accmeta-b", Address: "b", Meta: map[string]string{"bulk": step}},
		}
		bo, e := pimport.RunBulkOps(ctx, c, step == c34Atomic, ops)
		if e != nil {
			return false, e
		}
		if e := engine(bo.RunErr); e != nil {
			return false, e
		}
		for _, ee := range bo.ElemErr {
			if e := engine(ee); e != nil {
				return false, e
			}
		}
		return bo.AllOK, nil
	}
	return false, fmt.Errorf("unknown step %q", step)
}

// c34Class names the start state a history produced: the set of fill paths that
// committed logs, in alphabet order ("pristine" when none did).
func c34Class(filled map[string]bool) string {
	var parts []string
	for _, s := range c34Alphabet {
		if filled[s] {
			parts = append(parts, s)
		}
	}
	if len(parts) == 0 {
		return "pristine"
	}
	return strings.Join(parts, "+")
}

type c34Eval struct {
	Viol     [][2]string
	Class    string // fill paths that committed logs
	State    string // _system.ledgers.state when the oracle ran
	Logs     int
	Blocks   int
	Rejected int
	Builds   int // builder runs before the final one
}

func c34LedgerState(ctx context.Context, w *world.World, name string) (string, error) {
	rows, err := lx.RawRows(ctx, w, `select state from _system.ledgers where name = '`+name+`'`)
	if err != nil {
		return "", err
	}
	if len(rows) != 1 {
		return "", fmt.Errorf("ledger %s: %d rows in _system.ledgers", name, len(rows))
	}
	return rows[0][0], nil
}

// c34RunHistory executes one history on a clone of base, then the final builder run and
// the oracle. A non-nil error is a harness/engine problem, never a verdict.
func c34RunHistory(ctx context.Context, base *pgsim.DB, src []ledger.Log, steps []string, maxBlock int) (*c34Eval, error) {
	w := world.Attach(base.Clone())
	defer w.Close()
	res := &c34Eval{}
	filled := map[string]bool{}
	for i, s := range steps {
		ok, err := c34Step(ctx, w, "l1", s, src, maxBlock)
		if err != nil {
			return nil, fmt.Errorf("step %d (%s): %w", i, s, err)
		}
		switch {
		case s == c34Build:
			res.Builds++
		case ok:
			filled[s] = true
		default:
			res.Rejected++
		}
	}
	res.Class = c34Class(filled)
	if err := runBlockBuilder(ctx, w, maxBlock); err != nil {
		return nil, fmt.Errorf("final builder run failed: %w", err)
	}
	st, err := c34LedgerState(ctx, w, "l1")
	if err != nil {
		return nil, err
	}
	res.State = st
	res.Viol, res.Logs, res.Blocks = blockOracleOn(ctx, w, "_default", "l1", maxBlock)
	for _, v := range res.Viol {
		if strings.HasPrefix(v[0], "read:") {
			return nil, fmt.Errorf("oracle read failed: %s", v[1])
		}
	}
	return res, nil
}

// c34Histories lists every step sequence of length <= depth, shortest first, in
// alphabet order (simplest first).
func c34Histories(depth int) [][]string {
	out := [][]string{{}}
	level := [][]string{{}}
	for d := 0; d < depth; d++ {
		var next [][]string
		for _, h := range level {
			for _, s := range c34Alphabet {
				next = append(next, append(append([]string(nil), h...), s))
			}
		}
		out = append(out, next...)
		level = next
	}
	return out
}

// ---------- fleet ----------

type c34FleetLedger struct {
	Name   string
	Bucket string
	Steps  []string
}

// c34FleetMenu: the distinct start states, simplest first.
var c34FleetMenu = [][]string{
	{c34Import},           // imported and untouched: committed logs, still `initializing`
	{c34Write},            // regular writes
	{c34Atomic},           // written through an atomic bulk only
	{},                    // pristine
	{c34Import, c34Write}, // imported then written
	{c34Bulk},             // written through a non-atomic bulk only
}

const c34FleetSize = 17 // > one page (15) of the builder's ledger listing

func c34Fleet() []c34FleetLedger {
	var out []c34FleetLedger
	for i := 0; i < c34FleetSize; i++ {
		b := "_default"
		if i%2 == 1 {
			b = "b2"
		}
		out = append(out, c34FleetLedger{Name: fmt.Sprintf("f%02d", i+1), Bucket: b, Steps: c34FleetMenu[i%len(c34FleetMenu)]})
	}
	return out
}

// c34FleetBase boots the fleet (plus a HASH_LOGS=SYNC ledger the builder must leave to
// the synchronous hashing) and brings every ledger to its start state. No builder ran.
func c34FleetBase(ctx context.Context, src []ledger.Log) (*pgsim.DB, []c34FleetLedger, error) {
	fleet := c34Fleet()
	specs := []lx.LedgerSpec{{Name: "sync1"}}
	for _, f := range fleet {
		specs = append(specs, lx.LedgerSpec{Name: f.Name, Bucket: f.Bucket, Features: map[string]string{"HASH_LOGS": "ASYNC"}})
	}
	pg, err := lx.Boot(ctx, specs)
	if err != nil {
		return nil, nil, err
	}
	w := world.Attach(pg)
	defer w.Close()
	if ok, err := c34Step(ctx, w, "sync1", c34Write, nil, 0); err != nil || !ok {
		return nil, nil, fmt.Errorf("fleet: write on sync1 failed: %v", err)
	}
	for _, f := range fleet {
		for _, s := range f.Steps {
			ok, err := c34Step(ctx, w, f.Name, s, src, 0)
			if err != nil {
				return nil, nil, fmt.Errorf("fleet: %s on %s: %w", s, f.Name, err)
			}
			if !ok {
				return nil, nil, fmt.Errorf("fleet: %s on %s was rejected", s, f.Name)
			}
		}
	}
	return pg, fleet, nil
}

type c34FleetEval struct {
	Ledger c34FleetLedger
	c34Eval
}

// c34RunFleet: ONE run of the real builder over the whole fleet, then the oracle on
// every ASYNC ledger.
func c34RunFleet(ctx context.Context, base *pgsim.DB, fleet []c34FleetLedger, maxBlock int) ([]c34FleetEval, error) {
	w := world.Attach(base.Clone())
	defer w.Close()
	if err := runBlockBuilder(ctx, w, maxBlock); err != nil {
		return nil, fmt.Errorf("fleet builder run failed: %w", err)
	}
	var out []c34FleetEval
	for _, f := range fleet {
		e := c34FleetEval{Ledger: f}
		filled := map[string]bool{}
		for _, s := range f.Steps {
			filled[s] = true
		}
		e.Class = c34Class(filled)
		st, err := c34LedgerState(ctx, w, f.Name)
		if err != nil {
			return nil, err
		}
		e.State = st
		e.Viol, e.Logs, e.Blocks = blockOracleOn(ctx, w, f.Bucket, f.Name, maxBlock)
		for _, v := range e.Viol {
			if strings.HasPrefix(v[0], "read:") {
				return nil, fmt.Errorf("oracle read failed on %s: %s", f.Name, v[1])
			}
		}
		out = append(out, e)
	}
	return out, nil
}

// ---------- the sequential part of the check ----------

type c34SeqReplay struct {
	Kind      string   `json:"kind"` // "history" | "fleet"
	Steps     []string `json:"steps,omitempty"`
	BlockSize int      `json:"max_block_size"`
	Ledger    string   `json:"ledger,omitempty"`
}

func c34Sequential(r *ev.Run) (map[string]any, bool) {
	ctx := context.Background()
	depth := ev.Pick(r, 3, 4)
	sizes := ev.Pick(r, []int{1, 2, 10}, []int{1, 2, 3, 10})
	cov := map[string]any{"alphabet": c34Alphabet, "depth": depth, "max_block_sizes": sizes}

	src, err := c34SourceLogs(ctx)
	if err != nil {
		r.EngineError("C34 sequential: source logs: " + err.Error())
		return cov, false
	}
	base, err := lx.Boot(ctx, []lx.LedgerSpec{{Name: "l1", Features: map[string]string{"HASH_LOGS": "ASYNC"}}})
	if err != nil {
		r.EngineError("C34 sequential: boot: " + err.Error())
		return cov, false
	}

	// ----- histories
	hists := c34Histories(depth)
	type task struct {
		steps []string
		size  int
	}
	var tasks []task
	for _, h := range hists {
		for _, sz := range sizes {
			tasks = append(tasks, task{h, sz})
		}
	}
	results := make([]*c34Eval, len(tasks))
	var next atomic.Int64
	var stopped atomic.Bool
	var wg sync.WaitGroup
	for wi := 0; wi < runtime.NumCPU(); wi++ {
		wg.Add(1)
		go func() {
			defer wg.Done()
			for {
				i := int(next.Add(1) - 1)
				if i >= len(tasks) {
					return
				}
				if r.Expired() || r.HasEngineError() {
					stopped.Store(true)
					return
				}
				func() {
					defer func() {
						if p := recover(); p != nil {
							r.EngineError(fmt.Sprintf("C34 sequential: panic in history %v size %d: %v\n%s", tasks[i].steps, tasks[i].size, p, debug.Stack()))
						}
					}()
					res, err := c34RunHistory(ctx, base, src, tasks[i].steps, tasks[i].size)
					if err != nil {
						r.EngineError(fmt.Sprintf("C34 sequential: history %v size %d: %v", tasks[i].steps, tasks[i].size, err))
						return
					}
					results[i] = res
				}()
			}
		}()
	}
	wg.Wait()
	complete := !stopped.Load() && !r.HasEngineError()

	type classStat struct {
		Evaluations int            `json:"evaluations"`
		States      map[string]int `json:"ledger_state_at_oracle"`
		MaxLogs     int            `json:"max_committed_logs"`
		MaxBlocks   int            `json:"max_blocks"`
		MultiBlock  int            `json:"evaluations_with_2_or_more_chained_blocks"`
		Silent      int            `json:"oracle_silent"`
	}
	classes := map[string]*classStat{}
	var evaluated, rejectedSteps, midBuilds int
	var sample any
	for i, res := range results {
		if res == nil {
			continue
		}
		evaluated++
		rejectedSteps += res.Rejected
		midBuilds += res.Builds
		cs := classes[res.Class]
		if cs == nil {
			cs = &classStat{States: map[string]int{}}
			classes[res.Class] = cs
		}
		cs.Evaluations++
		cs.States[res.State]++
		if res.Logs > cs.MaxLogs {
			cs.MaxLogs = res.Logs
		}
		if res.Blocks > cs.MaxBlocks {
			cs.MaxBlocks = res.Blocks
		}
		if res.Blocks >= 2 {
			cs.MultiBlock++
		}
		if len(res.Viol) == 0 {
			cs.Silent++
		}
		for _, v := range res.Viol {
			r.Violation("C34:history:"+res.Class+":"+res.State+":"+v[0],
				fmt.Sprintf("[history %v on a pristine HASH_LOGS=ASYNC ledger, max block size %d, ledger state %s, %d committed logs, %d blocks after the final builder run] %s", tasks[i].steps, tasks[i].size, res.State, res.Logs, res.Blocks, v[1]),
				c34SeqReplay{Kind: "history", Steps: tasks[i].steps, BlockSize: tasks[i].size})
		}
		if sample == nil && res.Class == c34Import && len(res.Viol) == 0 {
			sample = map[string]any{"history": tasks[i].steps, "max_block_size": tasks[i].size, "ledger_state": res.State, "committed_logs": res.Logs, "blocks": res.Blocks}
		}
	}
	cov["histories"] = len(hists)
	cov["evaluations"] = evaluated
	cov["planned_evaluations"] = len(tasks)
	cov["rejected_steps"] = rejectedSteps
	cov["builder_runs_inside_histories"] = midBuilds
	cov["start_state_classes"] = classes
	if sample != nil {
		cov["sample"] = sample
	}

	// ----- fleet
	fleetCov := map[string]any{"ledgers": c34FleetSize, "buckets": 2, "start_states": c34FleetMenu}
	cov["fleet"] = fleetCov
	fleetDone := false
	fleetInitWithBlocks := 0
	if complete && !r.Expired() {
		fbase, fleet, err := c34FleetBase(ctx, src)
		if err != nil {
			r.EngineError("C34 sequential: " + err.Error())
			return cov, false
		}
		fleetDone = true
		perLedger := map[string]any{}
		for _, sz := range sizes {
			evs, err := c34RunFleet(ctx, fbase, fleet, sz)
			if err != nil {
				r.EngineError("C34 sequential: " + err.Error())
				return cov, false
			}
			for _, e := range evs {
				if sz == sizes[0] {
					perLedger[e.Ledger.Name] = map[string]any{"bucket": e.Ledger.Bucket, "start_state": e.Class, "ledger_state": e.State, "committed_logs": e.Logs, "blocks": e.Blocks}
				}
				if e.State == "initializing" && e.Logs > 0 && e.Blocks > 0 {
					fleetInitWithBlocks++
				}
				for _, v := range e.Viol {
					r.Violation("C34:fleet:"+e.Class+":"+e.State+":"+v[0],
						fmt.Sprintf("[fleet of %d HASH_LOGS=ASYNC ledgers over 2 buckets, one builder run, max block size %d; ledger %s (bucket %s, start state %s, ledger state %s, %d committed logs, %d blocks)] %s", c34FleetSize, sz, e.Ledger.Name, e.Ledger.Bucket, e.Class, e.State, e.Logs, e.Blocks, v[1]),
						c34SeqReplay{Kind: "fleet", BlockSize: sz, Ledger: e.Ledger.Name})
				}
			}
		}
		fleetCov["evaluations"] = len(sizes) * c34FleetSize
		fleetCov["per_ledger_at_first_block_size"] = perLedger
	} else {
		complete = false
	}

	// ----- vacuity guards: the start-state dimension must really have been walked
	if complete && r.ViolationCount() == 0 {
		need := func(class, state string) {
			cs := classes[class]
			switch {
			case cs == nil || cs.States[state] == 0:
				r.EngineError(fmt.Sprintf("vacuous: no history ended in start state %q with the ledger %s", class, state))
			case class != "pristine" && (cs.MaxLogs == 0 || cs.MultiBlock == 0):
				r.EngineError(fmt.Sprintf("vacuous: start state %q never gave committed logs hashed into >= 2 chained blocks", class))
			}
		}
		need("pristine", "initializing")
		need(c34Import, "initializing") // imported and untouched
		need(c34Import+"+"+c34Write, "in-use")
		need(c34Write, "in-use")
		need(c34Atomic, "in-use") // written through an atomic bulk only
		need(c34Bulk, "in-use")
		if midBuilds == 0 {
			r.EngineError("vacuous: no history ran the builder between two fills")
		}
		if rejectedSteps == 0 {
			r.EngineError("vacuous: no import was ever rejected (import on a written ledger is part of the alphabet)")
		}
		if fleetDone && fleetInitWithBlocks == 0 {
			r.EngineError("vacuous: the fleet holds no `initializing` ledger with committed logs and blocks")
		}
	}
	names := make([]string, 0, len(classes))
	for k := range classes {
		names = append(names, k)
	}
	sort.Strings(names)
	cov["start_state_class_names"] = names
	return cov, complete
}

// c34ReplaySequential re-executes a recorded sequential case.
func c34ReplaySequential(rp c34SeqReplay) ([][2]string, error) {
	ctx := context.Background()
	src, err := c34SourceLogs(ctx)
	if err != nil {
		return nil, err
	}
	switch rp.Kind {
	case "history":
		base, err := lx.Boot(ctx, []lx.LedgerSpec{{Name: "l1", Features: map[string]string{"HASH_LOGS": "ASYNC"}}})
		if err != nil {
			return nil, err
		}
		res, err := c34RunHistory(ctx, base, src, rp.Steps, rp.BlockSize)
		if err != nil {
			return nil, err
		}
		return res.Viol, nil
	case "fleet":
		fbase, fleet, err := c34FleetBase(ctx, src)
		if err != nil {
			return nil, err
		}
		evs, err := c34RunFleet(ctx, fbase, fleet, rp.BlockSize)
		if err != nil {
			return nil, err
		}
		var out [][2]string
		for _, e := range evs {
			for _, v := range e.Viol {
				out = append(out, [2]string{v[0], e.Ledger.Name + ": " + v[1]})
			}
		}
		return out, nil
	}
	return nil, fmt.Errorf("unknown sequential replay kind %q", rp.Kind)
}
