package props

import (
	"context"
	"fmt"

	"github.com/formancehq/ledger/verifh/ev"
	"github.com/formancehq/ledger/verifh/sched"
)

// concPhase runs K2 scenarios inside an already started run and merges the counts
// into cov (used by properties that have a sequential and a concurrent half).
func concPhase(r *ev.Run, cov ev.Coverage, scenarios func() ([]*sched.Scenario, error), boundQ, boundT int) {
	scs, err := scenarios()
	if err != nil {
		r.EngineError(err.Error())
		return
	}
	bound := ev.Pick(r, boundQ, boundT)
	var all []*sched.Stats
	var schedules, points int64
	complete := true
	colliding := 0
	for _, sc := range scs {
		st := sched.Explore(context.Background(), sc, bound, r.Expired,
			func(v sched.Violation) {
				r.Violation(r.ID+":conc:"+v.Sig, fmt.Sprintf("[%s] %s", v.Scenario, v.What), map[string]any{"scenario": v.Scenario, "schedule": v.Schedule})
			},
			func(msg string) { r.EngineError(msg) })
		all = append(all, st)
		schedules += st.Schedules
		points += st.Points
		if !st.Complete {
			complete = false
		}
		if len(st.Outcomes) >= 2 {
			colliding++
		}
		if r.Expired() {
			complete = false
			break
		}
	}
	if colliding == 0 && complete && r.ViolationCount() == 0 {
		r.EngineError("vacuous concurrent phase: threads never collided")
	}
	cov["concurrent_scenarios"] = all
	cov["concurrent_schedules"] = schedules
	cov["concurrent_preemption_bound"] = bound
	if s, ok := cov["states"].(int64); ok {
		cov["states"] = s + points
	}
	if s, ok := cov["traces_validated_against_impl"].(int64); ok {
		cov["traces_validated_against_impl"] = s + schedules
	}
	if ex, ok := cov["exhaustive"].(bool); ok {
		cov["exhaustive"] = ex && complete
	}
}
