package props

import (
	"context"
	"fmt"
	"sync/atomic"
	"time"

	ledger "github.com/formancehq/ledger/internal"
	"github.com/formancehq/ledger/verifh/ev"
	"github.com/formancehq/ledger/verifh/lx"
	"github.com/formancehq/ledger/verifh/pgsim"
	"github.com/formancehq/ledger/verifh/world"
)

// Imports whose log ids are not in stream order, with the block builder running BETWEEN two
// commits of the import (Import commits one log per SQL transaction). The first n exported
// logs of the source are given every injective assignment of ids from 1..maxID; for every
// cut 1 <= k < n the import is held at the BEGIN of its (k+1)-th transaction (pgsim driver
// hook on the importing stack's own sessions), one builder run is made on another stack,
// the import is released, and the C34 oracle (final builder run, then: blocks partition the
// committed log ids, no log skipped) is evaluated. HASH_LOGS=ASYNC keeps no per-log chain,
// so what keeps a late, smaller id out of an already closed block range is the import
// refusing ids that do not increase.

type c34ImportCase struct {
	IDs       []uint64 `json:"ids"`
	Cut       int      `json:"cut"` // builder runs after the commit of the Cut-th log of the stream
	BlockSize int      `json:"max_block_size"`
}

func c34Injections(n, max int) [][]uint64 {
	var out [][]uint64
	cur := make([]uint64, 0, n)
	used := make([]bool, max+1)
	var rec func()
	rec = func() {
		if len(cur) == n {
			out = append(out, append([]uint64(nil), cur...))
			return
		}
		for v := 1; v <= max; v++ {
			if !used[v] {
				used[v] = true
				cur = append(cur, uint64(v))
				rec()
				cur = cur[:len(cur)-1]
				used[v] = false
			}
		}
	}
	rec()
	return out
}

// c34RunImportCase: returns the oracle's findings, whether the import was accepted in
// full, whether the builder ran while the import was held, and how many logs are stored.
func c34RunImportCase(ctx context.Context, base *pgsim.DB, src []ledger.Log, c c34ImportCase) (viol [][2]string, accepted, builtBetween bool, stored int, err error) {
	pg := base.Clone()
	w := world.Attach(pg)
	defer w.Close()
	wi := world.Attach(pg) // the importing stack: its driver calls go through the hook below
	defer wi.Close()
	ctrl, err := wi.Sys.GetLedgerController(ctx, "l1")
	if err != nil {
		return nil, false, false, 0, err
	}
	stream := make([]ledger.Log, len(c.IDs))
	for i, id := range c.IDs {
		l := src[i]
		id := id
		l.ID = &id
		l.Hash = nil
		stream[i] = l
	}
	reached := make(chan struct{})
	resume := make(chan struct{})
	var begins atomic.Int64
	armed := atomic.Bool{}
	wi.Hook = func(_ context.Context, _ *pgsim.Session, hop, _ string) error {
		if hop == "begin" && armed.Load() && begins.Add(1) == int64(c.Cut+1) {
			close(reached)
			<-resume
		}
		return nil
	}
	ch := make(chan ledger.Log, len(stream))
	for _, l := range stream {
		ch <- l
	}
	close(ch)
	done := make(chan error, 1)
	armed.Store(true)
	go func() { done <- ctrl.Import(ctx, ch) }()
	var ierr error
	select {
	case <-reached:
		builtBetween = true
		if berr := runBlockBuilder(ctx, w, c.BlockSize); berr != nil {
			close(resume)
			<-done
			return nil, false, true, 0, fmt.Errorf("builder run between commits: %w", berr)
		}
		close(resume)
		ierr = <-done
	case ierr = <-done:
		// the import ended (refused a log, or was complete) before its (cut+1)-th transaction
	case <-time.After(120 * time.Second):
		return nil, false, false, 0, fmt.Errorf("harness: import neither reached its transaction %d nor returned within 120s", c.Cut+1)
	}
	armed.Store(false)
	if ierr != nil && lx.Classify(ierr) == "ENGINE" {
		return nil, false, builtBetween, 0, ierr
	}
	if err := runBlockBuilder(ctx, w, c.BlockSize); err != nil {
		return [][2]string{{"blocks:builder-error", err.Error()}}, ierr == nil, builtBetween, 0, nil
	}
	out, nLogs, _ := blockOracleOn(ctx, w, "_default", "l1", c.BlockSize)
	return out, ierr == nil, builtBetween, nLogs, nil
}

func c34DisorderedImports(r *ev.Run, base *pgsim.DB, src []ledger.Log) (map[string]any, bool) {
	ctx := context.Background()
	n, maxID := 3, ev.Pick(r, 3, 4)
	sizes := ev.Pick(r, []int{10}, []int{1, 10})
	var cases []c34ImportCase
	for _, sz := range sizes {
		for _, ids := range c34Injections(n, maxID) {
			for cut := 1; cut < n; cut++ {
				cases = append(cases, c34ImportCase{IDs: ids, Cut: cut, BlockSize: sz})
			}
		}
	}
	var ran, between, acceptedN, disorderedStored int
	complete := true
	for _, c := range cases {
		if r.Expired() || r.HasEngineError() {
			complete = false
			break
		}
		viol, acc, bb, stored, err := c34RunImportCase(ctx, base, src[:n], c)
		if err != nil {
			r.EngineError(fmt.Sprintf("C34 disordered import %+v: %v", c, err))
			return nil, false
		}
		ran++
		if bb {
			between++
		}
		if acc {
			acceptedN++
		}
		inOrder := true
		for i := 1; i < len(c.IDs); i++ {
			if c.IDs[i] < c.IDs[i-1] {
				inOrder = false
			}
		}
		if !inOrder && stored > 0 {
			disorderedStored++
		}
		for _, v := range viol {
			r.Violation("C34:import-ids-out-of-order:"+v[0],
				fmt.Sprintf("[import into an empty HASH_LOGS=ASYNC ledger of %d logs with ids %v, one builder run (max block size %d) after the commit of log #%d of the stream, then the import goes on; accepted in full=%v, %d logs stored] %s", n, c.IDs, c.BlockSize, c.Cut, acc, stored, v[1]),
				map[string]any{"kind": "disordered-import", "case": c})
		}
	}
	if complete && r.ViolationCount() == 0 && (between == 0 || acceptedN == 0) {
		r.EngineError(fmt.Sprintf("C34 disordered imports: vacuous (builder ran between commits in %d cases, %d imports accepted)", between, acceptedN))
	}
	return map[string]any{
		"cases": len(cases), "executed": ran, "builder_ran_between_commits": between, "imports_accepted_in_full": acceptedN,
		"disordered_streams_that_stored_something": disorderedStored,
		"rule": fmt.Sprintf("first %d exported logs under every injective id assignment from 1..%d × every cut × max block sizes %v: import held at the BEGIN of its (cut+1)-th transaction, one builder run, import released, final builder run, block oracle", n, maxID, sizes),
	}, complete
}

// c34ReplayDisordered re-executes one recorded case.
func c34ReplayDisordered(c c34ImportCase) ([][2]string, error) {
	ctx := context.Background()
	src, err := c34SourceLogs(ctx)
	if err != nil {
		return nil, err
	}
	base, err := lx.Boot(ctx, []lx.LedgerSpec{{Name: "l1", Features: map[string]string{"HASH_LOGS": "ASYNC"}}})
	if err != nil {
		return nil, err
	}
	viol, _, _, _, err := c34RunImportCase(ctx, base, src[:len(c.IDs)], c)
	return viol, err
}
