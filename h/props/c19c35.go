package props

import (
	"context"
	"fmt"
	"sort"
	"strings"
	"sync"
	"time"

	ledger "github.com/formancehq/ledger/internal"
	"github.com/formancehq/ledger/internal/storage/common"
	"github.com/formancehq/ledger/verifh/ev"
	"github.com/formancehq/ledger/verifh/lx"
	"github.com/formancehq/ledger/verifh/reg"
)

func isolationAlphabet() []lx.Op {
	var out []lx.Op
	// bucket b2 first: it is the bucket whose population changes during a history (l3 alone,
	// then l4 beside it, either of them soft-deleted or restored with the bucket), so that a
	// run cut by its time budget has covered the bucket lifecycle before the static bucket b1
	for _, l := range []string{"l3", "l1", "l2"} {
		out = append(out,
			lx.Op{Kind: "post", Ledger: l, Name: "fund", Postings: []lx.P{p("world", "a", "USD", "100")}, Ref: "r", IK: "k"},
			lx.Op{Kind: "post", Ledger: l, Name: "a>b30", Postings: []lx.P{p("a", "b", "USD", "30")}, Meta: map[string]string{"who": l}},
			lx.Op{Kind: "accmeta", Ledger: l, Name: "accmeta-a", Address: "a", Meta: map[string]string{"owner": l}},
			lx.Op{Kind: "revert", Ledger: l, Name: "revert1", TxID: 1, Force: true},
		)
		if isoBucket[l] == "b1" {
			// the ledgers that share a bucket from the start also get a write whose funds
			// check reads SEVERAL (account, asset) balances at once (two bounded sources),
			// and a write that gives both of those accounts a balance
			out = append(out,
				lx.Op{Kind: "post", Ledger: l, Name: isoFundBoth, Postings: []lx.P{p("world", "a", "USD", isoFundBothAmount[l]), p("world", "b", "USD", isoFundBothAmount[l])}},
				lx.Op{Kind: "script", Ledger: l, Name: "ab>c50", Script: "send [USD 50] (\n source = {\n  @a\n  @b\n }\n destination = @c\n)"},
			)
		}
		if l == "l3" {
			out = append(out,
				lx.Op{Kind: "createledger", Ledger: "l4", Address: "b2", Name: "create-l4-in-b2"},
				lx.Op{Kind: "post", Ledger: "l4", Name: "fund", Postings: []lx.P{p("world", "a", "USD", "7")}, Ref: "r"},
				// the system-level bucket operations (DELETE /v2/_/buckets/b2 and POST
				// /v2/_/buckets/b2/restore): a soft delete makes every ledger of the bucket
				// unroutable but leaves all their rows in the bucket schema; ledgers can be
				// created in the bucket meanwhile, and a restore brings the old ones back
				lx.Op{Kind: "deletebucket", Address: "b2", Name: "delete-bucket-b2"},
				lx.Op{Kind: "restorebucket", Address: "b2", Name: "restore-bucket-b2"},
			)
		}
	}
	return out
}

// isoBucketOp: the operation acts on a whole bucket, i.e. on every ledger of it.
func isoBucketOp(o lx.Op) bool { return o.Kind == "deletebucket" || o.Kind == "restorebucket" }

// isoBelongs: the operation is part of the history of ledger l: the operations on l, its own
// creation, and the soft deletes / restores of its bucket.
func isoBelongs(o lx.Op, l string) bool {
	if isoBucketOp(o) {
		return isoBucket[l] == o.Address
	}
	return o.Ledger == l
}

const isoFundBoth = "fund-ab"

// isoFundBothAmount: the same accounts get DIFFERENT balances on the two ledgers of the
// bucket in one operation each: on l1 both sources together cannot pay the 50 of
// `ab>c50`, on l2 each of them can. Whichever balance of the neighbour is read instead
// of the ledger's own, the outcome of `ab>c50` changes.
var isoFundBothAmount = map[string]string{"l1": "10", "l2": "100"}

// isoBucket is the bucket of every ledger of the C19 configuration (l4 is created mid-history).
var isoLedgers = []string{"l1", "l2", "l3", "l4"}

var isoBucket = map[string]string{"l1": "b1", "l2": "b1", "l3": "b2", "l4": "b2"}

// isoOutcomes records what the LAST operation of every enumerated sequence returned, so
// that the sequence can be compared with its own projection on the ledger of that
// operation (the same sequence without the other ledgers' operations), which is itself
// an enumerated (shorter) sequence. Dates are left out: the logical clock counts the
// statements of every ledger.
type isoOutcomes struct {
	sync.Mutex
	byPath map[string]*isoOutcome
	// lifecycle tallies (evaluations of the read oracle, live process and fresh process alike)
	besideDeleted      int64 // a routable ledger read in full while its bucket holds the rows of a soft-deleted, non-empty ledger
	besideDeletedEmpty int64 // ... of those, the routable ledger has no row of its own (every row it returns is foreign)
	restoredNonEmpty   int64 // a non-empty ledger read in full after its bucket was soft-deleted and restored
	goneSkipped        int64 // a soft-deleted ledger left out of the read oracle (the API cannot route it)
}

// tally classifies one evaluation of the read oracle with respect to the bucket lifecycle.
func (io *isoOutcomes) tally(s *lx.StepInfo) {
	restored := map[string]bool{} // bucket -> soft-deleted then restored earlier in the sequence
	deleted := map[string]bool{}
	for _, o := range s.Path {
		switch o.Kind {
		case "deletebucket":
			deleted[o.Address] = true
		case "restorebucket":
			if deleted[o.Address] {
				restored[o.Address] = true
			}
		}
	}
	var beside, besideEmpty, rest int64
	for n := range s.Ctrls {
		for g := range s.Gone {
			if s.Buckets[g] == s.Buckets[n] && len(s.Refs[g].Logs) > 0 {
				beside++
				if len(s.Refs[n].Logs) == 0 {
					besideEmpty++
				}
				break
			}
		}
		if restored[s.Buckets[n]] && len(s.Refs[n].Logs) > 0 {
			rest++
		}
	}
	io.Lock()
	io.besideDeleted += beside
	io.besideDeletedEmpty += besideEmpty
	io.restoredNonEmpty += rest
	io.goneSkipped += int64(len(s.Gone))
	io.Unlock()
}

type isoOutcome struct {
	path        []lx.Op
	class, full string
	zeroRows    map[string]string // ledger -> its (0,0) volumes rows no posting of it explains
}

const isoZeroRow = "vol:unexpected:cur:zero-row"

func isoKey(path []lx.Op) string {
	parts := make([]string, len(path))
	for i, o := range path {
		parts[i] = o.Ledger + "/" + o.String()
	}
	return strings.Join(parts, ",")
}

func (io *isoOutcomes) record(s *lx.StepInfo, zero map[string][]string) {
	class := s.Out.Class
	if s.Out.OK() {
		class = "ok"
		if s.Out.Hit {
			class = "ok(hit)"
		}
	}
	var sb strings.Builder
	sb.WriteString(class)
	if l := s.Out.Log; l != nil && l.ID != nil {
		fmt.Fprintf(&sb, " log=%d/%s", *l.ID, l.Type)
	}
	if t := s.Out.Tx; t != nil && t.ID != nil {
		fmt.Fprintf(&sb, " tx=%d %v ref=%q meta=%s", *t.ID, t.Postings, t.Reference, sortedMeta(t.Metadata))
	}
	if t := s.Out.Reverted; t != nil && t.ID != nil {
		fmt.Fprintf(&sb, " reverted=%d", *t.ID)
	}
	zr := map[string]string{}
	for l, rows := range zero {
		sort.Strings(rows)
		zr[l] = strings.Join(rows, "; ")
	}
	io.Lock()
	defer io.Unlock()
	k := isoKey(s.Path)
	if prev := io.byPath[k]; prev != nil {
		// second evaluation of the same sequence (freshly attached process): keep both views
		for l, rows := range prev.zeroRows {
			if zr[l] != rows {
				zr[l] = rows + " | " + zr[l]
			}
		}
	}
	io.byPath[k] = &isoOutcome{path: s.Path, class: class, full: sb.String(), zeroRows: zr}
}

// compare is the cross-path half of the C19 oracle: a write on a ledger is refused or
// accepted, and returns the transaction it returns, whatever was written on the others.
func (io *isoOutcomes) compare(r *ev.Run, total *lx.SeqStats, cov ev.Coverage, ledgers []lx.LedgerSpec) {
	io.Lock()
	defer io.Unlock()
	keys := make([]string, 0, len(io.byPath))
	for k := range io.byPath {
		keys = append(keys, k)
	}
	sort.Slice(keys, func(i, j int) bool {
		if a, b := len(io.byPath[keys[i]].path), len(io.byPath[keys[j]].path); a != b {
			return a < b
		}
		return keys[i] < keys[j]
	})
	var compared, notEnumerated, differing, zeroCompared, ownZero int64
	multi := map[string]int64{}
	for _, k := range keys {
		got := io.byPath[k]
		last := got.path[len(got.path)-1]
		var own []lx.Op
		fundedNeighbour := false
		for _, o := range got.path[:len(got.path)-1] {
			if isoBelongs(o, last.Ledger) {
				own = append(own, o)
			} else if o.Name == isoFundBoth && isoBucket[o.Ledger] == isoBucket[last.Ledger] {
				fundedNeighbour = true
			}
		}
		own = append(own, last)
		// (0,0) volumes rows of every ledger: exactly those its own operations produce
		for _, l := range isoLedgers {
			var proj []lx.Op
			for _, o := range got.path {
				if isoBelongs(o, l) {
					proj = append(proj, o)
				}
			}
			if len(proj) == len(got.path) {
				if got.zeroRows[l] != "" {
					ownZero++
				}
				continue
			}
			want := ""
			if len(proj) > 0 {
				alone := io.byPath[isoKey(proj)]
				if alone == nil {
					continue
				}
				want = alone.zeroRows[l]
			}
			zeroCompared++
			if got.zeroRows[l] != want {
				differing++
				r.Violation("C19:iso:vol:zero-row:depends-on-other-ledger", fmt.Sprintf("after %v ledger %s lists the volumes rows [%s] that none of its postings explains; after its own operations alone (%v) it lists [%s]", opNamesOf2(got.path), l, got.zeroRows[l], opNamesOf2(proj), want),
					map[string]any{"ledgers": ledgers, "ops": got.path, "projection": proj})
			}
		}
		if isoBucketOp(last) {
			// a soft delete / restore is not an operation ON a ledger: what it returns is not
			// the subject of the property (its effect on what every ledger returns is)
			continue
		}
		if len(own) == len(got.path) {
			continue
		}
		alone := io.byPath[isoKey(own)]
		if alone == nil {
			notEnumerated++ // only on a run cut by its budget
			continue
		}
		compared++
		if last.Kind == "script" && fundedNeighbour {
			multi[alone.class]++
		}
		if alone.full == got.full {
			continue
		}
		differing++
		sig := fmt.Sprintf("C19:iso:outcome:%s:%s->%s", last.Kind, alone.class, got.class)
		if alone.class == got.class {
			sig = fmt.Sprintf("C19:iso:outcome:%s:%s:result-differs", last.Kind, got.class)
		}
		r.Violation(sig, fmt.Sprintf("after %v the last operation returned [%s]; without the operations of the other ledgers (%v) it returns [%s]", opNamesOf2(got.path), got.full, opNamesOf2(own), alone.full),
			map[string]any{"ledgers": ledgers, "ops": got.path, "projection": own})
	}
	cov["cross_ledger_outcome_comparisons"] = compared
	cov["cross_ledger_differences"] = differing
	cov["projections_not_enumerated"] = notEnumerated
	cov["cross_ledger_zero_row_comparisons"] = zeroCompared
	cov["single_ledger_sequences_leaving_a_zero_volumes_row"] = ownZero
	cov["multi_balance_reads_beside_a_funded_neighbour_by_own_outcome"] = multi
	cov["bucket_lifecycle"] = map[string]int64{
		"read_oracle_runs_on_a_ledger_whose_bucket_holds_rows_of_a_soft_deleted_ledger":           io.besideDeleted,
		"of_which_on_a_ledger_without_any_row_of_its_own":                                         io.besideDeletedEmpty,
		"read_oracle_runs_on_a_non_empty_ledger_after_soft_delete_and_restore_of_its_bucket":      io.restoredNonEmpty,
		"soft_deleted_ledgers_left_out_of_the_read_oracle_(not_routable_through_the_API)":         io.goneSkipped,
		"operations_addressed_to_a_ledger_that_is_not_routable_(not_created_yet_or_soft_deleted)": total.Outcomes["post:no_such_ledger"] + total.Outcomes["script:no_such_ledger"] + total.Outcomes["revert:no_such_ledger"] + total.Outcomes["accmeta:no_such_ledger"],
	}
	if r.ViolationCount() > 0 || total.DepthDone < 2 {
		return
	}
	// the bucket lifecycle must really have been exercised: [write on l3, soft delete of b2,
	// create l4 in b2] has length 3, and so has [write on l3, soft delete, restore]
	if total.DepthDone >= 3 {
		if io.besideDeleted == 0 || io.besideDeletedEmpty == 0 {
			r.EngineError(fmt.Sprintf("vacuous: no ledger was read while its bucket held the rows of a soft-deleted non-empty ledger (%d; on a ledger with no row of its own: %d)", io.besideDeleted, io.besideDeletedEmpty))
		}
		if io.restoredNonEmpty == 0 {
			r.EngineError("vacuous: no non-empty ledger was read after the soft delete and the restore of its bucket")
		}
		if io.goneSkipped == 0 {
			r.EngineError("vacuous: the soft delete of a bucket never made a ledger unroutable")
		}
	}
	if compared == 0 {
		r.EngineError("vacuous: no sequence was compared with its projection on one ledger")
	}
	// the multi-balance funds check must have run on a ledger whose bucket neighbour holds
	// different balances for the same accounts, both where the ledger's own balances
	// refuse the write and where they allow it
	if multi["insufficient_funds"] == 0 || multi["ok"] == 0 {
		r.EngineError(fmt.Sprintf("vacuous: two-source writes beside a bucket neighbour that funded the same accounts: %v (need both insufficient_funds and ok)", multi))
	}
}

func opNamesOf2(path []lx.Op) []string {
	out := make([]string, len(path))
	for i, o := range path {
		out[i] = o.Ledger + "/" + o.String()
	}
	return out
}

func init() {
	isoCfg := []lx.LedgerSpec{{Name: "l1", Bucket: "b1"}, {Name: "l2", Bucket: "b1"}, {Name: "l3", Bucket: "b2"}}
	isoOut := &isoOutcomes{byPath: map[string]*isoOutcome{}}
	registerSeq(seqCheck{
		id: "C19", quick: 110 * time.Second, thor: 15 * time.Minute, depthQ: 3, depthT: 4,
		alphabet: isolationAlphabet(), restart: true,
		configs: [][]lx.LedgerSpec{isoCfg},
		sigs:    []string{"iso:", "ref:"},
		check: func(ctx context.Context, s *lx.StepInfo, rep *lx.Report) {
			zero := map[string][]string{}
			var names []string
			for n := range s.Ctrls {
				names = append(names, n)
			}
			sort.Strings(names)
			for _, n := range names {
				sub := &lx.Report{}
				lx.CheckCurrent(ctx, s.Ctrls[n], s.Refs[n], sub)
				for _, m := range sub.Items {
					if m.Sig == isoZeroRow {
						// a (0,0) volumes row of a pair no posting of this ledger touches: the
						// ledger's own funds checks create such rows (GetBalances inserts a zero
						// row for every balance it reads), so the reference cannot tell whose
						// row it is; the projection oracle can: see isoOutcomes.compare
						zero[n] = append(zero[n], m.What)
						continue
					}
					rep.Add("iso:"+m.Sig, "ledger %s: %s", n, m.What)
				}
				// schemas listing must be empty everywhere (no schema is ever inserted here)
				if sc, err := s.Ctrls[n].ListSchemas(ctx, common.InitialPaginatedQuery[any]{PageSize: 10}); err == nil && len(sc.Data) != 0 {
					rep.Add("iso:schemas", "ledger %s lists %d schemas", n, len(sc.Data))
				}
			}
			isoOut.tally(s)
			isoOut.record(s, zero)
		},
		post: func(r *ev.Run, total *lx.SeqStats, cov ev.Coverage) { isoOut.compare(r, total, cov, isoCfg) },
		need: []string{"post:ok", "post:insufficient_funds", "script:ok", "script:insufficient_funds", "revert:ok", "accmeta:ok", "createledger:ok", "deletebucket:ok", "restorebucket:ok"},
		rule: "ledgers l1,l2 share bucket b1, l3 is alone in b2 (alone-in-bucket optimisation active) until the operation `create l4 in b2` runs; every sequence of length<=depth over the same writes on each ledger (same addresses, same reference r, same idempotency key k, reverts of tx 1; on the two ledgers sharing b1 also a transaction funding accounts a and b, with 10 each on l1 and 100 each on l2 so that the same accounts hold different balances, and a Numscript send of 50 drawing on the two bounded sources {@a @b}, whose funds check reads two balances at once: l1 alone cannot pay it, l2 alone can) plus the mid-history ledger creation, plus the two system-level bucket operations on b2: soft delete (DELETE /v2/_/buckets/b2: every ledger of b2 stops being routable, all its rows stay in the bucket schema) and restore (POST /v2/_/buckets/b2/restore), in every order with the creation of l4 and the writes (l4 created beside a soft-deleted non-empty l3, l3 restored beside an l4 created meanwhile, l3 and l4 deleted and restored together, ...). After a bucket operation the explorer asks the system store, for every ledger, whether it can still be routed (as the API's ledger middleware does for every request): operations on an unroutable ledger are not executed (404), a ledger that is routable again is re-opened. (1) after each sequence EVERY read API of EVERY ROUTABLE ledger must equal that ledger's own reference model (a soft-deleted ledger's reads are out of scope: it is gone for the API; a ledger created in the bucket of soft-deleted ledgers must read as its own history says, i.e. empty until it is written to; a restored ledger must read exactly as before its deletion), from the live controllers (whose stores share the per-bucket aloneInBucket flag) and from a freshly attached process; (2) what the last operation of each sequence returned (accepted / refused with which error / idempotency hit, log id and type, transaction id, postings, reference, metadata, reverted id; dates aside) must equal what it returns in the same sequence WITHOUT the operations of the other ledgers (its projection, itself an enumerated sequence; the soft deletes and restores of a bucket belong to the projection of every ledger of that bucket): e.g. insufficient funds on l1 must not depend on the balances of the same accounts on l2; (3) a (0,0) volumes row of a pair no posting of the ledger touches (the ledger's funds check materialises one for each source it consulted) must be there exactly when the ledger's own operations alone leave it",
	})

	// ---------- C35 ----------
	reg.Register("C35", func() int {
		r := ev.Start("C35", ev.LevelMC, 110*time.Second, 15*time.Minute)
		combos := featureCombos("ACCOUNT_METADATA_HISTORY", "TRANSACTION_METADATA_HISTORY", "HASH_LOGS", "MOVES_HISTORY", "MOVES_HISTORY_POST_COMMIT_EFFECTIVE_VOLUMES")
		// the feature matrix also contains MOVES_HISTORY=OFF + EFFECTIVE_VOLUMES=SYNC (48
		// combinations); the ledger refuses none of them at creation, so keep it
		alphabet := []lx.Op{
			coreAlphabet()[0], coreAlphabet()[1], coreAlphabet()[3], coreAlphabet()[5], coreAlphabet()[8],
			coreAlphabet()[9], coreAlphabet()[11], coreAlphabet()[12], coreAlphabet()[14], metaAlphabet()[10],
		}
		depth := ev.Pick(r, 2, 3)
		type snap struct {
			sync.Mutex
			byPath map[string]map[string]string // path -> combo -> canonical snapshot
		}
		sn := &snap{byPath: map[string]map[string]string{}}
		gates := lx.NewGateTally()
		total := &lx.SeqStats{Outcomes: map[string]int64{}, Observations: map[string]int64{}, Exhaustive: true}
		var last *lx.SeqExplorer
		for _, cfg := range combos {
			cfg := cfg
			label := featLabel(cfg[0].Features)
			e := &lx.SeqExplorer{Ledgers: cfg, Alphabet: alphabet, Depth: depth,
				Sigs: []string{"feature:", "ref:", "acc:volumes", "vol:", "agg:", "tx:postings", "tx:metadata", "acc:metadata", "tx:count", "log:count", "hash:"},
				Check: func(ctx context.Context, s *lx.StepInfo, rep *lx.Report) {
					lx.CheckCurrent(ctx, s.Ctrl, s.Ref, rep)
					lx.CheckPIT(ctx, s.Ctrl, s.Ref, rep)
					lx.CheckFeatureGatesTally(ctx, s.Ctrl, s.Ref, rep, gates)
					// hashes present iff HASH_LOGS=SYNC
					logs, err := lx.ListLogs(ctx, s.Ctrl)
					if err == nil {
						for _, l := range logs {
							has := len(l.Hash) > 0
							if has != (cfg[0].Features["HASH_LOGS"] == "SYNC") {
								rep.Add("hash:presence", "HASH_LOGS=%s but log %d hash present=%v", cfg[0].Features["HASH_LOGS"], *l.ID, has)
							}
						}
					}
					// canonical feature-independent snapshot
					canon := canonicalSnapshot(ctx, s)
					key := strings.Join(opNamesOf(s.Path), ",")
					sn.Lock()
					if sn.byPath[key] == nil {
						sn.byPath[key] = map[string]string{}
					}
					sn.byPath[key][label] = canon
					sn.Unlock()
				}}
			last = e
			st, err := e.Run(context.Background(), r)
			if err != nil {
				r.EngineError(err.Error())
				return r.Finish(nil, []string{pgsimAssumption})
			}
			total.States += st.States
			total.Transitions += st.Transitions
			total.Paths += st.Paths
			total.DepthDone = st.DepthDone
			if !st.Exhaustive {
				total.Exhaustive = false
			}
			for k, v := range st.Outcomes {
				total.Outcomes[k] += v
			}
			for k, v := range st.Observations {
				total.Observations[k] += v
			}
			if total.Samples == nil {
				total.Samples = st.Samples
			}
			if r.Expired() {
				total.Exhaustive = false
				break
			}
		}
		// identical outcome of every history under every combination
		diffs := 0
		for path, m := range sn.byPath {
			var labels []string
			for l := range m {
				labels = append(labels, l)
			}
			sort.Strings(labels)
			for _, l := range labels[1:] {
				if m[l] != m[labels[0]] {
					diffs++
					r.Violation("C35:snapshot-differs", fmt.Sprintf("history [%s]: snapshot under %s differs from %s:\n%s\nvs\n%s", path, l, labels[0], firstDiff(m[l], m[labels[0]]), ""), map[string]any{"ops": path, "a": l, "b": labels[0]})
				}
			}
		}
		vacuous(r, total, "post:ok", "revert:ok", "accmeta:ok")
		// every date-bound shape of the volumes read (end only, start only, both; effective
		// and insertion dates) must have been seen rejected on a MOVES_HISTORY=OFF ledger
		// with a non-empty history, and the start-only shape answered on an ON ledger
		gateSeen := gates.Snapshot()
		if r.ViolationCount() == 0 && total.DepthDone > 0 {
			for _, g := range lx.VolumeGateReads() {
				if gateSeen[g+":rejected"] == 0 {
					r.EngineError(fmt.Sprintf("vacuous: gated read %s was never observed rejected on a ledger without MOVES_HISTORY", g))
				}
				if !strings.HasPrefix(g, "volumes-window-") && gateSeen[g+":answered"] == 0 {
					r.EngineError(fmt.Sprintf("vacuous: gated read %s was never observed answered on a ledger with MOVES_HISTORY", g))
				}
			}
		}
		cov := seqCoverage(last, total, "the same set of histories (every sequence of length<=depth over a 10-op write alphabet) is run under each of the feature combinations; per combination: reads needing a disabled feature must fail with a missing-feature error (date-bounded volumes without MOVES_HISTORY in EVERY shape of the bounds: end only (PIT), start only (OOT) for every recorded transaction date, start+end for every ordered pair of recorded dates, each on effective and on insertion dates; PIT aggregates and account volumes without MOVES_HISTORY; effective volumes/aggregates without MOVES_HISTORY_POST_COMMIT_EFFECTIVE_VOLUMES), everything else must equal the reference (incl. the start-only volumes read == fold of the transactions dated at or after the bound when MOVES_HISTORY=ON), hashes present iff HASH_LOGS=SYNC; across combinations: transactions, logs (hash aside), current balances and current metadata of each history must be identical")
		cov["gate_reads"] = gateSeen
		cov["configurations"] = len(combos)
		cov["histories_compared_across_configurations"] = len(sn.byPath)
		return r.Finish(cov, []string{pgsimAssumption})
	})
}

func featLabel(f map[string]string) string {
	var ks []string
	for k := range f {
		ks = append(ks, k)
	}
	sort.Strings(ks)
	var parts []string
	for _, k := range ks {
		parts = append(parts, k[:3]+strings.ToLower(k[len(k)-3:])+"="+f[k])
	}
	return strings.Join(parts, ",")
}

func opNamesOf(path []lx.Op) []string {
	out := make([]string, len(path))
	for i, o := range path {
		out[i] = o.String()
	}
	return out
}

func firstDiff(a, b string) string {
	la, lb := strings.Split(a, "\n"), strings.Split(b, "\n")
	for i := 0; i < len(la) && i < len(lb); i++ {
		if la[i] != lb[i] {
			return la[i] + "  <>  " + lb[i]
		}
	}
	return fmt.Sprintf("lengths %d vs %d", len(la), len(lb))
}

// canonicalSnapshot renders what C35 says must not depend on features: transactions,
// logs (hash aside), current balances, current metadata. Dates are rendered relative to
// nothing: the logical clock makes them identical when the same statements ran, but
// statement counts differ between feature sets, so dates are left out.
func canonicalSnapshot(ctx context.Context, s *lx.StepInfo) string {
	var sb strings.Builder
	txs, err := lx.ListTxs(ctx, s.Ctrl, common.ResourceQuery[any]{})
	if err != nil {
		return "ERR " + err.Error()
	}
	for _, t := range txs {
		fmt.Fprintf(&sb, "tx %d %v ref=%q meta=%v reverted=%v\n", *t.ID, t.Postings, t.Reference, sortedMeta(t.Metadata), t.RevertedAt != nil)
	}
	accs, err := lx.ListAccs(ctx, s.Ctrl, common.ResourceQuery[any]{})
	if err != nil {
		return "ERR " + err.Error()
	}
	for _, a := range accs {
		fmt.Fprintf(&sb, "acc %s meta=%v\n", a.Address, sortedMeta(a.Metadata))
	}
	vols, err := lx.ListVols(ctx, s.Ctrl, common.ResourceQuery[ledger.GetVolumesOptions]{})
	if err != nil {
		return "ERR " + err.Error()
	}
	for _, v := range vols {
		fmt.Fprintf(&sb, "vol %s %s %s %s\n", v.Account, v.Asset, v.Input, v.Output)
	}
	logs, err := lx.ListLogs(ctx, s.Ctrl)
	if err != nil {
		return "ERR " + err.Error()
	}
	for _, l := range logs {
		fmt.Fprintf(&sb, "log %d %s ik=%q\n", *l.ID, l.Type, l.IdempotencyKey)
	}
	return sb.String()
}

func sortedMeta(m map[string]string) string {
	var ks []string
	for k := range m {
		ks = append(ks, k)
	}
	sort.Strings(ks)
	var parts []string
	for _, k := range ks {
		parts = append(parts, k+"="+m[k])
	}
	return "{" + strings.Join(parts, ",") + "}"
}
