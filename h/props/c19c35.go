package props

import (
	"context"
	"fmt"
	"sort"
	"strings"
	"sync"
	"time"

	ledger "github.com/formancehq/ledger/internal"
	"github.com/formancehq/ledger/internal/storage/common"
	"github.com/formancehq/ledger/verifh/ev"
	"github.com/formancehq/ledger/verifh/lx"
	"github.com/formancehq/ledger/verifh/reg"
)

func isolationAlphabet() []lx.Op {
	var out []lx.Op
	for _, l := range []string{"l1", "l2", "l3"} {
		out = append(out,
			lx.Op{Kind: "post", Ledger: l, Name: "fund", Postings: []lx.P{p("world", "a", "USD", "100")}, Ref: "r", IK: "k"},
			lx.Op{Kind: "post", Ledger: l, Name: "a>b30", Postings: []lx.P{p("a", "b", "USD", "30")}, Meta: map[string]string{"who": l}},
			lx.Op{Kind: "accmeta", Ledger: l, Name: "accmeta-a", Address: "a", Meta: map[string]string{"owner": l}},
			lx.Op{Kind: "revert", Ledger: l, Name: "revert1", TxID: 1, Force: true},
		)
	}
	out = append(out,
		lx.Op{Kind: "createledger", Ledger: "l4", Address: "b2", Name: "create-l4-in-b2"},
		lx.Op{Kind: "post", Ledger: "l4", Name: "fund", Postings: []lx.P{p("world", "a", "USD", "7")}, Ref: "r"},
	)
	return out
}

func init() {
	registerSeq(seqCheck{
		id: "C19", quick: 110 * time.Second, thor: 15 * time.Minute, depthQ: 3, depthT: 4,
		alphabet: isolationAlphabet(), restart: true,
		configs: [][]lx.LedgerSpec{{{Name: "l1", Bucket: "b1"}, {Name: "l2", Bucket: "b1"}, {Name: "l3", Bucket: "b2"}}},
		sigs:    []string{"iso:", "ref:"},
		check: func(ctx context.Context, s *lx.StepInfo, rep *lx.Report) {
			var names []string
			for n := range s.Ctrls {
				names = append(names, n)
			}
			sort.Strings(names)
			for _, n := range names {
				sub := &lx.Report{}
				lx.CheckCurrent(ctx, s.Ctrls[n], s.Refs[n], sub)
				for _, m := range sub.Items {
					rep.Add("iso:"+m.Sig, "ledger %s: %s", n, m.What)
				}
				// schemas listing must be empty everywhere (no schema is ever inserted here)
				if sc, err := s.Ctrls[n].ListSchemas(ctx, common.InitialPaginatedQuery[any]{PageSize: 10}); err == nil && len(sc.Data) != 0 {
					rep.Add("iso:schemas", "ledger %s lists %d schemas", n, len(sc.Data))
				}
			}
		},
		need: []string{"post:ok", "revert:ok", "accmeta:ok", "createledger:ok"},
		rule: "ledgers l1,l2 share bucket b1, l3 is alone in b2 (alone-in-bucket optimisation active) until the operation `create l4 in b2` runs; every sequence of length<=depth over the same writes on each ledger (same addresses, same reference r, same idempotency key k, reverts of tx 1) plus the mid-history ledger creation; after each sequence EVERY read API of EVERY ledger must equal that ledger's own reference model, from the live controllers (whose stores share the per-bucket aloneInBucket flag) and from a freshly attached process",
	})

	// ---------- C35 ----------
	reg.Register("C35", func() int {
		r := ev.Start("C35", ev.LevelMC, 110*time.Second, 15*time.Minute)
		combos := featureCombos("ACCOUNT_METADATA_HISTORY", "TRANSACTION_METADATA_HISTORY", "HASH_LOGS", "MOVES_HISTORY", "MOVES_HISTORY_POST_COMMIT_EFFECTIVE_VOLUMES")
		// the feature matrix also contains MOVES_HISTORY=OFF + EFFECTIVE_VOLUMES=SYNC (48
		// combinations); the ledger refuses none of them at creation, so keep it
		alphabet := []lx.Op{
			coreAlphabet()[0], coreAlphabet()[1], coreAlphabet()[3], coreAlphabet()[5], coreAlphabet()[8],
			coreAlphabet()[9], coreAlphabet()[11], coreAlphabet()[12], coreAlphabet()[14], metaAlphabet()[10],
		}
		depth := ev.Pick(r, 2, 3)
		type snap struct {
			sync.Mutex
			byPath map[string]map[string]string // path -> combo -> canonical snapshot
		}
		sn := &snap{byPath: map[string]map[string]string{}}
		gates := lx.NewGateTally()
		total := &lx.SeqStats{Outcomes: map[string]int64{}, Observations: map[string]int64{}, Exhaustive: true}
		var last *lx.SeqExplorer
		for _, cfg := range combos {
			cfg := cfg
			label := featLabel(cfg[0].Features)
			e := &lx.SeqExplorer{Ledgers: cfg, Alphabet: alphabet, Depth: depth,
				Sigs: []string{"feature:", "ref:", "acc:volumes", "vol:", "agg:", "tx:postings", "tx:metadata", "acc:metadata", "tx:count", "log:count", "hash:"},
				Check: func(ctx context.Context, s *lx.StepInfo, rep *lx.Report) {
					lx.CheckCurrent(ctx, s.Ctrl, s.Ref, rep)
					lx.CheckPIT(ctx, s.Ctrl, s.Ref, rep)
					lx.CheckFeatureGatesTally(ctx, s.Ctrl, s.Ref, rep, gates)
					// hashes present iff HASH_LOGS=SYNC
					logs, err := lx.ListLogs(ctx, s.Ctrl)
					if err == nil {
						for _, l := range logs {
							has := len(l.Hash) > 0
							if has != (cfg[0].Features["HASH_LOGS"] == "SYNC") {
								rep.Add("hash:presence", "HASH_LOGS=%s but log %d hash present=%v", cfg[0].Features["HASH_LOGS"], *l.ID, has)
							}
						}
					}
					// canonical feature-independent snapshot
					canon := canonicalSnapshot(ctx, s)
					key := strings.Join(opNamesOf(s.Path), ",")
					sn.Lock()
					if sn.byPath[key] == nil {
						sn.byPath[key] = map[string]string{}
					}
					sn.byPath[key][label] = canon
					sn.Unlock()
				}}
			last = e
			st, err := e.Run(context.Background(), r)
			if err != nil {
				r.EngineError(err.Error())
				return r.Finish(nil, []string{pgsimAssumption})
			}
			total.States += st.States
			total.Transitions += st.Transitions
			total.Paths += st.Paths
			total.DepthDone = st.DepthDone
			if !st.Exhaustive {
				total.Exhaustive = false
			}
			for k, v := range st.Outcomes {
				total.Outcomes[k] += v
			}
			for k, v := range st.Observations {
				total.Observations[k] += v
			}
			if total.Samples == nil {
				total.Samples = st.Samples
			}
			if r.Expired() {
				total.Exhaustive = false
				break
			}
		}
		// identical outcome of every history under every combination
		diffs := 0
		for path, m := range sn.byPath {
			var labels []string
			for l := range m {
				labels = append(labels, l)
			}
			sort.Strings(labels)
			for _, l := range labels[1:] {
				if m[l] != m[labels[0]] {
					diffs++
					r.Violation("C35:snapshot-differs", fmt.Sprintf("history [%s]: snapshot under %s differs from %s:\n%s\nvs\n%s", path, l, labels[0], firstDiff(m[l], m[labels[0]]), ""), map[string]any{"ops": path, "a": l, "b": labels[0]})
				}
			}
		}
		vacuous(r, total, "post:ok", "revert:ok", "accmeta:ok")
		// every date-bound shape of the volumes read (end only, start only, both; effective
		// and insertion dates) must have been seen rejected on a MOVES_HISTORY=OFF ledger
		// with a non-empty history, and the start-only shape answered on an ON ledger
		gateSeen := gates.Snapshot()
		if r.ViolationCount() == 0 && total.DepthDone > 0 {
			for _, g := range lx.VolumeGateReads() {
				if gateSeen[g+":rejected"] == 0 {
					r.EngineError(fmt.Sprintf("vacuous: gated read %s was never observed rejected on a ledger without MOVES_HISTORY", g))
				}
				if !strings.HasPrefix(g, "volumes-window-") && gateSeen[g+":answered"] == 0 {
					r.EngineError(fmt.Sprintf("vacuous: gated read %s was never observed answered on a ledger with MOVES_HISTORY", g))
				}
			}
		}
		cov := seqCoverage(last, total, "the same set of histories (every sequence of length<=depth over a 10-op write alphabet) is run under each of the feature combinations; per combination: reads needing a disabled feature must fail with a missing-feature error (date-bounded volumes without MOVES_HISTORY in EVERY shape of the bounds: end only (PIT), start only (OOT) for every recorded transaction date, start+end for every ordered pair of recorded dates, each on effective and on insertion dates; PIT aggregates and account volumes without MOVES_HISTORY; effective volumes/aggregates without MOVES_HISTORY_POST_COMMIT_EFFECTIVE_VOLUMES), everything else must equal the reference (incl. the start-only volumes read == fold of the transactions dated at or after the bound when MOVES_HISTORY=ON), hashes present iff HASH_LOGS=SYNC; across combinations: transactions, logs (hash aside), current balances and current metadata of each history must be identical")
		cov["gate_reads"] = gateSeen
		cov["configurations"] = len(combos)
		cov["histories_compared_across_configurations"] = len(sn.byPath)
		return r.Finish(cov, []string{pgsimAssumption})
	})
}

func featLabel(f map[string]string) string {
	var ks []string
	for k := range f {
		ks = append(ks, k)
	}
	sort.Strings(ks)
	var parts []string
	for _, k := range ks {
		parts = append(parts, k[:3]+strings.ToLower(k[len(k)-3:])+"="+f[k])
	}
	return strings.Join(parts, ",")
}

func opNamesOf(path []lx.Op) []string {
	out := make([]string, len(path))
	for i, o := range path {
		out[i] = o.String()
	}
	return out
}

func firstDiff(a, b string) string {
	la, lb := strings.Split(a, "\n"), strings.Split(b, "\n")
	for i := 0; i < len(la) && i < len(lb); i++ {
		if la[i] != lb[i] {
			return la[i] + "  <>  " + lb[i]
		}
	}
	return fmt.Sprintf("lengths %d vs %d", len(la), len(lb))
}

// canonicalSnapshot renders what C35 says must not depend on features: transactions,
// logs (hash aside), current balances, current metadata. Dates are rendered relative to
// nothing: the logical clock makes them identical when the same statements ran, but
// statement counts differ between feature sets, so dates are left out.
func canonicalSnapshot(ctx context.Context, s *lx.StepInfo) string {
	var sb strings.Builder
	txs, err := lx.ListTxs(ctx, s.Ctrl, common.ResourceQuery[any]{})
	if err != nil {
		return "ERR " + err.Error()
	}
	for _, t := range txs {
		fmt.Fprintf(&sb, "tx %d %v ref=%q meta=%v reverted=%v\n", *t.ID, t.Postings, t.Reference, sortedMeta(t.Metadata), t.RevertedAt != nil)
	}
	accs, err := lx.ListAccs(ctx, s.Ctrl, common.ResourceQuery[any]{})
	if err != nil {
		return "ERR " + err.Error()
	}
	for _, a := range accs {
		fmt.Fprintf(&sb, "acc %s meta=%v\n", a.Address, sortedMeta(a.Metadata))
	}
	vols, err := lx.ListVols(ctx, s.Ctrl, common.ResourceQuery[ledger.GetVolumesOptions]{})
	if err != nil {
		return "ERR " + err.Error()
	}
	for _, v := range vols {
		fmt.Fprintf(&sb, "vol %s %s %s %s\n", v.Account, v.Asset, v.Input, v.Output)
	}
	logs, err := lx.ListLogs(ctx, s.Ctrl)
	if err != nil {
		return "ERR " + err.Error()
	}
	for _, l := range logs {
		fmt.Fprintf(&sb, "log %d %s ik=%q\n", *l.ID, l.Type, l.IdempotencyKey)
	}
	return sb.String()
}

func sortedMeta(m map[string]string) string {
	var ks []string
	for k := range m {
		ks = append(ks, k)
	}
	sort.Strings(ks)
	var parts []string
	for _, k := range ks {
		parts = append(parts, k+"="+m[k])
	}
	return "{" + strings.Join(parts, ",") + "}"
}
