package props

import (
	"context"
	"fmt"
	"os"
	"sort"
	"strings"
	"sync"
	"time"

	ledger "github.com/formancehq/ledger/internal"
	"github.com/formancehq/ledger/internal/storage/common"
	"github.com/formancehq/ledger/verifh/ev"
	"github.com/formancehq/ledger/verifh/lx"
	"github.com/formancehq/ledger/verifh/reg"
)

func isolationAlphabet() []lx.Op {
	var out []lx.Op
	// bucket b2 first: it is the bucket whose population changes during a history (l3 alone,
	// then l4 beside it, either of them soft-deleted or restored with the bucket), so that a
	// run cut by its time budget has covered the bucket lifecycle before the static bucket b1
	for _, l := range []string{"l3", "l1", "l2"} {
		out = append(out,
			lx.Op{Kind: "post", Ledger: l, Name: "fund", Postings: []lx.P{p("world", "a", "USD", "100")}, Ref: "r", IK: "k"},
			lx.Op{Kind: "post", Ledger: l, Name: "a>b30", Postings: []lx.P{p("a", "b", "USD", "30")}, Meta: map[string]string{"who": l}},
			lx.Op{Kind: "accmeta", Ledger: l, Name: "accmeta-a", Address: "a", Meta: map[string]string{"owner": l}},
			lx.Op{Kind: "revert", Ledger: l, Name: "revert1", TxID: 1, Force: true},
		)
		if isoBucket[l] == "b1" {
			// the ledgers that share a bucket from the start also get a write whose funds
			// check reads SEVERAL (account, asset) balances at once (two bounded sources),
			// and a write that gives both of those accounts a balance
			out = append(out,
				lx.Op{Kind: "post", Ledger: l, Name: isoFundBoth, Postings: []lx.P{p("world", "a", "USD", isoFundBothAmount[l]), p("world", "b", "USD", isoFundBothAmount[l])}},
				lx.Op{Kind: "script", Ledger: l, Name: "ab>c50", Script: "send [USD 50] (\n source = {\n  @a\n  @b\n }\n destination = @c\n)"},
			)
		}
		if l == "l3" {
			out = append(out,
				lx.Op{Kind: "createledger", Ledger: "l4", Address: "b2", Name: "create-l4-in-b2"},
				lx.Op{Kind: "post", Ledger: "l4", Name: "fund", Postings: []lx.P{p("world", "a", "USD", "7")}, Ref: "r"},
				// the system-level bucket operations (DELETE /v2/_/buckets/b2 and POST
				// /v2/_/buckets/b2/restore): a soft delete makes every ledger of the bucket
				// unroutable but leaves all their rows in the bucket schema; ledgers can be
				// created in the bucket meanwhile, and a restore brings the old ones back
				lx.Op{Kind: "deletebucket", Address: "b2", Name: "delete-bucket-b2"},
				lx.Op{Kind: "restorebucket", Address: "b2", Name: "restore-bucket-b2"},
			)
		}
	}
	return out
}

// isoFeatureCfgs: l1 and l2 share bucket b1 as in the main configuration, but l1 is created
// with a non-default feature set (l2 keeps the default one): the read and write paths of
// l1 then go through the branches the default set never takes (current metadata instead of
// the metadata history, no moves, no effective volumes, no log hash) while the bucket
// tables hold the rows of a default-feature neighbour using the same addresses.
func isoFeatureCfgs(thorough bool) [][]lx.LedgerSpec {
	minimal := map[string]string{"MOVES_HISTORY": "OFF", "MOVES_HISTORY_POST_COMMIT_EFFECTIVE_VOLUMES": "DISABLED", "HASH_LOGS": "DISABLED", "ACCOUNT_METADATA_HISTORY": "DISABLED", "TRANSACTION_METADATA_HISTORY": "DISABLED"}
	with := func(base map[string]string, kv ...string) map[string]string {
		m := map[string]string{}
		for k, v := range base {
			m[k] = v
		}
		for i := 0; i+1 < len(kv); i += 2 {
			m[kv[i]] = kv[i+1]
		}
		return m
	}
	// quick: the metadata history of accounts alone, everything off but the moves, everything
	// off (every feature is off in one of them, the date-bounded reads are answered in the
	// first two and refused in the third); thorough: also each other feature alone
	sets := []map[string]string{
		{"ACCOUNT_METADATA_HISTORY": "DISABLED"},
		with(minimal, "MOVES_HISTORY", "ON"),
		minimal,
	}
	if thorough {
		sets = append(sets,
			map[string]string{"TRANSACTION_METADATA_HISTORY": "DISABLED"},
			map[string]string{"MOVES_HISTORY": "OFF", "MOVES_HISTORY_POST_COMMIT_EFFECTIVE_VOLUMES": "DISABLED"},
			map[string]string{"MOVES_HISTORY_POST_COMMIT_EFFECTIVE_VOLUMES": "DISABLED"},
			map[string]string{"HASH_LOGS": "DISABLED"},
			map[string]string{"HASH_LOGS": "ASYNC"})
	}
	var out [][]lx.LedgerSpec
	for _, f := range sets {
		out = append(out, []lx.LedgerSpec{{Name: "l1", Bucket: "b1", Features: f}, {Name: "l2", Bucket: "b1"}})
	}
	if thorough {
		// and the mirror image of the first one: the odd ledger is the second of the bucket
		out = append(out, []lx.LedgerSpec{{Name: "l1", Bucket: "b1"}, {Name: "l2", Bucket: "b1", Features: sets[0]}})
	}
	return out
}

// isoCfgLabel names a configuration ("" for the main, all-default one).
func isoCfgLabel(cfg []lx.LedgerSpec) string {
	var parts []string
	for _, l := range cfg {
		if len(l.Features) > 0 {
			parts = append(parts, l.Name+"{"+featLabel(l.Features)+"}")
		}
	}
	return strings.Join(parts, "+")
}

// isoBucketOp: the operation acts on a whole bucket, i.e. on every ledger of it.
func isoBucketOp(o lx.Op) bool { return o.Kind == "deletebucket" || o.Kind == "restorebucket" }

// isoBelongs: the operation is part of the history of ledger l: the operations on l, its own
// creation, and the soft deletes / restores of its bucket.
func isoBelongs(o lx.Op, l string) bool {
	if isoBucketOp(o) {
		return isoBucket[l] == o.Address
	}
	return o.Ledger == l
}

const isoFundBoth = "fund-ab"

// isoFundBothAmount: the same accounts get DIFFERENT balances on the two ledgers of the
// bucket in one operation each: on l1 both sources together cannot pay the 50 of
// `ab>c50`, on l2 each of them can. Whichever balance of the neighbour is read instead
// of the ledger's own, the outcome of `ab>c50` changes.
var isoFundBothAmount = map[string]string{"l1": "10", "l2": "100"}

// isoBucket is the bucket of every ledger of the C19 configuration (l4 is created mid-history).
var isoLedgers = []string{"l1", "l2", "l3", "l4"}

var isoBucket = map[string]string{"l1": "b1", "l2": "b1", "l3": "b2", "l4": "b2"}

// isoOutcomes records what the LAST operation of every enumerated sequence returned, so
// that the sequence can be compared with its own projection on the ledger of that
// operation (the same sequence without the other ledgers' operations), which is itself
// an enumerated (shorter) sequence. Dates are left out: the logical clock counts the
// statements of every ledger.
type isoOutcomes struct {
	sync.Mutex
	byPath map[string]*isoOutcome
	// lifecycle tallies (evaluations of the read oracle, live process and fresh process alike)
	besideDeleted      int64 // a routable ledger read in full while its bucket holds the rows of a soft-deleted, non-empty ledger
	besideDeletedEmpty int64 // ... of those, the routable ledger has no row of its own (every row it returns is foreign)
	restoredNonEmpty   int64 // a non-empty ledger read in full after its bucket was soft-deleted and restored
	goneSkipped        int64 // a soft-deleted ledger left out of the read oracle (the API cannot route it)
	// filtered / date-bounded read set (lx.CheckFiltered), per configuration label
	filtered map[string]*isoFiltered
}

// isoFiltered tallies the filtered read set in one configuration. "beside" = on a ledger
// whose bucket holds, for another ledger, an accounts row of an address the ledger itself
// uses (the situation in which a join that forgets the ledger sees foreign rows).
type isoFiltered struct {
	lx.FilteredTally
	NonEmptyBeside       int64 `json:"non_empty_answers_beside_a_neighbour_owning_the_same_address"`
	CurrentMetaPITBeside int64 `json:"date_bounded_answers_from_current_metadata_beside_such_a_neighbour"`
	EmptyBesideMatching  int64 `json:"empty_answers_while_the_neighbour_s_same_address_matches_the_filter"`
}

func (io *isoOutcomes) tallyFiltered(cfg string, t lx.FilteredTally, beside, foreignMatch bool) {
	io.Lock()
	defer io.Unlock()
	f := io.filtered[cfg]
	if f == nil {
		f = &isoFiltered{}
		io.filtered[cfg] = f
	}
	f.FilteredTally.Add(t)
	if beside {
		f.NonEmptyBeside += t.NonEmpty
		f.CurrentMetaPITBeside += t.CurrentMetaPIT
	}
	if foreignMatch {
		f.EmptyBesideMatching++
	}
}

// isoFilters is the metadata-filter menu of the filtered read set: the alphabet writes
// owner=<ledger> on account a and who=<ledger> on a transaction, so the values are the
// names of the ledgers, plus the existence of the key.
func isoFilters(key string) []lx.MetaFilter {
	out := []lx.MetaFilter{{Key: key}}
	for _, l := range isoLedgers {
		out = append(out, lx.MetaFilter{Key: key, Value: l})
	}
	return out
}

// tally classifies one evaluation of the read oracle with respect to the bucket lifecycle.
func (io *isoOutcomes) tally(s *lx.StepInfo) {
	restored := map[string]bool{} // bucket -> soft-deleted then restored earlier in the sequence
	deleted := map[string]bool{}
	for _, o := range s.Path {
		switch o.Kind {
		case "deletebucket":
			deleted[o.Address] = true
		case "restorebucket":
			if deleted[o.Address] {
				restored[o.Address] = true
			}
		}
	}
	var beside, besideEmpty, rest int64
	for n := range s.Ctrls {
		for g := range s.Gone {
			if s.Buckets[g] == s.Buckets[n] && len(s.Refs[g].Logs) > 0 {
				beside++
				if len(s.Refs[n].Logs) == 0 {
					besideEmpty++
				}
				break
			}
		}
		if restored[s.Buckets[n]] && len(s.Refs[n].Logs) > 0 {
			rest++
		}
	}
	io.Lock()
	io.besideDeleted += beside
	io.besideDeletedEmpty += besideEmpty
	io.restoredNonEmpty += rest
	io.goneSkipped += int64(len(s.Gone))
	io.Unlock()
}

type isoOutcome struct {
	cfg         string // label of the configuration ("" = all ledgers with the default features)
	ledgers     []lx.LedgerSpec
	path        []lx.Op
	class, full string
	zeroRows    map[string]string // ledger -> its (0,0) volumes rows no posting of it explains
}

const isoZeroRow = "vol:unexpected:cur:zero-row"

func isoKey(cfg string, path []lx.Op) string {
	parts := make([]string, len(path))
	for i, o := range path {
		parts[i] = o.Ledger + "/" + o.String()
	}
	return cfg + "#" + strings.Join(parts, ",")
}

func (io *isoOutcomes) record(s *lx.StepInfo, zero map[string][]string) {
	class := s.Out.Class
	if s.Out.OK() {
		class = "ok"
		if s.Out.Hit {
			class = "ok(hit)"
		}
	}
	var sb strings.Builder
	sb.WriteString(class)
	if l := s.Out.Log; l != nil && l.ID != nil {
		fmt.Fprintf(&sb, " log=%d/%s", *l.ID, l.Type)
	}
	if t := s.Out.Tx; t != nil && t.ID != nil {
		fmt.Fprintf(&sb, " tx=%d %v ref=%q meta=%s", *t.ID, t.Postings, t.Reference, sortedMeta(t.Metadata))
	}
	if t := s.Out.Reverted; t != nil && t.ID != nil {
		fmt.Fprintf(&sb, " reverted=%d", *t.ID)
	}
	zr := map[string]string{}
	for l, rows := range zero {
		sort.Strings(rows)
		zr[l] = strings.Join(rows, "; ")
	}
	io.Lock()
	defer io.Unlock()
	cfg := isoCfgLabel(s.Ledgers)
	k := isoKey(cfg, s.Path)
	if prev := io.byPath[k]; prev != nil {
		// second evaluation of the same sequence (freshly attached process): keep both views
		for l, rows := range prev.zeroRows {
			if zr[l] != rows {
				zr[l] = rows + " | " + zr[l]
			}
		}
	}
	io.byPath[k] = &isoOutcome{cfg: cfg, ledgers: s.Ledgers, path: s.Path, class: class, full: sb.String(), zeroRows: zr}
}

// compare is the cross-path half of the C19 oracle: a write on a ledger is refused or
// accepted, and returns the transaction it returns, whatever was written on the others.
func (io *isoOutcomes) compare(r *ev.Run, total *lx.SeqStats, cov ev.Coverage) {
	io.Lock()
	defer io.Unlock()
	keys := make([]string, 0, len(io.byPath))
	for k := range io.byPath {
		keys = append(keys, k)
	}
	sort.Slice(keys, func(i, j int) bool {
		if a, b := len(io.byPath[keys[i]].path), len(io.byPath[keys[j]].path); a != b {
			return a < b
		}
		return keys[i] < keys[j]
	})
	var compared, notEnumerated, differing, zeroCompared, ownZero int64
	multi := map[string]int64{}
	for _, k := range keys {
		got := io.byPath[k]
		ledgers := got.ledgers
		in := ""
		if got.cfg != "" {
			in = " [configuration " + got.cfg + "]"
		}
		last := got.path[len(got.path)-1]
		var own []lx.Op
		fundedNeighbour := false
		for _, o := range got.path[:len(got.path)-1] {
			if isoBelongs(o, last.Ledger) {
				own = append(own, o)
			} else if o.Name == isoFundBoth && isoBucket[o.Ledger] == isoBucket[last.Ledger] {
				fundedNeighbour = true
			}
		}
		own = append(own, last)
		// (0,0) volumes rows of every ledger: exactly those its own operations produce
		for _, l := range isoLedgers {
			var proj []lx.Op
			for _, o := range got.path {
				if isoBelongs(o, l) {
					proj = append(proj, o)
				}
			}
			if len(proj) == len(got.path) {
				if got.zeroRows[l] != "" {
					ownZero++
				}
				continue
			}
			want := ""
			if len(proj) > 0 {
				alone := io.byPath[isoKey(got.cfg, proj)]
				if alone == nil {
					continue
				}
				want = alone.zeroRows[l]
			}
			zeroCompared++
			if got.zeroRows[l] != want {
				differing++
				r.Violation("C19:iso:vol:zero-row:depends-on-other-ledger", fmt.Sprintf("after %v"+in+" ledger %s lists the volumes rows [%s] that none of its postings explains; after its own operations alone (%v) it lists [%s]", opNamesOf2(got.path), l, got.zeroRows[l], opNamesOf2(proj), want),
					map[string]any{"ledgers": ledgers, "ops": got.path, "projection": proj})
			}
		}
		if isoBucketOp(last) {
			// a soft delete / restore is not an operation ON a ledger: what it returns is not
			// the subject of the property (its effect on what every ledger returns is)
			continue
		}
		if len(own) == len(got.path) {
			continue
		}
		alone := io.byPath[isoKey(got.cfg, own)]
		if alone == nil {
			notEnumerated++ // only on a run cut by its budget
			continue
		}
		compared++
		if last.Kind == "script" && fundedNeighbour {
			multi[alone.class]++
		}
		if alone.full == got.full {
			continue
		}
		differing++
		sig := fmt.Sprintf("C19:iso:outcome:%s:%s->%s", last.Kind, alone.class, got.class)
		if alone.class == got.class {
			sig = fmt.Sprintf("C19:iso:outcome:%s:%s:result-differs", last.Kind, got.class)
		}
		r.Violation(sig, fmt.Sprintf("after %v"+in+" the last operation returned [%s]; without the operations of the other ledgers (%v) it returns [%s]", opNamesOf2(got.path), got.full, opNamesOf2(own), alone.full),
			map[string]any{"ledgers": ledgers, "ops": got.path, "projection": own})
	}
	cov["cross_ledger_outcome_comparisons"] = compared
	cov["cross_ledger_differences"] = differing
	cov["projections_not_enumerated"] = notEnumerated
	cov["cross_ledger_zero_row_comparisons"] = zeroCompared
	cov["single_ledger_sequences_leaving_a_zero_volumes_row"] = ownZero
	cov["multi_balance_reads_beside_a_funded_neighbour_by_own_outcome"] = multi
	cov["bucket_lifecycle"] = map[string]int64{
		"read_oracle_runs_on_a_ledger_whose_bucket_holds_rows_of_a_soft_deleted_ledger":           io.besideDeleted,
		"of_which_on_a_ledger_without_any_row_of_its_own":                                         io.besideDeletedEmpty,
		"read_oracle_runs_on_a_non_empty_ledger_after_soft_delete_and_restore_of_its_bucket":      io.restoredNonEmpty,
		"soft_deleted_ledgers_left_out_of_the_read_oracle_(not_routable_through_the_API)":         io.goneSkipped,
		"operations_addressed_to_a_ledger_that_is_not_routable_(not_created_yet_or_soft_deleted)": total.Outcomes["post:no_such_ledger"] + total.Outcomes["script:no_such_ledger"] + total.Outcomes["revert:no_such_ledger"] + total.Outcomes["accmeta:no_such_ledger"],
	}
	filt := map[string]*isoFiltered{}
	for k, v := range io.filtered {
		if k == "" {
			k = "default features"
		}
		filt[k] = v
	}
	cov["filtered_read_set_by_configuration"] = filt
	if r.ViolationCount() > 0 || total.DepthDone < 2 {
		return
	}
	// the filtered read set must have run, in EVERY configuration, on a ledger whose bucket
	// neighbour owns the same address, with non-empty and with must-stay-empty answers; a
	// ledger without ACCOUNT_METADATA_HISTORY must have answered date-bounded filtered reads
	// from its current metadata there; a ledger without MOVES_HISTORY must have refused them
	var curMeta, curMetaMustStayEmpty, rejected int64
	for k, v := range io.filtered {
		name := k
		if name == "" {
			name = "default features"
		}
		if v.NonEmptyBeside == 0 || v.EmptyBesideMatching == 0 || v.Selective == 0 {
			r.EngineError(fmt.Sprintf("vacuous: filtered read set in configuration %s: non-empty answers beside a neighbour owning the same address %d, selective answers %d, answers that must stay empty although the neighbour's row matches %d", name, v.NonEmptyBeside, v.Selective, v.EmptyBesideMatching))
		}
		curMeta += v.CurrentMetaPIT
		if v.CurrentMetaPIT > 0 {
			curMetaMustStayEmpty += v.EmptyBesideMatching
		}
		rejected += v.Rejected
	}
	if len(io.filtered) < 2 || curMeta == 0 || curMetaMustStayEmpty == 0 || rejected == 0 {
		r.EngineError(fmt.Sprintf("vacuous: feature configurations of the filtered read set: %d configurations; on ledgers without ACCOUNT_METADATA_HISTORY: non-empty date-bounded answers from the current metadata %d, answers that must stay empty although the neighbour's row matches %d; date-bounded reads refused for a missing feature %d", len(io.filtered), curMeta, curMetaMustStayEmpty, rejected))
	}
	// the bucket lifecycle must really have been exercised: [write on l3, soft delete of b2,
	// create l4 in b2] has length 3, and so has [write on l3, soft delete, restore]
	if total.DepthDone >= 3 {
		if io.besideDeleted == 0 || io.besideDeletedEmpty == 0 {
			r.EngineError(fmt.Sprintf("vacuous: no ledger was read while its bucket held the rows of a soft-deleted non-empty ledger (%d; on a ledger with no row of its own: %d)", io.besideDeleted, io.besideDeletedEmpty))
		}
		if io.restoredNonEmpty == 0 {
			r.EngineError("vacuous: no non-empty ledger was read after the soft delete and the restore of its bucket")
		}
		if io.goneSkipped == 0 {
			r.EngineError("vacuous: the soft delete of a bucket never made a ledger unroutable")
		}
	}
	if compared == 0 {
		r.EngineError("vacuous: no sequence was compared with its projection on one ledger")
	}
	// the multi-balance funds check must have run on a ledger whose bucket neighbour holds
	// different balances for the same accounts, both where the ledger's own balances
	// refuse the write and where they allow it
	if multi["insufficient_funds"] == 0 || multi["ok"] == 0 {
		r.EngineError(fmt.Sprintf("vacuous: two-source writes beside a bucket neighbour that funded the same accounts: %v (need both insufficient_funds and ok)", multi))
	}
}

// isoFeaturesOf renders the non-default features of ledger n in the configuration.
func isoFeaturesOf(cfg []lx.LedgerSpec, n string) string {
	for _, l := range cfg {
		if l.Name == n && len(l.Features) > 0 {
			return " {" + featLabel(l.Features) + "}"
		}
	}
	return ""
}

func opNamesOf2(path []lx.Op) []string {
	out := make([]string, len(path))
	for i, o := range path {
		out[i] = o.Ledger + "/" + o.String()
	}
	return out
}

func init() {
	isoCfg := []lx.LedgerSpec{{Name: "l1", Bucket: "b1"}, {Name: "l2", Bucket: "b1"}, {Name: "l3", Bucket: "b2"}}
	isoOut := &isoOutcomes{byPath: map[string]*isoOutcome{}, filtered: map[string]*isoFiltered{}}
	thorough := os.Getenv("VERIF_TIER") == "thorough"
	// the operations of the two ledgers sharing b1 (the alphabet of the feature configurations)
	// plus, per ledger, one write that gives account a both volumes and the metadata
	// owner=<ledger> (account metadata sent with the transaction), so that sequences one
	// operation shorter than in the main configuration reach «my account a matches the
	// filter and holds volumes, the neighbour's account a holds other metadata»
	var b1Alphabet []lx.Op
	for _, o := range isolationAlphabet() {
		if isoBucket[o.Ledger] == "b1" && o.Kind != "createledger" {
			b1Alphabet = append(b1Alphabet, o)
		}
	}
	for _, l := range []string{"l1", "l2"} {
		b1Alphabet = append(b1Alphabet, lx.Op{Kind: "post", Ledger: l, Name: "fund+owner", Postings: []lx.P{p("world", "a", "USD", "100")},
			AccMeta: map[string]map[string]string{"a": {"owner": l}}})
	}
	accFilters, txFilters := isoFilters("owner"), isoFilters("who")
	// filteredReads is the filtered / date-bounded part of the read oracle for ledger n.
	filteredReads := func(ctx context.Context, s *lx.StepInfo, n string, rep *lx.Report) {
		// the filtered and date-bounded reads: volumes, aggregated balances, accounts
		// and transactions under a metadata filter, without bound, with an end, a
		// start, both, on both kinds of date — against this ledger's own reference
		// (menu of ledger n: the key exists, the key holds n's name, the key holds the
		// name of each other ledger of n's bucket).
		// Isolation is at stake only where foreign rows exist: the set is read on a ledger
		// when another ledger of its bucket — routable or soft-deleted — has written
		// something (what a filter selects on a ledger alone with its own rows is C20's
		// subject). Quick tier: from the live process only (the unfiltered reads above are
		// made from both; a join that forgets the ledger does not depend on the process).
		foreign := false
		for g, gref := range s.Refs {
			if g != n && s.Buckets[g] == s.Buckets[n] && (len(gref.Accs) > 0 || len(gref.Logs) > 0) {
				foreign = true
			}
		}
		if !foreign || (s.Fresh && !thorough) {
			return
		}
		main := isoCfgLabel(s.Ledgers) == ""
		level := 1
		if thorough && (!main || len(s.Path) <= 2) {
			level = 2
		}
		if main && len(s.Path) > 2 {
			// longer sequences of the main configuration: only the ledgers of the bucket the
			// last operation touched (the others were read in the same bucket state after the
			// sequence without its last operation), live process, and in the quick tier the
			// volumes listing only
			touched := isoBucket[s.Last.Ledger]
			if isoBucketOp(s.Last) || s.Last.Kind == "createledger" {
				touched = s.Last.Address
			}
			if s.Fresh || s.Buckets[n] != touched {
				return
			}
			if !thorough {
				level = 0
			}
		}
		var af, tf []lx.MetaFilter
		for i, mf := range accFilters {
			if mf.Value == "" || mf.Value == n || isoBucket[mf.Value] == s.Buckets[n] {
				af, tf = append(af, mf), append(tf, txFilters[i])
			}
		}
		fsub := &lx.Report{}
		ft := lx.CheckFiltered(ctx, s.Ctrls[n], s.Refs[n], af, tf, level, fsub)
		for _, m := range fsub.Items {
			rep.Add("iso:"+m.Sig, "ledger %s%s: %s", n, isoFeaturesOf(s.Ledgers, n), m.What)
		}
		beside, foreignMatch := false, false
		for g, gref := range s.Refs {
			if g == n || s.Buckets[g] != s.Buckets[n] {
				continue
			}
			for addr, ga := range gref.Accs {
				if s.Refs[n].Accs[addr] != nil {
					beside = true
					if _, has := ga.Meta["owner"]; has && s.Refs[n].Accs[addr].Meta["owner"] == "" && len(s.Refs[n].Volumes(nil)[addr]) > 0 {
						// the neighbour's row of the same address matches exists(owner) and
						// owner=<neighbour>, this ledger's own row matches neither, and this
						// ledger has volumes on the address: the filtered volumes of THIS
						// ledger must stay empty
						foreignMatch = true
					}
				}
			}
		}
		isoOut.tallyFiltered(isoCfgLabel(s.Ledgers), ft, beside, foreignMatch)
	}
	registerSeq(seqCheck{
		id: "C19", quick: 110 * time.Second, thor: 15 * time.Minute, depthQ: 3, depthT: 4,
		alphabet: isolationAlphabet(), restart: true,
		// the feature configurations first: they are small (two ledgers, their 12 operations,
		// one level less deep) and a run cut by its budget must have covered them
		configs: append(isoFeatureCfgs(thorough), isoCfg),
		cfgAlphabet: func(cfg []lx.LedgerSpec) []lx.Op {
			if isoCfgLabel(cfg) != "" {
				return b1Alphabet
			}
			return isolationAlphabet()
		},
		cfgDepth: func(cfg []lx.LedgerSpec, depth int) int {
			if isoCfgLabel(cfg) != "" {
				return depth - 1
			}
			return depth
		},
		sigs: []string{"iso:", "ref:"},
		check: func(ctx context.Context, s *lx.StepInfo, rep *lx.Report) {
			zero := map[string][]string{}
			var names []string
			for n := range s.Ctrls {
				names = append(names, n)
			}
			sort.Strings(names)
			for _, n := range names {
				sub := &lx.Report{}
				lx.CheckCurrent(ctx, s.Ctrls[n], s.Refs[n], sub)
				for _, m := range sub.Items {
					if m.Sig == isoZeroRow {
						// a (0,0) volumes row of a pair no posting of this ledger touches: the
						// ledger's own funds checks create such rows (GetBalances inserts a zero
						// row for every balance it reads), so the reference cannot tell whose
						// row it is; the projection oracle can: see isoOutcomes.compare
						zero[n] = append(zero[n], m.What)
						continue
					}
					rep.Add("iso:"+m.Sig, "ledger %s: %s", n, m.What)
				}
				filteredReads(ctx, s, n, rep)
				// schemas listing must be empty everywhere (no schema is ever inserted here)
				if sc, err := s.Ctrls[n].ListSchemas(ctx, common.InitialPaginatedQuery[any]{PageSize: 10}); err == nil && len(sc.Data) != 0 {
					rep.Add("iso:schemas", "ledger %s lists %d schemas", n, len(sc.Data))
				}
			}
			isoOut.tally(s)
			isoOut.record(s, zero)
		},
		post: func(r *ev.Run, total *lx.SeqStats, cov ev.Coverage) { isoOut.compare(r, total, cov) },
		need: []string{"post:ok", "post:insufficient_funds", "script:ok", "script:insufficient_funds", "revert:ok", "accmeta:ok", "createledger:ok", "deletebucket:ok", "restorebucket:ok"},
		rule: "ledgers l1,l2 share bucket b1, l3 is alone in b2 (alone-in-bucket optimisation active) until the operation `create l4 in b2` runs; every sequence of length<=depth over the same writes on each ledger (same addresses, same reference r, same idempotency key k, reverts of tx 1; on the two ledgers sharing b1 also a transaction funding accounts a and b, with 10 each on l1 and 100 each on l2 so that the same accounts hold different balances, and a Numscript send of 50 drawing on the two bounded sources {@a @b}, whose funds check reads two balances at once: l1 alone cannot pay it, l2 alone can) plus the mid-history ledger creation, plus the two system-level bucket operations on b2: soft delete (DELETE /v2/_/buckets/b2: every ledger of b2 stops being routable, all its rows stay in the bucket schema) and restore (POST /v2/_/buckets/b2/restore), in every order with the creation of l4 and the writes (l4 created beside a soft-deleted non-empty l3, l3 restored beside an l4 created meanwhile, l3 and l4 deleted and restored together, ...). After a bucket operation the explorer asks the system store, for every ledger, whether it can still be routed (as the API's ledger middleware does for every request): operations on an unroutable ledger are not executed (404), a ledger that is routable again is re-opened. (1) after each sequence EVERY read API of EVERY ROUTABLE ledger must equal that ledger's own reference model (a soft-deleted ledger's reads are out of scope: it is gone for the API; a ledger created in the bucket of soft-deleted ledgers must read as its own history says, i.e. empty until it is written to; a restored ledger must read exactly as before its deletion), from the live controllers (whose stores share the per-bucket aloneInBucket flag) and from a freshly attached process; (2) what the last operation of each sequence returned (accepted / refused with which error / idempotency hit, log id and type, transaction id, postings, reference, metadata, reverted id; dates aside) must equal what it returns in the same sequence WITHOUT the operations of the other ledgers (its projection, itself an enumerated sequence; the soft deletes and restores of a bucket belong to the projection of every ledger of that bucket): e.g. insufficient funds on l1 must not depend on the balances of the same accounts on l2; (3) a (0,0) volumes row of a pair no posting of the ledger touches (the ledger's funds check materialises one for each source it consulted) must be there exactly when the ledger's own operations alone leave it; (4) FILTERED AND DATE-BOUNDED READS (filtered_read_set_by_configuration): after each sequence, on every routable ledger beside which another ledger of the same bucket (routable or soft-deleted) has written something, the reads whose SQL joins the ledger's rows with the bucket's accounts / accounts_metadata tables must equal the ledger's own reference: the volumes listing under each metadata filter of the menu {the key owner exists, owner=<this ledger>, owner=<each other ledger of the bucket>} with no date bound, with start+end on effective dates and with an end on insertion dates (bounds outside the history: the fold is the whole history, the metadata the current one), and — for sequences of at most two operations and in the feature configurations — also the aggregated balances (no bound; end on insertion dates), the accounts listing (no bound; point in time) under the same filters and the transactions listing under {who exists, who=<ledger>} (thorough: every shape — no bound, end, start, both, each on effective and insertion dates — and the end also at every recorded date, where the metadata is the revision of that date or, without ACCOUNT_METADATA_HISTORY, the current one; from the live and from the fresh process). In the main configuration, for sequences longer than two operations, the set is read on the ledgers of the bucket the last operation touched (the others were read in the same bucket state one operation earlier), from the live process. FEATURE CONFIGURATIONS, explored before the main one at each depth, one level less deep (quick: depth 2): l1 and l2 share b1, l2 has the default features and l1 is created with ACCOUNT_METADATA_HISTORY=DISABLED / the minimal feature set with MOVES_HISTORY=ON / the minimal feature set (thorough: also TRANSACTION_METADATA_HISTORY=DISABLED, MOVES_HISTORY=OFF+effective volumes DISABLED, effective volumes DISABLED alone, HASH_LOGS=DISABLED, HASH_LOGS=ASYNC, and the first one mirrored on l2); alphabet: the 12 operations of l1 and l2 plus, per ledger, a transaction world→a carrying the account metadata owner=<ledger> (so that two operations reach «my account a holds volumes and matches the filter, the neighbour's account a holds other metadata»); same oracles (1)–(4), a date-bounded read on a ledger without MOVES_HISTORY must be refused with a missing-feature error. Vacuity guards of (4): in every configuration non-empty, selective and must-stay-empty-although-the-neighbour's-row-of-the-same-address-matches answers were compared; on a ledger without ACCOUNT_METADATA_HISTORY date-bounded filtered volumes were answered from the current metadata; date-bounded reads were refused on a ledger without MOVES_HISTORY",
	})

	// ---------- C35 ----------
	reg.Register("C35", func() int {
		r := ev.Start("C35", ev.LevelMC, 110*time.Second, 15*time.Minute)
		combos := featureCombos("ACCOUNT_METADATA_HISTORY", "TRANSACTION_METADATA_HISTORY", "HASH_LOGS", "MOVES_HISTORY", "MOVES_HISTORY_POST_COMMIT_EFFECTIVE_VOLUMES")
		// the feature matrix also contains MOVES_HISTORY=OFF + EFFECTIVE_VOLUMES=SYNC (48
		// combinations); the ledger refuses none of them at creation, so keep it
		alphabet := []lx.Op{
			coreAlphabet()[0], coreAlphabet()[1], coreAlphabet()[3], coreAlphabet()[5], coreAlphabet()[8],
			coreAlphabet()[9], coreAlphabet()[11], coreAlphabet()[12], coreAlphabet()[14], metaAlphabet()[10],
		}
		depth := ev.Pick(r, 2, 3)
		type snap struct {
			sync.Mutex
			byPath map[string]map[string]string // path -> combo -> canonical snapshot
		}
		sn := &snap{byPath: map[string]map[string]string{}}
		gates := lx.NewGateTally()
		total := &lx.SeqStats{Outcomes: map[string]int64{}, Observations: map[string]int64{}, Exhaustive: true}
		var last *lx.SeqExplorer
		for _, cfg := range combos {
			cfg := cfg
			label := featLabel(cfg[0].Features)
			e := &lx.SeqExplorer{Ledgers: cfg, Alphabet: alphabet, Depth: depth,
				Sigs: []string{"feature:", "ref:", "acc:volumes", "vol:", "agg:", "tx:postings", "tx:metadata", "acc:metadata", "tx:count", "log:count", "hash:"},
				Check: func(ctx context.Context, s *lx.StepInfo, rep *lx.Report) {
					lx.CheckCurrent(ctx, s.Ctrl, s.Ref, rep)
					lx.CheckPIT(ctx, s.Ctrl, s.Ref, rep)
					lx.CheckFeatureGatesTally(ctx, s.Ctrl, s.Ref, rep, gates)
					// hashes present iff HASH_LOGS=SYNC
					logs, err := lx.ListLogs(ctx, s.Ctrl)
					if err == nil {
						for _, l := range logs {
							has := len(l.Hash) > 0
							if has != (cfg[0].Features["HASH_LOGS"] == "SYNC") {
								rep.Add("hash:presence", "HASH_LOGS=%s but log %d hash present=%v", cfg[0].Features["HASH_LOGS"], *l.ID, has)
							}
						}
					}
					// canonical feature-independent snapshot
					canon := canonicalSnapshot(ctx, s)
					key := strings.Join(opNamesOf(s.Path), ",")
					sn.Lock()
					if sn.byPath[key] == nil {
						sn.byPath[key] = map[string]string{}
					}
					sn.byPath[key][label] = canon
					sn.Unlock()
				}}
			last = e
			st, err := e.Run(context.Background(), r)
			if err != nil {
				r.EngineError(err.Error())
				return r.Finish(nil, []string{pgsimAssumption})
			}
			total.States += st.States
			total.Transitions += st.Transitions
			total.Paths += st.Paths
			total.DepthDone = st.DepthDone
			if !st.Exhaustive {
				total.Exhaustive = false
			}
			for k, v := range st.Outcomes {
				total.Outcomes[k] += v
			}
			for k, v := range st.Observations {
				total.Observations[k] += v
			}
			if total.Samples == nil {
				total.Samples = st.Samples
			}
			if r.Expired() {
				total.Exhaustive = false
				break
			}
		}
		// identical outcome of every history under every combination
		diffs := 0
		for path, m := range sn.byPath {
			var labels []string
			for l := range m {
				labels = append(labels, l)
			}
			sort.Strings(labels)
			for _, l := range labels[1:] {
				if m[l] != m[labels[0]] {
					diffs++
					r.Violation("C35:snapshot-differs", fmt.Sprintf("history [%s]: snapshot under %s differs from %s:\n%s\nvs\n%s", path, l, labels[0], firstDiff(m[l], m[labels[0]]), ""), map[string]any{"ops": path, "a": l, "b": labels[0]})
				}
			}
		}
		vacuous(r, total, "post:ok", "revert:ok", "accmeta:ok")
		// every date-bound shape of the volumes read (end only, start only, both; effective
		// and insertion dates) must have been seen rejected on a MOVES_HISTORY=OFF ledger
		// with a non-empty history, and the start-only shape answered on an ON ledger
		gateSeen := gates.Snapshot()
		if r.ViolationCount() == 0 && total.DepthDone > 0 {
			for _, g := range lx.VolumeGateReads() {
				if gateSeen[g+":rejected"] == 0 {
					r.EngineError(fmt.Sprintf("vacuous: gated read %s was never observed rejected on a ledger without MOVES_HISTORY", g))
				}
				if !strings.HasPrefix(g, "volumes-window-") && gateSeen[g+":answered"] == 0 {
					r.EngineError(fmt.Sprintf("vacuous: gated read %s was never observed answered on a ledger with MOVES_HISTORY", g))
				}
			}
		}
		cov := seqCoverage(last, total, "the same set of histories (every sequence of length<=depth over a 10-op write alphabet) is run under each of the feature combinations; per combination: reads needing a disabled feature must fail with a missing-feature error (date-bounded volumes without MOVES_HISTORY in EVERY shape of the bounds: end only (PIT), start only (OOT) for every recorded transaction date, start+end for every ordered pair of recorded dates, each on effective and on insertion dates; PIT aggregates and account volumes without MOVES_HISTORY; effective volumes/aggregates without MOVES_HISTORY_POST_COMMIT_EFFECTIVE_VOLUMES), everything else must equal the reference (incl. the start-only volumes read == fold of the transactions dated at or after the bound when MOVES_HISTORY=ON), hashes present iff HASH_LOGS=SYNC; across combinations: transactions, logs (hash aside), current balances and current metadata of each history must be identical")
		cov["gate_reads"] = gateSeen
		cov["configurations"] = len(combos)
		cov["histories_compared_across_configurations"] = len(sn.byPath)
		return r.Finish(cov, []string{pgsimAssumption})
	})
}

func featLabel(f map[string]string) string {
	var ks []string
	for k := range f {
		ks = append(ks, k)
	}
	sort.Strings(ks)
	var parts []string
	for _, k := range ks {
		parts = append(parts, k[:3]+strings.ToLower(k[len(k)-3:])+"="+f[k])
	}
	return strings.Join(parts, ",")
}

func opNamesOf(path []lx.Op) []string {
	out := make([]string, len(path))
	for i, o := range path {
		out[i] = o.String()
	}
	return out
}

func firstDiff(a, b string) string {
	la, lb := strings.Split(a, "\n"), strings.Split(b, "\n")
	for i := 0; i < len(la) && i < len(lb); i++ {
		if la[i] != lb[i] {
			return la[i] + "  <>  " + lb[i]
		}
	}
	return fmt.Sprintf("lengths %d vs %d", len(la), len(lb))
}

// canonicalSnapshot renders what C35 says must not depend on features: transactions,
// logs (hash aside), current balances, current metadata. Dates are rendered relative to
// nothing: the logical clock makes them identical when the same statements ran, but
// statement counts differ between feature sets, so dates are left out.
func canonicalSnapshot(ctx context.Context, s *lx.StepInfo) string {
	var sb strings.Builder
	txs, err := lx.ListTxs(ctx, s.Ctrl, common.ResourceQuery[any]{})
	if err != nil {
		return "ERR " + err.Error()
	}
	for _, t := range txs {
		fmt.Fprintf(&sb, "tx %d %v ref=%q meta=%v reverted=%v\n", *t.ID, t.Postings, t.Reference, sortedMeta(t.Metadata), t.RevertedAt != nil)
	}
	accs, err := lx.ListAccs(ctx, s.Ctrl, common.ResourceQuery[any]{})
	if err != nil {
		return "ERR " + err.Error()
	}
	for _, a := range accs {
		fmt.Fprintf(&sb, "acc %s meta=%v\n", a.Address, sortedMeta(a.Metadata))
	}
	vols, err := lx.ListVols(ctx, s.Ctrl, common.ResourceQuery[ledger.GetVolumesOptions]{})
	if err != nil {
		return "ERR " + err.Error()
	}
	for _, v := range vols {
		fmt.Fprintf(&sb, "vol %s %s %s %s\n", v.Account, v.Asset, v.Input, v.Output)
	}
	logs, err := lx.ListLogs(ctx, s.Ctrl)
	if err != nil {
		return "ERR " + err.Error()
	}
	for _, l := range logs {
		fmt.Fprintf(&sb, "log %d %s ik=%q\n", *l.ID, l.Type, l.IdempotencyKey)
	}
	return sb.String()
}

func sortedMeta(m map[string]string) string {
	var ks []string
	for k := range m {
		ks = append(ks, k)
	}
	sort.Strings(ks)
	var parts []string
	for _, k := range ks {
		parts = append(parts, k+"="+m[k])
	}
	return "{" + strings.Join(parts, ",") + "}"
}
