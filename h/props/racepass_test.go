//go:build racepass

package props

// Free-running pass of the K2 scenario bodies under the Go race detector (DESIGN
// section 3): the cooperative scheduler's hand-offs are happens-before edges that
// blind the detector, so the SAME thread bodies are run here on real goroutines, with
// pgsim in ModeFree (engine lock + real blocking), built with -race. This is not a
// deciding step of any property (it samples schedules); it only reports unsynchronised
// accesses, which the schedule enumeration assumes away ("Go code between two driver
// calls is atomic"). Run by tools/racepass.sh.

import (
	"context"
	"os"
	"sort"
	"strconv"
	"sync"
	"testing"

	"github.com/formancehq/ledger/verifh/pgsim"
	"github.com/formancehq/ledger/verifh/sched"
	"github.com/formancehq/ledger/verifh/world"
)

func TestRacePass(t *testing.T) {
	reps := 8
	if v, err := strconv.Atoi(os.Getenv("RACEPASS_REPS")); err == nil && v > 0 {
		reps = v
	}
	var ids []string
	for id := range concSets {
		ids = append(ids, id)
	}
	sort.Strings(ids)
	total := 0
	for _, id := range ids {
		scs, err := concSets[id]()
		if err != nil {
			t.Fatalf("%s: %v", id, err)
		}
		for _, sc := range scs {
			for rep := 0; rep < reps; rep++ {
				pg := sc.Base.Clone()
				pg.Mode = pgsim.ModeFree
				w := world.Attach(pg)
				bodies, _ := sc.New(w)
				var wg sync.WaitGroup
				start := make(chan struct{})
				for i, b := range bodies {
					wg.Add(1)
					go func(i int, b func(ctx context.Context)) {
						defer wg.Done()
						<-start
						b(sched.WithThread(context.Background(), i))
					}(i, b)
				}
				close(start)
				wg.Wait()
				w.Close()
				total++
			}
			t.Logf("RACEPASS %s %s: %d free-running executions", id, sc.Name, reps)
		}
	}
	t.Logf("RACEPASS total executions: %d", total)
}
