// Package reg is the registry of property checks; each props package registers in init().
package reg

// Check runs one property and returns the process exit code (0 ok, 1 violation, 2 engine error).
type Check func() int

var registry = map[string]Check{}

func Register(id string, c Check) { registry[id] = c }
func Lookup(id string) (Check, bool) {
	c, ok := registry[id]
	return c, ok
}
func IDs() []string {
	var out []string
	for k := range registry {
		out = append(out, k)
	}
	return out
}
