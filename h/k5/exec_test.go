package k5

import (
	"context"
	"fmt"
	"hash/fnv"
	"runtime"
	"sort"
	"strings"
	"testing"
	"testing/synctest"
	"time"
)

type actKind int

const (
	aRelease actKind = iota
	aAdvance
	aCmd
	aAppend
)

type action struct {
	kind actKind
	g    *gate
	fail bool
	cmd  cmdKind
	end  bool // the default at a quiescent point: stop the execution here
}

func (a action) label() string {
	switch a.kind {
	case aRelease:
		if a.fail {
			return "release " + a.g.label() + " with ERROR"
		}
		return "release " + a.g.label() + " ok"
	case aAdvance:
		if a.end {
			return "end (quiescent: advancing time only repeats the idle pull cycle)"
		}
		return "advance time to the next timer"
	case aCmd:
		return "command " + cmdNames[a.cmd]
	case aAppend:
		return "append a log to the ledger"
	}
	return "?"
}

// execResult is what one complete execution (one bubble) reports.
type execResult struct {
	choices    []uint8
	nchoices   []uint8
	hashes     []uint64
	viol       *violationInfo
	engErr     string
	horizonHit bool
	quiescent  bool
	final      string
	trace      []string
	maxPending int
	crash      string
	// batched configurations
	pages, pagesOK, splitPages, partialPages, swallowed int
}

func (x *execResult) deviationsBefore(i int) int {
	n := 0
	for _, c := range x.choices[:i] {
		if c != 0 {
			n++
		}
	}
	return n
}

func (x *execResult) outcome() string {
	switch {
	case x.engErr != "":
		return "engine-error"
	case x.viol != nil:
		return "violation:" + x.viol.sig
	case x.crash != "":
		return "code-under-test-panicked"
	case x.horizonHit:
		return "horizon"
	case x.quiescent:
		return "quiescent-all-exported"
	}
	return "?"
}

// observe runs on the controller goroutine right after synctest.Wait: every other
// goroutine of the bubble is durably blocked, so the world is stable.
func (w *world) observe(step int) {
	w.mu.Lock()
	defer w.mu.Unlock()

	if w.cmd != nil && w.cmd.done {
		w.lastCmd = cmdNames[w.cmd.kind] + ":" + errClass(w.cmd.err)
		w.tracef("    %s returned %s", cmdNames[w.cmd.kind], errClass(w.cmd.err))
		if w.cmd.kind == cReset && w.cmd.err == nil && !w.cmd.sawResetUpdate {
			w.newEpochLocked("ResetPipeline returned nil")
		}
		w.cmd = nil
	}

	arr := w.arrivals
	w.arrivals = nil
	sort.SliceStable(arr, func(i, j int) bool { return arr[i].key() < arr[j].key() })
	for i, g := range arr {
		if i > 0 && arr[i-1].key() == g.key() {
			w.setEngErr("two indistinguishable environment calls arrived in one step: " + g.label())
		}
		g.seen = step
		w.pending = append(w.pending, g)
		w.tracef("    arrived: %s", g.label())
		switch g.kind {
		case kAccept:
			w.acceptCalls++
			w.checkBatchLocked(g)
		case kListLogs:
			if w.sendRisk && g.inc == w.sendRiskInc {
				w.sendRisk = false
			}
		}
	}
	if w.advancedFromIdle {
		w.advancedFromIdle = false
		w.idleProbe = nil
		if len(arr) == 1 && arr[0].kind == kListLogs && w.cmd == nil && len(w.pending) == 1 {
			w.idleProbe = arr[0]
		}
	}

	// oracle (1): persisted resume position never exceeds what the exporter acknowledged
	if p := w.pipeline.LastLogID; p != nil && *p > w.acked && w.cfg.IgnorePersistOracle {
		w.tracef("    (oracle 1 would fire here: persisted last_log_id=%d > acknowledged %d; ignored on request)", *p, w.acked)
	} else if p != nil && *p > w.acked {
		if w.lastStore != nil && w.lastStore.crossedReset {
			w.setViolation("C33:stale-persist-after-reset", fmt.Sprintf(
				"persisted last_log_id=%d but the exporter acknowledged only up to %d since the last reset: %s was in flight when the reset cleared last_log_id and landed afterwards; a restart / stop-start now resumes after log %d and never re-exports 1..%d",
				*p, w.acked, w.lastStore.label(), *p, *p))
		} else {
			since := ""
			if w.epoch > 0 {
				since = " since the last reset"
			}
			beyond := ""
			var ids []uint64
			for id := w.acked + 2; id <= uint64(len(w.logs)); id++ {
				if w.ackedIDs[id] {
					ids = append(ids, id)
				}
			}
			if len(ids) > 0 {
				beyond = fmt.Sprintf("; log %d was never acknowledged although later logs %v were: a permanent gap, the pipeline resumes after %d", w.acked+1, ids, *p)
			}
			w.setViolation("C33:persisted-exceeds-acked", fmt.Sprintf(
				"persisted last_log_id=%d exceeds the highest log id the exporter acknowledged%s (%d)%s", *p, since, w.acked, beyond))
		}
	}
}

// wellFormedLocked: ids strictly increasing, consecutive, and existing in the ledger.
func (w *world) wellFormedLocked(b []uint64, who string) bool {
	for i := 1; i < len(b); i++ {
		if b[i] <= b[i-1] {
			w.setViolation("C33:batch-not-increasing", fmt.Sprintf("%s %v: ids are not strictly increasing", who, b))
			return false
		}
		if b[i] != b[i-1]+1 {
			w.setViolation("C33:batch-has-gap", fmt.Sprintf("%s %v: log %d skipped inside the batch", who, b, b[i-1]+1))
			return false
		}
	}
	if b[0] == 0 || b[len(b)-1] > uint64(len(w.logs)) {
		w.setViolation("C33:unknown-log", fmt.Sprintf("%s %v but the ledger has logs 1..%d", who, b, len(w.logs)))
		return false
	}
	return true
}

// oracle (2), batched configurations, above the batching layer: the unit the pipeline
// exports, retries and advances its position by is the page. It is judged exactly like a
// batch of the unbatched stack: a page never starts after acked+1 (the pipeline never
// moves past a log the exporter has not acknowledged). Called in the pipeline's export
// goroutine, in the epoch the page belongs to.
func (w *world) checkPageLocked(b []uint64) {
	if len(b) == 0 || !w.wellFormedLocked(b, "the pipeline handed over page") {
		return
	}
	if b[0] > w.acked+1 {
		if w.epoch > 0 {
			w.setViolation("C33:gap-after-reset", fmt.Sprintf(
				"after a reset the exporter had acknowledged every log up to %d, yet the pipeline's next page is %v: logs %d..%d are never exported again", w.acked, b, w.acked+1, b[0]-1))
		} else {
			w.setViolation("C33:gap", fmt.Sprintf(
				"the exporter had acknowledged every log up to %d, yet the pipeline's next page is %v: logs %d..%d were skipped", w.acked, b, w.acked+1, b[0]-1))
		}
	}
}

// oracle (2)/(3), evaluated when a batch reaches the exporter.
func (w *world) checkBatchLocked(g *gate) {
	b := g.batch
	if len(b) == 0 {
		return
	}
	if w.cfg.Batching != nil {
		// Below the batching layer the sub-batches of a page are cut and sent by the Batcher
		// whatever happened to the previous one (the pipeline retries the page as a whole
		// afterwards), and the logs of a page whose context was cancelled enter the batcher or
		// not one by one. So a sub-batch may legitimately follow a FAILED one, or hold what is
		// left of an abandoned page: "no gaps, each at least once" is judged on the
		// acknowledged prefix (oracles 1, 2 on pages, 4), not on where a sub-batch starts.
		// What a sub-batch itself owes the property: existing logs, in increasing id order.
		for i := 1; i < len(b); i++ {
			if b[i] <= b[i-1] {
				w.setViolation("C33:batch-not-increasing", fmt.Sprintf("exporter received sub-batch %v: ids are not strictly increasing", b))
				return
			}
		}
		if b[0] == 0 || b[len(b)-1] > uint64(len(w.logs)) {
			w.setViolation("C33:unknown-log", fmt.Sprintf("exporter received sub-batch %v but the ledger has logs 1..%d", b, len(w.logs)))
		}
		return
	}
	for i := 1; i < len(b); i++ {
		if b[i] <= b[i-1] {
			w.setViolation("C33:batch-not-increasing", fmt.Sprintf("exporter received batch %v: ids are not strictly increasing", b))
			return
		}
		if b[i] != b[i-1]+1 {
			w.setViolation("C33:batch-has-gap", fmt.Sprintf("exporter received batch %v: log %d skipped inside the batch", b, b[i-1]+1))
			return
		}
	}
	if b[0] == 0 || b[len(b)-1] > uint64(len(w.logs)) {
		w.setViolation("C33:unknown-log", fmt.Sprintf("exporter received batch %v but the ledger has logs 1..%d", b, len(w.logs)))
		return
	}
	if g.epoch != w.epoch {
		return
	}
	if b[0] > w.acked+1 {
		if w.epoch > 0 {
			w.setViolation("C33:gap-after-reset", fmt.Sprintf(
				"after a reset the exporter had acknowledged up to %d, yet the next batch is %v: logs %d..%d are never exported again", w.acked, b, w.acked+1, b[0]-1))
		} else {
			w.setViolation("C33:gap", fmt.Sprintf(
				"exporter had acknowledged up to %d, yet the next batch is %v: logs %d..%d were skipped", w.acked, b, w.acked+1, b[0]-1))
		}
	}
}

// choices lists the enabled environment transitions in a canonical order. Index 0 is
// the default ("release the oldest parked call with OK; if none, advance time").
func (w *world) choices() (acts []action, quiescent bool) {
	w.mu.Lock()
	defer w.mu.Unlock()
	if len(w.pending) > 0 {
		acts = append(acts, action{kind: aRelease, g: w.pending[0]})
		for i, g := range w.pending {
			if i > 0 {
				acts = append(acts, action{kind: aRelease, g: g})
			}
			if g.kind.canFail() {
				acts = append(acts, action{kind: aRelease, g: g, fail: true})
			}
		}
		acts = append(acts, action{kind: aAdvance})
	} else {
		quiescent = w.cmd == nil && w.idleProbe != nil && w.lastReleased == w.idleProbe && w.lastEmptyList == w.idleProbe
		acts = append(acts, action{kind: aAdvance, end: quiescent})
	}
	if w.cmd == nil {
		acts = append(acts, action{kind: aCmd, cmd: cStart})
		// A stop request that reaches a pipeline blocked on publishing its position with
		// "has more" set would meet `select { <-stopChannel; <-time.After(0) }` with both
		// cases ready (a coin flip inside the Go runtime). The same stop issued one step
		// later (pipeline parked in ListLogs) is explored instead.
		//
		// Likewise a stop request queued behind a synchronisation that is about to start the
		// pipeline (manager parked in ListEnabledPipelines / OpenLedger while holding its
		// mutex) would reach the brand-new pipeline goroutine concurrently with its first
		// `select { <-stopChannel; <-time.After(0) }`: a genuine scheduling race of the real
		// code whose two outcomes (stop before / after the first fetch was issued) are both
		// explored from the neighbouring states.
		//
		// Batched scenarios only: a stop request queued while the live pipeline is parked in
		// ListLogs is served right after the pipeline has started its export goroutine, whose
		// batcher.Send calls (`select { b.in <- op; <-ctx.Done() }`, one per log) then run
		// concurrently with the cancellation of their context: which logs of the abandoned page
		// still enter the batcher is a scheduling race plus a runtime coin flip per log. The
		// pipeline is stopping (its position cannot move), so these outcomes are not explored;
		// the same commands are issued before the fetch and once a sub-batch is at the exporter.
		starting, fetching := false, false
		for _, g := range w.pending {
			if g.gen == w.cur.gen && (g.kind == kListEnabled || g.kind == kOpenLedger || g.kind == kGetPipeline) {
				starting = true
			}
			if w.cfg.Batching != nil && g.gen == w.cur.gen && g.kind == kListLogs {
				fetching = true
			}
		}
		if !w.sendRisk && !starting && !fetching {
			acts = append(acts, action{kind: aCmd, cmd: cStop}, action{kind: aCmd, cmd: cReset}, action{kind: aCmd, cmd: cRestart})
		}
	}
	if w.nAppends < w.cfg.MaxAppends {
		acts = append(acts, action{kind: aAppend})
	}
	return acts, quiescent
}

func (w *world) stateString(acts []action, quiescent bool) string {
	w.mu.Lock()
	defer w.mu.Unlock()
	var sb strings.Builder
	for _, g := range w.pending {
		sb.WriteString(g.key())
		if g.ctx != nil && g.ctx.Err() != nil {
			sb.WriteString("|cancelled")
		}
		if g.epoch != w.epoch {
			sb.WriteString("|oldepoch")
		}
		sb.WriteString(";")
	}
	p := "nil"
	if w.pipeline.LastLogID != nil {
		p = fmt.Sprint(*w.pipeline.LastLogID)
	}
	c := cNone
	if w.cmd != nil {
		c = w.cmd.kind
	}
	fmt.Fprintf(&sb, "#p=%s en=%v logs=%d acked=%d epoch=%d cmd=%d last=%s risk=%v q=%v mgrs=%d app=%d n=%d",
		p, w.pipeline.Enabled, len(w.logs), w.acked, w.epoch, c, w.lastCmd, w.sendRisk, quiescent, len(w.mgrs), w.nAppends, len(acts))
	if w.cfg.Batching != nil {
		// acknowledged ids beyond the contiguous prefix, reception prefix, pages in flight
		sb.WriteString(" ack+=")
		for id := w.acked + 2; id <= uint64(len(w.logs)); id++ {
			if w.ackedIDs[id] {
				fmt.Fprintf(&sb, "%d,", id)
			}
		}
		fmt.Fprintf(&sb, " pages=%d/%d", w.pagesOK, w.pages)
	}
	return sb.String()
}

func hash64(s string) uint64 {
	h := fnv.New64a()
	h.Write([]byte(s))
	return h.Sum64()
}

func (w *world) perform(a action) {
	switch a.kind {
	case aRelease:
		w.mu.Lock()
		idx := -1
		for i, g := range w.pending {
			if g == a.g {
				idx = i
			}
		}
		w.pending = append(w.pending[:idx:idx], w.pending[idx+1:]...)
		w.stamp++
		w.lastReleased = a.g
		w.mu.Unlock()
		if a.fail {
			a.g.ch <- verdict{err: errInjected}
		} else {
			a.g.ch <- verdict{}
		}
	case aAdvance:
		w.mu.Lock()
		w.lastReleased = nil
		w.advancedFromIdle = len(w.pending) == 0 && w.cmd == nil
		w.mu.Unlock()
		lvl := w.sleepUntilVisible(synctest.Wait)
		w.tracef("    time advanced; a timer of class %d fired (0 = none pending)", lvl)
	case aCmd:
		w.mu.Lock()
		w.lastReleased = nil
		w.mu.Unlock()
		w.issue(a.cmd)
	case aAppend:
		w.mu.Lock()
		w.lastReleased = nil
		w.appendLogLocked()
		w.nAppends++
		w.mu.Unlock()
	}
}

// controller is the root goroutine of the bubble.
func (w *world) controller(prefix []uint8, expect []uint64, x *execResult) {
	w.mu.Lock()
	w.startManager()
	w.mu.Unlock()
	for step := 0; ; step++ {
		synctest.Wait()
		w.observe(step)
		if w.engErr != "" || w.viol != nil {
			break
		}
		if w.crash != "" {
			// the process is dead: nothing more to explore on this path (what a crash leaves
			// behind - the persisted position - was judged by oracle (1) just above)
			w.tracef("step %d: the code under test panicked (%s): end of the execution", step, w.crash)
			break
		}
		acts, quiescent := w.choices()
		ss := w.stateString(acts, quiescent)
		h := hash64(ss)
		if step < len(expect) && expect[step] != h {
			w.setEngErr(fmt.Sprintf("replay diverged at step %d: state %q differs from the recorded run", step, ss))
			break
		}
		if step >= w.cfg.Horizon {
			x.horizonHit = true
			w.tracef("step %d: horizon reached", step)
			break
		}
		c := 0
		if step < len(prefix) {
			c = int(prefix[step])
			if c >= len(acts) {
				w.setEngErr(fmt.Sprintf("replay diverged at step %d: choice %d of %d", step, c, len(acts)))
				break
			}
		}
		if len(w.pending) > x.maxPending {
			x.maxPending = len(w.pending)
		}
		x.choices = append(x.choices, uint8(c))
		x.nchoices = append(x.nchoices, uint8(len(acts)))
		x.hashes = append(x.hashes, h)
		if w.tracing {
			var ps []string
			for _, g := range w.pending {
				ps = append(ps, g.label())
			}
			w.tracef("step %d: [%d/%d] %s        (parked: %s | last_log_id=%s acked=%d logs=%d)", step, c, len(acts), acts[c].label(),
				strings.Join(ps, ", "), w.persistedString(), w.acked, len(w.logs))
		}
		if acts[c].end {
			x.quiescent = true
			// oracle (4): pipeline started and idle, exporter healthy, time advanced: everything exported
			if w.acked != uint64(len(w.logs)) {
				since := ""
				if w.epoch > 0 {
					since = " since the last reset"
				}
				w.setViolation("C33:not-all-exported-at-quiescence", fmt.Sprintf(
					"the pipeline is started and idle (its pull found nothing to fetch) with a healthy exporter, but the exporter acknowledged only up to log %d%s of %d", w.acked, since, len(w.logs)))
			}
			break
		}
		w.perform(acts[c])
	}
	x.final = fmt.Sprintf("acked=%d persisted=%s logs=%d epoch=%d managers=%d lastcmd=%s", w.acked, w.persistedString(), len(w.logs), w.epoch, len(w.mgrs), w.lastCmd)
	x.viol = w.viol
	x.engErr = w.engErr
	if x.viol == nil && x.engErr == "" {
		x.crash = w.crash
	}
	x.pages, x.pagesOK, x.splitPages, x.partialPages, x.swallowed = w.pages, w.pagesOK, w.splitPages, w.partialPages, w.swallowed
	w.teardown()
}

func (w *world) persistedString() string {
	if w.pipeline.LastLogID == nil {
		return "nil"
	}
	return fmt.Sprint(*w.pipeline.LastLogID)
}

// teardown lets every goroutine of the bubble run to its end: all parked and future
// environment calls fail immediately without effect, commands in flight return, live
// managers are stopped.
func (w *world) teardown() {
	w.mu.Lock()
	w.drain = true
	gs := append(append([]*gate{}, w.pending...), w.arrivals...)
	w.pending, w.arrivals = nil, nil
	w.mu.Unlock()
	for _, g := range gs {
		g.ch <- verdict{drain: true, err: errDrained}
	}
	for i := 0; i < 50; i++ {
		synctest.Wait()
		w.mu.Lock()
		busy := w.cmd != nil && !w.cmd.done
		w.mu.Unlock()
		if !busy {
			break
		}
		time.Sleep(sleepLevels[0])
	}
	w.mu.Lock()
	var live []*mgr
	for _, m := range w.mgrs {
		if !m.stopCalled {
			m.stopCalled = true
			live = append(live, m)
		}
	}
	w.mu.Unlock()
	for _, m := range live {
		_ = m.m.Stop(context.Background())
	}
	// A DriverFacade whose pipeline could not be started (OpenLedger failed after
	// initExporter) is not stopped by Manager.Stop; its start loop may sit in its 2s retry
	// timer. Bubble time stops once this goroutine returns, so let that timer elapse here
	// (the drained Driver.Start then succeeds and the loop ends).
	for i := 0; i < 2; i++ {
		time.Sleep(sleepLevels[0])
		synctest.Wait()
	}
	// Same orphans, batched configurations: the drained Driver.Start succeeded, so their
	// Batcher has started its batching goroutine, which only Batcher.Stop ends (Stop is
	// harmless on a Batcher that was never started or is already stopped).
	w.mu.Lock()
	bs := w.batchers
	w.mu.Unlock()
	for _, b := range bs {
		_ = b.Stop(context.Background())
	}
	synctest.Wait()
}

// runOne executes one choice list from scratch in a fresh bubble.
func runOne(t *testing.T, cfg config, prefix []uint8, expect []uint64, tracing bool) (x *execResult) {
	x = &execResult{}
	defer func() {
		if r := recover(); r != nil {
			x.engErr = fmt.Sprintf("bubble panicked: %v", r)
			if dumpStacksOnPanic {
				buf := make([]byte, 1<<20)
				buf = buf[:runtime.Stack(buf, true)]
				fmt.Println(string(buf))
			}
		}
	}()
	synctest.Test(t, func(t *testing.T) {
		w := newWorld(cfg, tracing)
		w.controller(prefix, expect, x)
		x.trace = w.trace
	})
	return x
}

var dumpStacksOnPanic = false
