#!/usr/bin/env python3
"""Regenerates the go -overlay for the K5/C33 check from the CURRENT sources of the repository
under test (VERIF_REPO, exported by run.sh = the directory h/go.mod replaces the ledger module
by; /repo when unset).

  genoverlay.py <outdir> [mutation]

(a) every non-test file of internal/replication and of internal/replication/drivers (the
    batching layer, drivers/batcher.go, is part of the explored stack) that mentions
    sync.Mutex / sync.RWMutex (today: manager.go, drivers/batcher.go) is copied with them
    textually replaced by verifsync.Mutex /
    verifsync.RWMutex (channel based, see verifsync.go.txt); sync.WaitGroup stays the
    real one (synctest handles WaitGroups of the bubble).
(b) the virtual package internal/verifsync is added.
(c) detection self-test only (K5_MUTATION / 2nd argument, see DESIGN §8): a mutated copy of
    pipeline.go (a,b,c,d,f), manager.go (e) or drivers/batcher.go (g,h) is put in the overlay. Never used by ./check;
    run.sh keeps such builds in their own directory and binary.
Nothing under the repository is written.
"""
import json, os, re, sys

REPO = os.environ.get("VERIF_REPO") or "/repo"
out = sys.argv[1]
mutation = sys.argv[2] if len(sys.argv) > 2 else os.environ.get("K5_MUTATION", "")
here = os.path.dirname(os.path.abspath(__file__))
os.makedirs(os.path.join(out, "verifsync"), exist_ok=True)


def die(msg):
    print("genoverlay: " + msg, file=sys.stderr)
    sys.exit(2)


# ---- (a) sync.Mutex -> verifsync.Mutex in the replication package ------------------------
RDIR = os.path.join(REPO, "internal/replication")
replace = {}


def shim(text, name):
    """textual swap of sync.(RW)Mutex for the channel mutex; returns None when nothing to do"""
    if not re.search(r"\bsync\.(RW)?Mutex\b", text):
        return None
    new = re.sub(r"\bsync\.Mutex\b", "verifsync.Mutex", text)
    new = re.sub(r"\bsync\.RWMutex\b", "verifsync.RWMutex", new)
    shim_import = '\tverifsync "github.com/formancehq/ledger/internal/verifsync"\n'
    still_sync = re.search(r"\bsync\.[A-Za-z]", new) is not None
    m = re.search(r'^[ \t]*"sync"[ \t]*\n', new, flags=re.M)
    if not m:
        die('%s uses sync.Mutex but has no plain `"sync"` import line; teach genoverlay.py the new layout' % name)
    if still_sync:
        return new[: m.end()] + shim_import + new[m.end():]
    return new[: m.start()] + shim_import + new[m.end():]


for stale in os.listdir(out):
    if stale.endswith(".go"):
        os.remove(os.path.join(out, stale))
# keys are paths relative to internal/replication ("manager.go", "drivers/batcher.go")
sources = {}
for sub in ("", "drivers"):
    d = os.path.join(RDIR, sub)
    if not os.path.isdir(d):
        die("internal/replication/%s not found" % sub)
    for fn in sorted(os.listdir(d)):
        if not fn.endswith(".go") or fn.endswith("_test.go"):
            continue
        sources[os.path.join(sub, fn)] = open(os.path.join(d, fn)).read()
if "manager.go" not in sources:
    die("internal/replication/manager.go not found")
if "drivers/batcher.go" not in sources:
    die("internal/replication/drivers/batcher.go not found (the batching layer moved: teach genoverlay.py and k5/world_test.go)")

# ---- (b) shim package -----------------------------------------------------------------
open(os.path.join(out, "verifsync", "verifsync.go"), "w").write(open(os.path.join(here, "verifsync.go.txt")).read())
replace[os.path.join(REPO, "internal/verifsync/verifsync.go")] = os.path.join(out, "verifsync", "verifsync.go")

# ---- (c) self-test mutations ------------------------------------------------------------
mutated = set()
if mutation:
    p = sources.get("pipeline.go") or die("pipeline.go not found")

    def sub1(pattern, repl, text, what):
        res, n = re.subn(pattern, repl, text, count=1, flags=re.S)
        if n != 1:
            die("mutation %s: pattern not found (%s)" % (mutation, what))
        return res

    if mutation == "a":  # advance LastLogID and publish it BEFORE the exporter acknowledged
        blk = re.search(
            r"\n(\t\t\tlastLogID := logs\.Data\[len\(logs\.Data\)-1\]\.ID\n.*?case ingestedLogs <- \*lastLogID:\n\t\t\t\}\n)", p, flags=re.S)
        if not blk:
            die("mutation a: advance block not found")
        p2 = p[: blk.start(1)] + p[blk.end(1):]
        anchor = "\t\t\tfor {\n\t\t\t\tp.logger.Debugf(\"Send data to exporter.\")"
        if p2.count(anchor) != 1:
            die("mutation a: Accept loop anchor not found")
        sources["pipeline.go"] = p2.replace(anchor, blk.group(1) + anchor)
        mutated.add("pipeline.go")
    elif mutation == "b":  # on Accept error: wait, then SKIP the batch instead of retrying
        sources["pipeline.go"] = sub1(r"(time\.After\(p\.pipelineConfig\.PushRetryPeriod[^\n]*\n\t+)continue\n", r"\1break\n", p, "push retry continue")
        mutated.add("pipeline.go")
    elif mutation == "c":  # off by one in the resume filter: id > last+1
        sources["pipeline.go"] = sub1(r'query\.Gt\("id", \*p\.pipeline\.LastLogID\)', 'query.Gt("id", *p.pipeline.LastLogID+1)', p, "query.Gt")
        mutated.add("pipeline.go")
    elif mutation == "d":  # Gt -> Lt : nothing new is ever fetched after the first page
        sources["pipeline.go"] = sub1(r'query\.Gt\("id", \*p\.pipeline\.LastLogID\)', 'query.Lt("id", *p.pipeline.LastLogID)', p, "query.Gt")
        mutated.add("pipeline.go")
    elif mutation == "e":  # reset forgets to clear last_log_id
        mm = sources["manager.go"]
        mm2 = mm.replace('\t\t"last_log_id": nil,\n', "", 1)
        if mm2 == mm:
            die("mutation e: pattern not found")
        sources["manager.go"] = mm2
        mutated.add("manager.go")
    elif mutation == "f":  # ascending order dropped from the fetch
        sources["pipeline.go"] = sub1(r"\n\t+Order: pointer\.For\(paginate\.Order\(paginate\.OrderAsc\)\),", "", p, "Order")
        sources["pipeline.go"] = sources["pipeline.go"].replace('\t"github.com/formancehq/go-libs/v5/pkg/types/pointer"\n', "").replace('\t"github.com/formancehq/go-libs/v5/pkg/storage/bun/paginate"\n', "")
        mutated.add("pipeline.go")
    elif mutation == "g":  # batching layer: a sub-batch refused by the exporter is reported as delivered
        bb = sources["drivers/batcher.go"]
        bb2 = bb.replace("\t\t\tlog.SetError(err)\n", "\t\t\tlog.SetResult(nil)\n", 1)
        if bb2 == bb:
            die("mutation g: pattern not found")
        sources["drivers/batcher.go"] = bb2
        mutated.add("drivers/batcher.go")
    elif mutation == "h":  # batching layer: only the first log of the page decides the page's error
        sources["drivers/batcher.go"] = sub1(r"for _, err := range itemsErrors \{", "for _, err := range itemsErrors[:1] {", sources["drivers/batcher.go"], "itemsErrors loop")
        mutated.add("drivers/batcher.go")
    else:
        die("unknown mutation " + mutation)
    print("genoverlay: SELF-TEST MUTATION %s ACTIVE" % mutation, file=sys.stderr)

shimmed = []
for fn, text in sources.items():
    new = shim(text, fn)
    if new is None and fn not in mutated:
        continue
    flat = fn.replace(os.sep, "_")
    open(os.path.join(out, flat), "w").write(new if new is not None else text)
    replace[os.path.join(RDIR, fn)] = os.path.join(out, flat)
    if new is not None:
        shimmed.append(fn)
# no file uses a sync mutex any more: nothing to shim (the run's watchdog tells if
# synctest.Wait can no longer settle)

json.dump({"Replace": replace}, open(os.path.join(out, "overlay.json"), "w"), indent=1)
print("genoverlay: mutex shim applied to %s" % (", ".join(shimmed) or "no file"), file=sys.stderr)
