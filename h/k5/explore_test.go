package k5

import (
	"fmt"
	"sort"
	"sync"
	"sync/atomic"
	"testing"

	"github.com/formancehq/ledger/verifh/ev"
)

// rec is what a finished execution leaves behind for its children.
type rec struct {
	choices []uint8
	hashes  []uint64
}

// task = "replay parent.choices[:i], take alternative alt at point i, then defaults".
type task struct {
	parent *rec
	i      int32
	alt    uint8
}

func (t task) prefix() ([]uint8, []uint64) {
	if t.parent == nil {
		return nil, nil
	}
	p := make([]uint8, 0, int(t.i)+1)
	p = append(p, t.parent.choices[:t.i]...)
	p = append(p, t.alt)
	return p, t.parent.hashes[:t.i+1]
}

type stateSet struct {
	shards [64]struct {
		mu sync.Mutex
		m  map[uint64]struct{}
	}
}

func (s *stateSet) add(h uint64) {
	sh := &s.shards[h%64]
	sh.mu.Lock()
	if sh.m == nil {
		sh.m = map[uint64]struct{}{}
	}
	sh.m[h] = struct{}{}
	sh.mu.Unlock()
}

func (s *stateSet) size() int {
	n := 0
	for i := range s.shards {
		s.shards[i].mu.Lock()
		n += len(s.shards[i].m)
		s.shards[i].mu.Unlock()
	}
	return n
}

type foundViolation struct {
	sig      string
	what     string
	choices  []uint8 // canonical witness: the smallest (length, then lexicographic) choice list of the first level that shows it
	hashes   []uint64
	level    int
	count    int64
	reported bool
}

func lessChoices(a, b []uint8) bool {
	if len(a) != len(b) {
		return len(a) < len(b)
	}
	for i := range a {
		if a[i] != b[i] {
			return a[i] < b[i]
		}
	}
	return false
}

type explorer struct {
	r       *ev.Run
	cfg     config
	workers int
	known   map[string]bool

	schedules, transitions, horizonHits, quiescentRuns, violatingRuns, confirmRuns atomic.Int64
	maxPending                                                                     atomic.Int64
	// batched configurations: executions in which >= 1 page reached the exporter as several
	// sub-batches / had a failed sub-batch followed by an acknowledged one / had that and the
	// batching layer still answered success; pages handed over in total; executions ended by
	// a panic of the code under test
	execsSplit, execsPartial, execsSwallowed, pagesTotal, panics atomic.Int64
	states                                                       stateSet
	expired, abort                                               atomic.Bool

	mu       sync.Mutex
	outcomes map[string]int64
	finals   map[string]int64
	viols    map[string]*foundViolation
	perLevel []map[string]int64
	// first (smallest choice list of the first level) execution ended by a panic of the code under test
	panicChoices []uint8
	panicLevel   int
	panicWhat    string
	samples      []map[string]any
}

func newExplorer(r *ev.Run, cfg config, workers int, known map[string]bool) *explorer {
	return &explorer{r: r, cfg: cfg, workers: workers, known: known,
		outcomes: map[string]int64{}, finals: map[string]int64{}, viols: map[string]*foundViolation{}}
}

func sameChoices(a, b []uint8) bool {
	if len(a) != len(b) {
		return false
	}
	for i := range a {
		if a[i] != b[i] {
			return false
		}
	}
	return true
}

func choicesInts(c []uint8) []int {
	out := make([]int, len(c))
	for i, v := range c {
		out[i] = int(v)
	}
	return out
}

// confirm replays a failing choice list 5 times from scratch; the verdict and the whole
// sequence of visited states must be identical every time, otherwise the harness (not
// the ledger) is at fault.
func (e *explorer) confirm(t *testing.T, x *execResult) bool {
	for k := 0; k < 5; k++ {
		e.confirmRuns.Add(1)
		progressCounter.Add(1)
		y := runOne(t, e.cfg, x.choices, x.hashes, false)
		if y.engErr != "" {
			e.r.EngineError(fmt.Sprintf("replay %d/5 of violating choice list %v: %s", k+1, choicesInts(x.choices), y.engErr))
			return false
		}
		if y.viol == nil || y.viol.sig != x.viol.sig || !sameChoices(y.choices, x.choices) {
			got := "no violation"
			if y.viol != nil {
				got = y.viol.sig
			}
			e.r.EngineError(fmt.Sprintf("violation %s did not reproduce on replay %d/5 of choice list %v (got %s)", x.viol.sig, k+1, choicesInts(x.choices), got))
			return false
		}
	}
	return true
}

func (e *explorer) handle(t *testing.T, level int, tk task, collect bool, out *[]task) {
	prefix, expect := tk.prefix()
	x := runOne(t, e.cfg, prefix, expect, false)
	progressCounter.Add(1)
	e.schedules.Add(1)
	e.transitions.Add(int64(len(x.choices)))
	for i := len(prefix); i < len(x.hashes); i++ {
		e.states.add(x.hashes[i])
	}
	if i := len(prefix) - 1; i >= 0 && i < len(x.hashes) {
		e.states.add(x.hashes[i])
	}
	for {
		cur := e.maxPending.Load()
		if int64(x.maxPending) <= cur || e.maxPending.CompareAndSwap(cur, int64(x.maxPending)) {
			break
		}
	}
	if x.engErr != "" {
		e.r.EngineError(fmt.Sprintf("choice list %v: %s", choicesInts(prefix), x.engErr))
		e.abort.Store(true)
		return
	}
	if x.horizonHit {
		e.horizonHits.Add(1)
	}
	e.pagesTotal.Add(int64(x.pages))
	if x.splitPages > 0 {
		e.execsSplit.Add(1)
	}
	if x.partialPages > 0 {
		e.execsPartial.Add(1)
	}
	if x.swallowed > 0 {
		e.execsSwallowed.Add(1)
	}
	if x.crash != "" {
		e.panics.Add(1)
		e.mu.Lock()
		if e.panicChoices == nil || (level == e.panicLevel && lessChoices(x.choices, e.panicChoices)) {
			e.panicChoices, e.panicLevel, e.panicWhat = append([]uint8{}, x.choices...), level, x.crash
		}
		e.mu.Unlock()
	}
	if x.quiescent {
		e.quiescentRuns.Add(1)
	}
	e.mu.Lock()
	e.outcomes[x.outcome()]++
	e.finals[x.outcome()+" "+x.final]++
	for len(e.perLevel) <= level {
		e.perLevel = append(e.perLevel, map[string]int64{})
	}
	e.perLevel[level][x.outcome()]++
	wantSample := len(e.samples) < 6 && (level == 0 || e.perLevel[level][x.outcome()] == 1)
	if x.viol != nil {
		fv := e.viols[x.viol.sig]
		if fv == nil {
			fv = &foundViolation{sig: x.viol.sig, level: level}
			e.viols[x.viol.sig] = fv
		}
		if !fv.reported && fv.level == level && (fv.choices == nil || lessChoices(x.choices, fv.choices)) {
			fv.what = x.viol.what
			fv.choices = append([]uint8{}, x.choices...)
			fv.hashes = append([]uint64{}, x.hashes...)
		}
		fv.count++
	}
	e.mu.Unlock()

	if x.viol != nil {
		e.violatingRuns.Add(1)
	}
	if wantSample {
		tr := runOne(t, e.cfg, x.choices, x.hashes, true)
		e.mu.Lock()
		if len(e.samples) < 6 {
			e.samples = append(e.samples, map[string]any{"choices": choicesInts(x.choices), "deviations": level, "outcome": x.outcome(), "final": x.final, "trace": tr.trace})
		}
		e.mu.Unlock()
	}

	if !collect {
		return
	}
	rc := &rec{choices: x.choices, hashes: x.hashes}
	for i := len(prefix); i < len(x.choices); i++ {
		for alt := 1; alt < int(x.nchoices[i]); alt++ {
			*out = append(*out, task{parent: rc, i: int32(i), alt: uint8(alt)})
		}
	}
}

// runLevel executes all tasks of one deviation level on e.workers parallel bubbles.
// With sampled=true the tasks are visited in a pseudo-random permutation until the time
// budget ends; running out of time is then the expected end, not an incompleteness.
func (e *explorer) runLevel(t *testing.T, level int, tasks []task, collect bool, sampled bool) (next []task, completed bool) {
	var idx atomic.Int64
	n := int64(len(tasks))
	stride, offset := int64(1), int64(0)
	if sampled && n > 1 {
		stride = n*6180339/10000000 | 1
		for gcd(stride, n) != 1 {
			stride += 2
		}
		offset = int64(e.r.Seed) % n
		if offset < 0 {
			offset = 0
		}
	}
	var sampleExpired atomic.Bool
	outs := make([][]task, e.workers)
	t.Run(fmt.Sprintf("dev%d", level), func(t *testing.T) {
		for wk := 0; wk < e.workers; wk++ {
			wk := wk
			t.Run(fmt.Sprintf("w%d", wk), func(t *testing.T) {
				t.Parallel()
				for {
					if e.abort.Load() {
						return
					}
					if e.r.Expired() {
						if sampled {
							sampleExpired.Store(true)
						} else {
							e.expired.Store(true)
						}
						return
					}
					i := idx.Add(1) - 1
					if i >= n {
						return
					}
					if sampled {
						i = (offset + i*stride) % n
					}
					e.handle(t, level, tasks[i], collect, &outs[wk])
				}
			})
		}
	})
	e.reportViolations(t)
	if e.abort.Load() || e.expired.Load() || sampleExpired.Load() {
		return nil, false
	}
	for _, o := range outs {
		next = append(next, o...)
	}
	return next, true
}

// reportViolations runs after a level: for every new violation class the canonical witness
// is replayed 5 times and, if it reproduces every time, handed to ev (replay file).
func (e *explorer) reportViolations(t *testing.T) {
	e.mu.Lock()
	var todo []*foundViolation
	for _, fv := range e.viols {
		if !fv.reported && fv.choices != nil {
			fv.reported = true
			todo = append(todo, fv)
		}
	}
	e.mu.Unlock()
	sort.Slice(todo, func(i, j int) bool { return todo[i].sig < todo[j].sig })
	for _, fv := range todo {
		x := &execResult{choices: fv.choices, hashes: fv.hashes, viol: &violationInfo{sig: fv.sig, what: fv.what}}
		if !e.confirm(t, x) {
			e.abort.Store(true)
			continue
		}
		tr := runOne(t, e.cfg, fv.choices, fv.hashes, true)
		e.r.Violation(fv.sig, fv.what+fmt.Sprintf(" | deviations=%d choices=%v", fv.level, choicesInts(fv.choices)), map[string]any{
			"config":  e.cfg,
			"choices": choicesInts(fv.choices),
			"how":     "cd /verif/h && ./k5/run.sh replay <this file>",
			"trace":   tr.trace,
		})
	}
}

func (e *explorer) unknownViolation() bool {
	e.mu.Lock()
	defer e.mu.Unlock()
	for sig := range e.viols {
		if !e.known[sig] {
			return true
		}
	}
	return false
}

func sortedCounts(m map[string]int64) []string {
	keys := make([]string, 0, len(m))
	for k := range m {
		keys = append(keys, k)
	}
	sort.Strings(keys)
	out := make([]string, 0, len(keys))
	for _, k := range keys {
		out = append(out, fmt.Sprintf("%s x%d", k, m[k]))
	}
	return out
}

func gcd(a, b int64) int64 {
	for b != 0 {
		a, b = b, a%b
	}
	return a
}

// progressCounter feeds the hang watchdog of TestC33.
var progressCounter atomic.Int64
