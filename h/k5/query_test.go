package k5

import (
	"bytes"
	"encoding/json"
	"fmt"
	"math/big"
	"sort"

	"github.com/formancehq/go-libs/v5/pkg/query"
	"github.com/formancehq/go-libs/v5/pkg/storage/bun/paginate"

	ledger "github.com/formancehq/ledger/internal"
	"github.com/formancehq/ledger/internal/storage/common"
)

// errUnsupportedQuery marks a query the fake log store cannot evaluate: an ENGINE
// error (the fake must be taught), never a violation and never a silent pass.
type errUnsupportedQuery struct{ msg string }

func (e errUnsupportedQuery) Error() string {
	return "fake ListLogs cannot evaluate the query: " + e.msg
}

// evalFilter evaluates a go-libs query.Builder generically on one log. The builder is
// serialised with its own MarshalJSON ({"$and":[..]}, {"$not":..}, {"$gt":{"id":2}})
// and interpreted with the operator table of storage/common.ConvertOperatorToSQL, so
// the fake follows whatever filter the pipeline really sends.
func compileFilter(b query.Builder) (func(id uint64) (bool, error), error) {
	if b == nil {
		return func(uint64) (bool, error) { return true, nil }, nil
	}
	raw, err := json.Marshal(b)
	if err != nil {
		return nil, errUnsupportedQuery{"marshal: " + err.Error()}
	}
	dec := json.NewDecoder(bytes.NewReader(raw))
	dec.UseNumber()
	var tree any
	if err := dec.Decode(&tree); err != nil {
		return nil, errUnsupportedQuery{"decode: " + err.Error()}
	}
	// validate once on a dummy id so that unsupported shapes are reported even when no log exists
	if _, err := evalNode(tree, 0); err != nil {
		return nil, err
	}
	return func(id uint64) (bool, error) { return evalNode(tree, id) }, nil
}

func evalNode(n any, id uint64) (bool, error) {
	m, ok := n.(map[string]any)
	if !ok || len(m) != 1 {
		return false, errUnsupportedQuery{fmt.Sprintf("node %v", n)}
	}
	for op, arg := range m {
		switch op {
		case "$and", "$or":
			items, ok := arg.([]any)
			if !ok {
				return false, errUnsupportedQuery{fmt.Sprintf("%s with %v", op, arg)}
			}
			res := op == "$and" // empty set builds "1 = 1"
			if len(items) == 0 {
				return true, nil
			}
			for _, it := range items {
				v, err := evalNode(it, id)
				if err != nil {
					return false, err
				}
				if op == "$and" {
					res = res && v
				} else {
					res = res || v
				}
			}
			return res, nil
		case "$not":
			v, err := evalNode(arg, id)
			return !v, err
		case "$match", "$lt", "$lte", "$gt", "$gte":
			kv, ok := arg.(map[string]any)
			if !ok || len(kv) != 1 {
				return false, errUnsupportedQuery{fmt.Sprintf("%s with %v", op, arg)}
			}
			for key, val := range kv {
				if key != "id" {
					return false, errUnsupportedQuery{"filter on column " + key}
				}
				want, ok := toBig(val)
				if !ok {
					return false, errUnsupportedQuery{fmt.Sprintf("value %v (%T)", val, val)}
				}
				c := new(big.Int).SetUint64(id).Cmp(want)
				switch op {
				case "$match":
					return c == 0, nil
				case "$lt":
					return c < 0, nil
				case "$lte":
					return c <= 0, nil
				case "$gt":
					return c > 0, nil
				case "$gte":
					return c >= 0, nil
				}
			}
		}
		return false, errUnsupportedQuery{"operator " + op}
	}
	return false, errUnsupportedQuery{"empty node"}
}

func toBig(v any) (*big.Int, bool) {
	switch x := v.(type) {
	case json.Number:
		return new(big.Int).SetString(x.String(), 10)
	case string:
		return new(big.Int).SetString(x, 10)
	}
	return nil, false
}

// runLogQuery answers a ListLogs call the way storage/ledger Logs().Paginate does for
// an initial (or cursor-less column) query: filter, order by id, limit pageSize+1.
// Defaults mirror Store.Logs(): column "id", order desc, page size 15.
func runLogQuery(q common.PaginatedQuery[any], logs []ledger.Log) (*paginate.Cursor[ledger.Log], error) {
	var iq common.InitialPaginatedQuery[any]
	switch v := q.(type) {
	case common.InitialPaginatedQuery[any]:
		iq = v
	case *common.InitialPaginatedQuery[any]:
		iq = *v
	case common.ColumnPaginatedQuery[any]:
		if v.PaginationID != nil || v.Bottom != nil || v.Reverse {
			return nil, errUnsupportedQuery{"column cursor continuation"}
		}
		iq = v.InitialPaginatedQuery
	case *common.ColumnPaginatedQuery[any]:
		if v.PaginationID != nil || v.Bottom != nil || v.Reverse {
			return nil, errUnsupportedQuery{"column cursor continuation"}
		}
		iq = v.InitialPaginatedQuery
	default:
		return nil, errUnsupportedQuery{fmt.Sprintf("query type %T", q)}
	}
	if iq.Column != "" && iq.Column != "id" {
		return nil, errUnsupportedQuery{"pagination column " + iq.Column}
	}
	if iq.Options.PIT != nil || iq.Options.OOT != nil || len(iq.Options.Expand) > 0 {
		return nil, errUnsupportedQuery{"pit/oot/expand"}
	}
	order := paginate.Order(paginate.OrderDesc)
	if iq.Order != nil {
		order = *iq.Order
	}
	pageSize := iq.PageSize
	if pageSize == 0 {
		pageSize = paginate.QueryDefaultPageSize
	}
	match, err := compileFilter(iq.Options.Builder)
	if err != nil {
		return nil, err
	}
	sel := make([]ledger.Log, 0, len(logs))
	for _, l := range logs {
		ok, err := match(*l.ID)
		if err != nil {
			return nil, err
		}
		if ok {
			sel = append(sel, l)
		}
	}
	sort.SliceStable(sel, func(i, j int) bool {
		if order == paginate.OrderAsc {
			return *sel[i].ID < *sel[j].ID
		}
		return *sel[i].ID > *sel[j].ID
	})
	hasMore := uint64(len(sel)) > pageSize
	if hasMore {
		sel = sel[:pageSize]
	}
	return &paginate.Cursor[ledger.Log]{PageSize: int(pageSize), HasMore: hasMore, Data: sel}, nil
}
