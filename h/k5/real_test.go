package k5

// The "real storage" scenario family of C33.
//
// The gated scenarios (world_test.go) explore the interleavings of the replication layer
// over FAKE storage: everything below replication.Storage is outside their system. This
// family runs the SAME real Manager / PipelineHandler / DriverFacade stack over the REAL
// storage: replication.NewStorageAdapter on the real storage driver and the real system
// store, on a pgsim database (h/world builds that stack). What is explored here is not the
// interleaving inside one call (the storage calls are not gated: every operation below runs
// until the whole bubble is durably blocked again) but the HISTORY: every sequence of a small
// alphabet of operations, up to a depth, simplest first, on two ledgers A and B which share
// a bucket, B being created before or after the pipeline on A:
//
//	pipe   create (and thereby start) the pipeline on A       Manager.CreatePipeline
//	tick   let the pull / push-retry timer of the pipeline elapse (virtual time)
//	wA wB  commit one transaction on A / on B through the real ledger controller
//	mkB    create ledger B in A's bucket through the real system controller
//	stop start reset   Manager.StopPipeline / StartPipeline / ResetPipeline
//	restart  the process hosting the manager is restarted: manager stopped, a NEW storage
//	       driver / ledger store factory / sql pool is built over the same database, a new
//	       manager is run (it restores the enabled pipelines)
//	xfail  the exporter refuses its next batch (one Accept call fails)
//
// The oracle is the C33 oracle of the gated scenarios, applied to what the recording
// exporter of A received, plus "nothing that is not a log of A": every transaction carries
// the name of the ledger it was written on and its rank in its metadata, and the log id the
// write returned is the ground truth.

import (
	"context"
	"encoding/json"
	"errors"
	"fmt"
	"io"
	"os"
	"regexp"
	"runtime"
	"sort"
	"strings"
	"sync"
	"sync/atomic"
	"testing"
	"testing/synctest"
	"time"

	logging "github.com/formancehq/go-libs/v5/pkg/observe/log"
	"github.com/formancehq/go-libs/v5/pkg/storage/bun/paginate"

	ledger "github.com/formancehq/ledger/internal"
	"github.com/formancehq/ledger/internal/replication"
	"github.com/formancehq/ledger/internal/replication/drivers"
	"github.com/formancehq/ledger/internal/storage/common"
	systemstore "github.com/formancehq/ledger/internal/storage/system"
	"github.com/formancehq/ledger/verifh/ev"
	"github.com/formancehq/ledger/verifh/lx"
	"github.com/formancehq/ledger/verifh/pgsim"
	hworld "github.com/formancehq/ledger/verifh/world"
)

const (
	realLedgerA = "orders"
	realLedgerB = "payments"
	realBucket  = "shared"
)

type rop uint8

// The order of the constants is the order of the enumeration ("simplest first": by length,
// then in this order).
const (
	ropPipe rop = iota
	ropTick
	ropWriteA
	ropMkB
	ropWriteB
	ropStop
	ropStart
	ropReset
	ropRestart
	ropXFail
	ropCount
)

var ropNames = [...]string{"pipe", "tick", "wA", "mkB", "wB", "stop", "start", "reset", "restart", "xfail"}

func (o rop) String() string {
	if int(o) < len(ropNames) {
		return ropNames[o]
	}
	return fmt.Sprintf("op%d", int(o))
}

func ropsStrings(ops []rop) []string {
	out := make([]string, len(ops))
	for i, o := range ops {
		out[i] = o.String()
	}
	return out
}

func parseRops(names []string) ([]rop, error) {
	out := make([]rop, 0, len(names))
next:
	for _, n := range names {
		for i, s := range ropNames {
			if s == n {
				out = append(out, rop(i))
				continue next
			}
		}
		return nil, fmt.Errorf("unknown operation %q", n)
	}
	return out, nil
}

// realCfg is one scenario of the family.
type realCfg struct {
	Family string `json:"family"`
	// Deployment: "embedded" = the manager runs in the process that serves the writes (`serve
	// --worker`): ONE storage driver / ledger store factory for both. "split" = the manager
	// runs in its own process (`worker` + `serve --worker-grpc-address`): two drivers over the
	// same database.
	Deployment string `json:"deployment"`
	PageSize   uint64 `json:"page_size"`
	MaxWritesA int    `json:"max_writes_a"`
	MaxWritesB int    `json:"max_writes_b"`
	// InitLogsA: transactions committed on A before the history starts.
	InitLogsA int `json:"init_logs_a"`
	// XFail: the alphabet has the operation "the exporter refuses its next batch".
	XFail bool `json:"xfail"`
	// replay files only (never set by the explorer): oracle classes (without @split) which are
	// traced but do not end the execution, to show what a foreign log / a position that ran
	// ahead leads to. A foreign log is then acknowledged like any other.
	ReplayIgnore []string `json:"replay_ignore,omitempty"`
}

func (c realCfg) name() string {
	x := ""
	if c.XFail {
		x = ",xfail"
	}
	return fmt.Sprintf("real-storage(%s,A=%d+%d,B<=%d,page=%d%s)", c.Deployment, c.InitLogsA, c.MaxWritesA, c.MaxWritesB, c.PageSize, x)
}

func (c realCfg) alphabet() []string {
	out := []string{}
	for o := rop(0); o < ropCount; o++ {
		if o == ropXFail && !c.XFail {
			continue
		}
		out = append(out, o.String())
	}
	return out
}

// realModel is what the enumeration needs to know to tell which operations make sense
// (it is a function of the operation sequence alone).
type realModel struct {
	created, running, bExists, failArmed bool
	nA, nB                               int
	// dirty: something the pipeline could react to happened since its last pull (a write, the
	// creation of B). A pull timer that elapses when nothing happened since the previous pull
	// repeats that pull on an unchanged database; such idle pulls are not enumerated inside a
	// history (the settle phase at the end of EVERY history, which is also run on every prefix,
	// lets at least two of them happen). Once the exporter has been told to refuse a batch the
	// rule is off: whether a pull or a push retry is pending is only known at run time.
	dirty bool
}

func (m realModel) enabled(c realCfg, o rop) bool {
	switch o {
	case ropPipe:
		return !m.created
	case ropTick:
		return m.running && (m.dirty || m.failArmed)
	case ropWriteA:
		return m.nA < c.MaxWritesA
	case ropMkB:
		return !m.bExists
	case ropWriteB:
		return m.bExists && m.nB < c.MaxWritesB
	case ropStop:
		return m.created && m.running
	case ropStart:
		return m.created && !m.running
	case ropReset:
		return m.created
	case ropRestart:
		return true
	case ropXFail:
		return c.XFail && m.running && !m.failArmed
	}
	return false
}

func (m realModel) apply(o rop) realModel {
	switch o {
	case ropPipe:
		// a pipeline that starts pulls at once
		m.created, m.running, m.dirty = true, true, false
	case ropWriteA:
		m.nA++
		m.dirty = true
	case ropMkB:
		m.bExists, m.dirty = true, true
	case ropWriteB:
		m.nB++
		m.dirty = true
	case ropStop:
		m.running = false
	case ropStart:
		m.running, m.dirty = true, false
	case ropReset:
		// a running pipeline is stopped and started again; a stopped one stays stopped
		if m.running {
			m.dirty = false
		}
	case ropRestart:
		// the pipelines row stays enabled across StopPipeline: the new manager restores it
		m.running = m.created
		if m.running {
			m.dirty = false
		}
	case ropXFail:
		// at most one refused batch per history
		m.failArmed = true
	case ropTick:
		m.dirty = false
	}
	return m
}

// realSequences lists every history of exactly n enabled operations in which the pipeline is
// created (a history without a pipeline shows nothing; it is still run as the prefix of the
// longer ones), in enumeration order.
func realSequences(c realCfg, n int) [][]rop {
	var out [][]rop
	cur := make([]rop, 0, n)
	var rec func(m realModel)
	rec = func(m realModel) {
		if len(cur) == n {
			if m.created {
				out = append(out, append([]rop(nil), cur...))
			}
			return
		}
		for o := rop(0); o < ropCount; o++ {
			if !m.enabled(c, o) {
				continue
			}
			cur = append(cur, o)
			rec(m.apply(o))
			cur = cur[:len(cur)-1]
		}
	}
	rec(realModel{dirty: true})
	return out
}

// ---------------------------------------------------------------------------------------
// the base database: system schema, ledger A in the shared bucket, one exporter

type realBase struct {
	pg         *pgsim.DB
	exporterID string
	initLogs   []truthLog
}

type truthLog struct {
	id     uint64
	marker string
}

const realMarkerKey = "verif_origin"

func marker(ledgerName string, rank int) string { return fmt.Sprintf("%s#%d", ledgerName, rank) }

var markerRe = regexp.MustCompile(`"` + realMarkerKey + `":"([^"#]+)#(\d+)"`)

func writeOne(ctx context.Context, w *hworld.World, ledgerName string, rank int) (uint64, error) {
	ctrl, err := w.Sys.GetLedgerController(ctx, ledgerName)
	if err != nil {
		return 0, fmt.Errorf("GetLedgerController(%s): %w", ledgerName, err)
	}
	out := lx.Apply(ctx, ctrl, lx.Op{
		Kind:     "post",
		Postings: []lx.P{{Src: "world", Dst: "acc:" + ledgerName, Ast: "USD", Amt: "1"}},
		Meta:     map[string]string{realMarkerKey: marker(ledgerName, rank)},
	})
	if out.Err != nil {
		return 0, fmt.Errorf("CreateTransaction on %s: %w", ledgerName, out.Err)
	}
	if out.Log == nil || out.Log.ID == nil {
		return 0, fmt.Errorf("CreateTransaction on %s returned no log id", ledgerName)
	}
	return *out.Log.ID, nil
}

func buildRealBase(c realCfg) (*realBase, error) {
	ctx := context.Background()
	w, err := hworld.NewSystem(ctx)
	if err != nil {
		return nil, err
	}
	defer func() { w.Close() }()
	if err := w.CreateLedger(ctx, realLedgerA, ledger.Configuration{Bucket: realBucket}); err != nil {
		return nil, fmt.Errorf("create ledger %s: %w", realLedgerA, err)
	}
	if len(w.PG.SkippedInMigration) > 0 {
		return nil, fmt.Errorf("pgsim skipped migration statements: %v", w.PG.SkippedInMigration)
	}
	exp := ledger.NewExporter(ledger.NewExporterConfiguration("recording", json.RawMessage(`{}`)))
	if err := systemstore.New(w.Bun).CreateExporter(ctx, exp); err != nil {
		return nil, fmt.Errorf("create exporter: %w", err)
	}
	b := &realBase{pg: w.PG, exporterID: exp.ID}
	for i := 1; i <= c.InitLogsA; i++ {
		id, err := writeOne(ctx, w, realLedgerA, i)
		if err != nil {
			return nil, err
		}
		b.initLogs = append(b.initLogs, truthLog{id: id, marker: marker(realLedgerA, i)})
	}
	return b, nil
}

// ---------------------------------------------------------------------------------------
// one execution

type realWorld struct {
	cfg     realCfg
	base    *realBase
	pg      *pgsim.DB
	api     *hworld.World // serves the writes and the ledger creations
	wrk     *hworld.World // hosts the manager (== api in the embedded deployment)
	mgr     *replication.Manager
	mgrGen  int
	pipeID  string
	model   realModel
	ctx     context.Context
	tracing bool

	mu sync.Mutex // never held across a blocking operation
	// ground truth
	truth map[string][]truthLog
	// exporter
	failNext    bool
	driversN    int
	epoch       int
	acked       uint64
	ackedIDs    map[uint64]bool
	accepts     int
	acceptFails int
	received    int
	// coverage of this execution
	fetchAttempts, fetches, fetchesWithForeignAhead int
	resetUpdates, notReady                          int
	bAfterPipe                                      bool
	storageErrs                                     []string

	viol   *violationInfo
	engErr string
	trace  []string
}

func (w *realWorld) tracef(format string, args ...any) {
	if w.tracing {
		w.mu.Lock()
		w.trace = append(w.trace, fmt.Sprintf(format, args...))
		w.mu.Unlock()
	}
}

func (w *realWorld) setEngErr(s string) {
	w.mu.Lock()
	if w.engErr == "" {
		w.engErr = s
	}
	w.mu.Unlock()
}

// setViolationLocked reports whether the violation stands (false: a replay file asked to go
// on past this oracle).
func (w *realWorld) setViolationLocked(sig, what string) bool {
	for _, ign := range w.cfg.ReplayIgnore {
		if ign == sig {
			if w.tracing {
				w.trace = append(w.trace, "    (oracle "+sig+" would fire here, ignored on request: "+what+")")
			}
			return false
		}
	}
	if w.cfg.Deployment == "split" {
		// a class of its own: what the split deployment shows says nothing about the embedded one
		sig += "@split"
	}
	if w.viol == nil {
		w.viol = &violationInfo{sig: sig, what: what}
		if w.tracing {
			w.trace = append(w.trace, "    ORACLE: "+sig+": "+what)
		}
	}
	return true
}

func (w *realWorld) stopped() bool {
	w.mu.Lock()
	defer w.mu.Unlock()
	return w.viol != nil || w.engErr != ""
}

// realLogger: the code under test logs the errors it swallows (a failed fetch is logged and
// retried): an error of the pgsim engine must never be mistaken for a behaviour of the ledger.
type realLogger struct{ w *realWorld }

func (l realLogger) errorf(format string, args ...any) {
	s := fmt.Sprintf(format, args...)
	if strings.Contains(s, "pgsim:") {
		l.w.setEngErr("the code under test logged an error of the pgsim engine: " + s)
	}
	if strings.Contains(s, "not ready exporter") {
		l.w.mu.Lock()
		l.w.notReady++
		l.w.mu.Unlock()
	}
	if l.w.tracing {
		l.w.tracef("      log(error): %s", s)
	}
}
func (l realLogger) ev(format string, args ...any) {
	if l.w.tracing && traceLogs {
		l.w.tracef("      log: %s", fmt.Sprintf(format, args...))
	}
}
func (l realLogger) Tracef(f string, a ...any)                  { l.ev(f, a...) }
func (l realLogger) Debugf(f string, a ...any)                  { l.ev(f, a...) }
func (l realLogger) Infof(f string, a ...any)                   { l.ev(f, a...) }
func (l realLogger) Errorf(f string, a ...any)                  { l.errorf(f, a...) }
func (l realLogger) Trace(a ...any)                             {}
func (l realLogger) Debug(a ...any)                             {}
func (l realLogger) Info(a ...any)                              {}
func (l realLogger) Error(a ...any)                             { l.errorf("%s", fmt.Sprint(a...)) }
func (l realLogger) WithFields(map[string]any) logging.Logger   { return l }
func (l realLogger) WithField(string, any) logging.Logger       { return l }
func (l realLogger) WithContext(context.Context) logging.Logger { return l }
func (l realLogger) Writer() io.Writer                          { return io.Discard }
func (l realLogger) Enabled(logging.Level) bool                 { return true }

// obsStorage delegates every call to the real storage adapter and never changes a result.
// No fault is injected in this family, so an error of the storage is an error of the engine
// (pgsim cannot run a statement) or a defect which is not C33's to judge: ENGINE-ERROR.
type obsStorage struct {
	replication.Storage
	w *realWorld
}

func (s obsStorage) note(call string, err error) {
	if err == nil || errors.Is(err, context.Canceled) {
		return
	}
	s.w.mu.Lock()
	s.w.storageErrs = append(s.w.storageErrs, call+": "+err.Error())
	s.w.mu.Unlock()
	s.w.setEngErr("real storage call " + call + " failed although no fault is injected in this family: " + err.Error())
}

func (s obsStorage) OpenLedger(ctx context.Context, name string) (replication.LogFetcher, *ledger.Ledger, error) {
	f, l, err := s.Storage.OpenLedger(ctx, name)
	s.note("OpenLedger("+name+")", err)
	if err != nil {
		return f, l, err
	}
	return replication.LogFetcherFn(func(ctx context.Context, q common.PaginatedQuery[any]) (*paginate.Cursor[ledger.Log], error) {
		s.w.mu.Lock()
		s.w.fetchAttempts++
		s.w.mu.Unlock()
		// Determinism: a pipeline that has just been started fetches while the goroutine that
		// starts its exporter (DriverFacade.Run) may not have closed the "ready" channel yet; if
		// the fetch wins, the first batch is refused ("not ready exporter") and only retried one
		// push-retry period later. Which one wins is up to the Go scheduler. One nanosecond of
		// VIRTUAL time before every fetch removes the coin flip: bubble time only advances once
		// every other goroutine of the bubble is durably blocked, so the exporter is ready (and
		// the position of the previous page is persisted) before the fetch is issued. This picks
		// one legal schedule; the interleavings of the replication layer are the gated
		// scenarios' business (see realWorld.quiesce for the controller's side).
		time.Sleep(time.Nanosecond)
		cur, err := f.ListLogs(ctx, q)
		s.note("ListLogs", err)
		if err == nil {
			s.w.sawFetch(q, cur)
		}
		return cur, err
	}), l, err
}

func (s obsStorage) StorePipelineState(ctx context.Context, id string, lastLogID uint64) error {
	err := s.Storage.StorePipelineState(ctx, id, lastLogID)
	s.note(fmt.Sprintf("StorePipelineState(%d)", lastLogID), err)
	s.w.tracef("    StorePipelineState(%d) -> %s", lastLogID, errClass(err))
	return err
}

func (s obsStorage) UpdatePipeline(ctx context.Context, id string, o map[string]any) (*ledger.Pipeline, error) {
	p, err := s.Storage.UpdatePipeline(ctx, id, o)
	s.note("UpdatePipeline", err)
	if v, ok := o["last_log_id"]; ok && v == nil && err == nil {
		s.w.mu.Lock()
		s.w.resetUpdates++
		s.w.mu.Unlock()
		s.w.tracef("    UpdatePipeline cleared last_log_id")
	}
	return p, err
}

func (s obsStorage) ListEnabledPipelines(ctx context.Context) ([]ledger.Pipeline, error) {
	ps, err := s.Storage.ListEnabledPipelines(ctx)
	s.note("ListEnabledPipelines", err)
	return ps, err
}

func (s obsStorage) GetPipeline(ctx context.Context, id string) (*ledger.Pipeline, error) {
	p, err := s.Storage.GetPipeline(ctx, id)
	s.note("GetPipeline", err)
	return p, err
}

func (s obsStorage) CreatePipeline(ctx context.Context, p ledger.Pipeline) error {
	err := s.Storage.CreatePipeline(ctx, p)
	s.note("CreatePipeline", err)
	return err
}

// sawFetch: coverage only (did this family reach the situation it was written for?).
func (w *realWorld) sawFetch(q common.PaginatedQuery[any], cur *paginate.Cursor[ledger.Log]) {
	w.mu.Lock()
	defer w.mu.Unlock()
	w.fetches++
	ids := make([]uint64, 0, len(cur.Data))
	for _, l := range cur.Data {
		if l.ID != nil {
			ids = append(ids, *l.ID)
		}
	}
	// B holds a log whose id is beyond what A's exporter has acknowledged so far: an unscoped
	// fetch would return it
	if nb := len(w.truth[realLedgerB]); nb > 0 && w.truth[realLedgerB][nb-1].id > w.acked {
		w.fetchesWithForeignAhead++
	}
	if w.tracing {
		w.trace = append(w.trace, fmt.Sprintf("    ListLogs(%s) -> %v hasMore=%v", describeQuery(q), ids, cur.HasMore))
	}
}

// recording exporter

type recFactory struct{ w *realWorld }

func (f recFactory) Create(_ context.Context, _ string) (drivers.Driver, json.RawMessage, error) {
	f.w.mu.Lock()
	f.w.driversN++
	inc := f.w.driversN
	f.w.mu.Unlock()
	return &recDriver{w: f.w, inc: inc}, json.RawMessage(`{}`), nil
}

type recDriver struct {
	w   *realWorld
	inc int
}

func (d *recDriver) Start(ctx context.Context) error { return ctx.Err() }
func (d *recDriver) Stop(context.Context) error      { return nil }

func (d *recDriver) Accept(_ context.Context, logs ...drivers.LogWithLedger) ([]error, error) {
	w := d.w
	w.mu.Lock()
	defer w.mu.Unlock()
	w.accepts++
	desc := make([]string, 0, len(logs))
	ids := make([]uint64, 0, len(logs))
	truthA := w.truth[realLedgerA]
	for _, l := range logs {
		var id uint64
		if l.ID != nil {
			id = *l.ID
		}
		ids = append(ids, id)
		payload, _ := json.Marshal(l.Data)
		origin := "?"
		if m := markerRe.FindSubmatch(payload); m != nil {
			origin = string(m[1]) + "#" + string(m[2])
		}
		desc = append(desc, fmt.Sprintf("{id=%d label=%s written=%s}", id, l.Ledger, origin))
	}
	if w.tracing {
		w.trace = append(w.trace, fmt.Sprintf("    exporter#%d receives %s", d.inc, strings.Join(desc, " ")))
	}
	// nothing that is not a log of A
	foreign := false
	for i, l := range logs {
		id := ids[i]
		var want string
		if id >= 1 && id <= uint64(len(truthA)) {
			want = truthA[id-1].marker
		}
		payload, _ := json.Marshal(l.Data)
		got := ""
		if m := markerRe.FindSubmatch(payload); m != nil {
			got = string(m[1]) + "#" + string(m[2])
		}
		if l.Ledger != realLedgerA || got != want || want == "" {
			missing := []uint64{}
			for k := w.acked + 1; k <= uint64(len(truthA)); k++ {
				missing = append(missing, k)
			}
			whose := "a log that ledger " + realLedgerA + " does not have"
			if got != "" {
				whose = "transaction " + got + " (written on ledger " + strings.SplitN(got, "#", 2)[0] + ")"
			}
			if w.setViolationLocked("C33:foreign-log", fmt.Sprintf(
				"the exporter of the pipeline on ledger %s received, labelled %q, log id=%d which is %s; ledger %s has logs 1..%d, of which the exporter had acknowledged 1..%d (not yet exported: %v); whole batch: %s",
				realLedgerA, l.Ledger, id, whose, realLedgerA, len(truthA), w.acked, missing, strings.Join(desc, " "))) {
				return nil, errors.New("verif: foreign log refused")
			}
			foreign = true
		}
	}
	if foreign {
		// replay asked to go on: the batch is acknowledged, none of it counts as a log of A
		return make([]error, len(logs)), nil
	}
	// increasing, consecutive, starting at most one after the acknowledged prefix
	if len(ids) > 0 {
		for i := 1; i < len(ids); i++ {
			if ids[i] <= ids[i-1] {
				if w.setViolationLocked("C33:batch-not-increasing", fmt.Sprintf("exporter received batch %v: ids are not strictly increasing", ids)) {
					return nil, errors.New("verif: refused")
				}
			}
			if ids[i] != ids[i-1]+1 {
				if w.setViolationLocked("C33:batch-has-gap", fmt.Sprintf("exporter received batch %v: log %d of ledger %s skipped inside the batch", ids, ids[i-1]+1, realLedgerA)) {
					return nil, errors.New("verif: refused")
				}
			}
		}
		if ids[0] > w.acked+1 {
			sig, since := "C33:gap", ""
			if w.epoch > 0 {
				sig, since = "C33:gap-after-reset", " since the last reset"
			}
			if w.setViolationLocked(sig, fmt.Sprintf("the exporter had acknowledged logs 1..%d of ledger %s%s, yet the next batch is %v: logs %d..%d were skipped", w.acked, realLedgerA, since, ids, w.acked+1, ids[0]-1)) {
				return nil, errors.New("verif: refused")
			}
		}
	}
	if w.failNext {
		w.failNext = false
		w.acceptFails++
		if w.tracing {
			w.trace = append(w.trace, "    exporter refuses this batch (xfail)")
		}
		return nil, errInjected
	}
	w.received += len(ids)
	for _, id := range ids {
		w.ackedIDs[id] = true
	}
	for w.ackedIDs[w.acked+1] {
		w.acked++
	}
	return make([]error, len(logs)), nil
}

// ---------------------------------------------------------------------------------------

func (w *realWorld) attach() *hworld.World {
	x := hworld.Attach(w.pg)
	if w.tracing {
		x.Hook = func(_ context.Context, _ *pgsim.Session, op, q string) error {
			if (op == "query" || op == "exec") && strings.Contains(q, ".logs") && strings.HasPrefix(strings.TrimSpace(strings.ToUpper(q)), "WITH") {
				w.tracef("      sql: %s", q)
			}
			return nil
		}
	}
	return x
}

func (w *realWorld) startManager() {
	w.mgrGen++
	w.mgr = replication.NewManager(
		obsStorage{Storage: replication.NewStorageAdapter(w.wrk.Driver, systemstore.New(w.wrk.Bun)), w: w},
		recFactory{w},
		realLogger{w},
		okValidator{},
		replication.WithSyncPeriod(periodSync),
		replication.WithPipelineOptions(
			replication.WithPullPeriod(periodPipeline),
			replication.WithPushRetryPeriod(periodPipeline),
			replication.WithLogsPageSize(w.cfg.PageSize),
		),
	)
	go w.mgr.Run(w.ctx)
}

func (w *realWorld) boot() {
	w.pg = w.base.pg.Clone()
	w.ctx = logging.ContextWithLogger(context.Background(), realLogger{w})
	w.truth = map[string][]truthLog{realLedgerA: append([]truthLog(nil), w.base.initLogs...)}
	w.ackedIDs = map[uint64]bool{}
	w.api = w.attach()
	w.wrk = w.api
	if w.cfg.Deployment == "split" {
		w.wrk = w.attach()
	}
	w.startManager()
}

func (w *realWorld) write(name string) {
	w.mu.Lock()
	rank := len(w.truth[name]) + 1
	w.mu.Unlock()
	id, err := writeOne(w.ctx, w.api, name, rank)
	if err != nil {
		w.setEngErr(err.Error())
		return
	}
	if id != uint64(rank) {
		w.setEngErr(fmt.Sprintf("write #%d on ledger %s got log id %d: the ground truth of this family assumes one log per write, ids 1,2,3…", rank, name, id))
		return
	}
	w.mu.Lock()
	w.truth[name] = append(w.truth[name], truthLog{id: id, marker: marker(name, rank)})
	w.mu.Unlock()
	w.tracef("    committed on %s: log %d (%s)", name, id, marker(name, rank))
}

func (w *realWorld) perform(o rop) {
	switch o {
	case ropPipe:
		p, err := w.mgr.CreatePipeline(w.ctx, ledger.NewPipelineConfiguration(realLedgerA, w.base.exporterID))
		if err != nil {
			w.setEngErr("CreatePipeline: " + err.Error())
			return
		}
		w.pipeID = p.ID
	case ropTick:
		if !w.tick() {
			w.setEngErr("tick: the pipeline is supposed to be running but neither a pull nor a push retry happened within 1.5 periods")
		}
	case ropWriteA:
		w.write(realLedgerA)
	case ropWriteB:
		w.write(realLedgerB)
	case ropMkB:
		skipped := len(w.pg.SkippedInMigration)
		if err := w.api.CreateLedger(w.ctx, realLedgerB, ledger.Configuration{Bucket: realBucket}); err != nil {
			w.setEngErr("CreateLedger(" + realLedgerB + "): " + err.Error())
			return
		}
		if len(w.pg.SkippedInMigration) != skipped {
			w.setEngErr(fmt.Sprintf("pgsim skipped statements while creating %s: %v", realLedgerB, w.pg.SkippedInMigration[skipped:]))
		}
		if w.model.created {
			w.bAfterPipe = true
		}
	case ropStop:
		if err := w.mgr.StopPipeline(w.ctx, w.pipeID); err != nil {
			w.setEngErr("StopPipeline: " + err.Error())
		}
	case ropStart:
		if err := w.mgr.StartPipeline(w.ctx, w.pipeID); err != nil {
			w.setEngErr("StartPipeline: " + err.Error())
		}
	case ropReset:
		// Epoch rule: "after a reset all logs are exported again from the first one" is judged
		// from the moment the reset is asked for, whatever the implementation then does to the
		// pipelines row (the gated scenarios, where the call can be interleaved and can fail,
		// start the epoch when UpdatePipeline clears last_log_id or when ResetPipeline returns
		// nil). The world is quiescent: the pipeline sits in its timer, nothing is in flight, and
		// ResetPipeline stops the old pipeline before anything else.
		w.mu.Lock()
		w.epoch++
		w.acked, w.ackedIDs = 0, map[uint64]bool{}
		if w.tracing {
			w.trace = append(w.trace, fmt.Sprintf("    oracle: reset epoch %d begins: acknowledgements restart from 0", w.epoch))
		}
		w.mu.Unlock()
		if err := w.mgr.ResetPipeline(w.ctx, w.pipeID); err != nil {
			w.setEngErr("ResetPipeline: " + err.Error())
		}
	case ropRestart:
		if err := w.mgr.Stop(w.ctx); err != nil {
			w.setEngErr("Manager.Stop: " + err.Error())
			return
		}
		synctest.Wait()
		old := w.wrk
		if w.cfg.Deployment == "split" {
			w.wrk = w.attach()
		} else {
			w.api = w.attach()
			w.wrk = w.api
		}
		old.Close()
		w.startManager()
	case ropXFail:
		w.mu.Lock()
		w.failNext = true
		w.mu.Unlock()
	}
}

// quiesce returns when every goroutine of the bubble is durably blocked on something other
// than the one-nanosecond pause that precedes a fetch (see obsStorage.OpenLedger):
// synctest.Wait alone returns as soon as the pipeline sits in that pause. A microsecond of
// virtual time lets a chain of a thousand fetches go through; every other timer of the stack
// is seconds away.
func (w *realWorld) quiesce() {
	synctest.Wait()
	time.Sleep(time.Microsecond)
	synctest.Wait()
}

// pulse changes whenever the pipeline goroutine came out of one of its timers (a pull: one
// more fetch; a push retry: one more batch at the exporter; an exporter which was not ready
// is retried the same way).
func (w *realWorld) pulse() int {
	w.mu.Lock()
	defer w.mu.Unlock()
	return w.fetchAttempts + w.accepts
}

// tick lets EXACTLY ONE timer of the pipeline elapse. The pull interval and the push retry
// period are both periodPipeline plus a random jitter in [0, period/2): a timer armed at or
// before now fires within 1.5 periods, and two consecutive firings are at least one period
// apart. Virtual time therefore advances by half periods until the pipeline has moved; what
// the history does not depend on is the value of the jitter. (The manager's synchronisation
// period, 100 times longer, never elapses within a history.) Reports whether a timer fired.
func (w *realWorld) tick() bool {
	before := w.pulse()
	for i := 0; i < 3; i++ {
		d := periodPipeline / 2
		if i == 2 {
			d += time.Millisecond
		}
		time.Sleep(d)
		w.quiesce()
		if w.pulse() != before {
			return true
		}
	}
	return false
}

// persisted reads _system.pipelines.last_log_id through the real system store.
func (w *realWorld) persisted() (*uint64, bool) {
	if w.pipeID == "" {
		return nil, true
	}
	p, err := systemstore.New(w.wrk.Bun).GetPipeline(w.ctx, w.pipeID)
	if err != nil {
		w.setEngErr("reading the pipelines row: " + err.Error())
		return nil, false
	}
	return p.LastLogID, true
}

// check runs on the controller goroutine after synctest.Wait: every goroutine of the bubble
// is durably blocked.
func (w *realWorld) check() {
	p, ok := w.persisted()
	if !ok {
		return
	}
	w.mu.Lock()
	defer w.mu.Unlock()
	ps := "nil"
	if p != nil {
		ps = fmt.Sprint(*p)
	}
	if w.tracing {
		w.trace = append(w.trace, fmt.Sprintf("    state: logs(%s)=%d logs(%s)=%d acknowledged=1..%d persisted last_log_id=%s epoch=%d",
			realLedgerA, len(w.truth[realLedgerA]), realLedgerB, len(w.truth[realLedgerB]), w.acked, ps, w.epoch))
	}
	if p != nil && *p > w.acked {
		since := ""
		if w.epoch > 0 {
			since = " since the last reset"
		}
		w.setViolationLocked("C33:persisted-exceeds-acked", fmt.Sprintf(
			"persisted last_log_id=%d exceeds the highest log of ledger %s the exporter acknowledged%s (%d of %d)", *p, realLedgerA, since, w.acked, len(w.truth[realLedgerA])))
	}
}

type realResult struct {
	viol      *violationInfo
	engErr    string
	final     string
	trace     []string
	ops       int
	quiescent bool
	// coverage
	accepts, acceptFails, received, fetches, foreignAhead, epochs, settleTicks int
	notReady                                                                   int
	bAfterPipe                                                                 bool
}

func (x *realResult) outcome() string {
	switch {
	case x.engErr != "":
		return "engine-error"
	case x.viol != nil:
		return "violation:" + x.viol.sig
	case x.quiescent:
		return "quiescent-all-exported"
	}
	return "no-pipeline"
}

// settle is the liveness half of the oracle, run after the last operation of the history:
// the pipeline is (re)started if it is not running, the exporter is healthy from now on,
// and the pull timer elapses until a pull reaches the exporter with nothing: then everything
// A committed must have been acknowledged (since the last reset).
func (w *realWorld) settle(x *realResult) {
	if !w.model.created {
		return
	}
	w.mu.Lock()
	w.failNext = false
	w.mu.Unlock()
	if !w.model.running {
		w.tracef("settle: StartPipeline")
		w.perform(ropStart)
		w.model = w.model.apply(ropStart)
		w.quiesce()
		w.check()
	}
	w.mu.Lock()
	bound := len(w.truth[realLedgerA]) + 4
	w.mu.Unlock()
	idle := 0
	for i := 0; i < bound && idle < 2 && !w.stopped(); i++ {
		w.mu.Lock()
		before := w.accepts
		w.mu.Unlock()
		w.tracef("settle: the pull timer elapses")
		if !w.tick() {
			w.setEngErr("settle: the pipeline is supposed to be running but neither a pull nor a push retry happened within 1.5 periods")
			return
		}
		w.check()
		x.settleTicks++
		w.mu.Lock()
		if w.accepts == before {
			idle++
		} else {
			idle = 0
		}
		w.mu.Unlock()
	}
	if w.stopped() {
		return
	}
	w.mu.Lock()
	defer w.mu.Unlock()
	if idle < 2 {
		// the exporter is still being fed after more pulls than A has logs: not a verdict on
		// the ledger, the settle loop of the harness is wrong
		if w.engErr == "" {
			w.engErr = fmt.Sprintf("settle: the pipeline did not become idle within %d pull periods", bound)
		}
		return
	}
	x.quiescent = true
	if n := uint64(len(w.truth[realLedgerA])); w.acked != n {
		since := ""
		if w.epoch > 0 {
			since = " since the last reset"
		}
		missing := []uint64{}
		for k := w.acked + 1; k <= n; k++ {
			if !w.ackedIDs[k] {
				missing = append(missing, k)
			}
		}
		w.setViolationLocked("C33:not-all-exported-at-quiescence", fmt.Sprintf(
			"the pipeline on ledger %s is started and idle (two consecutive pulls exported nothing) with a healthy exporter, but the exporter acknowledged only logs 1..%d%s of %d: logs %v of ledger %s are never exported",
			realLedgerA, w.acked, since, n, missing, realLedgerA))
	}
}

func (w *realWorld) teardown() {
	if w.mgr != nil {
		done := make(chan struct{})
		go func() {
			_ = w.mgr.Stop(context.Background())
			close(done)
		}()
		w.quiesce()
		select {
		case <-done:
		default:
			w.setEngErr("teardown: Manager.Stop does not return")
		}
	}
	if w.wrk != w.api {
		w.wrk.Close()
	}
	w.api.Close()
	synctest.Wait()
}

// runReal executes one history from scratch in a fresh bubble.
func runReal(t *testing.T, cfg realCfg, base *realBase, ops []rop, tracing bool) (x *realResult) {
	x = &realResult{}
	defer func() {
		if r := recover(); r != nil {
			x.engErr = fmt.Sprintf("bubble panicked: %v", r)
			if dumpStacksOnPanic {
				buf := make([]byte, 1<<20)
				buf = buf[:runtime.Stack(buf, true)]
				fmt.Println(string(buf))
			}
		}
	}()
	synctest.Test(t, func(t *testing.T) {
		w := &realWorld{cfg: cfg, base: base, tracing: tracing, model: realModel{dirty: true}}
		w.boot()
		w.quiesce()
		w.check()
		for i, o := range ops {
			if w.stopped() {
				break
			}
			if !w.model.enabled(cfg, o) {
				w.setEngErr(fmt.Sprintf("operation %d (%s) is not enabled after %v", i, o, ropsStrings(ops[:i])))
				break
			}
			w.tracef("step %d: %s", i, o)
			w.perform(o)
			w.model = w.model.apply(o)
			w.quiesce()
			x.ops++
			if !w.stopped() {
				w.check()
			}
		}
		if !w.stopped() {
			w.settle(x)
		}
		// the verdict is taken before the teardown: a teardown that goes wrong is an engine
		// error of its own, it must not replace a violation
		w.mu.Lock()
		x.viol, x.engErr, x.trace = w.viol, w.engErr, w.trace
		x.accepts, x.acceptFails, x.received, x.fetches, x.foreignAhead, x.epochs = w.accepts, w.acceptFails, w.received, w.fetches, w.fetchesWithForeignAhead, w.epoch
		x.bAfterPipe, x.notReady = w.bAfterPipe, w.notReady
		x.final = fmt.Sprintf("acked=%d logsA=%d logsB=%d epoch=%d managers=%d", w.acked, len(w.truth[realLedgerA]), len(w.truth[realLedgerB]), w.epoch, w.mgrGen)
		w.mu.Unlock()
		w.teardown()
		w.mu.Lock()
		if x.viol == nil && x.engErr == "" {
			x.engErr = w.engErr
		}
		w.mu.Unlock()
	})
	return x
}

// ---------------------------------------------------------------------------------------
// exhaustive enumeration, level by level

type realExplorer struct {
	r       *ev.Run
	cfg     realCfg
	base    *realBase
	workers int
	known   map[string]bool
	// deadline of this family inside the run's budget; it does not apply to the histories
	// of at most minDepth operations
	deadline time.Time
	minDepth int
	curLevel atomic.Int64

	executions, opsRun, confirmRuns, quiescentRuns, violatingRuns       atomic.Int64
	accepts, acceptFails, received, fetches, foreignAhead, resets       atomic.Int64
	execsBAfterPipe, execsForeignAhead, execsXFailConsumed, settleTicks atomic.Int64
	notReady                                                            atomic.Int64
	abort, expired                                                      atomic.Bool

	mu             sync.Mutex
	outcomes       map[string]int64
	viols          map[string]*realFound
	levels         []string
	depthCompleted int
	stoppedOnV     bool
	samples        []map[string]any
}

type realFound struct {
	sig, what string
	ops       []rop
	level     int
	count     int64
	reported  bool
}

func lessRops(a, b []rop) bool {
	if len(a) != len(b) {
		return len(a) < len(b)
	}
	for i := range a {
		if a[i] != b[i] {
			return a[i] < b[i]
		}
	}
	return false
}

// realMinDepth: the shortest history in which a ledger created after the pipeline gets ahead
// of it (pipe, mkB, wB, tick).
const realMinDepth = 4

func (e *realExplorer) timeUp() bool {
	if e.r.Expired() {
		return true
	}
	return int(e.curLevel.Load()) > e.minDepth && time.Now().After(e.deadline)
}

func (e *realExplorer) handle(t *testing.T, level int, ops []rop) {
	x := runReal(t, e.cfg, e.base, ops, false)
	progressCounter.Add(1)
	e.executions.Add(1)
	e.opsRun.Add(int64(x.ops))
	e.accepts.Add(int64(x.accepts))
	e.acceptFails.Add(int64(x.acceptFails))
	e.received.Add(int64(x.received))
	e.fetches.Add(int64(x.fetches))
	e.foreignAhead.Add(int64(x.foreignAhead))
	e.resets.Add(int64(x.epochs))
	e.settleTicks.Add(int64(x.settleTicks))
	e.notReady.Add(int64(x.notReady))
	if x.bAfterPipe {
		e.execsBAfterPipe.Add(1)
	}
	if x.foreignAhead > 0 {
		e.execsForeignAhead.Add(1)
	}
	if x.acceptFails > 0 {
		e.execsXFailConsumed.Add(1)
	}
	if x.engErr != "" {
		e.r.EngineError(fmt.Sprintf("%s history %v: %s", e.cfg.name(), ropsStrings(ops), x.engErr))
		e.abort.Store(true)
		return
	}
	if x.quiescent {
		e.quiescentRuns.Add(1)
	}
	e.mu.Lock()
	e.outcomes[x.outcome()]++
	wantSample := len(e.samples) < 2 && x.viol == nil && x.quiescent && level >= 4 && x.received > 0 && x.bAfterPipe
	if x.viol != nil {
		fv := e.viols[x.viol.sig]
		if fv == nil {
			fv = &realFound{sig: x.viol.sig, level: level}
			e.viols[x.viol.sig] = fv
		}
		if !fv.reported && fv.level == level && (fv.ops == nil || lessRops(ops, fv.ops)) {
			fv.what, fv.ops = x.viol.what, append([]rop(nil), ops...)
		}
		fv.count++
	}
	e.mu.Unlock()
	if x.viol != nil {
		e.violatingRuns.Add(1)
	}
	if wantSample {
		tr := runReal(t, e.cfg, e.base, ops, true)
		e.mu.Lock()
		if len(e.samples) < 2 {
			e.samples = append(e.samples, map[string]any{"scenario": e.cfg.name(), "history": ropsStrings(ops), "outcome": x.outcome(), "final": x.final, "trace": tr.trace})
		}
		e.mu.Unlock()
	}
}

func (e *realExplorer) runLevel(t *testing.T, level int) (completed bool) {
	seqs := realSequences(e.cfg, level)
	e.curLevel.Store(int64(level))
	var idx atomic.Int64
	n := int64(len(seqs))
	t0 := time.Now()
	t.Run(fmt.Sprintf("real-%s-len%d", e.cfg.Deployment, level), func(t *testing.T) {
		for wk := 0; wk < e.workers; wk++ {
			t.Run(fmt.Sprintf("w%d", wk), func(t *testing.T) {
				t.Parallel()
				for {
					if e.abort.Load() {
						return
					}
					if e.timeUp() {
						e.expired.Store(true)
						return
					}
					i := idx.Add(1) - 1
					if i >= n {
						return
					}
					e.handle(t, level, seqs[i])
				}
			})
		}
	})
	done := !e.abort.Load() && !e.expired.Load()
	e.mu.Lock()
	e.levels = append(e.levels, fmt.Sprintf("length=%d: %d histories in %.1fs (completed=%v)", level, n, time.Since(t0).Seconds(), done))
	e.mu.Unlock()
	e.reportViolations(t)
	return done && !e.abort.Load()
}

// reportViolations: the canonical witness (shortest, then first in enumeration order) of
// every new class is replayed 5 times; it must show the same class every time.
func (e *realExplorer) reportViolations(t *testing.T) {
	e.mu.Lock()
	var todo []*realFound
	for _, fv := range e.viols {
		if !fv.reported && fv.ops != nil {
			fv.reported = true
			todo = append(todo, fv)
		}
	}
	e.mu.Unlock()
	sort.Slice(todo, func(i, j int) bool { return todo[i].sig < todo[j].sig })
	for _, fv := range todo {
		ok := true
		for k := 0; k < 5 && ok; k++ {
			e.confirmRuns.Add(1)
			progressCounter.Add(1)
			y := runReal(t, e.cfg, e.base, fv.ops, false)
			switch {
			case y.engErr != "":
				e.r.EngineError(fmt.Sprintf("replay %d/5 of violating history %v: %s", k+1, ropsStrings(fv.ops), y.engErr))
				ok = false
			case y.viol == nil || y.viol.sig != fv.sig:
				got := "no violation"
				if y.viol != nil {
					got = y.viol.sig
				}
				e.r.EngineError(fmt.Sprintf("violation %s did not reproduce on replay %d/5 of history %v (got %s)", fv.sig, k+1, ropsStrings(fv.ops), got))
				ok = false
			}
		}
		if !ok {
			e.abort.Store(true)
			continue
		}
		tr := runReal(t, e.cfg, e.base, fv.ops, true)
		e.r.Violation(fv.sig, fv.what+fmt.Sprintf(" | %s history=%v", e.cfg.name(), ropsStrings(fv.ops)), map[string]any{
			"real_config": e.cfg,
			"history":     ropsStrings(fv.ops),
			"how":         "cd <verif>/h && ./k5/run.sh replay <this file>",
			"trace":       tr.trace,
		})
	}
}

func (e *realExplorer) anyViolation() bool {
	e.mu.Lock()
	defer e.mu.Unlock()
	return len(e.viols) > 0
}

func (e *realExplorer) unknownViolation() bool {
	e.mu.Lock()
	defer e.mu.Unlock()
	for sig := range e.viols {
		if !e.known[sig] {
			return true
		}
	}
	return false
}

// explore walks the lengths 1..maxDepth until the family's share of the budget is used.
func (e *realExplorer) explore(t *testing.T, maxDepth int) {
	for level := 1; level <= maxDepth; level++ {
		if !e.runLevel(t, level) {
			return
		}
		e.depthCompleted = level
		if e.anyViolation() {
			// known or not: the longer histories mostly extend the violating ones
			e.stoppedOnV = true
			return
		}
	}
}

func (e *realExplorer) coverage(maxDepth int) map[string]any {
	e.mu.Lock()
	defer e.mu.Unlock()
	viols := map[string]any{}
	for sig, fv := range e.viols {
		viols[sig] = map[string]any{"executions": fv.count, "first_history": ropsStrings(fv.ops), "first_at_length": fv.level}
	}
	return map[string]any{
		"scenario":                 e.cfg,
		"name":                     e.cfg.name(),
		"alphabet":                 ropNames[:],
		"history_length_requested": maxDepth,
		"history_length_completed": e.depthCompleted,
		"levels":                   e.levels,
		"histories_run":            e.executions.Load(),
		"operations_run":           e.opsRun.Load(),
		"confirmation_replays":     e.confirmRuns.Load(),
		"quiescent_executions":     e.quiescentRuns.Load(),
		"violating_executions":     e.violatingRuns.Load(),
		"violation_classes":        viols,
		"outcomes":                 sortedCounts(e.outcomes),
		"fetches_through_the_real_logs_paginator":                   e.fetches.Load(),
		"fetches_while_B_held_a_log_beyond_A_s_acknowledged_prefix": e.foreignAhead.Load(),
		"histories_with_such_a_fetch":                               e.execsForeignAhead.Load(),
		"histories_with_B_created_after_the_pipeline":               e.execsBAfterPipe.Load(),
		"histories_with_a_batch_refused_by_the_exporter":            e.execsXFailConsumed.Load(),
		"batches_received":                                          e.accepts.Load(),
		"logs_acknowledged":                                         e.received.Load(),
		"resets_taken_effect":                                       e.resets.Load(),
		"settle_pull_periods":                                       e.settleTicks.Load(),
		"batches_refused_because_the_exporter_was_not_ready_yet":    e.notReady.Load(),
		"exhaustive_to_length":                                      e.depthCompleted,
		"stopped_after_violation":                                   e.stoppedOnV,
		"samples":                                                   append([]map[string]any{}, e.samples...),
	}
}

func replayReal(t *testing.T, cfg realCfg, names []string) int {
	ops, err := parseRops(names)
	if err != nil {
		fmt.Println("ENGINE-ERROR property=C33 cannot parse replay: " + err.Error())
		return 2
	}
	base, err := buildRealBase(cfg)
	if err != nil {
		fmt.Println("ENGINE-ERROR property=C33 replay: building the base database: " + err.Error())
		return 2
	}
	traceLogs = os.Getenv("VERIF_K5_TRACELOGS") != ""
	dumpStacksOnPanic = true
	x := runReal(t, cfg, base, ops, true)
	for _, l := range x.trace {
		fmt.Println(l)
	}
	switch {
	case x.engErr != "":
		fmt.Println("ENGINE-ERROR property=C33 replay: " + x.engErr)
		return 2
	case x.viol != nil:
		fmt.Printf("VIOLATION property=C33 replay of %s history %v\n  signature=%s\n  %s\n", cfg.name(), names, x.viol.sig, x.viol.what)
		return 1
	}
	fmt.Printf("OK property=C33 replay reproduced no violation (outcome %s, %s)\n", x.outcome(), x.final)
	return 0
}
