package k5

import (
	"encoding/json"
	"fmt"
	"os"
	"path/filepath"
	"runtime"
	"strconv"
	"testing"
	"time"

	"github.com/formancehq/ledger/verifh/ev"
)

// exitCode is set by TestC33; TestMain exits with it so that ev's protocol (0 held,
// 1 VIOLATION, 2 ENGINE-ERROR) survives the testing framework.
var exitCode = -1

func TestMain(m *testing.M) {
	rc := m.Run()
	if exitCode >= 0 {
		os.Exit(exitCode)
	}
	if rc != 0 {
		fmt.Println("ENGINE-ERROR property=C33 test framework failure")
		os.Exit(2)
	}
	os.Exit(0)
}

func envInt(name string, def int) int {
	if v, err := strconv.Atoi(os.Getenv(name)); err == nil {
		return v
	}
	return def
}

func knownSignatures() map[string]bool {
	out := map[string]bool{}
	var kf struct {
		Findings []struct {
			Property  string `json:"property"`
			Signature string `json:"signature"`
		} `json:"findings"`
	}
	if b, err := os.ReadFile(filepath.Join(ev.Root(), "known_findings.json")); err == nil && json.Unmarshal(b, &kf) == nil {
		for _, f := range kf.Findings {
			if f.Property == "C33" {
				out[f.Signature] = true
			}
		}
	}
	return out
}

type scenarioReport struct {
	e          *explorer
	cfg        config
	completed  int
	levels     []string
	lastTasks  []task // children of the last completed level (for the sampled extra level)
	stoppedOnV bool
}

func TestC33(t *testing.T) {
	if os.Getenv("VERIF_TIER") == "" && os.Getenv("VERIF_K5_REPLAY") == "" {
		t.Skip("run through /verif/h/k5/run.sh (needs the -overlay build and VERIF_TIER)")
	}
	if p := os.Getenv("VERIF_K5_REPLAY"); p != "" {
		exitCode = replayFile(t, p)
		return
	}
	r := ev.Start("C33", ev.LevelMC, 75*time.Second, 11*time.Minute)
	horizon := envInt("VERIF_K5_HORIZON", 40)
	// quick: one scenario; thorough: the same with one more appended log, plus a ledger
	// whose log count is a multiple of the page size (last page full, HasMore=false).
	scenarios := []config{{InitLogs: 3, MaxAppends: 1, PageSize: 2, Horizon: horizon}}
	if r.Thorough() {
		scenarios = []config{
			{InitLogs: 3, MaxAppends: 2, PageSize: 2, Horizon: horizon},
			{InitLogs: 4, MaxAppends: 1, PageSize: 2, Horizon: horizon},
		}
	}
	if v := os.Getenv("VERIF_K5_LOGS"); v != "" {
		scenarios = []config{{InitLogs: envInt("VERIF_K5_LOGS", 3), MaxAppends: envInt("VERIF_K5_APPENDS", 1), PageSize: 2, Horizon: horizon}}
	}
	maxBound := envInt("VERIF_K5_BOUND", 3)
	extraLevel := r.Thorough() && os.Getenv("VERIF_K5_NOEXTRA") == ""
	workers := runtime.GOMAXPROCS(0)
	if workers > 16 {
		workers = 16
	}
	workers = envInt("VERIF_K5_WORKERS", workers)
	known := knownSignatures()

	// watchdog: a goroutine of the code under test that blocks on something synctest does
	// not consider durable (a real sync.Mutex, I/O) would hang synctest.Wait for ever.
	stopDog := make(chan struct{})
	defer close(stopDog)
	go func() {
		// counts its own 2s ticks instead of comparing clock readings: a paused / resumed VM
		// or a starved machine must not look like a hang
		last, idleTicks := int64(-1), 0
		for {
			select {
			case <-stopDog:
				return
			case <-time.After(2 * time.Second):
			}
			if p := progressCounter.Load(); p != last {
				last, idleTicks = p, 0
				continue
			}
			idleTicks++
			if idleTicks >= 150 {
				buf := make([]byte, 64<<20)
				buf = buf[:runtime.Stack(buf, true)]
				_ = os.WriteFile(filepath.Join(ev.Root(), "h", "bin", "k5-hang-stacks.txt"), buf, 0o644)
				fmt.Println("ENGINE-ERROR property=C33 no execution finished during 150 consecutive 2s watchdog ticks: a goroutine of the code under test is blocked on something testing/synctest does not see as durable (new sync.Mutex/Cond outside internal/replication?); teach k5/genoverlay.py (goroutine dump: h/bin/k5-hang-stacks.txt)")
				os.Exit(2)
			}
		}
	}()

	var reports []*scenarioReport
	anyUnknown := false
	for si, cfg := range scenarios {
		e := newExplorer(r, cfg, workers, known)
		rep := &scenarioReport{e: e, cfg: cfg, completed: -1}
		reports = append(reports, rep)
		tasks := []task{{}}
		for level := 0; level <= maxBound && len(tasks) > 0; level++ {
			t0 := time.Now()
			n := len(tasks)
			next, ok := e.runLevel(t, level, tasks, level < maxBound || (extraLevel && si == 0), false)
			rep.levels = append(rep.levels, fmt.Sprintf("deviations=%d: %d schedules in %.1fs (completed=%v)", level, n, time.Since(t0).Seconds(), ok))
			if !ok {
				break
			}
			rep.completed = level
			rep.lastTasks = next
			if e.unknownViolation() {
				rep.stoppedOnV = true
				anyUnknown = true
				break
			}
			tasks = next
		}
		if anyUnknown || e.abort.Load() || e.expired.Load() {
			break
		}
	}

	// Extra, explicitly NON-exhaustive phase (thorough only): with the time that is left,
	// a uniformly spread sample of the executions with maxBound+1 deviations.
	extra := map[string]any{"ran": false}
	allDone := len(reports) == len(scenarios)
	for _, rep := range reports {
		if rep.completed != maxBound || rep.stoppedOnV {
			allDone = false
		}
	}
	if extraLevel && allDone && !r.HasEngineError() && !r.Expired() {
		rep := reports[0]
		tasks := rep.lastTasks
		before := rep.e.schedules.Load()
		t0 := time.Now()
		_, _ = rep.e.runLevel(t, maxBound+1, tasks, false, true)
		extra = map[string]any{
			"ran": true, "scenario": rep.cfg, "deviations": maxBound + 1,
			"schedules_at_this_level": len(tasks), "schedules_run": rep.e.schedules.Load() - before,
			"order":      "pseudo-random permutation of the level (affine map with a stride coprime to its size), cut by the time budget",
			"wall_s":     time.Since(t0).Seconds(),
			"exhaustive": int(rep.e.schedules.Load()-before) == len(tasks) && !r.Expired() && !rep.e.abort.Load(),
		}
	}
	for i := 1; i < len(reports); i++ {
		reports[i].lastTasks = nil
	}

	cov := ev.Coverage{}
	var states, transitions, schedules, confirms, horizonHits, quiescent, violating, finals int64
	completed := maxBound
	exhaustive := len(reports) == len(scenarios)
	var perScenario []any
	var samples []map[string]any
	viols := map[string]any{}
	outcomes := map[string]int64{}
	for _, rep := range reports {
		e := rep.e
		e.mu.Lock()
		states += int64(e.states.size())
		transitions += e.transitions.Load()
		schedules += e.schedules.Load()
		confirms += e.confirmRuns.Load()
		horizonHits += e.horizonHits.Load()
		quiescent += e.quiescentRuns.Load()
		violating += e.violatingRuns.Load()
		finals += int64(len(e.finals))
		if rep.completed < completed {
			completed = rep.completed
		}
		if rep.completed != maxBound || e.abort.Load() || rep.stoppedOnV {
			exhaustive = false
		}
		for sig, fv := range e.viols {
			if _, ok := viols[sig]; !ok {
				viols[sig] = map[string]any{"executions": fv.count, "first_choices": choicesInts(fv.choices), "first_at_deviations": fv.level, "scenario": rep.cfg}
			}
		}
		for k, v := range e.outcomes {
			outcomes[k] += v
		}
		perLevel := []any{}
		for i, m := range e.perLevel {
			perLevel = append(perLevel, map[string]any{"deviations": i, "outcomes": sortedCounts(m)})
		}
		perScenario = append(perScenario, map[string]any{
			"scenario": rep.cfg, "deviation_bound_completed": rep.completed, "levels": rep.levels,
			"states": e.states.size(), "schedules": e.schedules.Load(), "transitions": e.transitions.Load(),
			"horizon_hit": e.horizonHits.Load(), "max_parked_calls": e.maxPending.Load(),
			"distinct_final_outcomes": len(e.finals), "outcomes_per_deviation_level": perLevel,
			"stopped_after_violation": rep.stoppedOnV,
		})
		if len(samples) < 8 {
			samples = append(samples, e.samples...)
		}
		e.mu.Unlock()
	}
	if r.Expired() && completed < maxBound {
		exhaustive = false
	}
	cov["states"] = states
	cov["states_are"] = "distinct canonical harness states per scenario (parked calls with cancellation/epoch flags, pipelines row, log count, acknowledged id, reset epoch, command in flight, last command result)"
	cov["transitions"] = transitions
	cov["schedules"] = schedules
	cov["traces_validated_against_impl"] = schedules + confirms
	cov["confirmation_replays"] = confirms
	cov["deviation_bound_requested"] = maxBound
	cov["deviation_bound_completed"] = completed
	cov["horizon"] = horizon
	cov["horizon_hit"] = horizonHits
	cov["quiescent_executions"] = quiescent
	cov["violating_executions"] = violating
	cov["violation_classes"] = viols
	cov["outcomes"] = sortedCounts(outcomes)
	cov["distinct_final_outcomes"] = finals
	cov["scenarios"] = perScenario
	cov["scenarios_planned"] = len(scenarios)
	cov["sampled_extra_level"] = extra
	cov["workers"] = workers
	cov["samples"] = samples
	cov["exhaustive"] = exhaustive
	cov["time_budget_hit"] = r.Expired()
	if quiescent == 0 && len(viols) == 0 && !r.HasEngineError() {
		r.EngineError("vacuous: no execution reached the quiescent state where liveness is judged")
	}
	exitCode = r.Finish(cov, []string{
		"environment = in-memory Storage / LogFetcher / Driver fakes whose every call parks on a gate; the real Manager, PipelineHandler and DriverFacade run unmodified except that manager.go is compiled with sync.Mutex replaced by a FIFO channel mutex (go -overlay, regenerated from the current file on every run)",
		"one ledger, one exporter, one pre-existing enabled pipeline; page size 2; quick: 3 logs + <=1 appended; thorough: 3 logs + <=2 appended and 4 logs + <=1 appended",
		"the fake ListLogs evaluates the query it receives (filter tree, order, page size) instead of assuming `id > last`",
		"an injected error on StorePipelineState / UpdatePipeline / ListLogs / Accept / Driver.Start means the call had no effect; 'took effect but reported an error' is not modelled; GetPipeline, OpenLedger, ListEnabledPipelines and Driver.Stop never fail",
		"external commands (StartPipeline, StopPipeline, ResetPipeline, manager restart) are issued one at a time: a new command waits for the previous one to return",
		"Stop/Reset/Restart are not issued in two kinds of state where the request would race with a pipeline `select { <-stopChannel; <-time.After(0) }` having both cases ready (pipeline blocked publishing its position with more logs to fetch; manager in the middle of a synchronisation that starts the pipeline); the same commands are issued in the neighbouring states",
		"time: pull/retry period 1000s, sync period 100000s, driver start retry 2s (hard-coded in manager.go); 'advance time' fires the earliest pending timer class, so a sync tick is only explored when no pull/retry timer is pending",
		"epoch rule: acknowledgements are counted since the last successful reset (UpdatePipeline clearing last_log_id, or ResetPipeline returning nil); Accept calls that reached the exporter before the reset do not count",
		"executions cut by the horizon say nothing about liveness (counted in horizon_hit)",
		"explored: all choice sequences with at most deviation_bound_completed non-default choices (default = release the oldest parked call with OK, else advance time); not a proof for longer deviation sequences, several pipelines/exporters, or the DeletePipeline/UpdateExporter/CreatePipeline paths",
	})
}

func replayFile(t *testing.T, path string) int {
	b, err := os.ReadFile(path)
	if err != nil {
		fmt.Println("ENGINE-ERROR property=C33 cannot read replay: " + err.Error())
		return 2
	}
	var f struct {
		Signature string `json:"signature"`
		Replay    struct {
			Config  config `json:"config"`
			Choices []int  `json:"choices"`
		} `json:"replay"`
	}
	if err := json.Unmarshal(b, &f); err != nil {
		fmt.Println("ENGINE-ERROR property=C33 cannot parse replay: " + err.Error())
		return 2
	}
	ch := make([]uint8, len(f.Replay.Choices))
	for i, c := range f.Replay.Choices {
		ch[i] = uint8(c)
	}
	traceLogs = os.Getenv("VERIF_K5_TRACELOGS") != ""
	dumpStacksOnPanic = true
	x := runOne(t, f.Replay.Config, ch, nil, true)
	for _, l := range x.trace {
		fmt.Println(l)
	}
	switch {
	case x.engErr != "":
		fmt.Println("ENGINE-ERROR property=C33 replay: " + x.engErr)
		return 2
	case x.viol != nil:
		fmt.Printf("VIOLATION property=C33 replay=%s\n  signature=%s\n  %s\n", path, x.viol.sig, x.viol.what)
		if f.Signature != "" && f.Signature != x.viol.sig {
			fmt.Println("  (recorded signature was " + f.Signature + ")")
		}
		return 1
	}
	fmt.Printf("OK property=C33 replay reproduced no violation (outcome %s, %s)\n", x.outcome(), x.final)
	return 0
}
