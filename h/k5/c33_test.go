package k5

import (
	"encoding/json"
	"fmt"
	"os"
	"path/filepath"
	"runtime"
	"strconv"
	"testing"
	"time"

	"github.com/formancehq/ledger/verifh/ev"
)

// exitCode is set by TestC33; TestMain exits with it so that ev's protocol (0 held,
// 1 VIOLATION, 2 ENGINE-ERROR) survives the testing framework.
var exitCode = -1

func TestMain(m *testing.M) {
	rc := m.Run()
	if exitCode >= 0 {
		os.Exit(exitCode)
	}
	if rc != 0 {
		fmt.Println("ENGINE-ERROR property=C33 test framework failure")
		os.Exit(2)
	}
	os.Exit(0)
}

func envInt(name string, def int) int {
	if v, err := strconv.Atoi(os.Getenv(name)); err == nil {
		return v
	}
	return def
}

func knownSignatures() map[string]bool {
	out := map[string]bool{}
	var kf struct {
		Findings []struct {
			Property  string `json:"property"`
			Signature string `json:"signature"`
		} `json:"findings"`
	}
	if b, err := os.ReadFile(filepath.Join(ev.Root(), "known_findings.json")); err == nil && json.Unmarshal(b, &kf) == nil {
		for _, f := range kf.Findings {
			if f.Property == "C33" {
				out[f.Signature] = true
			}
		}
	}
	return out
}

type scenarioReport struct {
	e          *explorer
	cfg        config
	completed  int
	levels     []string
	lastTasks  []task // children of the last completed level (for the sampled extra level)
	stoppedOnV bool
}

func TestC33(t *testing.T) {
	if os.Getenv("VERIF_TIER") == "" && os.Getenv("VERIF_K5_REPLAY") == "" {
		t.Skip("run through /verif/h/k5/run.sh (needs the -overlay build and VERIF_TIER)")
	}
	if p := os.Getenv("VERIF_K5_REPLAY"); p != "" {
		exitCode = replayFile(t, p)
		return
	}
	r := ev.Start("C33", ev.LevelMC, 75*time.Second, 11*time.Minute)
	horizon := envInt("VERIF_K5_HORIZON", 40)
	// Two kinds of exporter stack (simplest first):
	//   unbatched: Manager -> DriverFacade -> recording exporter (a page = one Accept call)
	//   batched:   Manager -> DriverFacade -> the real drivers.Batcher -> recording exporter;
	//              a page is cut in sub-batches (by batching.maxItems, and in the flush-timer
	//              scenario also by the flush interval), each parked / acknowledged / failed
	//              on its own.
	// quick: one scenario of each kind; thorough: the unbatched one with one more appended
	// log, a ledger whose log count is a multiple of the page size (last page full,
	// HasMore=false), the batched one, and a batched one whose pages (3 logs) are cut by
	// maxItems=2 AND by the flush timer.
	// The scenarios are explored depth-major (every scenario at deviation level n before any
	// at level n+1): a run cut by its time budget loses depth, never a scenario.
	scenarios := []config{
		{InitLogs: 3, MaxAppends: 1, PageSize: 2, Horizon: horizon},
		{InitLogs: 3, MaxAppends: 1, PageSize: 2, Horizon: horizon, Batching: &batchSpec{MaxItems: 1}},
	}
	if r.Thorough() {
		scenarios = []config{
			{InitLogs: 3, MaxAppends: 2, PageSize: 2, Horizon: horizon},
			{InitLogs: 4, MaxAppends: 1, PageSize: 2, Horizon: horizon},
			{InitLogs: 3, MaxAppends: 1, PageSize: 2, Horizon: horizon, Batching: &batchSpec{MaxItems: 1}},
			{InitLogs: 3, MaxAppends: 1, PageSize: 3, Horizon: horizon, Batching: &batchSpec{MaxItems: 2, FlushTimer: true}},
		}
	}
	if v := os.Getenv("VERIF_K5_LOGS"); v != "" {
		one := config{InitLogs: envInt("VERIF_K5_LOGS", 3), MaxAppends: envInt("VERIF_K5_APPENDS", 1), PageSize: uint64(envInt("VERIF_K5_PAGE", 2)), Horizon: horizon}
		if mi := envInt("VERIF_K5_MAXITEMS", 0); mi > 0 {
			one.Batching = &batchSpec{MaxItems: mi, FlushTimer: os.Getenv("VERIF_K5_FLUSH") != ""}
		}
		scenarios = []config{one}
	}
	maxBound := envInt("VERIF_K5_BOUND", 3)
	extraLevel := r.Thorough() && os.Getenv("VERIF_K5_NOEXTRA") == ""
	workers := runtime.GOMAXPROCS(0)
	if workers > 16 {
		workers = 16
	}
	workers = envInt("VERIF_K5_WORKERS", workers)
	known := knownSignatures()

	// watchdog: a goroutine of the code under test that blocks on something synctest does
	// not consider durable (a real sync.Mutex, I/O) would hang synctest.Wait for ever.
	stopDog := make(chan struct{})
	defer close(stopDog)
	go func() {
		// counts its own 2s ticks instead of comparing clock readings: a paused / resumed VM
		// or a starved machine must not look like a hang
		last, idleTicks := int64(-1), 0
		for {
			select {
			case <-stopDog:
				return
			case <-time.After(2 * time.Second):
			}
			if p := progressCounter.Load(); p != last {
				last, idleTicks = p, 0
				continue
			}
			idleTicks++
			if idleTicks >= 150 {
				buf := make([]byte, 64<<20)
				buf = buf[:runtime.Stack(buf, true)]
				_ = os.WriteFile(filepath.Join(ev.Root(), "h", "bin", "k5-hang-stacks.txt"), buf, 0o644)
				fmt.Println("ENGINE-ERROR property=C33 no execution finished during 150 consecutive 2s watchdog ticks: a goroutine of the code under test is blocked on something testing/synctest does not see as durable (new sync.Mutex/Cond outside internal/replication?); teach k5/genoverlay.py (goroutine dump: h/bin/k5-hang-stacks.txt)")
				os.Exit(2)
			}
		}
	}()

	// The real-storage family first (see real_test.go): its histories are short and cheap, and
	// it must be reached whatever the machine load does to the gated scenarios below, which use
	// whatever time is left. Lengths up to realMinDepth are mandatory (only the budget of the
	// whole run cuts them); the longer ones stop when the family's share of the budget is used.
	var realRuns []*realExplorer
	realDepth := envInt("VERIF_K5_REAL_DEPTH", ev.Pick(r, 5, 6))
	realStopped := false
	if os.Getenv("VERIF_K5_NOREAL") == "" && os.Getenv("VERIF_K5_LOGS") == "" {
		// quick: without the "exporter refuses a batch" operation (exporter errors are what the
		// gated scenarios below explore in depth)
		realCfgs := []realCfg{{Family: "real-storage", Deployment: "embedded", PageSize: 2, MaxWritesA: 3, MaxWritesB: 3, XFail: r.Thorough()}}
		// The manager in its own process (`ledger worker`, what `ledger serve` expects unless it
		// is given --worker): explored on every run (VERIF_K5_SPLIT=0 disables it). It showed a
		// genuine defect (the worker's long-lived store kept a stale "alone in its bucket" hint and
		// exported the neighbour's logs), repaired in /repo (known_findings.json, fixed: C33).
		if sp := os.Getenv("VERIF_K5_SPLIT"); sp != "0" {
			realCfgs = append(realCfgs, realCfg{Family: "real-storage", Deployment: "split", PageSize: 2, MaxWritesA: 3, MaxWritesB: 3, XFail: r.Thorough()})
		}
		share := r.Budget() * 3 / 10
		famStart := time.Now()
		for i, rc := range realCfgs {
			base, err := buildRealBase(rc)
			if err != nil {
				r.EngineError("real-storage family: building the base database on pgsim: " + err.Error())
				break
			}
			e := &realExplorer{r: r, cfg: rc, base: base, workers: workers, known: known,
				deadline: famStart.Add(share * time.Duration(3+i) / time.Duration(2+len(realCfgs))), minDepth: realMinDepth,
				outcomes: map[string]int64{}, viols: map[string]*realFound{}}
			realRuns = append(realRuns, e)
			e.explore(t, realDepth)
			if e.unknownViolation() || e.abort.Load() {
				realStopped = true
				break
			}
		}
	}
	if os.Getenv("VERIF_K5_REAL_ONLY") != "" {
		realStopped = true
	}

	var reports []*scenarioReport
	frontier := make([][]task, len(scenarios))
	for si, cfg := range scenarios {
		reports = append(reports, &scenarioReport{e: newExplorer(r, cfg, workers, known), cfg: cfg, completed: -1})
		frontier[si] = []task{{}}
	}
depthMajor:
	for level := 0; level <= maxBound && !realStopped; level++ {
		for si, rep := range reports {
			e := rep.e
			tasks := frontier[si]
			if len(tasks) == 0 {
				if rep.completed == level-1 {
					rep.completed = level // no execution has that many choice points left
				}
				continue
			}
			t0 := time.Now()
			n := len(tasks)
			next, ok := e.runLevel(t, level, tasks, level < maxBound || (extraLevel && si == 0), false)
			rep.levels = append(rep.levels, fmt.Sprintf("deviations=%d: %d schedules in %.1fs (completed=%v)", level, n, time.Since(t0).Seconds(), ok))
			if !ok {
				break depthMajor
			}
			rep.completed = level
			rep.lastTasks = next
			if e.unknownViolation() {
				rep.stoppedOnV = true
				break depthMajor
			}
			frontier[si] = next
		}
	}
	frontier = nil

	// Extra, explicitly NON-exhaustive phase (thorough only): with the time that is left,
	// a uniformly spread sample of the executions with maxBound+1 deviations.
	extra := map[string]any{"ran": false}
	allDone := true
	for _, rep := range reports {
		if rep.completed != maxBound || rep.stoppedOnV {
			allDone = false
		}
	}
	if extraLevel && allDone && !r.HasEngineError() && !r.Expired() {
		rep := reports[0]
		tasks := rep.lastTasks
		before := rep.e.schedules.Load()
		t0 := time.Now()
		_, _ = rep.e.runLevel(t, maxBound+1, tasks, false, true)
		extra = map[string]any{
			"ran": true, "scenario": rep.cfg, "deviations": maxBound + 1,
			"schedules_at_this_level": len(tasks), "schedules_run": rep.e.schedules.Load() - before,
			"order":      "pseudo-random permutation of the level (affine map with a stride coprime to its size), cut by the time budget",
			"wall_s":     time.Since(t0).Seconds(),
			"exhaustive": int(rep.e.schedules.Load()-before) == len(tasks) && !r.Expired() && !rep.e.abort.Load(),
		}
	}
	for i := 1; i < len(reports); i++ {
		reports[i].lastTasks = nil
	}

	cov := ev.Coverage{}
	var states, transitions, schedules, confirms, horizonHits, quiescent, violating, finals int64
	completed := maxBound
	exhaustive := true
	var perScenario []any
	batchedScenarios := 0
	var samples []map[string]any
	viols := map[string]any{}
	outcomes := map[string]int64{}
	for _, rep := range reports {
		e := rep.e
		e.mu.Lock()
		states += int64(e.states.size())
		transitions += e.transitions.Load()
		schedules += e.schedules.Load()
		confirms += e.confirmRuns.Load()
		horizonHits += e.horizonHits.Load()
		quiescent += e.quiescentRuns.Load()
		violating += e.violatingRuns.Load()
		finals += int64(len(e.finals))
		if rep.completed < completed {
			completed = rep.completed
		}
		if rep.completed != maxBound || e.abort.Load() || rep.stoppedOnV {
			exhaustive = false
		}
		for sig, fv := range e.viols {
			if _, ok := viols[sig]; !ok {
				viols[sig] = map[string]any{"executions": fv.count, "first_choices": choicesInts(fv.choices), "first_at_deviations": fv.level, "scenario": rep.cfg}
			}
		}
		for k, v := range e.outcomes {
			outcomes[k] += v
		}
		perLevel := []any{}
		for i, m := range e.perLevel {
			perLevel = append(perLevel, map[string]any{"deviations": i, "outcomes": sortedCounts(m)})
		}
		perScenario = append(perScenario, map[string]any{
			"scenario": rep.cfg, "deviation_bound_completed": rep.completed, "levels": rep.levels,
			"states": e.states.size(), "schedules": e.schedules.Load(), "transitions": e.transitions.Load(),
			"horizon_hit": e.horizonHits.Load(), "max_parked_calls": e.maxPending.Load(),
			"distinct_final_outcomes": len(e.finals), "outcomes_per_deviation_level": perLevel,
			"stopped_after_violation": rep.stoppedOnV,
			"exporter_stack":          stackName(rep.cfg),
			"batching_layer":          batchingCoverage(rep),
		})
		if rep.cfg.Batching != nil {
			batchedScenarios++
			// vacuity guards of the batching dimension: once every single deviation has been
			// tried, a page must have been cut in several sub-batches, and the exporter must
			// have failed one sub-batch and acknowledged a later one of the same page
			if rep.completed >= 0 && !rep.stoppedOnV && e.execsSplit.Load() == 0 {
				r.EngineError(fmt.Sprintf("vacuous: batched scenario %s: no page ever reached the exporter as more than one sub-batch (the batching layer is not in the explored stack?)", stackName(rep.cfg)))
			}
			if rep.completed >= 1 && !rep.stoppedOnV && e.execsPartial.Load() == 0 {
				r.EngineError(fmt.Sprintf("vacuous: batched scenario %s: no execution had a sub-batch failed by the exporter and a later sub-batch of the same page acknowledged", stackName(rep.cfg)))
			}
		}
		if n := e.panics.Load(); n > 0 {
			r.Note(fmt.Sprintf("scenario %s: %d executions ended because a goroutine of the code under test PANICKED (in production: process crash; not a C33 violation in itself, the persisted position is judged up to the crash): %s | first at deviations=%d choices=%v",
				stackName(rep.cfg), n, e.panicWhat, e.panicLevel, choicesInts(e.panicChoices)))
		}
		if len(samples) < 8 {
			samples = append(samples, e.samples...)
		}
		e.mu.Unlock()
	}
	if r.Expired() && completed < maxBound {
		exhaustive = false
	}
	cov["states"] = states
	cov["states_are"] = "distinct canonical harness states per scenario (parked calls with cancellation/epoch flags, pipelines row, log count, acknowledged prefix, reset epoch, command in flight, last command result; batched scenarios also: ids acknowledged beyond the prefix, prefix handed to the exporter, pages handed over / answered ok by the batching layer)"
	cov["transitions"] = transitions
	cov["schedules"] = schedules
	cov["traces_validated_against_impl"] = schedules + confirms
	cov["confirmation_replays"] = confirms
	cov["deviation_bound_requested"] = maxBound
	cov["deviation_bound_completed"] = completed
	cov["horizon"] = horizon
	cov["horizon_hit"] = horizonHits
	cov["quiescent_executions"] = quiescent
	cov["violating_executions"] = violating
	cov["violation_classes"] = viols
	cov["outcomes"] = sortedCounts(outcomes)
	cov["distinct_final_outcomes"] = finals
	cov["scenarios"] = perScenario
	cov["scenarios_planned"] = len(scenarios)
	cov["batched_scenarios"] = batchedScenarios
	cov["exploration_order"] = "depth-major: every scenario at deviation level n before any scenario at level n+1"
	cov["rule"] = "every choice sequence with <= deviation_bound_completed non-default choices, per scenario; choices = release any parked environment call with OK or (StorePipelineState, UpdatePipeline, ListLogs, Driver.Start, Driver.Accept) with an error, advance time to the next timer class, issue Start/Stop/Reset/RestartManager, append a log. In the batched scenarios Driver.Accept is one SUB-BATCH cut by the real drivers.Batcher, so the sub-batches of one page are acknowledged / failed independently. Oracles: (1) persisted last_log_id <= acked, acked = every log 1..acked acknowledged by the exporter since the last reset; (2) every page the pipeline hands over (= batch, unbatched) starts <= acked+1, has consecutive existing ids; batched: every sub-batch reaching the exporter has strictly increasing existing ids; (4) started + idle + healthy exporter => acked = number of logs. REAL-STORAGE FAMILY (real_storage_family, run first): the same real Manager / PipelineHandler / DriverFacade over replication.NewStorageAdapter on the real storage driver + system store on pgsim, no gate, no injected storage error; every history (sequence of operations, each run until the whole bubble is durably blocked) of <= history_length_completed operations over the alphabet {create the pipeline on A, let one pull/retry timer elapse, write on A, create B in A's bucket, write on B, stop, start, reset, restart the process hosting the manager (new storage driver / store factory / sql pool on the same database), thorough only: the exporter refuses its next batch}, shortest first, B created before or after the pipeline; after its last operation every history is settled (pipeline started if it is not, exporter healthy, pull timer elapsing until two consecutive pulls export nothing). Oracles on what the recording exporter of A received: (5) every log is a log of A: label A, and its payload is the transaction the write that got this log id on A committed (each transaction carries ledger#rank in its metadata), nothing written on B; (2) every batch has consecutive ids and starts <= acked+1; (1) after every operation the persisted last_log_id (read back through the real system store) <= acked, acked counted since the last ResetPipeline call; (4) once settled, acked = number of logs of A"
	cov["sampled_extra_level"] = extra
	var realCov []any
	var realHistories int64
	for _, e := range realRuns {
		realCov = append(realCov, e.coverage(realDepth))
		realHistories += e.executions.Load() + e.confirmRuns.Load()
		if (e.depthCompleted < realDepth && !(e.stoppedOnV && !e.unknownViolation())) || e.abort.Load() {
			exhaustive = false
		}
		for sig, fv := range e.viols {
			if _, ok := viols[sig]; !ok {
				viols[sig] = map[string]any{"executions": fv.count, "first_history": ropsStrings(fv.ops), "first_at_length": fv.level, "scenario": e.cfg}
			}
		}
		if n := e.notReady.Load(); n > 0 {
			r.Note(fmt.Sprintf("%s: %d batches were refused because the exporter was not ready yet although every fetch waits for the bubble to settle first (real_test.go obsStorage.OpenLedger): histories are not deterministic", e.cfg.name(), n))
		}
		// vacuity guards of the family: once every history of realMinDepth operations has been
		// run, the pipeline on A must have polled while B, created after the pipeline, held a log
		// beyond A's exported prefix (the situation in which a fetch that forgets its ledger
		// predicate shows), and histories must have reached the quiescent verdict
		if e.stoppedOnV {
			// nothing to guard: the scenario ended on a (known or new) violation
		} else if e.depthCompleted >= realMinDepth {
			if e.execsForeignAhead.Load() == 0 || e.execsBAfterPipe.Load() == 0 {
				r.EngineError("vacuous: " + e.cfg.name() + ": no history had the pipeline of A fetch while ledger B, created after the pipeline, held a log beyond A's exported prefix")
			}
			if e.quiescentRuns.Load() == 0 {
				r.EngineError("vacuous: " + e.cfg.name() + ": no history reached the quiescent state where liveness is judged")
			}
		} else if !e.abort.Load() {
			r.Note(fmt.Sprintf("%s: only the histories of length <= %d were completed within the time budget (length %d is needed for the second ledger to be created after the pipeline and to get ahead of it)", e.cfg.name(), e.depthCompleted, realMinDepth))
		}
	}
	cov["real_storage_family"] = realCov
	cov["real_storage_histories"] = realHistories
	cov["traces_validated_against_impl"] = schedules + confirms + realHistories
	cov["workers"] = workers
	cov["samples"] = samples
	cov["exhaustive"] = exhaustive
	cov["time_budget_hit"] = r.Expired()
	if batchedScenarios == 0 && os.Getenv("VERIF_K5_LOGS") == "" {
		r.EngineError("vacuous: no scenario with the batching layer in the explored stack")
	}
	if quiescent == 0 && len(viols) == 0 && !r.HasEngineError() && !realStopped {
		r.EngineError("vacuous: no execution reached the quiescent state where liveness is judged")
	}
	exitCode = r.Finish(cov, []string{
		"gated scenarios: environment = in-memory Storage / LogFetcher / Driver fakes whose every call parks on a gate; the real Manager, PipelineHandler, DriverFacade and (batched scenarios) drivers.DriverFactoryWithBatching / drivers.Batcher / go.vallahaye.net/batcher run unmodified except that manager.go and drivers/batcher.go are compiled with sync.Mutex replaced by a FIFO channel mutex (go -overlay, regenerated from the current files on every run)",
		"gated scenarios: one ledger, one exporter, one pre-existing enabled pipeline. Unbatched scenarios: page size 2; quick: 3 logs + <=1 appended; thorough: 3 logs + <=2 appended and 4 logs + <=1 appended. Batched scenarios: 3 logs + <=1 appended; page size 2 with batching.maxItems=1 and no flush timer (quick and thorough); page size 3 with batching.maxItems=2 and a 150s flush interval (thorough): the last sub-batch of a page waits for the flush timer",
		"batched scenarios: a non-gated observer between the DriverFacade and the Batcher records the pages the pipeline hands over and what the batching layer answers; it recovers a panic of the export goroutine (in production the process would die): such an execution ends there with outcome code-under-test-panicked, reported under observations, not as a C33 violation",
		"batched scenarios, below the batching layer: a sub-batch may follow a failed one (the Batcher cuts and sends sub-batches regardless of the fate of the previous one; the pipeline then retries the whole page), so the exporter may acknowledge logs 3..4 before 1..2 are acknowledged by the retry; this transient is allowed (at-least-once delivery, the retry re-exports the page in order), what is demanded is that the pipeline position (next page, persisted id) never passes a log the exporter has not acknowledged",
		"batched scenarios: Stop/Reset/Restart are not issued while the live pipeline is parked in ListLogs: the queued stop would cancel the export context while the export goroutine is still pushing the logs of the page one by one into the batcher (`select { b.in <- op; <-ctx.Done() }`), a scheduling race plus a runtime coin flip per log deciding which logs of the abandoned page still reach the exporter (possibly not a prefix of the page); the pipeline is stopping and cannot move its position, these outcomes are NOT explored; the same commands are issued before the fetch and while a sub-batch is at the exporter",
		"the fake ListLogs evaluates the query it receives (filter tree, order, page size) instead of assuming `id > last`",
		"an injected error on StorePipelineState / UpdatePipeline / ListLogs / Accept / Driver.Start means the call had no effect; 'took effect but reported an error' is not modelled; GetPipeline, OpenLedger, ListEnabledPipelines and Driver.Stop never fail",
		"external commands (StartPipeline, StopPipeline, ResetPipeline, manager restart) are issued one at a time: a new command waits for the previous one to return",
		"Stop/Reset/Restart are not issued in two kinds of state where the request would race with a pipeline `select { <-stopChannel; <-time.After(0) }` having both cases ready (pipeline blocked publishing its position with more logs to fetch; manager in the middle of a synchronisation that starts the pipeline); the same commands are issued in the neighbouring states",
		"time: driver start retry 2s (hard-coded in manager.go), batching flush interval 150s (flush-timer scenario only), pull/retry period 10000s, sync period 1000000s; 'advance time' fires the earliest pending timer class, so a sync tick is only explored when no pull/retry timer is pending",
		"epoch rule: acknowledgements are counted since the last successful reset (UpdatePipeline clearing last_log_id, or ResetPipeline returning nil); Accept calls that reached the exporter before the reset do not count",
		"executions cut by the horizon say nothing about liveness (counted in horizon_hit)",
		"real-storage family: two ledgers (orders = A, payments = B) in one bucket, one exporter, one pipeline (on A) created by the history itself through Manager.CreatePipeline; page size 2, at most 3 writes per ledger, every write one transaction = one log; pull interval = push retry period = 10000s (+ the code's random jitter < period/2): 'let the timer elapse' advances virtual time by half periods until the pipeline has pulled or retried, so exactly one timer fires whatever the jitter; the manager's synchronisation period (1000000s) never elapses within a history",
		"real-storage family: operations are atomic (an operation ends when every goroutine of the bubble is durably blocked): the interleavings INSIDE a storage call or between a write and a concurrent pull are not explored here (the gated scenarios explore the interleavings of the replication layer, over fake storage); the batching layer is not in this family's stack; Postgres is pgsim in its sequential mode (a statement that would wait for a lock is an ENGINE-ERROR, as is any error returned by a storage call or logged with a pgsim: prefix, since no fault is injected)",
		"real-storage family: an idle pull (timer elapsing when nothing was written or created since the previous pull) is not enumerated inside a history (quick tier and thorough histories without a refused batch); the settle phase lets at least two happen at the end of every history, prefixes included. Histories in which no pipeline is created are not run on their own",
		"real-storage family, deployment: 'embedded' = manager and API share ONE storage driver / ledger store factory (ledger serve --worker), explored on every run; 'restart' replaces that shared driver (process restart). 'split' = the manager has its own driver over the same database (ledger worker next to ledger serve, the default of ledger serve): explored on every run as well (VERIF_K5_SPLIT=0 disables it); its violation classes carry the suffix @split",
		"explored: all choice sequences with at most deviation_bound_completed non-default choices (default = release the oldest parked call with OK, else advance time); not a proof for longer deviation sequences, several pipelines/exporters, or the DeletePipeline/UpdateExporter/CreatePipeline paths",
	})
}

func stackName(c config) string {
	if c.Batching == nil {
		return fmt.Sprintf("unbatched(logs=%d+%d,page=%d)", c.InitLogs, c.MaxAppends, c.PageSize)
	}
	f := "none"
	if c.Batching.FlushTimer {
		f = periodFlush.String()
	}
	return fmt.Sprintf("batched(logs=%d+%d,page=%d,maxItems=%d,flush=%s)", c.InitLogs, c.MaxAppends, c.PageSize, c.Batching.MaxItems, f)
}

func batchingCoverage(rep *scenarioReport) any {
	if rep.cfg.Batching == nil {
		return "not in the stack"
	}
	e := rep.e
	return map[string]any{
		"config":                            rep.cfg.Batching,
		"pages_handed_over_by_the_pipeline": e.pagesTotal.Load(),
		"executions_with_a_page_cut_in_several_sub_batches":                       e.execsSplit.Load(),
		"executions_with_a_failed_sub_batch_then_an_acknowledged_one_in_one_page": e.execsPartial.Load(),
		"executions_where_the_batching_layer_answered_success_for_such_a_page":    e.execsSwallowed.Load(),
		"executions_ended_by_a_panic_of_the_code_under_test":                      e.panics.Load(),
	}
}

func replayFile(t *testing.T, path string) int {
	b, err := os.ReadFile(path)
	if err != nil {
		fmt.Println("ENGINE-ERROR property=C33 cannot read replay: " + err.Error())
		return 2
	}
	var f struct {
		Signature string `json:"signature"`
		Replay    struct {
			Config  config `json:"config"`
			Choices []int  `json:"choices"`
			// real-storage family (real_test.go)
			RealConfig *realCfg `json:"real_config"`
			History    []string `json:"history"`
		} `json:"replay"`
	}
	if err := json.Unmarshal(b, &f); err != nil {
		fmt.Println("ENGINE-ERROR property=C33 cannot parse replay: " + err.Error())
		return 2
	}
	if f.Replay.RealConfig != nil {
		return replayReal(t, *f.Replay.RealConfig, f.Replay.History)
	}
	ch := make([]uint8, len(f.Replay.Choices))
	for i, c := range f.Replay.Choices {
		ch[i] = uint8(c)
	}
	traceLogs = os.Getenv("VERIF_K5_TRACELOGS") != ""
	dumpStacksOnPanic = true
	x := runOne(t, f.Replay.Config, ch, nil, true)
	for _, l := range x.trace {
		fmt.Println(l)
	}
	switch {
	case x.engErr != "":
		fmt.Println("ENGINE-ERROR property=C33 replay: " + x.engErr)
		return 2
	case x.viol != nil:
		fmt.Printf("VIOLATION property=C33 replay=%s\n  signature=%s\n  %s\n", path, x.viol.sig, x.viol.what)
		if f.Signature != "" && f.Signature != x.viol.sig {
			fmt.Println("  (recorded signature was " + f.Signature + ")")
		}
		return 1
	}
	fmt.Printf("OK property=C33 replay reproduced no violation (outcome %s, %s)\n", x.outcome(), x.final)
	return 0
}
