package k5

import (
	"context"
	"encoding/json"
	"errors"
	"fmt"
	"io"
	"sort"
	"strings"
	"sync"
	"sync/atomic"
	"time"

	logging "github.com/formancehq/go-libs/v5/pkg/observe/log"
	"github.com/formancehq/go-libs/v5/pkg/storage/bun/paginate"
	"github.com/formancehq/go-libs/v5/pkg/storage/postgres"

	ledger "github.com/formancehq/ledger/internal"
	"github.com/formancehq/ledger/internal/replication"
	"github.com/formancehq/ledger/internal/replication/drivers"
	"github.com/formancehq/ledger/internal/storage/common"
)

const (
	pipeID     = "pipe1"
	ledgerName = "ledger1"
	exporterID = "exp1"
)

// Timer classes. The code adds rand jitter in [0, period/2) to every period, so a sleep
// of 1.5*period+1ms started at or after the timer's creation always fires it. The
// classes are separated by a factor > 40 so that, within the 40-step horizon, the sleeps
// of the smaller classes can never accumulate to the period of a larger one: which timer
// fires in which sleep does not depend on the jitter values (DESIGN §7).
//
//	class 1: DriverFacade start retry, 2s, hard-coded in manager.go (initExporter)
//	class 2: flush interval of the batching layer (no jitter; only armed in a configuration
//	         with batching.flush_timer: a sub-batch that did not reach max_items waits for it)
//	class 3: pipeline pull interval and push retry period (one pipeline goroutine => at most one pending)
//	class 4: manager sync period
const (
	periodFlush    = 150 * time.Second
	periodPipeline = 10000 * time.Second
	periodSync     = 1000000 * time.Second
)

var sleepLevels = []time.Duration{
	3*time.Second + time.Millisecond,
	periodFlush + time.Millisecond,
	periodPipeline*3/2 + time.Millisecond,
	periodSync*3/2 + time.Millisecond,
}

type gkind int

const (
	kListEnabled gkind = iota
	kGetPipeline
	kOpenLedger
	kStore
	kUpdate
	kListLogs
	kDrvStart
	kDrvStop
	kAccept
	kOther
)

var kindNames = map[gkind]string{
	kListEnabled: "ListEnabledPipelines", kGetPipeline: "GetPipeline", kOpenLedger: "OpenLedger",
	kStore: "StorePipelineState", kUpdate: "UpdatePipeline", kListLogs: "ListLogs",
	kDrvStart: "Driver.Start", kDrvStop: "Driver.Stop", kAccept: "Driver.Accept", kOther: "Storage.other",
}

func (k gkind) canFail() bool {
	switch k {
	case kStore, kUpdate, kListLogs, kDrvStart, kAccept:
		return true
	}
	return false
}

var (
	errInjected = errors.New("verif: injected environment error")
	errDrained  = errors.New("verif: execution is over")
)

type verdict struct {
	err   error
	drain bool
}

// gate is one parked call of the code under test into its environment.
type gate struct {
	kind gkind
	arg  string
	gen  int // manager generation the call came through (storage view / driver factory)
	inc  int // fetcher / driver incarnation
	ctx  context.Context
	ch   chan verdict

	seen      int // step at which the controller first saw it parked
	epoch     int // reset epoch at arrival
	arrivedAt int // release stamp at arrival
	batch     []uint64
	val       uint64
	q         common.PaginatedQuery[any]
	upd       map[string]any

	crossedReset bool // Store only: a reset cleared last_log_id between arrival and landing
}

func (g *gate) key() string {
	return fmt.Sprintf("%02d|%s|g%d|i%d", g.kind, g.arg, g.gen, g.inc)
}

func (g *gate) label() string {
	s := fmt.Sprintf("%s(%s)@m%d", kindNames[g.kind], g.arg, g.gen)
	if g.ctx != nil && g.ctx.Err() != nil {
		s += "[ctx-cancelled]"
	}
	return s
}

type cmdKind int

const (
	cNone cmdKind = iota
	cStart
	cStop
	cReset
	cRestart
)

var cmdNames = map[cmdKind]string{cStart: "StartPipeline", cStop: "StopPipeline", cReset: "ResetPipeline", cRestart: "RestartManager"}

type cmdState struct {
	kind           cmdKind
	done           bool
	err            error
	sawResetUpdate bool
}

type mgr struct {
	m          *replication.Manager
	gen        int
	stopCalled bool
}

type violationInfo struct {
	sig  string
	what string
}

type config struct {
	InitLogs   int    `json:"init_logs"`
	MaxAppends int    `json:"max_appends"`
	PageSize   uint64 `json:"page_size"`
	Horizon    int    `json:"horizon"`
	// Batching != nil puts the REAL batching layer (drivers.NewWithBatchingDriverFactory ->
	// drivers.Batcher -> go.vallahaye.net/batcher) between the DriverFacade and the gated
	// recording exporter, as cmd/ wires it in production: one page handed over by the
	// pipeline then reaches the exporter as several sub-batches, each of which is parked,
	// acknowledged or failed on its own.
	Batching *batchSpec `json:"batching,omitempty"`
	// replay files only (never set by the explorer): keep going after oracle (1) fired, to
	// show what the stale resume position leads to
	IgnorePersistOracle bool `json:"ignore_persist_oracle,omitempty"`
}

// batchSpec is the exporter's `batching` configuration block (drivers.Batching).
type batchSpec struct {
	MaxItems int `json:"max_items"`
	// 0: no flush timer (every sub-batch is cut by max_items). Otherwise the flush interval
	// is the timer class flushInterval (see sleepLevels).
	FlushTimer bool `json:"flush_timer,omitempty"`
}

func (b *batchSpec) rawConfig() json.RawMessage {
	if b == nil {
		return json.RawMessage(`{}`)
	}
	if b.FlushTimer {
		return json.RawMessage(fmt.Sprintf(`{"batching":{"maxItems":%d,"flushInterval":%q}}`, b.MaxItems, periodFlush.String()))
	}
	return json.RawMessage(fmt.Sprintf(`{"batching":{"maxItems":%d}}`, b.MaxItems))
}

// pageRec is one call of the pipeline into its exporter (PipelineHandler.Run ->
// DriverFacade.Accept), observed above the batching layer. Batched configurations only.
type pageRec struct {
	ids          []uint64
	epoch        int
	subs         int  // sub-batches of this page that reached the exporter
	failed       bool // one of them was failed by the exporter
	ackAfterFail bool // ... and a LATER sub-batch of the same page was acknowledged
}

// world is one execution's environment: fake storage + fake exporter + oracle state.
type world struct {
	cfg config

	mu       sync.Mutex // never held across a blocking operation
	drain    bool
	arrivals []*gate
	pending  []*gate
	stamp    int // number of releases so far

	// storage
	pipeline ledger.Pipeline
	logs     []ledger.Log

	// managers
	mgrs []*mgr
	cur  *mgr
	cmd  *cmdState

	fetchers, driversN int

	// oracle state
	epoch int
	// acked: every log 1..acked has been acknowledged by an Accept call that reached the
	// exporter in the current epoch (and acked+1 has not). Without the batching layer a
	// batch never starts after acked+1 (oracle 2), so this is also the highest acknowledged id.
	acked                uint64
	ackedIDs             map[uint64]bool
	lastStore            *gate
	lastResetUpdateStamp int
	nAppends             int
	lastCmd              string

	// select-tie avoidance (see choices())
	lastListInc     int
	lastListHasMore bool
	sendRisk        bool
	sendRiskInc     int

	// quiescence detection: idleProbe is the ListLogs call that a pull-timer firing out of
	// a completely idle world produced; lastEmptyList the last ListLogs answered with no log
	idleProbe        *gate
	lastEmptyList    *gate
	lastReleased     *gate
	advancedFromIdle bool

	// batched configurations: what happened above / below the batching layer
	batchers     []*drivers.Batcher
	inflight     map[int]*pageRec // driver incarnation -> page being exported
	pages        int              // pages handed over by the pipeline
	pagesOK      int              // ... for which the batching layer reported success
	splitPages   int              // pages that reached the exporter as >= 2 sub-batches
	partialPages int              // pages with a failed sub-batch AND a later acknowledged one
	swallowed    int              // partialPages for which the batching layer nevertheless reported success
	crash        string           // a goroutine of the code under test panicked (would kill the process)

	gatesTotal  int
	cmdsDone    int
	logEvents   atomic.Int64
	acceptCalls int
	acceptAcks  int

	viol    *violationInfo
	engErr  string
	tracing bool
	trace   []string
}

func newWorld(cfg config, tracing bool) *world {
	w := &world{cfg: cfg, tracing: tracing, ackedIDs: map[uint64]bool{}, inflight: map[int]*pageRec{}}
	w.pipeline = ledger.Pipeline{
		PipelineConfiguration: ledger.NewPipelineConfiguration(ledgerName, exporterID),
		ID:                    pipeID,
		Enabled:               true,
	}
	for i := 0; i < cfg.InitLogs; i++ {
		w.appendLogLocked()
	}
	return w
}

func (w *world) appendLogLocked() {
	id := uint64(len(w.logs) + 1)
	w.logs = append(w.logs, ledger.Log{Type: ledger.NewTransactionLogType, ID: &id})
}

func (w *world) tracef(format string, args ...any) {
	if w.tracing {
		w.trace = append(w.trace, fmt.Sprintf(format, args...))
	}
}

func (w *world) setEngErr(s string) {
	if w.engErr == "" {
		w.engErr = s
	}
}

func (w *world) setViolation(sig, what string) {
	if w.viol == nil {
		w.viol = &violationInfo{sig: sig, what: what}
	}
}

// park blocks the calling goroutine of the code under test on a channel receive until
// the controller releases the gate. This is the only way the fakes ever block.
func (w *world) park(g *gate) verdict {
	w.mu.Lock()
	if w.drain {
		w.mu.Unlock()
		return verdict{drain: true, err: errDrained}
	}
	g.ch = make(chan verdict, 1)
	g.epoch = w.epoch
	g.arrivedAt = w.stamp
	w.arrivals = append(w.arrivals, g)
	w.gatesTotal++
	w.mu.Unlock()
	return <-g.ch
}

func (w *world) pipelineCopy() *ledger.Pipeline {
	p := w.pipeline
	if w.pipeline.LastLogID != nil {
		v := *w.pipeline.LastLogID
		p.LastLogID = &v
	}
	return &p
}

func (w *world) newEpochLocked(why string) {
	w.epoch++
	w.acked, w.ackedIDs = 0, map[uint64]bool{}
	w.tracef("    oracle: reset epoch %d begins (%s): acknowledgements restart from 0", w.epoch, why)
}

// ---------------------------------------------------------------------------------------
// fake replication.Storage (one view per manager generation over the shared world)

type fakeStorage struct {
	w   *world
	gen int
}

var _ replication.Storage = (*fakeStorage)(nil)

func (s *fakeStorage) OpenLedger(ctx context.Context, name string) (replication.LogFetcher, *ledger.Ledger, error) {
	v := s.w.park(&gate{kind: kOpenLedger, arg: name, gen: s.gen, ctx: ctx})
	if v.err != nil {
		return nil, nil, v.err
	}
	if name != ledgerName {
		return nil, nil, postgres.ErrNotFound
	}
	s.w.mu.Lock()
	s.w.fetchers++
	inc := s.w.fetchers
	s.w.mu.Unlock()
	return &fakeFetcher{w: s.w, gen: s.gen, inc: inc}, &ledger.Ledger{Name: name}, nil
}

func (s *fakeStorage) StorePipelineState(ctx context.Context, id string, lastLogID uint64) error {
	g := &gate{kind: kStore, arg: fmt.Sprint(lastLogID), gen: s.gen, ctx: ctx, val: lastLogID}
	v := s.w.park(g)
	if v.err != nil {
		return v.err
	}
	w := s.w
	w.mu.Lock()
	defer w.mu.Unlock()
	if id != pipeID {
		return postgres.ErrNotFound
	}
	val := lastLogID
	w.pipeline.LastLogID = &val
	g.crossedReset = w.lastResetUpdateStamp > g.arrivedAt
	w.lastStore = g
	return nil
}

func (s *fakeStorage) UpdatePipeline(ctx context.Context, id string, o map[string]any) (*ledger.Pipeline, error) {
	keys := make([]string, 0, len(o))
	for k := range o {
		keys = append(keys, k)
	}
	sort.Strings(keys)
	parts := make([]string, 0, len(o))
	for _, k := range keys {
		parts = append(parts, fmt.Sprintf("%s=%v", k, o[k]))
	}
	g := &gate{kind: kUpdate, arg: strings.Join(parts, ","), gen: s.gen, ctx: ctx, upd: o}
	v := s.w.park(g)
	if v.err != nil {
		return nil, v.err
	}
	w := s.w
	w.mu.Lock()
	defer w.mu.Unlock()
	if id != pipeID {
		return nil, postgres.ErrNotFound
	}
	for _, k := range keys {
		val := o[k]
		switch k {
		case "enabled":
			b, ok := val.(bool)
			if !ok {
				w.setEngErr(fmt.Sprintf("fake UpdatePipeline: enabled=%v (%T)", val, val))
				continue
			}
			w.pipeline.Enabled = b
		case "last_log_id":
			switch x := val.(type) {
			case nil:
				w.pipeline.LastLogID = nil
				w.lastResetUpdateStamp = w.stamp
				if w.cmd != nil && w.cmd.kind == cReset {
					w.cmd.sawResetUpdate = true
				}
				w.newEpochLocked("UpdatePipeline cleared last_log_id")
			case uint64:
				w.pipeline.LastLogID = &x
			case *uint64:
				if x == nil {
					w.pipeline.LastLogID = nil
				} else {
					c := *x
					w.pipeline.LastLogID = &c
				}
			default:
				w.setEngErr(fmt.Sprintf("fake UpdatePipeline: last_log_id=%v (%T)", val, val))
			}
		case "error":
			w.pipeline.Error = fmt.Sprint(val)
		default:
			w.setEngErr("fake UpdatePipeline: unknown column " + k)
		}
	}
	return w.pipelineCopy(), nil
}

func (s *fakeStorage) ListEnabledPipelines(ctx context.Context) ([]ledger.Pipeline, error) {
	v := s.w.park(&gate{kind: kListEnabled, gen: s.gen, ctx: ctx})
	if v.err != nil {
		return nil, v.err
	}
	s.w.mu.Lock()
	defer s.w.mu.Unlock()
	ret := make([]ledger.Pipeline, 0)
	if s.w.pipeline.Enabled {
		ret = append(ret, *s.w.pipelineCopy())
	}
	return ret, nil
}

func (s *fakeStorage) GetPipeline(ctx context.Context, id string) (*ledger.Pipeline, error) {
	v := s.w.park(&gate{kind: kGetPipeline, arg: id, gen: s.gen, ctx: ctx})
	if v.err != nil {
		return nil, v.err
	}
	s.w.mu.Lock()
	defer s.w.mu.Unlock()
	if id != pipeID {
		return nil, postgres.ErrNotFound
	}
	return s.w.pipelineCopy(), nil
}

// The remaining Storage methods are not reached by the scenario (one pre-existing
// exporter and pipeline); they are gated all the same so that nothing can slip by.
func (s *fakeStorage) other(ctx context.Context, name string) error {
	v := s.w.park(&gate{kind: kOther, arg: name, gen: s.gen, ctx: ctx})
	return v.err
}

func (s *fakeStorage) ListExporters(ctx context.Context) (*paginate.Cursor[ledger.Exporter], error) {
	if err := s.other(ctx, "ListExporters"); err != nil {
		return nil, err
	}
	return &paginate.Cursor[ledger.Exporter]{Data: []ledger.Exporter{{ID: exporterID}}}, nil
}
func (s *fakeStorage) CreateExporter(ctx context.Context, _ ledger.Exporter) error {
	return s.other(ctx, "CreateExporter")
}
func (s *fakeStorage) DeleteExporter(ctx context.Context, _ string) error {
	return s.other(ctx, "DeleteExporter")
}
func (s *fakeStorage) GetExporter(ctx context.Context, id string) (*ledger.Exporter, error) {
	if err := s.other(ctx, "GetExporter"); err != nil {
		return nil, err
	}
	return &ledger.Exporter{ID: id}, nil
}
func (s *fakeStorage) UpdateExporter(ctx context.Context, _ ledger.Exporter) error {
	return s.other(ctx, "UpdateExporter")
}
func (s *fakeStorage) CreatePipeline(ctx context.Context, _ ledger.Pipeline) error {
	return s.other(ctx, "CreatePipeline")
}
func (s *fakeStorage) DeletePipeline(ctx context.Context, _ string) error {
	return s.other(ctx, "DeletePipeline")
}
func (s *fakeStorage) ListPipelines(ctx context.Context) (*paginate.Cursor[ledger.Pipeline], error) {
	if err := s.other(ctx, "ListPipelines"); err != nil {
		return nil, err
	}
	s.w.mu.Lock()
	defer s.w.mu.Unlock()
	return &paginate.Cursor[ledger.Pipeline]{Data: []ledger.Pipeline{*s.w.pipelineCopy()}}, nil
}

// ---------------------------------------------------------------------------------------
// fake LogFetcher

type fakeFetcher struct {
	w        *world
	gen, inc int
}

func describeQuery(q common.PaginatedQuery[any]) string {
	var iq *common.InitialPaginatedQuery[any]
	switch v := q.(type) {
	case common.InitialPaginatedQuery[any]:
		iq = &v
	case *common.InitialPaginatedQuery[any]:
		iq = v
	case common.ColumnPaginatedQuery[any]:
		iq = &v.InitialPaginatedQuery
	case *common.ColumnPaginatedQuery[any]:
		iq = &v.InitialPaginatedQuery
	default:
		return fmt.Sprintf("%T", q)
	}
	f := "all"
	if iq.Options.Builder != nil {
		if b, err := json.Marshal(iq.Options.Builder); err == nil {
			f = string(b)
		} else {
			f = "?" + err.Error()
		}
	}
	ord := "default"
	if iq.Order != nil {
		ord = iq.Order.String()
	}
	return fmt.Sprintf("%s size=%d order=%s", f, iq.PageSize, ord)
}

func (f *fakeFetcher) ListLogs(ctx context.Context, q common.PaginatedQuery[any]) (*paginate.Cursor[ledger.Log], error) {
	g := &gate{kind: kListLogs, arg: describeQuery(q), gen: f.gen, inc: f.inc, ctx: ctx, q: q}
	v := f.w.park(g)
	if v.err != nil {
		return nil, v.err
	}
	w := f.w
	w.mu.Lock()
	defer w.mu.Unlock()
	cur, err := runLogQuery(q, w.logs)
	if err != nil {
		w.setEngErr(err.Error())
		return nil, err
	}
	if len(cur.Data) > 0 {
		w.lastListInc = f.inc
		w.lastListHasMore = cur.HasMore
	} else {
		w.lastEmptyList = g
	}
	ids := make([]uint64, 0, len(cur.Data))
	for _, l := range cur.Data {
		ids = append(ids, *l.ID)
	}
	w.tracef("    ListLogs -> %v hasMore=%v", ids, cur.HasMore)
	// hand out copies: the pipeline keeps pointers to log ids
	out := make([]ledger.Log, len(cur.Data))
	for i, l := range cur.Data {
		id := *l.ID
		l.ID = &id
		out[i] = l
	}
	cur.Data = out
	return cur, nil
}

// ---------------------------------------------------------------------------------------
// fake exporter driver + factory

type fakeFactory struct {
	w   *world
	gen int
}

func (f *fakeFactory) Create(_ context.Context, id string) (drivers.Driver, json.RawMessage, error) {
	f.w.mu.Lock()
	f.w.driversN++
	inc := f.w.driversN
	f.w.mu.Unlock()
	return &fakeDriver{w: f.w, gen: f.gen, inc: inc}, f.w.cfg.Batching.rawConfig(), nil
}

// pageObserverFactory (batched configurations only) is what the Manager gets:
// pageObserver -> drivers.Batcher (real, built by the real DriverFactoryWithBatching from
// the exporter's raw configuration) -> fakeDriver.
type pageObserverFactory struct {
	w     *world
	inner drivers.Factory
}

func (f *pageObserverFactory) Create(ctx context.Context, id string) (drivers.Driver, json.RawMessage, error) {
	d, raw, err := f.inner.Create(ctx, id)
	if err != nil {
		return nil, nil, err
	}
	b, ok := d.(*drivers.Batcher)
	if !ok {
		f.w.mu.Lock()
		f.w.setEngErr(fmt.Sprintf("DriverFactoryWithBatching returned a %T, not a *drivers.Batcher: teach k5/world_test.go", d))
		f.w.mu.Unlock()
		return d, raw, nil
	}
	fd, ok := b.Driver.(*fakeDriver)
	if !ok {
		f.w.mu.Lock()
		f.w.setEngErr(fmt.Sprintf("the Batcher wraps a %T, not the recording exporter", b.Driver))
		f.w.mu.Unlock()
		return d, raw, nil
	}
	f.w.mu.Lock()
	f.w.batchers = append(f.w.batchers, b)
	f.w.mu.Unlock()
	return &pageObserver{Driver: b, w: f.w, inc: fd.inc}, raw, nil
}

// pageObserver never blocks and never changes a result: it records the pages the pipeline
// hands over and what the batching layer answers.
type pageObserver struct {
	drivers.Driver
	w   *world
	inc int
}

func logIDs(logs []drivers.LogWithLedger) []uint64 {
	ids := make([]uint64, 0, len(logs))
	for _, l := range logs {
		if l.ID == nil {
			ids = append(ids, 0)
			continue
		}
		ids = append(ids, *l.ID)
	}
	return ids
}

func (o *pageObserver) Accept(ctx context.Context, logs ...drivers.LogWithLedger) (errs []error, err error) {
	w := o.w
	w.mu.Lock()
	pg := &pageRec{ids: logIDs(logs), epoch: w.epoch}
	if !w.drain {
		w.pages++
		w.inflight[o.inc] = pg
		w.tracef("    pipeline hands page %v to its exporter (batching layer)", pg.ids)
		w.checkPageLocked(pg.ids)
	}
	w.mu.Unlock()
	defer func() {
		if r := recover(); r != nil {
			// in production nothing recovers this goroutine (PipelineHandler.Run's export
			// goroutine): the process dies
			w.mu.Lock()
			if w.crash == "" && !w.drain {
				w.crash = fmt.Sprintf("%v", r)
				w.tracef("    PANIC in the export goroutine of the pipeline while exporting page %v: %v", pg.ids, r)
			}
			w.mu.Unlock()
			errs, err = nil, fmt.Errorf("verif: recovered panic of the code under test: %v", r)
		}
	}()
	errs, err = o.Driver.Accept(ctx, logs...)
	w.mu.Lock()
	defer w.mu.Unlock()
	if w.drain {
		return errs, err
	}
	if pg.subs >= 2 {
		w.splitPages++
	}
	if pg.ackAfterFail {
		w.partialPages++
	}
	w.tracef("    batching layer answers %s for page %v (%d sub-batches reached the exporter)", errClass(err), pg.ids, pg.subs)
	if err == nil {
		w.pagesOK++
		if pg.ackAfterFail {
			w.swallowed++
		}
		if ctx.Err() == nil && w.lastListHasMore {
			// the live pipeline will now publish its position and loop with nextInterval=0
			w.sendRisk = true
			w.sendRiskInc = w.lastListInc
		}
	}
	return errs, err
}

type fakeDriver struct {
	w        *world
	gen, inc int
}

func (d *fakeDriver) Start(ctx context.Context) error {
	v := d.w.park(&gate{kind: kDrvStart, gen: d.gen, inc: d.inc, ctx: ctx})
	if v.drain {
		// teardown: let the facade's start loop end. (A facade whose pipeline could not be
		// started - OpenLedger failed after initExporter - is never stopped by the manager,
		// its goroutine would retry for ever.)
		return nil
	}
	if v.err != nil {
		return v.err
	}
	// a real driver whose start was cancelled reports it
	return ctx.Err()
}

func (d *fakeDriver) Stop(ctx context.Context) error {
	v := d.w.park(&gate{kind: kDrvStop, gen: d.gen, inc: d.inc, ctx: ctx})
	return v.err
}

func (d *fakeDriver) Accept(ctx context.Context, logs ...drivers.LogWithLedger) ([]error, error) {
	ids := logIDs(logs)
	g := &gate{kind: kAccept, arg: fmt.Sprint(ids), gen: d.gen, inc: d.inc, ctx: ctx, batch: ids}
	w := d.w
	batched := w.cfg.Batching != nil
	var pg *pageRec
	if batched {
		w.mu.Lock()
		if pg = w.inflight[d.inc]; pg != nil {
			pg.subs++
		}
		w.mu.Unlock()
	}
	v := w.park(g)
	if v.err != nil {
		if pg != nil && !v.drain {
			w.mu.Lock()
			pg.failed = true
			w.mu.Unlock()
		}
		return nil, v.err
	}
	w.mu.Lock()
	defer w.mu.Unlock()
	w.acceptAcks++
	if pg != nil && pg.failed {
		pg.ackAfterFail = true
	}
	if g.epoch == w.epoch {
		for _, id := range ids {
			w.ackedIDs[id] = true
		}
		for w.ackedIDs[w.acked+1] {
			w.acked++
		}
	}
	if !batched && ctx.Err() == nil && w.lastListHasMore {
		// the live pipeline will now publish its position and loop with nextInterval=0
		w.sendRisk = true
		w.sendRiskInc = w.lastListInc
	}
	return make([]error, len(logs)), nil
}

// ---------------------------------------------------------------------------------------
// logger: counts events (used only to notice that a timer fired during a sleep)

type countingLogger struct{ w *world }

func (l countingLogger) ev(format string, args ...any) {
	l.w.logEvents.Add(1)
	if l.w.tracing && traceLogs {
		l.w.mu.Lock()
		l.w.trace = append(l.w.trace, "      log: "+fmt.Sprintf(format, args...))
		l.w.mu.Unlock()
	}
}
func (l countingLogger) Tracef(f string, a ...any)                  { l.ev(f, a...) }
func (l countingLogger) Debugf(f string, a ...any)                  { l.ev(f, a...) }
func (l countingLogger) Infof(f string, a ...any)                   { l.ev(f, a...) }
func (l countingLogger) Errorf(f string, a ...any)                  { l.ev(f, a...) }
func (l countingLogger) Trace(a ...any)                             { l.ev("%s", fmt.Sprint(a...)) }
func (l countingLogger) Debug(a ...any)                             { l.ev("%s", fmt.Sprint(a...)) }
func (l countingLogger) Info(a ...any)                              { l.ev("%s", fmt.Sprint(a...)) }
func (l countingLogger) Error(a ...any)                             { l.ev("%s", fmt.Sprint(a...)) }
func (l countingLogger) WithFields(map[string]any) logging.Logger   { return l }
func (l countingLogger) WithField(string, any) logging.Logger       { return l }
func (l countingLogger) WithContext(context.Context) logging.Logger { return l }
func (l countingLogger) Writer() io.Writer                          { return io.Discard }
func (l countingLogger) Enabled(logging.Level) bool                 { return true }

var traceLogs = false

type okValidator struct{}

func (okValidator) ValidateConfig(string, json.RawMessage) error { return nil }

// ---------------------------------------------------------------------------------------
// managers and commands (always called from the controller goroutine, world quiescent)

func (w *world) startManager() {
	gen := len(w.mgrs)
	var factory drivers.Factory = &fakeFactory{w: w, gen: gen}
	if w.cfg.Batching != nil {
		factory = &pageObserverFactory{w: w, inner: drivers.NewWithBatchingDriverFactory(factory, countingLogger{w})}
	}
	m := replication.NewManager(
		&fakeStorage{w: w, gen: gen},
		factory,
		countingLogger{w},
		okValidator{},
		replication.WithSyncPeriod(periodSync),
		replication.WithPipelineOptions(
			replication.WithPullPeriod(periodPipeline),
			replication.WithPushRetryPeriod(periodPipeline),
			replication.WithLogsPageSize(w.cfg.PageSize),
		),
	)
	mg := &mgr{m: m, gen: gen}
	w.mgrs = append(w.mgrs, mg)
	w.cur = mg
	go m.Run(context.Background())
}

func (w *world) issue(kind cmdKind) {
	c := &cmdState{kind: kind}
	w.mu.Lock()
	w.cmd = c
	mg := w.cur
	if kind == cRestart {
		mg.stopCalled = true
	}
	w.mu.Unlock()
	go func() {
		ctx := logging.ContextWithLogger(context.Background(), countingLogger{w})
		var err error
		switch kind {
		case cStart:
			err = mg.m.StartPipeline(ctx, pipeID)
		case cStop:
			err = mg.m.StopPipeline(ctx, pipeID)
		case cReset:
			err = mg.m.ResetPipeline(ctx, pipeID)
		case cRestart:
			err = mg.m.Stop(ctx)
			w.mu.Lock()
			drained := w.drain
			if !drained {
				w.startManager() // takes no lock itself
			}
			w.mu.Unlock()
		}
		w.mu.Lock()
		c.err = err
		c.done = true
		w.cmdsDone++
		w.mu.Unlock()
	}()
}

func errClass(err error) string {
	if err == nil {
		return "ok"
	}
	s := err.Error()
	if len(s) > 60 {
		s = s[:60]
	}
	return "err:" + s
}

// visibleStamp changes whenever anything observable happened (a call arrived at the
// environment, a command returned, the code logged something).
func (w *world) visibleStamp() [3]int64 {
	w.mu.Lock()
	defer w.mu.Unlock()
	return [3]int64{int64(w.gatesTotal), int64(w.cmdsDone), w.logEvents.Load()}
}

func (w *world) sleepUntilVisible(wait func()) int {
	for lvl, d := range sleepLevels {
		before := w.visibleStamp()
		time.Sleep(d)
		wait()
		if w.visibleStamp() != before {
			return lvl + 1
		}
	}
	return 0
}
