#!/bin/bash
# K5 / C33: ./run.sh quick|thorough|build|replay <file>
#   1. regenerates the -overlay (bin/_k5ov/) from the CURRENT <repo>/internal/replication/{,drivers/}*.go
#      (<repo> = the directory h/go.mod replaces the ledger module by; VERIF_REPO must agree; default /repo)
#   2. go test -c -overlay ... -vet=off -> /verif/h/bin/k5.test
#   3. runs TestC33 (unless `build`). Exit: 0 held, 1 VIOLATION line printed, 2 engine error.
# Knobs (debugging): VERIF_K5_BOUND, VERIF_K5_LOGS, VERIF_K5_APPENDS, VERIF_K5_HORIZON,
# VERIF_K5_WORKERS, VERIF_K5_NOEXTRA, VERIF_BUDGET_S, VERIF_K5_TRACELOGS (replay),
# VERIF_K5_PAGE, VERIF_K5_MAXITEMS, VERIF_K5_FLUSH (with VERIF_K5_LOGS: one batched scenario),
# K5_MUTATION=a..h (detection self-test).
# Real-storage family (real_test.go): VERIF_K5_REAL_DEPTH (longest history; 5 quick, 6 thorough),
# VERIF_K5_NOREAL=1 (skip it), VERIF_K5_REAL_ONLY=1 (only it), VERIF_K5_SPLIT=0 (leave out the
# deployment with the manager in its own process; it runs by default).
set -u
MODE="${1:-quick}"
HERE="$(cd "$(dirname "$0")" && pwd)"
H="$(dirname "$HERE")"
export GOFLAGS=-mod=mod GOPROXY=off
export VERIF_ROOT="${VERIF_ROOT:-$(dirname "$H")}"
# the self-test mutations get their own overlay dir and binary, so that they can never
# leak into a concurrent ./check run
# (leading underscore: the go tool ignores the directory, `go build ./...` stays clean)
OV="$H/bin/_k5ov${K5_MUTATION:+-mut}"
BIN="$H/bin/k5${K5_MUTATION:+mut}.test"
mkdir -p "$OV"
exec 9> "$OV/.lock"; flock 9   # generation + build are serialised per overlay dir
cd "$H" || exit 2
# The repository under test is the directory h/go.mod `replace`s the ledger module by (that
# is what gets compiled, so that is what the overlay must be keyed on); /repo by default.
# VERIF_REPO, when set, must name that same directory: an overlay generated from another
# tree would silently not apply (mutexes not shimmed, stale sources explored).
MODDIR="$(go list -m -f '{{.Dir}}' github.com/formancehq/ledger 2>/dev/null)"
REPO="${VERIF_REPO:-${MODDIR:-/repo}}"
if [ -n "$MODDIR" ] && [ "$(realpath -m "$REPO")" != "$(realpath -m "$MODDIR")" ]; then
  echo "ENGINE-ERROR property=C33 VERIF_REPO=$REPO but h/go.mod replaces github.com/formancehq/ledger by $MODDIR: the tree named by VERIF_REPO is not the one that is compiled"; exit 2
fi
export VERIF_REPO="${MODDIR:-$REPO}"   # spelled as the go command spells it: the overlay is keyed on these paths
[ -f "$VERIF_REPO/go.sum" ] && cp "$VERIF_REPO/go.sum" go.sum 2>/dev/null

if ! python3 "$HERE/genoverlay.py" "$OV" ${K5_MUTATION:-} 2> "$OV/gen.log"; then
  echo "ENGINE-ERROR property=C33 overlay generation failed"; cat "$OV/gen.log"; exit 2
fi
# K5_MUTATION is the detection self-test (DESIGN §8); ./check never sets it
[ -n "${K5_MUTATION:-}" ] && grep MUTATION "$OV/gen.log"
if ! go test -c -overlay "$OV/overlay.json" -vet=off -o "$BIN" ./k5 > "$H/bin/build.C33.log" 2>&1; then
  echo "ENGINE-ERROR property=C33 harness build failed (see $H/bin/build.C33.log)"; tail -20 "$H/bin/build.C33.log"; exit 2
fi

flock -u 9
case "$MODE" in
  build) exit 0 ;;
  replay)
    export VERIF_K5_REPLAY="${2:?replay file}"
    export VERIF_TIER="${VERIF_TIER:-quick}" ;;
  quick|thorough) export VERIF_TIER="$MODE" ;;
  *) echo "usage: $0 quick|thorough|build|replay <file>"; exit 2 ;;
esac
"$BIN" -test.run '^TestC33$' -test.timeout 0 -test.parallel 64
rc=$?
case $rc in
  0|1|2) exit $rc ;;
  *) echo "ENGINE-ERROR property=C33 test binary exited with $rc"; exit 2 ;;
esac
