// Package k5 is the environment-call explorer for C33 (replication delivers every log,
// in order, despite failures). Everything lives in _test files because the real
// replication.Manager / PipelineHandler are driven inside testing/synctest bubbles,
// which need a *testing.T. Build and run through ./run.sh (it generates the -overlay
// that swaps sync.Mutex in manager.go and drivers/batcher.go for a channel mutex, see
// verifsync.go.txt). The batched scenarios put the real batching layer
// (drivers.NewWithBatchingDriverFactory / drivers.Batcher) between the DriverFacade and
// the gated recording exporter, so that one page reaches the exporter as several
// independently acknowledged / failed sub-batches.
//
// Besides these gated scenarios (fake storage, every environment call parked on a gate:
// world_test.go, exec_test.go, explore_test.go) there is the real-storage family
// (real_test.go): the same Manager / PipelineHandler / DriverFacade over
// replication.NewStorageAdapter on the real storage driver, ledger store factory, logs
// resource / paginator and system store, on a pgsim database (h/world), still inside
// synctest bubbles (database/sql is bubble-friendly as long as the sql.DB is opened and
// closed inside the bubble). It enumerates HISTORIES (create the pipeline, write on A / on B,
// create B in A's bucket, stop / start / reset, process restart, pull timer) exhaustively up
// to a length, shortest first, and applies the C33 oracle plus "nothing that is not a log of
// the pipeline's ledger" to what the recording exporter received. It runs first in TestC33.
package k5
