// Package k5 is the environment-call explorer for C33 (replication delivers every log,
// in order, despite failures). Everything lives in _test files because the real
// replication.Manager / PipelineHandler are driven inside testing/synctest bubbles,
// which need a *testing.T. Build and run through ./run.sh (it generates the -overlay
// that swaps sync.Mutex in manager.go and drivers/batcher.go for a channel mutex, see
// verifsync.go.txt). The batched scenarios put the real batching layer
// (drivers.NewWithBatchingDriverFactory / drivers.Batcher) between the DriverFacade and
// the gated recording exporter, so that one page reaches the exporter as several
// independently acknowledged / failed sub-batches.
package k5
