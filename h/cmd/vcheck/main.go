// vcheck run <ID>   — run one property check (tier from VERIF_TIER)
// vcheck list       — list registered checks
// vcheck replay <f> — re-execute a recorded (scenario, schedule) replay file
// vcheck selftest [-v] — run the documentation-derived self-test of pgsim (DESIGN 2.6);
//                    exit 0 iff no case fails, exit 2 otherwise; writes no evidence
package main

import (
	"fmt"
	"os"
	"sort"
	"strings"
	"time"

	_ "github.com/formancehq/ledger/verifh/pfault"
	"github.com/formancehq/ledger/verifh/pgsim"
	_ "github.com/formancehq/ledger/verifh/phttp"
	_ "github.com/formancehq/ledger/verifh/pimport"
	_ "github.com/formancehq/ledger/verifh/pnum"
	_ "github.com/formancehq/ledger/verifh/pquery"
	"github.com/formancehq/ledger/verifh/props"
	_ "github.com/formancehq/ledger/verifh/pschema"
	"github.com/formancehq/ledger/verifh/reg"
)

func main() {
	if len(os.Args) < 2 {
		fmt.Println("usage: vcheck run <ID> | list | replay <file> | selftest [-v]")
		os.Exit(2)
	}
	switch os.Args[1] {
	case "list":
		ids := reg.IDs()
		sort.Strings(ids)
		for _, id := range ids {
			fmt.Println(id)
		}
	case "run":
		if len(os.Args) < 3 {
			os.Exit(2)
		}
		c, ok := reg.Lookup(os.Args[2])
		if !ok {
			fmt.Printf("ENGINE-ERROR property=%s not registered\n", os.Args[2])
			os.Exit(2)
		}
		os.Exit(c())
	case "replay":
		// schedule replays (K2 checks of package props); other packages replay through
		// their TestReplay unit tests
		if len(os.Args) < 3 {
			os.Exit(2)
		}
		os.Exit(props.ReplayConc(os.Args[2]))
	case "selftest":
		os.Exit(selfTest(len(os.Args) > 2 && os.Args[2] == "-v"))
	default:
		fmt.Println("unknown command")
		os.Exit(2)
	}
}

// selfTest runs pgsim.SelfTest: one line per failing case (every case with -v), then the
// summary. A failing case means the trusted base deviates from the PostgreSQL
// documentation: exit 2 (engine error), never a property verdict.
func selfTest(verbose bool) int {
	t0 := time.Now()
	rs := pgsim.SelfTest()
	for _, r := range rs {
		switch {
		case r.Skipped:
			if verbose {
				fmt.Printf("SKIP %s: %s\n", r.Name, r.Detail)
			}
		case !r.Passed:
			fmt.Printf("FAIL %s [%s]: %s | rule: %s\n", r.Name, r.Basis, strings.ReplaceAll(r.Detail, "\n", " "), r.Rule)
		case verbose:
			fmt.Printf("ok   %s [%s] %s\n", r.Name, r.Basis, r.Elapsed.Round(time.Microsecond))
		}
	}
	n, failed, skipped := pgsim.SelfTestSummary(rs)
	fmt.Printf("SELFTEST cases=%d failed=%d skipped=%d elapsed=%s\n", n, failed, skipped, time.Since(t0).Round(time.Millisecond))
	if failed != 0 {
		return 2
	}
	return 0
}
