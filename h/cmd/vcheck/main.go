// vcheck run <ID>   — run one property check (tier from VERIF_TIER)
// vcheck list       — list registered checks
// vcheck replay <f> — re-execute a recorded (scenario, schedule) replay file
package main

import (
	"fmt"
	"os"
	"sort"

	_ "github.com/formancehq/ledger/verifh/pfault"
	_ "github.com/formancehq/ledger/verifh/phttp"
	_ "github.com/formancehq/ledger/verifh/pimport"
	_ "github.com/formancehq/ledger/verifh/pnum"
	_ "github.com/formancehq/ledger/verifh/pquery"
	"github.com/formancehq/ledger/verifh/props"
	_ "github.com/formancehq/ledger/verifh/pschema"
	"github.com/formancehq/ledger/verifh/reg"
)

func main() {
	if len(os.Args) < 2 {
		fmt.Println("usage: vcheck run <ID> | list | replay <file>")
		os.Exit(2)
	}
	switch os.Args[1] {
	case "list":
		ids := reg.IDs()
		sort.Strings(ids)
		for _, id := range ids {
			fmt.Println(id)
		}
	case "run":
		if len(os.Args) < 3 {
			os.Exit(2)
		}
		c, ok := reg.Lookup(os.Args[2])
		if !ok {
			fmt.Printf("ENGINE-ERROR property=%s not registered\n", os.Args[2])
			os.Exit(2)
		}
		os.Exit(c())
	case "replay":
		// schedule replays (K2 checks of package props); other packages replay through
		// their TestReplay unit tests
		if len(os.Args) < 3 {
			os.Exit(2)
		}
		os.Exit(props.ReplayConc(os.Args[2]))
	default:
		fmt.Println("unknown command")
		os.Exit(2)
	}
}
