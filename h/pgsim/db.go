package pgsim

import (
	"context"
	"fmt"
	"sort"
	"strings"
	"sync"
)

type txStatus int

const (
	txInProgress txStatus = iota
	txCommitted
	txAborted
	txSubCommitted // released savepoint: fate follows the parent
)

type txInfo struct {
	xid    uint64
	parent uint64 // 0 for top-level
	top    uint64
	status txStatus
	csn    uint64
}

// Mode says who resolves blocking.
type Mode int

const (
	// ModeSequential: one goroutine drives all sessions; a lock wait can never be
	// satisfied and is reported as an error (40P01-like engine diagnostic).
	ModeSequential Mode = iota
	// ModeFree: real goroutines; waits park on a condition variable.
	ModeFree
	// ModeScheduled: a Scheduler owns every blocking and scheduling point.
	ModeScheduled
)

// Scheduler is implemented by the K2 explorer.
type Scheduler interface {
	// Point is called (without the engine lock) at the beginning of every driver call.
	Point(s *Session, what string)
	// Block is called with the engine lock held; it must release it while the
	// session is parked and re-acquire it before returning. It returns when the
	// transaction `holder` (top-level xid, or 0 for an advisory lock holder that is
	// a session) has ended, or with an error (deadlock victim).
	Block(s *Session, w WaitInfo) error
	// Wake is called with the engine lock held whenever a transaction ends or an
	// advisory lock is released.
	Wake()
}

type WaitInfo struct {
	HolderTop  uint64 // waiting for this transaction to end (0 if advisory)
	// HolderXid (optional) is the (sub)transaction that wrote the row version the waiter
	// is blocked on. Postgres waits on that xid (XactLockTableWait), not on its top-level
	// transaction: when it is a subtransaction that is rolled back (ROLLBACK TO SAVEPOINT)
	// the wait ends although the top-level transaction goes on; when it is released, the
	// wait goes on with its parent.
	HolderXid uint64
	HolderSess int    // session id holding an advisory lock (when HolderTop==0)
	What       string
	WaiterSess int   // the session that waits
	IsAdvisory bool  // waiting for advisory lock AdvKey to be free of other sessions
	AdvKey     int64
}

// Lock / Unlock expose the engine lock to schedulers (Block must release it while parked).
func (db *DB) Lock()   { db.mu.Lock() }
func (db *DB) Unlock() { db.mu.Unlock() }

// WaitSatisfied reports whether a parked waiter could proceed now.
func (db *DB) WaitSatisfied(w WaitInfo, waiterSess int) bool {
	db.mu.Lock()
	defer db.mu.Unlock()
	if w.IsAdvisory {
		for _, l := range db.advisory {
			if l.key == w.AdvKey && l.sessID != w.WaiterSess {
				return false
			}
		}
		return true
	}
	return db.waitDone(w)
}

// HolderSession returns the session the waiter is waiting for (0 if unknown).
func (db *DB) HolderSession(w WaitInfo) int {
	db.mu.Lock()
	defer db.mu.Unlock()
	if w.IsAdvisory {
		for _, l := range db.advisory {
			if l.key == w.AdvKey && l.sessID != w.WaiterSess {
				return l.sessID
			}
		}
		return 0
	}
	if w.HolderTop != 0 {
		return db.sessionOfTop(w.HolderTop)
	}
	return w.HolderSess
}

// NewPgError builds an SQL-level error (for schedulers: deadlock victims).
func NewPgError(code, msg string) error { return &PgError{Code: code, Message: msg} }

type advLock struct {
	key    int64
	sessID int
	xact   uint64 // top xid when transaction-scoped, 0 when session-scoped
	count  int
}

type CommitRecord struct {
	Seq    uint64
	SessID int
	Top    uint64
	Tag    string
}

type DB struct {
	mu   sync.Mutex
	cond *sync.Cond

	schemas map[string]*Schema
	nextXid uint64
	txs     map[uint64]*txInfo
	csn     uint64

	Clock     int64 // µs since epoch
	ClockStep int64 // advance per top-level statement

	advisory []*advLock
	nextSess int

	Mode  Mode
	Sched Scheduler

	Commits []CommitRecord
	Notices []string

	// Fault, when set, is consulted at every driver call (see driver.go).
	Fault func(s *Session, op string, sql string) error

	// waits-for edges for deadlock detection in ModeFree
	waiting map[int]WaitInfo

	sessions map[int]*Session

	stmtCache sync.Map // sql text -> []Stmt (immutable)

	Stats struct {
		Statements int64
		Blocks     int64
	}

	MigrationMode   bool
	SkippedInMigration []string
}

func NewDB() *DB {
	db := &DB{schemas: map[string]*Schema{}, txs: map[uint64]*txInfo{}, nextXid: 100, waiting: map[int]WaitInfo{}, sessions: map[int]*Session{}}
	db.cond = sync.NewCond(&db.mu)
	db.schemas["public"] = newSchema("public")
	db.schemas["pg_catalog"] = newSchema("pg_catalog")
	db.Clock = 1_700_000_000_000_000
	db.ClockStep = 1000
	return db
}

type savepoint struct {
	name    string
	xid     uint64
	undoLen int
}

type Session struct {
	db *DB
	ID int

	searchPath   []string
	pathOverride []string
	temp         map[string]*Table

	// transaction state
	top       uint64 // 0 = no transaction
	cur       uint64 // current (sub)transaction xid
	saves     []savepoint
	cid       uint32
	failed    bool
	explicit  bool
	undo      []func()
	deferred  []func() error
	txStart   int64
	stmtTime  int64

	closed bool
	Tag    string // free-form label set by the harness (thread id)
	Ctx    context.Context // context of the driver call in progress
	seqCache map[*Sequence]*seqCacheEntry // CREATE SEQUENCE ... CACHE: per-session pre-allocated values
}

func (db *DB) NewSession() *Session {
	db.mu.Lock()
	defer db.mu.Unlock()
	db.nextSess++
	s := &Session{db: db, ID: db.nextSess, searchPath: []string{"public"}, temp: map[string]*Table{}}
	db.sessions[s.ID] = s
	return s
}

// ---------- transaction status ----------

func (db *DB) info(xid uint64) *txInfo { return db.txs[xid] }

// effective status, following released savepoints to their parent.
func (db *DB) status(xid uint64) (txStatus, uint64) {
	for {
		ti := db.txs[xid]
		if ti == nil {
			return txCommitted, 0 // frozen / bootstrap
		}
		switch ti.status {
		case txSubCommitted:
			xid = ti.parent
			continue
		case txInProgress:
			if ti.parent != 0 {
				// an open subtransaction is in progress as long as no ancestor aborted
				st, _ := db.status(ti.parent)
				if st == txAborted {
					return txAborted, 0
				}
			}
			return txInProgress, 0
		case txCommitted:
			return txCommitted, ti.csn
		}
		return txAborted, 0
	}
}

func (db *DB) topOf(xid uint64) uint64 {
	if ti := db.txs[xid]; ti != nil {
		return ti.top
	}
	return 0
}

type Snapshot struct {
	csn uint64
	top uint64
	cid uint32
}

func (db *DB) visibleXid(xid uint64, c uint32, sn Snapshot) bool {
	st, csn := db.status(xid)
	switch st {
	case txAborted:
		return false
	case txCommitted:
		if db.txs[xid] == nil {
			return true
		}
		return csn <= sn.csn
	}
	// in progress
	if sn.top != 0 && db.topOf(xid) == sn.top {
		return c < sn.cid
	}
	return false
}

func (db *DB) rowVisible(r *Row, sn Snapshot) bool {
	if !db.visibleXid(r.Xmin, r.Cmin, sn) {
		return false
	}
	if r.Xmax == 0 {
		return true
	}
	return !db.visibleXid(r.Xmax, r.Cmax, sn)
}

// ---------- transactions ----------

func (s *Session) begin(explicit bool) {
	db := s.db
	db.nextXid++
	x := db.nextXid
	db.txs[x] = &txInfo{xid: x, top: x, status: txInProgress}
	s.top, s.cur = x, x
	s.saves = nil
	s.cid = 0
	s.failed = false
	s.explicit = explicit
	s.undo = nil
	s.deferred = nil
	s.txStart = db.Clock
}

func (s *Session) inTx() bool { return s.top != 0 }

func (s *Session) snapshot() Snapshot {
	return Snapshot{csn: s.db.csn, top: s.top, cid: s.cid}
}

func (s *Session) commit() error {
	db := s.db
	if s.top == 0 {
		return nil
	}
	if s.failed {
		s.rollback()
		return nil // COMMIT of a failed transaction is a ROLLBACK
	}
	// deferred constraint triggers
	for len(s.deferred) > 0 {
		d := s.deferred[0]
		s.deferred = s.deferred[1:]
		if err := d(); err != nil {
			s.rollback()
			return err
		}
	}
	db.csn++
	for _, ti := range db.txs {
		if ti.top == s.top && ti.status == txInProgress {
			ti.status = txCommitted
			ti.csn = db.csn
		} else if ti.top == s.top && ti.status == txSubCommitted {
			ti.status = txCommitted
			ti.csn = db.csn
		}
	}
	db.Commits = append(db.Commits, CommitRecord{Seq: db.csn, SessID: s.ID, Top: s.top, Tag: s.Tag})
	s.endTx(true)
	return nil
}

func (s *Session) rollback() {
	db := s.db
	if s.top == 0 {
		return
	}
	for i := len(s.undo) - 1; i >= 0; i-- {
		s.undo[i]()
	}
	for _, ti := range db.txs {
		if ti.top == s.top && ti.status != txAborted {
			ti.status = txAborted
		}
	}
	s.endTx(false)
}

func (s *Session) endTx(committed bool) {
	db := s.db
	top := s.top
	// release row locks and transaction-scoped advisory locks
	for _, sc := range db.schemas {
		for _, t := range sc.Tables {
			for _, r := range t.Rows {
				if r.Locker != 0 && (r.Locker == top || db.topOf(r.Locker) == top) {
					r.Locker = 0
				}
			}
		}
	}
	kept := db.advisory[:0]
	for _, l := range db.advisory {
		if l.xact == top {
			continue
		}
		kept = append(kept, l)
	}
	db.advisory = kept
	// ON COMMIT DELETE ROWS temp tables
	for _, t := range s.temp {
		if t.OnCommitDelete {
			t.Rows = nil
		}
	}
	s.top, s.cur = 0, 0
	s.saves = nil
	s.failed = false
	s.explicit = false
	s.undo = nil
	s.deferred = nil
	db.vacuum()
	db.wake()
}

func (db *DB) wake() {
	if db.Mode == ModeScheduled && db.Sched != nil {
		db.Sched.Wake()
	}
	db.cond.Broadcast()
}

func (db *DB) anyActive() bool {
	for _, s := range db.sessions {
		if s.top != 0 {
			return true
		}
	}
	return false
}

// vacuum drops dead row versions and finished transaction records when no
// transaction is active (so no snapshot can need them).
func (db *DB) vacuum() {
	if db.anyActive() {
		return
	}
	prune := func(t *Table) {
		kept := t.Rows[:0]
		for _, r := range t.Rows {
			st, _ := db.status(r.Xmin)
			if st == txAborted {
				continue
			}
			if r.Xmax != 0 {
				sx, _ := db.status(r.Xmax)
				if sx == txCommitted {
					continue
				}
				r.Xmax, r.Cmax, r.Next = 0, 0, nil
			}
			r.Xmin, r.Cmin, r.Locker = 1, 0, 0
			kept = append(kept, r)
		}
		for i := len(kept); i < len(t.Rows); i++ {
			t.Rows[i] = nil
		}
		t.Rows = kept
	}
	for _, sc := range db.schemas {
		for _, t := range sc.Tables {
			prune(t)
		}
	}
	for _, s := range db.sessions {
		for _, t := range s.temp {
			prune(t)
		}
	}
	db.txs = map[uint64]*txInfo{}
}

func (s *Session) savepoint(name string) {
	db := s.db
	db.nextXid++
	x := db.nextXid
	db.txs[x] = &txInfo{xid: x, parent: s.cur, top: s.top, status: txInProgress}
	s.saves = append(s.saves, savepoint{name: name, xid: x, undoLen: len(s.undo)})
	s.cur = x
}

func (s *Session) findSave(name string) int {
	for i := len(s.saves) - 1; i >= 0; i-- {
		if s.saves[i].name == name {
			return i
		}
	}
	return -1
}

func (s *Session) rollbackTo(name string) error {
	i := s.findSave(name)
	if i < 0 {
		return pgErr("3B001", "savepoint %q does not exist", name)
	}
	db := s.db
	sp := s.saves[i]
	for k := len(s.undo) - 1; k >= sp.undoLen; k-- {
		s.undo[k]()
	}
	s.undo = s.undo[:sp.undoLen]
	// abort sp.xid and all later subtransactions
	for _, later := range s.saves[i:] {
		db.abortTree(later.xid)
	}
	parent := db.txs[sp.xid].parent
	// re-establish the savepoint with a fresh subtransaction
	s.saves = s.saves[:i]
	s.cur = parent
	s.savepoint(name)
	s.failed = false
	// sessions waiting for a row version written by an aborted subtransaction can go on
	db.cond.Broadcast()
	return nil
}

func (db *DB) abortTree(xid uint64) {
	for _, ti := range db.txs {
		x := ti.xid
		for x != 0 {
			if x == xid {
				ti.status = txAborted
				break
			}
			p := db.txs[x]
			if p == nil {
				break
			}
			x = p.parent
		}
	}
}

func (s *Session) release(name string) error {
	i := s.findSave(name)
	if i < 0 {
		return pgErr("3B001", "savepoint %q does not exist", name)
	}
	db := s.db
	for _, later := range s.saves[i:] {
		if ti := db.txs[later.xid]; ti != nil && ti.status == txInProgress {
			ti.status = txSubCommitted
		}
	}
	s.cur = db.txs[s.saves[i].xid].parent
	s.saves = s.saves[:i]
	return nil
}

// ---------- blocking ----------

// waitFor parks the session until the transaction `top` has ended.
// Called with db.mu held.
func (s *Session) waitFor(w WaitInfo) error {
	db := s.db
	db.Stats.Blocks++
	w.WaiterSess = s.ID
	switch db.Mode {
	case ModeSequential:
		return &EngineError{Msg: fmt.Sprintf("session %d would block on %s in sequential mode (self-deadlock)", s.ID, w.What)}
	case ModeScheduled:
		return db.Sched.Block(s, w)
	}
	// ModeFree
	db.waiting[s.ID] = w
	defer delete(db.waiting, s.ID)
	for {
		if db.waitDone(w) {
			return nil
		}
		if db.deadlocked(s.ID) {
			return pgErr("40P01", "deadlock detected")
		}
		db.cond.Wait()
	}
}

func (db *DB) waitDone(w WaitInfo) bool {
	if w.HolderXid != 0 {
		// status follows a released subtransaction to its parent and reports an open
		// subtransaction whose ancestor was rolled back as aborted
		st, _ := db.status(w.HolderXid)
		return st != txInProgress
	}
	if w.HolderTop != 0 {
		st, _ := db.status(w.HolderTop)
		return st != txInProgress
	}
	hs := db.sessions[w.HolderSess]
	if hs == nil || hs.closed {
		return true
	}
	return false
}

// sessionOfTop finds the session running top-level transaction top.
func (db *DB) sessionOfTop(top uint64) int {
	for id, s := range db.sessions {
		if s.top == top {
			return id
		}
	}
	return 0
}

func (db *DB) deadlocked(start int) bool {
	seen := map[int]bool{}
	cur := start
	for {
		w, ok := db.waiting[cur]
		if !ok {
			return false
		}
		nxt := w.HolderSess
		if w.HolderTop != 0 {
			nxt = db.sessionOfTop(w.HolderTop)
		}
		if nxt == 0 {
			return false
		}
		if nxt == start {
			return true
		}
		if seen[nxt] {
			return false
		}
		seen[nxt] = true
		cur = nxt
	}
}

// ---------- advisory locks ----------

func (s *Session) advisoryLock(key int64, xact bool) error {
	db := s.db
	for {
		var holder *advLock
		for _, l := range db.advisory {
			if l.key == key && l.sessID != s.ID {
				holder = l
				break
			}
		}
		if holder == nil {
			break
		}
		w := WaitInfo{HolderSess: holder.sessID, What: fmt.Sprintf("advisory lock %d", key)}
		if holder.xact != 0 {
			w.HolderTop = holder.xact
		} else {
			w.HolderSess = holder.sessID
		}
		if err := s.waitAdvisory(key, w); err != nil {
			return err
		}
	}
	var xa uint64
	if xact {
		xa = s.top
	}
	for _, l := range db.advisory {
		if l.key == key && l.sessID == s.ID && l.xact == xa {
			l.count++
			return nil
		}
	}
	db.advisory = append(db.advisory, &advLock{key: key, sessID: s.ID, xact: xa, count: 1})
	return nil
}

// waitAdvisory waits until key is free of other sessions.
func (s *Session) waitAdvisory(key int64, w WaitInfo) error {
	db := s.db
	db.Stats.Blocks++
	w.WaiterSess, w.IsAdvisory, w.AdvKey = s.ID, true, key
	switch db.Mode {
	case ModeSequential:
		return &EngineError{Msg: fmt.Sprintf("session %d would block on %s in sequential mode (self-deadlock)", s.ID, w.What)}
	case ModeScheduled:
		w.What = fmt.Sprintf("advisory:%d", key)
		return db.Sched.Block(s, w)
	}
	db.waiting[s.ID] = w
	defer delete(db.waiting, s.ID)
	for {
		held := false
		for _, l := range db.advisory {
			if l.key == key && l.sessID != s.ID {
				held = true
			}
		}
		if !held {
			return nil
		}
		if db.deadlocked(s.ID) {
			return pgErr("40P01", "deadlock detected")
		}
		db.cond.Wait()
	}
}

// AdvisoryHeldByOther reports whether key is held by a session other than sess (for schedulers).
func (db *DB) AdvisoryHeldByOther(key int64, sess int) bool {
	for _, l := range db.advisory {
		if l.key == key && l.sessID != sess {
			return true
		}
	}
	return false
}

func (s *Session) advisoryUnlock(key int64) bool {
	db := s.db
	for i, l := range db.advisory {
		if l.key == key && l.sessID == s.ID && l.xact == 0 {
			l.count--
			if l.count <= 0 {
				db.advisory = append(db.advisory[:i], db.advisory[i+1:]...)
				db.wake()
			}
			return true
		}
	}
	return false
}

func (s *Session) Close() {
	db := s.db
	db.mu.Lock()
	defer db.mu.Unlock()
	if s.closed {
		return
	}
	if s.top != 0 {
		s.rollback()
	}
	kept := db.advisory[:0]
	for _, l := range db.advisory {
		if l.sessID != s.ID {
			kept = append(kept, l)
		}
	}
	db.advisory = kept
	s.closed = true
	delete(db.sessions, s.ID)
	db.wake()
}

// ---------- introspection ----------

// Dump renders every committed-visible row of every table (canonical, sorted) plus
// sequences. It must be called when no transaction is in progress.
func (db *DB) Dump(includeSeqs bool) string {
	db.mu.Lock()
	defer db.mu.Unlock()
	return db.dumpLocked(includeSeqs, nil)
}

func (db *DB) dumpLocked(includeSeqs bool, skipTable func(schema, table string) bool) string {
	var sb strings.Builder
	sn := Snapshot{csn: db.csn}
	for _, sn0 := range sortedKeys(db.schemas) {
		sc := db.schemas[sn0]
		for _, tn := range sortedKeys(sc.Tables) {
			if skipTable != nil && skipTable(sn0, tn) {
				continue
			}
			t := sc.Tables[tn]
			var lines []string
			for _, r := range t.Rows {
				if !db.rowVisible(r, sn) {
					continue
				}
				var rb strings.Builder
				for i, v := range r.Vals {
					if i > 0 {
						rb.WriteByte('|')
					}
					if v == nil {
						rb.WriteString("∅")
						continue
					}
					s, _ := textOf(v)
					rb.WriteString(t.Cols[i].Name + "=" + s)
				}
				lines = append(lines, rb.String())
			}
			sort.Strings(lines)
			fmt.Fprintf(&sb, "## %s.%s (%d)\n", sn0, tn, len(lines))
			for _, l := range lines {
				sb.WriteString(l)
				sb.WriteByte('\n')
			}
		}
		if includeSeqs {
			for _, qn := range sortedKeys(sc.Seqs) {
				q := sc.Seqs[qn]
				fmt.Fprintf(&sb, "## seq %s.%s last=%d called=%v\n", sn0, qn, q.Last, q.Called)
			}
		}
	}
	return sb.String()
}

// DumpFiltered is Dump with a table filter.
func (db *DB) DumpFiltered(includeSeqs bool, skipTable func(schema, table string) bool) string {
	db.mu.Lock()
	defer db.mu.Unlock()
	return db.dumpLocked(includeSeqs, skipTable)
}

// SeqKey names a sequence.
type SeqKey struct{ Schema, Name string }

// SeqPositions returns, for every sequence, the last value nextval handed out (the value
// before the first one when nextval was never called). Sequences are not transactional:
// the difference between two calls is what was drawn in between, whether or not the
// transactions that drew it committed. Safe to call from a CallHook (takes the engine lock).
func (db *DB) SeqPositions() map[SeqKey]int64 {
	db.mu.Lock()
	defer db.mu.Unlock()
	out := map[SeqKey]int64{}
	for sn, sc := range db.schemas {
		for qn, q := range sc.Seqs {
			inc := q.Increment
			if inc < 1 {
				inc = 1
			}
			pos := q.Last
			if !q.Called {
				pos -= inc
			}
			out[SeqKey{sn, qn}] = pos
		}
	}
	return out
}

// OpenTransactions is the number of sessions with a transaction in progress.
func (db *DB) OpenTransactions() int {
	db.mu.Lock()
	defer db.mu.Unlock()
	n := 0
	for _, s := range db.sessions {
		if s.top != 0 {
			n++
		}
	}
	return n
}

// Clone deep-copies the database (catalog, heap, sequences, clock). No transaction
// may be in progress and no session may be open on the source's clone.
func (db *DB) Clone() *DB {
	db.mu.Lock()
	defer db.mu.Unlock()
	if db.anyActive() {
		panic("pgsim: Clone with a transaction in progress")
	}
	db.vacuum()
	n := NewDB()
	n.nextXid = db.nextXid
	n.csn = db.csn
	n.Clock = db.Clock
	n.ClockStep = db.ClockStep
	n.Mode = db.Mode
	n.MigrationMode = db.MigrationMode
	n.SkippedInMigration = append([]string(nil), db.SkippedInMigration...)
	n.schemas = map[string]*Schema{}
	for name, sc := range db.schemas {
		ns := newSchema(name)
		for k, t := range sc.Tables {
			ns.Tables[k] = cloneTable(t)
		}
		for k, q := range sc.Seqs {
			c := *q
			ns.Seqs[k] = &c
		}
		for k, f := range sc.Funcs {
			ns.Funcs[k] = append([]*Function(nil), f...)
		}
		for k, a := range sc.Aggs {
			ns.Aggs[k] = a
		}
		for k, t := range sc.Types {
			c := *t
			c.Enum = append([]string(nil), t.Enum...)
			ns.Types[k] = &c
		}
		n.schemas[name] = ns
	}
	return n
}

func cloneTable(t *Table) *Table {
	c := &Table{Schema: t.Schema, Name: t.Name, Temp: t.Temp, OnCommitDelete: t.OnCommitDelete}
	for _, col := range t.Cols {
		cc := *col
		c.Cols = append(c.Cols, &cc)
	}
	c.Rows = make([]*Row, len(t.Rows))
	for i, r := range t.Rows {
		nr := &Row{Vals: append([]Value(nil), r.Vals...), Xmin: r.Xmin, Cmin: r.Cmin}
		c.Rows[i] = nr
	}
	for _, ix := range t.Indexes {
		ci := *ix
		c.Indexes = append(c.Indexes, &ci)
	}
	for _, ck := range t.Checks {
		cc := *ck
		c.Checks = append(c.Checks, &cc)
	}
	for _, tg := range t.Triggers {
		ct := *tg
		c.Triggers = append(c.Triggers, &ct)
	}
	return c
}
