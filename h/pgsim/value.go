// Package pgsim is an in-process, deterministic interpreter of the Postgres subset the
// ledger uses, exposed as a database/sql driver. It is the environment model of every
// SQL-anchored check (see /verif/DESIGN.md §2). It fails closed: anything it does not
// implement raises an *EngineError, never a guess.
package pgsim

import (
	"bytes"
	"encoding/base64"
	"encoding/hex"
	"fmt"
	"math/big"
	"sort"
	"strconv"
	"strings"
	"time"
)

// Value is one SQL datum. Dynamic Go types:
//
//	nil        NULL
//	bool       boolean
//	int64      smallint / integer / bigint
//	Numeric    numeric (integers only; a fractional numeric is an engine error)
//	Text       text / varchar / enum labels
//	Unk        an untyped string literal ('…') that takes its type from context
//	Bytes      bytea
//	Timestamp  timestamp [with|without time zone], µs since epoch, UTC
//	*JSON      json / jsonb
//	*Array     arrays
//	*Record    composite values, whole rows
type Value any

type Numeric struct{ I *big.Int }
type Text string
type Unk string
type Bytes []byte
type Timestamp int64

type Array struct {
	Elem  string // element type name, may be ""
	Items []Value
}

type Record struct {
	Type  string // composite type name or "" for anonymous record
	Names []string
	Vals  []Value
}

// EngineError is a defect or limit of pgsim itself (unsupported SQL, etc).
type EngineError struct{ Msg string }

func (e *EngineError) Error() string { return "pgsim: " + e.Msg }

func engineErr(format string, a ...any) error {
	return &EngineError{Msg: fmt.Sprintf(format, a...)}
}

// PgError mirrors *pgconn.PgError fields; the driver converts it.
type PgError struct {
	Code       string
	Message    string
	Constraint string
	Table      string
}

func (e *PgError) Error() string { return fmt.Sprintf("ERROR: %s (SQLSTATE %s)", e.Message, e.Code) }

func pgErr(code, format string, a ...any) *PgError {
	return &PgError{Code: code, Message: fmt.Sprintf(format, a...)}
}

func num(i int64) Numeric   { return Numeric{big.NewInt(i)} }
func bigOf(b *big.Int) Numeric { return Numeric{b} }

// asBig returns the integer value of an int64/Numeric (and whether it was numeric).
func asBig(v Value) (*big.Int, bool, bool) {
	switch x := v.(type) {
	case int64:
		return big.NewInt(x), false, true
	case Numeric:
		return x.I, true, true
	}
	return nil, false, false
}

func typeNameOf(v Value) string {
	switch x := v.(type) {
	case nil:
		return "null"
	case bool:
		return "boolean"
	case int64:
		return "bigint"
	case Numeric:
		return "numeric"
	case Text:
		return "text"
	case Unk:
		return "unknown"
	case Bytes:
		return "bytea"
	case Timestamp:
		return "timestamp"
	case *JSON:
		if x.B {
			return "jsonb"
		}
		return "json"
	case *Array:
		return x.Elem + "[]"
	case *Record:
		if x.Type != "" {
			return x.Type
		}
		return "record"
	}
	return fmt.Sprintf("%T", v)
}

// ---------- text output (what `::text`, `||` and the wire use) ----------

func tsString(t Timestamp) string {
	tm := time.UnixMicro(int64(t)).UTC()
	s := tm.Format("2006-01-02 15:04:05")
	us := tm.Nanosecond() / 1000
	if us != 0 {
		f := fmt.Sprintf("%06d", us)
		f = strings.TrimRight(f, "0")
		s += "." + f
	}
	return s
}

// tsJSON is to_json(timestamp): ISO 8601 with 'T', fractional zeros trimmed.
func tsJSON(t Timestamp) string {
	return strings.Replace(tsString(t), " ", "T", 1)
}

func textOf(v Value) (string, error) {
	switch x := v.(type) {
	case nil:
		return "", nil
	case bool:
		if x {
			return "true", nil
		}
		return "false", nil
	case int64:
		return strconv.FormatInt(x, 10), nil
	case Numeric:
		return x.I.String(), nil
	case Text:
		return string(x), nil
	case Unk:
		return string(x), nil
	case Bytes:
		return "\\x" + hex.EncodeToString(x), nil
	case Timestamp:
		return tsString(x), nil
	case *JSON:
		return x.String(), nil
	case *Array:
		return arrayText(x)
	case *Record:
		return recordText(x)
	}
	return "", engineErr("textOf: unsupported %T", v)
}

func arrayText(a *Array) (string, error) {
	var sb strings.Builder
	sb.WriteByte('{')
	for i, it := range a.Items {
		if i > 0 {
			sb.WriteByte(',')
		}
		if it == nil {
			sb.WriteString("NULL")
			continue
		}
		s, err := textOf(it)
		if err != nil {
			return "", err
		}
		switch it.(type) {
		case int64, Numeric, bool:
			if b, ok := it.(bool); ok {
				if b {
					s = "t"
				} else {
					s = "f"
				}
			}
			sb.WriteString(s)
		default:
			if needArrayQuote(s) {
				sb.WriteByte('"')
				sb.WriteString(strings.NewReplacer(`\`, `\\`, `"`, `\"`).Replace(s))
				sb.WriteByte('"')
			} else {
				sb.WriteString(s)
			}
		}
	}
	sb.WriteByte('}')
	return sb.String(), nil
}

func needArrayQuote(s string) bool {
	if s == "" || strings.EqualFold(s, "null") {
		return true
	}
	return strings.ContainsAny(s, "{},\"\\ \t\n")
}

func recordText(r *Record) (string, error) {
	var sb strings.Builder
	sb.WriteByte('(')
	for i, it := range r.Vals {
		if i > 0 {
			sb.WriteByte(',')
		}
		if it == nil {
			continue
		}
		s, err := textOf(it)
		if err != nil {
			return "", err
		}
		if b, ok := it.(bool); ok {
			if b {
				s = "t"
			} else {
				s = "f"
			}
		}
		if s == "" || strings.ContainsAny(s, "(),\"\\ \t\n") {
			sb.WriteByte('"')
			sb.WriteString(strings.NewReplacer(`\`, `\\`, `"`, `""`).Replace(s))
			sb.WriteByte('"')
		} else {
			sb.WriteString(s)
		}
	}
	sb.WriteByte(')')
	return sb.String(), nil
}

// ---------- input parsing ----------

func parseBool(s string) (bool, error) {
	switch strings.ToLower(strings.TrimSpace(s)) {
	case "t", "true", "yes", "on", "1", "y":
		return true, nil
	case "f", "false", "no", "off", "0", "n":
		return false, nil
	}
	return false, pgErr("22P02", "invalid input syntax for type boolean: %q", s)
}

func parseInteger(s string, typ string) (*big.Int, error) {
	t := strings.TrimSpace(s)
	if t == "" {
		return nil, pgErr("22P02", "invalid input syntax for type %s: %q", typ, s)
	}
	b, ok := new(big.Int).SetString(t, 10)
	if ok {
		return b, nil
	}
	// decimal forms such as 12.0 or 1e3
	r, ok := new(big.Rat).SetString(t)
	if !ok {
		return nil, pgErr("22P02", "invalid input syntax for type %s: %q", typ, s)
	}
	if !r.IsInt() {
		if typ == "numeric" {
			return nil, engineErr("fractional numeric %q not supported", s)
		}
		// integer types round
		f := new(big.Float).SetRat(r)
		f.Add(f, big.NewFloat(0.5))
		i, _ := f.Int(nil)
		return i, nil
	}
	return new(big.Int).Set(r.Num()), nil
}

var tsLayouts = []string{
	"2006-01-02 15:04:05.999999999Z07:00",
	"2006-01-02T15:04:05.999999999Z07:00",
	"2006-01-02 15:04:05.999999999Z07",
	"2006-01-02 15:04:05.999999999",
	"2006-01-02T15:04:05.999999999",
	"2006-01-02",
}

// parseTimestamp parses a timestamp literal. withZone=false reproduces
// `timestamp without time zone` input: any zone suffix is ignored (the wall-clock
// fields are kept as they are), as Postgres does.
func parseTimestamp(s string, withZone bool) (Timestamp, error) {
	t := strings.TrimSpace(s)
	for _, l := range tsLayouts {
		tm, err := time.Parse(l, t)
		if err != nil {
			continue
		}
		if !withZone {
			tm = time.Date(tm.Year(), tm.Month(), tm.Day(), tm.Hour(), tm.Minute(), tm.Second(), tm.Nanosecond(), time.UTC)
		}
		return Timestamp(tm.UTC().UnixMicro()), nil
	}
	return 0, pgErr("22007", "invalid input syntax for type timestamp: %q", s)
}

// parseByteaEscape parses the text input format of bytea: hex (\x…) or escape
// format (\\ -> \, \ooo -> byte, other bytes verbatim).
func parseBytea(s string) (Bytes, error) {
	if strings.HasPrefix(s, "\\x") {
		b, err := hex.DecodeString(strings.Map(func(r rune) rune {
			if r == ' ' || r == '\n' || r == '\t' {
				return -1
			}
			return r
		}, s[2:]))
		if err != nil {
			return nil, pgErr("22P02", "invalid hexadecimal data for bytea")
		}
		return b, nil
	}
	var out []byte
	for i := 0; i < len(s); i++ {
		c := s[i]
		if c != '\\' {
			out = append(out, c)
			continue
		}
		if i+1 < len(s) && s[i+1] == '\\' {
			out = append(out, '\\')
			i++
			continue
		}
		if i+3 < len(s) && s[i+1] >= '0' && s[i+1] <= '3' && isOct(s[i+2]) && isOct(s[i+3]) {
			out = append(out, (s[i+1]-'0')<<6|(s[i+2]-'0')<<3|(s[i+3]-'0'))
			i += 3
			continue
		}
		return nil, pgErr("22P02", "invalid input syntax for type bytea")
	}
	return out, nil
}

func isOct(c byte) bool { return c >= '0' && c <= '7' }

// encodeEscape is encode(bytea, 'escape'): zero bytes and high-bit-set bytes as \ooo,
// backslash doubled, everything else verbatim.
func encodeEscape(b []byte) string {
	var sb strings.Builder
	for _, c := range b {
		switch {
		case c == 0 || c >= 0x80:
			fmt.Fprintf(&sb, "\\%03o", c)
		case c == '\\':
			sb.WriteString("\\\\")
		default:
			sb.WriteByte(c)
		}
	}
	return sb.String()
}

// encodeBase64 follows Postgres: MIME style, a newline every 76 output characters.
func encodeBase64(b []byte) string {
	s := base64.StdEncoding.EncodeToString(b)
	var sb strings.Builder
	for len(s) > 76 {
		sb.WriteString(s[:76])
		sb.WriteByte('\n')
		s = s[76:]
	}
	sb.WriteString(s)
	return sb.String()
}

// ---------- comparison ----------

// coercePair resolves Unk operands against the other side's type.
func coercePair(a, b Value) (Value, Value, error) {
	ua, aUnk := a.(Unk)
	ub, bUnk := b.(Unk)
	if aUnk && bUnk {
		return Text(ua), Text(ub), nil
	}
	var err error
	if aUnk {
		a, err = coerceLike(ua, b)
	} else if bUnk {
		b, err = coerceLike(ub, a)
	}
	return a, b, err
}

func coerceLike(u Unk, like Value) (Value, error) {
	switch l := like.(type) {
	case nil:
		return Text(u), nil
	case bool:
		return parseBoolV(string(u))
	case int64:
		b, err := parseInteger(string(u), "bigint")
		if err != nil {
			return nil, err
		}
		if b.IsInt64() {
			return b.Int64(), nil
		}
		return Numeric{b}, nil
	case Numeric:
		b, err := parseInteger(string(u), "numeric")
		if err != nil {
			return nil, err
		}
		return Numeric{b}, nil
	case Text:
		return Text(u), nil
	case Bytes:
		return parseBytea(string(u))
	case Timestamp:
		return parseTimestamp(string(u), false)
	case *JSON:
		j, err := ParseJSON(string(u))
		if err != nil {
			return nil, err
		}
		j.B = l.B
		if l.B {
			j = j.Normalize()
		} else {
			j.Raw = string(u) // doc 8.14: json stores an exact copy of the input text
		}
		return j, nil
	case *Array:
		return parseArrayLiteral(string(u), l.Elem)
	case *Record:
		return nil, engineErr("coerce unknown literal to record")
	}
	return nil, engineErr("coerceLike %T", like)
}

func parseBoolV(s string) (Value, error) {
	b, err := parseBool(s)
	if err != nil {
		return nil, err
	}
	return b, nil
}

func parseArrayLiteral(s string, elem string) (Value, error) {
	s = strings.TrimSpace(s)
	if len(s) < 2 || s[0] != '{' || s[len(s)-1] != '}' {
		return nil, pgErr("22P02", "malformed array literal: %q", s)
	}
	inner := s[1 : len(s)-1]
	arr := &Array{Elem: elem}
	if strings.TrimSpace(inner) == "" {
		return arr, nil
	}
	var cur strings.Builder
	inQ := false
	quoted := false
	flush := func() error {
		t := cur.String()
		var v Value
		if !quoted && strings.EqualFold(strings.TrimSpace(t), "null") {
			v = nil
		} else {
			if !quoted {
				t = strings.TrimSpace(t)
			}
			var err error
			v, err = castValue(Unk(t), elemOrText(elem))
			if err != nil {
				return err
			}
		}
		arr.Items = append(arr.Items, v)
		cur.Reset()
		quoted = false
		return nil
	}
	for i := 0; i < len(inner); i++ {
		c := inner[i]
		switch {
		case inQ && c == '\\' && i+1 < len(inner):
			i++
			cur.WriteByte(inner[i])
		case c == '"':
			inQ = !inQ
			quoted = true
		case !inQ && c == ',':
			if err := flush(); err != nil {
				return nil, err
			}
		case !inQ && c == '{':
			return nil, engineErr("nested array literal")
		default:
			cur.WriteByte(c)
		}
	}
	if err := flush(); err != nil {
		return nil, err
	}
	return arr, nil
}

func elemOrText(e string) string {
	if e == "" {
		return "text"
	}
	return e
}

// compareValues orders two non-null values of compatible type.
func compareValues(a, b Value) (int, error) {
	a, b, err := coercePair(a, b)
	if err != nil {
		return 0, err
	}
	switch x := a.(type) {
	case bool:
		y, ok := b.(bool)
		if !ok {
			break
		}
		if x == y {
			return 0, nil
		}
		if !x {
			return -1, nil
		}
		return 1, nil
	case int64, Numeric:
		xb, _, _ := asBig(a)
		yb, _, ok := asBig(b)
		if !ok {
			break
		}
		return xb.Cmp(yb), nil
	case Text:
		switch y := b.(type) {
		case Text:
			return strings.Compare(string(x), string(y)), nil
		}
	case Bytes:
		if y, ok := b.(Bytes); ok {
			return bytes.Compare(x, y), nil
		}
	case Timestamp:
		if y, ok := b.(Timestamp); ok {
			switch {
			case x < y:
				return -1, nil
			case x > y:
				return 1, nil
			}
			return 0, nil
		}
	case *JSON:
		if y, ok := b.(*JSON); ok {
			return compareJSON(x, y), nil
		}
	case *Array:
		if y, ok := b.(*Array); ok {
			for i := 0; i < len(x.Items) && i < len(y.Items); i++ {
				c, err := compareNullable(x.Items[i], y.Items[i])
				if err != nil || c != 0 {
					return c, err
				}
			}
			return len(x.Items) - len(y.Items), nil
		}
	case *Record:
		if y, ok := b.(*Record); ok {
			if len(x.Vals) != len(y.Vals) {
				return 0, pgErr("42804", "cannot compare record types with different numbers of columns")
			}
			for i := range x.Vals {
				c, err := compareNullable(x.Vals[i], y.Vals[i])
				if err != nil || c != 0 {
					return c, err
				}
			}
			return 0, nil
		}
	}
	return 0, engineErr("cannot compare %s with %s", typeNameOf(a), typeNameOf(b))
}

// compareNullable is the total order used by ORDER BY / DISTINCT / GROUP BY:
// NULL sorts after every non-null value (NULLS LAST for ASC).
func compareNullable(a, b Value) (int, error) {
	if a == nil && b == nil {
		return 0, nil
	}
	if a == nil {
		return 1, nil
	}
	if b == nil {
		return -1, nil
	}
	return compareValues(a, b)
}

// groupKey renders a canonical key for GROUP BY / DISTINCT / partitions.
func groupKey(vs []Value) (string, error) {
	var sb strings.Builder
	for _, v := range vs {
		if v == nil {
			sb.WriteString("\x00N|")
			continue
		}
		if u, ok := v.(Unk); ok {
			v = Text(u)
		}
		if n, ok := v.(int64); ok {
			v = num(n)
		}
		s, err := textOf(v)
		if err != nil {
			return "", err
		}
		sb.WriteString(typeNameOf(v)[:1])
		sb.WriteString(strconv.Itoa(len(s)))
		sb.WriteByte(':')
		sb.WriteString(s)
		sb.WriteByte('|')
	}
	return sb.String(), nil
}

// ---------- casts ----------

func baseType(t string) string {
	t = strings.ToLower(strings.TrimSpace(t))
	if i := strings.IndexByte(t, '('); i >= 0 && !strings.HasSuffix(t, "[]") {
		t = strings.TrimSpace(t[:i])
	}
	switch t {
	case "int", "int4", "integer", "int8", "bigint", "smallint", "int2", "serial", "bigserial", "serial4", "serial8", "oid":
		return "bigint"
	case "varchar", "character varying", "text", "char", "character", "name", "bpchar", "citext":
		return "text"
	case "bool", "boolean":
		return "boolean"
	case "timestamp", "timestamp without time zone":
		return "timestamp"
	case "timestamptz", "timestamp with time zone":
		return "timestamptz"
	case "numeric", "decimal":
		return "numeric"
	case "double precision", "float8", "real", "float4":
		return "float"
	}
	return t
}

func castValue(v Value, typ string) (Value, error) {
	if v == nil {
		return nil, nil
	}
	bt := baseType(typ)
	if strings.HasSuffix(bt, "[]") {
		elem := strings.TrimSuffix(bt, "[]")
		switch x := v.(type) {
		case *Array:
			out := &Array{Elem: baseType(elem)}
			for _, it := range x.Items {
				c, err := castValue(it, elem)
				if err != nil {
					return nil, err
				}
				out.Items = append(out.Items, c)
			}
			return out, nil
		case Unk:
			return parseArrayLiteral(string(x), baseType(elem))
		case Text:
			return parseArrayLiteral(string(x), baseType(elem))
		}
		return nil, engineErr("cast %s to %s", typeNameOf(v), typ)
	}
	switch bt {
	case "text":
		if u, ok := v.(Unk); ok {
			return Text(u), nil
		}
		if t, ok := v.(Text); ok {
			return t, nil
		}
		s, err := textOf(v)
		if err != nil {
			return nil, err
		}
		return Text(s), nil
	case "bigint":
		switch x := v.(type) {
		case int64:
			return x, nil
		case Numeric:
			if !x.I.IsInt64() {
				return nil, pgErr("22003", "bigint out of range")
			}
			return x.I.Int64(), nil
		case Text, Unk:
			s, _ := textOf(v)
			b, err := parseInteger(s, "bigint")
			if err != nil {
				return nil, err
			}
			if !b.IsInt64() {
				return nil, pgErr("22003", "value %q is out of range for type bigint", s)
			}
			return b.Int64(), nil
		case bool:
			if x {
				return int64(1), nil
			}
			return int64(0), nil
		case *JSON:
			if x.Kind == JNumber {
				b, err := parseInteger(x.S, "bigint")
				if err != nil {
					return nil, err
				}
				return b.Int64(), nil
			}
		}
	case "numeric":
		switch x := v.(type) {
		case int64:
			return num(x), nil
		case Numeric:
			return x, nil
		case Text, Unk:
			s, _ := textOf(v)
			b, err := parseInteger(s, "numeric")
			if err != nil {
				return nil, err
			}
			return Numeric{b}, nil
		case *JSON:
			if x.Kind == JNumber {
				b, err := parseInteger(x.S, "numeric")
				if err != nil {
					return nil, err
				}
				return Numeric{b}, nil
			}
			return nil, pgErr("22023", "cannot cast jsonb %s to type numeric", x.kindName())
		}
	case "boolean":
		switch x := v.(type) {
		case bool:
			return x, nil
		case Text, Unk:
			s, _ := textOf(v)
			return parseBoolV(s)
		case int64:
			return x != 0, nil
		case *JSON:
			if x.Kind == JBool {
				return x.Bv, nil
			}
		}
	case "timestamp", "timestamptz":
		switch x := v.(type) {
		case Timestamp:
			return x, nil
		case Text, Unk:
			s, _ := textOf(v)
			return parseTimestamp(s, bt == "timestamptz")
		}
	case "date":
		switch x := v.(type) {
		case Timestamp:
			d := int64(x) / 86400000000 * 86400000000
			return Timestamp(d), nil
		case Text, Unk:
			s, _ := textOf(v)
			return parseTimestamp(s, false)
		}
	case "bytea":
		switch x := v.(type) {
		case Bytes:
			return x, nil
		case Text, Unk:
			s, _ := textOf(v)
			return parseBytea(s)
		}
	case "json", "jsonb":
		switch x := v.(type) {
		case *JSON:
			c := x.Clone()
			if bt == "json" && x.B {
				// jsonb -> json: the json value is the jsonb text output (doc 8.14: json stores text)
				c.Raw = x.String()
			}
			c.B = bt == "jsonb"
			if c.B {
				c = c.Normalize()
			}
			return c, nil
		case Text, Unk:
			s, _ := textOf(v)
			j, err := ParseJSON(s)
			if err != nil {
				return nil, err
			}
			j.B = bt == "jsonb"
			if j.B {
				j = j.Normalize()
			} else {
				j.Raw = s // doc 8.14: json stores an exact copy of the input text
			}
			return j, nil
		}
	case "jsonpath":
		s, _ := textOf(v)
		return Text(s), nil
	case "regclass":
		s, _ := textOf(v)
		return Text(s), nil
	case "record":
		if r, ok := v.(*Record); ok {
			return r, nil
		}
	case "float":
		return nil, engineErr("floating point types are not supported")
	}
	return nil, errCastFallback{v: v, typ: typ}
}

// errCastFallback tells the caller (which knows the catalog) that typ may be a
// user-defined composite or enum type.
type errCastFallback struct {
	v   Value
	typ string
}

func (e errCastFallback) Error() string {
	return fmt.Sprintf("pgsim: cannot cast %s to %s", typeNameOf(e.v), e.typ)
}

// sortStable sorts idx by cmp, reporting the first comparison error.
func sortStable(n int, less func(i, j int) (bool, error), swap func(order []int)) error {
	order := make([]int, n)
	for i := range order {
		order[i] = i
	}
	var ferr error
	sort.SliceStable(order, func(a, b int) bool {
		l, err := less(order[a], order[b])
		if err != nil && ferr == nil {
			ferr = err
		}
		return l
	})
	if ferr != nil {
		return ferr
	}
	swap(order)
	return nil
}
