package pgsim

import (
	"fmt"
	"sort"
	"strings"
	"unicode/utf8"
)

func isDefaultMarker(e Expr) bool {
	c, ok := e.(*ColRef)
	return ok && len(c.Parts) == 1 && c.Parts[0] == "\x00default"
}

func (x *execCtx) castToColumn(v Value, c *Column) (Value, error) {
	if v == nil {
		return nil, nil
	}
	r, err := x.cast(v, c.Type)
	if err != nil {
		return nil, err
	}
	if c.MaxLen > 0 {
		if t, ok := r.(Text); ok && utf8.RuneCountInString(string(t)) > c.MaxLen {
			// Postgres truncates trailing spaces only; otherwise it is an error
			if strings.TrimRight(string(t), " ") != string(t) && utf8.RuneCountInString(strings.TrimRight(string(t), " ")) <= c.MaxLen {
				return Text([]rune(string(t))[:c.MaxLen]), nil
			}
			return nil, pgErr("22001", "value too long for type character varying(%d)", c.MaxLen)
		}
	}
	return r, nil
}

func (x *execCtx) defaultFor(c *Column) (Value, error) {
	if c.Default == nil {
		return nil, nil
	}
	if c.DefPath != nil {
		saved := x.s.pathOverride
		x.s.pathOverride = c.DefPath
		defer func() { x.s.pathOverride = saved }()
	}
	v, err := x.eval(c.Default, nil)
	if err != nil {
		return nil, err
	}
	return x.castToColumn(v, c)
}

func tableBinding(t *Table, alias string, vals []Value, src *Row) *relBinding {
	if alias == "" {
		alias = t.Name
	}
	return &relBinding{name: alias, cols: t.colNames(), vals: vals, src: src, tbl: t, rowType: t.qname()}
}

// ---------- row locking / EvalPlanQual ----------

// lockRow obtains the right to modify (or FOR UPDATE-lock) the newest version of row.
// It returns nil when the row was deleted or (after a concurrent update) no longer
// satisfies recheck.
func (x *execCtx) lockRow(t *Table, row *Row, recheck func(*Row) (bool, error), lockOnly bool) (*Row, error) {
	s := x.s
	db := s.db
	cur := row
	for {
		if cur.Xmax != 0 {
			st, _ := db.status(cur.Xmax)
			top := db.topOf(cur.Xmax)
			switch {
			case st == txAborted:
				cur.Xmax, cur.Cmax, cur.Next = 0, 0, nil
				continue
			case top == s.top && st == txInProgress:
				// already modified by this transaction (same command): skip
				return nil, nil
			case st == txInProgress:
				if err := s.waitFor(WaitInfo{HolderTop: top, HolderXid: cur.Xmax, What: fmt.Sprintf("row of %s", t.Name)}); err != nil {
					return nil, err
				}
				continue
			default: // committed
				if cur.Next == nil {
					return nil, nil
				}
				cur = cur.Next
				if recheck != nil {
					ok, err := recheck(cur)
					if err != nil {
						return nil, err
					}
					if !ok {
						return nil, nil
					}
				}
				continue
			}
		}
		// Locker is the (sub)transaction that took the lock: a row lock taken after a
		// savepoint is released when that savepoint is rolled back to (Postgres docs,
		// 13.3.2: "row-level locks are released at transaction end or during savepoint
		// rollback"), i.e. as soon as its subtransaction is aborted.
		if cur.Locker != 0 {
			st, _ := db.status(cur.Locker)
			switch {
			case st != txInProgress:
				cur.Locker = 0
			case db.topOf(cur.Locker) != s.top:
				if err := s.waitFor(WaitInfo{HolderTop: db.topOf(cur.Locker), HolderXid: cur.Locker, What: fmt.Sprintf("row lock of %s", t.Name)}); err != nil {
					return nil, err
				}
				continue
			}
		}
		if lockOnly && cur.Locker == 0 {
			// (a lock this transaction already holds, possibly from an outer level, is kept)
			cur.Locker = s.cur
		}
		return cur, nil
	}
}

// ---------- unique indexes ----------

func (x *execCtx) indexKey(t *Table, ix *Index, vals []Value) ([]Value, bool, error) {
	b := tableBinding(t, "", vals, nil)
	sc := &scope{rels: []*relBinding{b}}
	if ix.Where != nil {
		v, err := x.eval(ix.Where, sc)
		if err != nil {
			return nil, false, err
		}
		if bb, ok := v.(bool); !ok || !bb {
			return nil, false, nil
		}
	}
	var key []Value
	for _, el := range ix.Elems {
		var v Value
		if el.X != nil {
			var err error
			v, err = x.eval(el.X, sc)
			if err != nil {
				return nil, false, err
			}
		} else {
			i := t.colIndex(el.Col)
			if i < 0 {
				return nil, false, engineErr("index %s references missing column %s", ix.Name, el.Col)
			}
			v = vals[i]
		}
		if v == nil {
			return nil, false, nil // NULLs are distinct
		}
		key = append(key, v)
	}
	return key, true, nil
}

func keysEqual(a, b []Value) bool {
	for i := range a {
		c, err := compareValues(a[i], b[i])
		if err != nil || c != 0 {
			return false
		}
	}
	return true
}

// findConflict looks for a live (or possibly-live) row conflicting with vals on a
// unique index. It waits for in-progress writers, as a Postgres unique-index
// insertion does. restrict (may be nil) limits the check to the given indexes.
func (x *execCtx) findConflict(t *Table, vals []Value, self *Row, restrict func(*Index) bool) (*Row, *Index, error) {
	s := x.s
	db := s.db
restart:
	for _, ix := range t.Indexes {
		if !ix.Unique || (restrict != nil && !restrict(ix)) {
			continue
		}
		key, ok, err := x.indexKey(t, ix, vals)
		if err != nil {
			return nil, nil, err
		}
		if !ok {
			continue
		}
		for _, r := range t.Rows {
			if r == self {
				continue
			}
			k2, ok2, err := x.indexKey(t, ix, r.Vals)
			if err != nil {
				return nil, nil, err
			}
			if !ok2 || !keysEqual(key, k2) {
				continue
			}
			st, _ := db.status(r.Xmin)
			if st == txAborted {
				continue
			}
			if st == txInProgress && db.topOf(r.Xmin) != s.top {
				if err := s.waitFor(WaitInfo{HolderTop: db.topOf(r.Xmin), HolderXid: r.Xmin, What: "unique index " + ix.Name}); err != nil {
					return nil, nil, err
				}
				goto restart
			}
			if r.Xmax != 0 {
				sx, _ := db.status(r.Xmax)
				switch {
				case sx == txCommitted:
					continue
				case sx == txInProgress && db.topOf(r.Xmax) == s.top:
					continue // deleted/superseded by this transaction
				case sx == txInProgress:
					if err := s.waitFor(WaitInfo{HolderTop: db.topOf(r.Xmax), HolderXid: r.Xmax, What: "unique index " + ix.Name}); err != nil {
						return nil, nil, err
					}
					goto restart
				}
			}
			return r, ix, nil
		}
	}
	return nil, nil, nil
}

func uniqueViolation(t *Table, ix *Index) *PgError {
	e := pgErr("23505", "duplicate key value violates unique constraint %q", ix.Name)
	e.Constraint = ix.Name
	e.Table = t.Name
	return e
}

// ---------- constraints ----------

func (x *execCtx) checkConstraints(t *Table, vals []Value) error {
	for i, c := range t.Cols {
		if c.NotNull && vals[i] == nil {
			e := pgErr("23502", "null value in column %q of relation %q violates not-null constraint", c.Name, t.Name)
			e.Table = t.Name
			return e
		}
	}
	if len(t.Checks) > 0 {
		sc := &scope{rels: []*relBinding{tableBinding(t, "", vals, nil)}}
		for _, ck := range t.Checks {
			v, err := x.eval(ck.X, sc)
			if err != nil {
				return err
			}
			if b, ok := v.(bool); ok && !b {
				e := pgErr("23514", "new row for relation %q violates check constraint %q", t.Name, ck.Name)
				e.Constraint = ck.Name
				e.Table = t.Name
				return e
			}
		}
	}
	return nil
}

// ---------- triggers ----------

func (x *execCtx) triggersFor(t *Table, timing, event string, setCols []string) []*Trigger {
	var out []*Trigger
	for _, tg := range t.Triggers {
		if tg.Timing != timing {
			continue
		}
		match := false
		for _, ev := range tg.Events {
			if ev == event {
				match = true
			}
		}
		if !match {
			continue
		}
		if event == "update" && len(tg.UpdateOf) > 0 {
			hit := false
			for _, c := range tg.UpdateOf {
				for _, sc := range setCols {
					if sc == c {
						hit = true
					}
				}
			}
			if !hit {
				continue
			}
		}
		out = append(out, tg)
	}
	sort.SliceStable(out, func(i, j int) bool { return out[i].Name < out[j].Name })
	return out
}

func (x *execCtx) fireTrigger(t *Table, tg *Trigger, event string, newVals, oldVals []Value) ([]Value, bool, error) {
	cols := t.colNames()
	var rels []*relBinding
	var newRec, oldRec *Record
	if newVals != nil {
		newRec = &Record{Type: t.qname(),Names: cols, Vals: append([]Value(nil), newVals...)}
		rels = append(rels, &relBinding{name: "new", cols: cols, vals: newRec.Vals, hidden: true, rowType: t.qname()})
	}
	if oldVals != nil {
		oldRec = &Record{Type: t.qname(),Names: cols, Vals: oldVals}
		rels = append(rels, &relBinding{name: "old", cols: cols, vals: oldVals, hidden: true, rowType: t.qname()})
	}
	if tg.When != nil {
		v, err := x.eval(tg.When, &scope{rels: rels})
		if err != nil {
			return nil, false, err
		}
		if b, ok := v.(bool); !ok || !b {
			return newVals, true, nil
		}
	}
	sch := tg.FuncSchema
	fns := x.s.findFuncs(sch, tg.FuncName)
	if len(fns) == 0 && sch == "" {
		if sc := x.s.db.schemas[t.Schema]; sc != nil {
			fns = sc.Funcs[tg.FuncName]
		}
	}
	if len(fns) == 0 {
		return nil, false, pgErr("42883", "trigger function %s() does not exist", tg.FuncName)
	}
	res, err := x.callTriggerFunc(fns[0], t, tg, event, newRec, oldRec)
	if err != nil {
		return nil, false, err
	}
	if res == nil {
		return nil, false, nil
	}
	return res.Vals, true, nil
}

// ---------- INSERT ----------

func (x *execCtx) runInsert(ins *Insert, outer *scope) (*RowSet, int64, error) {
	if len(ins.With) > 0 {
		fr := &cteFrame{parent: x.ctes, m: map[string]*cteState{}}
		for _, c := range ins.With {
			fr.m[c.Name] = &cteState{def: c}
		}
		nx := *x
		nx.ctes = fr
		if nx.top == nil {
			nx.top = x
		}
		cp := *ins
		cp.With = nil
		return nx.runInsert(&cp, outer)
	}
	t, err := x.s.findTable(ins.Schema, ins.Table)
	if err != nil {
		return nil, 0, err
	}
	cols := ins.Cols
	if len(cols) == 0 {
		cols = t.colNames()
	}
	colIdx := make([]int, len(cols))
	for i, c := range cols {
		colIdx[i] = t.colIndex(c)
		if colIdx[i] < 0 {
			return nil, 0, pgErr("42703", "column %q of relation %q does not exist", c, t.Name)
		}
	}
	// source rows
	type srcRow struct {
		vals  []Value
		isDef []bool
	}
	var src []srcRow
	switch {
	case ins.Source == nil:
		src = append(src, srcRow{vals: nil})
		cols, colIdx = nil, nil
	case ins.Source.Values != nil && ins.Source.SetOp == "" && len(ins.Source.OrderBy) == 0:
		for _, row := range ins.Source.Values {
			if len(row) > len(cols) {
				return nil, 0, pgErr("42601", "INSERT has more expressions than target columns")
			}
			sr := srcRow{vals: make([]Value, len(row)), isDef: make([]bool, len(row))}
			for i, e := range row {
				if isDefaultMarker(e) {
					sr.isDef[i] = true
					continue
				}
				v, err := x.eval(e, outer)
				if err != nil {
					return nil, 0, err
				}
				sr.vals[i] = v
			}
			src = append(src, sr)
		}
	default:
		rs, err := x.child().runSelect(ins.Source, outer)
		if err != nil {
			return nil, 0, err
		}
		if len(rs.Cols) > len(cols) {
			return nil, 0, pgErr("42601", "INSERT has more expressions than target columns")
		}
		for _, r := range rs.Rows {
			src = append(src, srcRow{vals: r})
		}
	}

	alias := ins.Alias
	if alias == "" {
		alias = t.Name
	}
	ret := &RowSet{}
	if ins.Returning != nil {
		rc, _, err := x.expandSelectList(ins.Returning, []relShape{{name: alias, cols: t.colNames()}})
		if err != nil {
			return nil, 0, err
		}
		ret.Cols = rc
	}
	var affected int64
	var inserted []*Row

	for _, sr := range src {
		vals := make([]Value, len(t.Cols))
		given := make([]bool, len(t.Cols))
		for i, ci := range colIdx {
			if i >= len(sr.vals) {
				break
			}
			if sr.isDef != nil && sr.isDef[i] {
				continue
			}
			v, err := x.castToColumn(sr.vals[i], t.Cols[ci])
			if err != nil {
				return nil, 0, err
			}
			vals[ci] = v
			given[ci] = true
		}
		for ci, c := range t.Cols {
			if !given[ci] {
				v, err := x.defaultFor(c)
				if err != nil {
					return nil, 0, err
				}
				vals[ci] = v
			}
		}
		// BEFORE INSERT row triggers
		skip := false
		for _, tg := range x.triggersFor(t, "before", "insert", nil) {
			nv, ok, err := x.fireTrigger(t, tg, "insert", vals, nil)
			if err != nil {
				return nil, 0, err
			}
			if !ok {
				skip = true
				break
			}
			vals = nv
		}
		if skip {
			continue
		}
		for ci, c := range t.Cols {
			v, err := x.castToColumn(vals[ci], c)
			if err != nil {
				return nil, 0, err
			}
			vals[ci] = v
		}
		if err := x.checkConstraints(t, vals); err != nil {
			return nil, 0, err
		}
		// uniqueness / ON CONFLICT
		var restrict func(*Index) bool
		if ins.OnConflict != nil && (len(ins.OnConflict.Cols) > 0 || ins.OnConflict.Constraint != "") {
			arb, err := x.arbiterIndexes(t, ins.OnConflict)
			if err != nil {
				return nil, 0, err
			}
			restrict = func(ix *Index) bool {
				for _, a := range arb {
					if a == ix {
						return true
					}
				}
				return false
			}
		}
		var finalRow *Row
		var finalVals []Value
	retry:
		for {
			if ins.OnConflict != nil {
				conf, _, err := x.findConflict(t, vals, nil, restrict)
				if err != nil {
					return nil, 0, err
				}
				if conf != nil {
					if !ins.OnConflict.DoUpdate {
						finalRow = nil
						break retry
					}
					// lock the conflicting row's newest version
					locked, err := x.lockRow(t, conf, nil, false)
					if err != nil {
						return nil, 0, err
					}
					if locked == nil {
						continue retry // vanished: try the insert again
					}
					if st, _ := x.s.db.status(locked.Xmin); st == txInProgress && locked.Cmin == x.cid && x.s.db.topOf(locked.Xmin) == x.s.top {
						return nil, 0, pgErr("21000", "ON CONFLICT DO UPDATE command cannot affect row a second time")
					}
					nr, nv, err := x.applyConflictUpdate(t, ins, alias, locked, vals, outer)
					if err != nil {
						return nil, 0, err
					}
					finalRow, finalVals = nr, nv
					if nr != nil {
						affected++
					}
					break retry
				}
			}
			// any other unique index must also hold
			conf, ix, err := x.findConflict(t, vals, nil, nil)
			if err != nil {
				return nil, 0, err
			}
			if conf != nil {
				if ins.OnConflict != nil && restrict != nil && restrict(ix) {
					continue retry
				}
				if ins.OnConflict != nil && restrict == nil {
					continue retry
				}
				return nil, 0, uniqueViolation(t, ix)
			}
			r := &Row{Vals: vals, Xmin: x.s.cur, Cmin: x.cid}
			t.Rows = append(t.Rows, r)
			inserted = append(inserted, r)
			finalRow, finalVals = r, vals
			affected++
			// AFTER INSERT row triggers run at the end of the statement
			for _, tg := range x.triggersFor(t, "after", "insert", nil) {
				tg := tg
				nv := vals
				fire := func() error {
					_, _, err := x.fireTrigger(t, tg, "insert", nv, nil)
					return err
				}
				if tg.Deferred {
					x.s.deferred = append(x.s.deferred, fire)
				} else {
					x.root().after = append(x.root().after, fire)
				}
			}
			break retry
		}
		if finalRow != nil && ins.Returning != nil {
			row, err := x.evalReturning(ins.Returning, t, alias, finalVals, finalRow, outer, nil)
			if err != nil {
				return nil, 0, err
			}
			ret.Rows = append(ret.Rows, row)
		}
	}
	_ = inserted
	if x.top == nil {
		if err := x.flushAfter(); err != nil {
			return nil, 0, err
		}
	}
	return ret, affected, nil
}

func (x *execCtx) flushAfter() error {
	r := x.root()
	for len(r.after) > 0 {
		f := r.after[0]
		r.after = r.after[1:]
		if err := f(); err != nil {
			return err
		}
	}
	return nil
}

func (x *execCtx) arbiterIndexes(t *Table, oc *OnConflict) ([]*Index, error) {
	var out []*Index
	for _, ix := range t.Indexes {
		if !ix.Unique {
			continue
		}
		if oc.Constraint != "" {
			if ix.Name == oc.Constraint {
				out = append(out, ix)
			}
			continue
		}
		if len(ix.Elems) != len(oc.Cols) {
			continue
		}
		ok := true
		for _, c := range oc.Cols {
			found := false
			for _, el := range ix.Elems {
				if el.Col == c {
					found = true
				}
			}
			if !found {
				ok = false
			}
		}
		if !ok {
			continue
		}
		if ix.Where != nil && oc.IndexWhere == nil {
			continue // a partial index needs a matching predicate
		}
		out = append(out, ix)
	}
	if len(out) == 0 {
		return nil, pgErr("42P10", "there is no unique or exclusion constraint matching the ON CONFLICT specification")
	}
	return out, nil
}

func (x *execCtx) applyConflictUpdate(t *Table, ins *Insert, alias string, target *Row, proposed []Value, outer *scope) (*Row, []Value, error) {
	oc := ins.OnConflict
	cols := t.colNames()
	tb := tableBinding(t, alias, target.Vals, target)
	rels := []*relBinding{tb, {name: "excluded", cols: cols, vals: proposed, hidden: true, rowType: t.qname()}}
	if alias != t.Name {
		rels = append(rels, &relBinding{name: t.Name, cols: cols, vals: target.Vals, hidden: true, rowType: t.qname()})
		// Postgres only exposes the alias; keep the table name too since bun omits aliases
		rels = rels[:2]
	}
	sc := &scope{parent: outer, rels: rels}
	if oc.Where != nil {
		v, err := x.eval(oc.Where, sc)
		if err != nil {
			return nil, nil, err
		}
		if b, ok := v.(bool); !ok || !b {
			return nil, nil, nil
		}
	}
	nv, setCols, err := x.applySet(t, oc.Set, target.Vals, sc)
	if err != nil {
		return nil, nil, err
	}
	nr, err := x.updateRow(t, target, nv, setCols)
	if err != nil {
		return nil, nil, err
	}
	if nr == nil {
		return nil, nil, nil
	}
	return nr, nr.Vals, nil
}

func (x *execCtx) applySet(t *Table, set []SetClause, old []Value, sc *scope) ([]Value, []string, error) {
	nv := append([]Value(nil), old...)
	var setCols []string
	for _, c := range set {
		if len(c.Cols) == 1 {
			ci := t.colIndex(c.Cols[0])
			if ci < 0 {
				return nil, nil, pgErr("42703", "column %q of relation %q does not exist", c.Cols[0], t.Name)
			}
			var v Value
			var err error
			if isDefaultMarker(c.X) {
				v, err = x.defaultFor(t.Cols[ci])
			} else {
				v, err = x.eval(c.X, sc)
				if err == nil {
					v, err = x.castToColumn(v, t.Cols[ci])
				}
			}
			if err != nil {
				return nil, nil, err
			}
			nv[ci] = v
			setCols = append(setCols, c.Cols[0])
			continue
		}
		v, err := x.eval(c.X, sc)
		if err != nil {
			return nil, nil, err
		}
		rec, ok := v.(*Record)
		if !ok || len(rec.Vals) != len(c.Cols) {
			return nil, nil, pgErr("42601", "number of columns does not match number of values")
		}
		for i, cn := range c.Cols {
			ci := t.colIndex(cn)
			if ci < 0 {
				return nil, nil, pgErr("42703", "column %q of relation %q does not exist", cn, t.Name)
			}
			cv, err := x.castToColumn(rec.Vals[i], t.Cols[ci])
			if err != nil {
				return nil, nil, err
			}
			nv[ci] = cv
			setCols = append(setCols, cn)
		}
	}
	return nv, setCols, nil
}

// updateRow creates a new version of target (already locked by lockRow).
func (x *execCtx) updateRow(t *Table, target *Row, nv []Value, setCols []string) (*Row, error) {
	old := target.Vals
	for _, tg := range x.triggersFor(t, "before", "update", setCols) {
		r, ok, err := x.fireTrigger(t, tg, "update", nv, old)
		if err != nil {
			return nil, err
		}
		if !ok {
			return nil, nil
		}
		nv = r
	}
	for ci, c := range t.Cols {
		v, err := x.castToColumn(nv[ci], c)
		if err != nil {
			return nil, err
		}
		nv[ci] = v
	}
	if err := x.checkConstraints(t, nv); err != nil {
		return nil, err
	}
	conf, ix, err := x.findConflict(t, nv, target, nil)
	if err != nil {
		return nil, err
	}
	if conf != nil {
		return nil, uniqueViolation(t, ix)
	}
	nr := &Row{Vals: nv, Xmin: x.s.cur, Cmin: x.cid}
	target.Xmax, target.Cmax, target.Next = x.s.cur, x.cid, nr
	t.Rows = append(t.Rows, nr)
	for _, tg := range x.triggersFor(t, "after", "update", setCols) {
		tg := tg
		fire := func() error {
			_, _, err := x.fireTrigger(t, tg, "update", nv, old)
			return err
		}
		if tg.Deferred {
			x.s.deferred = append(x.s.deferred, fire)
		} else {
			x.root().after = append(x.root().after, fire)
		}
	}
	return nr, nil
}

func (x *execCtx) evalReturning(list []SelCol, t *Table, alias string, vals []Value, row *Row, outer *scope, extra []*relBinding) ([]Value, error) {
	tb := tableBinding(t, alias, vals, row)
	rels := append([]*relBinding{tb}, extra...)
	if alias != t.Name {
		rels = append(rels, &relBinding{name: t.Name, cols: tb.cols, vals: vals, hidden: true, rowType: t.qname()})
	}
	sc := &scope{parent: outer, rels: rels}
	_, exprs, err := x.expandSelectList(list, []relShape{{name: alias, cols: tb.cols}})
	if err != nil {
		return nil, err
	}
	out := make([]Value, len(exprs))
	for i, e := range exprs {
		if e.rel != nil {
			out[i] = vals[e.colIdx]
			continue
		}
		v, err := x.eval(e.x, sc)
		if err != nil {
			return nil, err
		}
		if u, ok := v.(Unk); ok {
			v = Text(u)
		}
		out[i] = v
	}
	return out, nil
}

// ---------- UPDATE ----------

func (x *execCtx) runUpdate(u *Update, outer *scope) (*RowSet, int64, error) {
	if len(u.With) > 0 {
		fr := &cteFrame{parent: x.ctes, m: map[string]*cteState{}}
		for _, c := range u.With {
			fr.m[c.Name] = &cteState{def: c}
		}
		nx := *x
		nx.ctes = fr
		if nx.top == nil {
			nx.top = x
		}
		cp := *u
		cp.With = nil
		return nx.runUpdate(&cp, outer)
	}
	t, err := x.s.findTable(u.Schema, u.Table)
	if err != nil {
		return nil, 0, err
	}
	alias := u.Alias
	if alias == "" {
		alias = t.Name
	}
	var fromShapes []relShape
	fromCombos := [][]*relBinding{{}}
	if len(u.From) > 0 {
		fromShapes, fromCombos, err = x.evalFrom(u.From, outer)
		if err != nil {
			return nil, 0, err
		}
	}
	ret := &RowSet{}
	retShapes := append([]relShape{{name: alias, cols: t.colNames()}}, fromShapes...)
	if u.Returning != nil {
		rc, _, err := x.expandSelectList(u.Returning, retShapes)
		if err != nil {
			return nil, 0, err
		}
		ret.Cols = rc
	}
	var affected int64
	// candidate rows under the statement snapshot
	var cands []*Row
	for _, r := range t.Rows {
		if x.s.db.rowVisible(r, x.snap) {
			cands = append(cands, r)
		}
	}
	match := func(r *Row) ([]*relBinding, bool, error) {
		tb := tableBinding(t, alias, r.Vals, r)
		for _, fc := range fromCombos {
			rels := append([]*relBinding{tb}, fc...)
			if u.Where == nil {
				return fc, true, nil
			}
			v, err := x.eval(u.Where, &scope{parent: outer, rels: rels})
			if err != nil {
				return nil, false, err
			}
			if b, ok := v.(bool); ok && b {
				return fc, true, nil
			}
		}
		return nil, false, nil
	}
	for _, r := range cands {
		fc, ok, err := match(r)
		if err != nil {
			return nil, 0, err
		}
		if !ok {
			continue
		}
		target, err := x.lockRow(t, r, func(cand *Row) (bool, error) {
			nfc, ok, err := match(cand)
			if ok {
				fc = nfc
			}
			return ok, err
		}, false)
		if err != nil {
			return nil, 0, err
		}
		if target == nil {
			continue
		}
		tb := tableBinding(t, alias, target.Vals, target)
		sc := &scope{parent: outer, rels: append([]*relBinding{tb}, fc...)}
		nv, setCols, err := x.applySet(t, u.Set, target.Vals, sc)
		if err != nil {
			return nil, 0, err
		}
		nr, err := x.updateRow(t, target, nv, setCols)
		if err != nil {
			return nil, 0, err
		}
		if nr == nil {
			continue
		}
		affected++
		if u.Returning != nil {
			row, err := x.evalReturningShapes(u.Returning, retShapes, t, alias, nr.Vals, nr, outer, fc)
			if err != nil {
				return nil, 0, err
			}
			ret.Rows = append(ret.Rows, row)
		}
	}
	if x.top == nil {
		if err := x.flushAfter(); err != nil {
			return nil, 0, err
		}
	}
	return ret, affected, nil
}

func (x *execCtx) evalReturningShapes(list []SelCol, shapes []relShape, t *Table, alias string, vals []Value, row *Row, outer *scope, extra []*relBinding) ([]Value, error) {
	tb := tableBinding(t, alias, vals, row)
	rels := append([]*relBinding{tb}, extra...)
	sc := &scope{parent: outer, rels: rels}
	_, exprs, err := x.expandSelectList(list, shapes)
	if err != nil {
		return nil, err
	}
	out := make([]Value, len(exprs))
	for i, e := range exprs {
		if e.rel != nil {
			b := findBinding(sc, e.rel.name, e.relIdx)
			if b == nil {
				return nil, engineErr("RETURNING lost binding %s", e.rel.name)
			}
			out[i] = b.vals[e.colIdx]
			continue
		}
		v, err := x.eval(e.x, sc)
		if err != nil {
			return nil, err
		}
		if u, ok := v.(Unk); ok {
			v = Text(u)
		}
		out[i] = v
	}
	return out, nil
}

// ---------- DELETE ----------

func (x *execCtx) runDelete(d *Delete, outer *scope) (*RowSet, int64, error) {
	if len(d.With) > 0 {
		fr := &cteFrame{parent: x.ctes, m: map[string]*cteState{}}
		for _, c := range d.With {
			fr.m[c.Name] = &cteState{def: c}
		}
		nx := *x
		nx.ctes = fr
		if nx.top == nil {
			nx.top = x
		}
		cp := *d
		cp.With = nil
		return nx.runDelete(&cp, outer)
	}
	t, err := x.s.findTable(d.Schema, d.Table)
	if err != nil {
		return nil, 0, err
	}
	alias := d.Alias
	if alias == "" {
		alias = t.Name
	}
	usingCombos := [][]*relBinding{{}}
	var usingShapes []relShape
	if len(d.Using) > 0 {
		usingShapes, usingCombos, err = x.evalFrom(d.Using, outer)
		if err != nil {
			return nil, 0, err
		}
	}
	ret := &RowSet{}
	retShapes := append([]relShape{{name: alias, cols: t.colNames()}}, usingShapes...)
	if d.Returning != nil {
		rc, _, err := x.expandSelectList(d.Returning, retShapes)
		if err != nil {
			return nil, 0, err
		}
		ret.Cols = rc
	}
	var affected int64
	var cands []*Row
	for _, r := range t.Rows {
		if x.s.db.rowVisible(r, x.snap) {
			cands = append(cands, r)
		}
	}
	match := func(r *Row) ([]*relBinding, bool, error) {
		tb := tableBinding(t, alias, r.Vals, r)
		for _, fc := range usingCombos {
			if d.Where == nil {
				return fc, true, nil
			}
			v, err := x.eval(d.Where, &scope{parent: outer, rels: append([]*relBinding{tb}, fc...)})
			if err != nil {
				return nil, false, err
			}
			if b, ok := v.(bool); ok && b {
				return fc, true, nil
			}
		}
		return nil, false, nil
	}
	for _, r := range cands {
		fc, ok, err := match(r)
		if err != nil {
			return nil, 0, err
		}
		if !ok {
			continue
		}
		target, err := x.lockRow(t, r, func(c *Row) (bool, error) {
			_, ok, err := match(c)
			return ok, err
		}, false)
		if err != nil {
			return nil, 0, err
		}
		if target == nil {
			continue
		}
		skip := false
		for _, tg := range x.triggersFor(t, "before", "delete", nil) {
			_, ok, err := x.fireTrigger(t, tg, "delete", nil, target.Vals)
			if err != nil {
				return nil, 0, err
			}
			if !ok {
				skip = true
			}
		}
		if skip {
			continue
		}
		target.Xmax, target.Cmax, target.Next = x.s.cur, x.cid, nil
		affected++
		// AFTER DELETE row triggers (doc 39.1: fired at the end of the statement, OLD is the
		// deleted row), in trigger-name order
		for _, tg := range x.triggersFor(t, "after", "delete", nil) {
			tg := tg
			old := target.Vals
			fire := func() error {
				_, _, err := x.fireTrigger(t, tg, "delete", nil, old)
				return err
			}
			if tg.Deferred {
				x.s.deferred = append(x.s.deferred, fire)
			} else {
				x.root().after = append(x.root().after, fire)
			}
		}
		if d.Returning != nil {
			row, err := x.evalReturningShapes(d.Returning, retShapes, t, alias, target.Vals, target, outer, fc)
			if err != nil {
				return nil, 0, err
			}
			ret.Rows = append(ret.Rows, row)
		}
	}
	if x.top == nil {
		if err := x.flushAfter(); err != nil {
			return nil, 0, err
		}
	}
	return ret, affected, nil
}
