package pgsim

import (
	"math/big"
	"strings"
)

type parser struct {
	toks []token
	i    int
	src  string
}

func newParser(src string, toks []token) *parser {
	if len(toks) == 0 || toks[len(toks)-1].k != tEOF {
		toks = append(append([]token{}, toks...), token{k: tEOF})
	}
	return &parser{toks: toks, src: src}
}

func (p *parser) peek() token { return p.toks[p.i] }
func (p *parser) peekN(n int) token {
	if p.i+n < len(p.toks) {
		return p.toks[p.i+n]
	}
	return token{k: tEOF}
}
func (p *parser) next() token {
	t := p.toks[p.i]
	if t.k != tEOF {
		p.i++
	}
	return t
}
func (p *parser) atEOF() bool { return p.peek().k == tEOF }

func (p *parser) errHere(what string) error {
	t := p.peek()
	near := t.s
	if t.k == tEOF {
		near = "end of input"
	}
	return &EngineError{Msg: "parse: " + what + " near " + strconvQuote(near) + " in: " + p.context()}
}

func strconvQuote(s string) string { return "\"" + s + "\"" }

func (p *parser) context() string {
	t := p.peek()
	if p.src == "" {
		return ""
	}
	st := t.pos - 60
	if st < 0 {
		st = 0
	}
	en := t.pos + 40
	if en > len(p.src) {
		en = len(p.src)
	}
	if st > len(p.src) {
		return ""
	}
	return strings.ReplaceAll(p.src[st:en], "\n", " ")
}

func (p *parser) kw(s string) bool {
	if p.peek().isKw(s) {
		p.i++
		return true
	}
	return false
}

func (p *parser) kws(ss ...string) bool {
	for k, s := range ss {
		if !p.peekN(k).isKw(s) {
			return false
		}
	}
	p.i += len(ss)
	return true
}

func (p *parser) op(s string) bool {
	if p.peek().isOp(s) {
		p.i++
		return true
	}
	return false
}

func (p *parser) expectKw(s string) error {
	if !p.kw(s) {
		return p.errHere("expected " + strings.ToUpper(s))
	}
	return nil
}

func (p *parser) expectOp(s string) error {
	if !p.op(s) {
		return p.errHere("expected '" + s + "'")
	}
	return nil
}

// ident reads an identifier (quoted or not).
func (p *parser) ident() (string, error) {
	t := p.peek()
	if t.k == tIdent || t.k == tQIdent {
		p.i++
		return t.s, nil
	}
	return "", p.errHere("expected identifier")
}

// qualName reads [schema.]name
func (p *parser) qualName() (string, string, error) {
	a, err := p.ident()
	if err != nil {
		return "", "", err
	}
	if p.peek().isOp(".") && (p.peekN(1).k == tIdent || p.peekN(1).k == tQIdent) {
		p.i++
		b, _ := p.ident()
		return a, b, nil
	}
	return "", a, nil
}

var reservedNoAlias = map[string]bool{
	"from": true, "where": true, "group": true, "having": true, "order": true, "limit": true, "offset": true,
	"union": true, "except": true, "intersect": true, "for": true, "on": true, "join": true, "inner": true,
	"left": true, "right": true, "full": true, "cross": true, "natural": true, "using": true, "returning": true,
	"into": true, "as": true, "when": true, "then": true, "else": true, "end": true, "and": true, "or": true,
	"not": true, "is": true, "in": true, "like": true, "ilike": true, "between": true, "window": true, "fetch": true,
	"lateral": true, "set": true, "values": true, "select": true, "with": true, "do": true, "loop": true,
	"by": true, "asc": true, "desc": true, "nulls": true, "conflict": true, "over": true, "collate": true,
	"at": true, "isnull": true, "notnull": true, "default": true,
}

// ---------- statements ----------

func parseStatement(src string, toks []token) (Stmt, error) {
	p := newParser(src, toks)
	s, err := p.statement()
	if err != nil {
		return nil, err
	}
	p.op(";")
	if !p.atEOF() {
		return nil, p.errHere("unexpected trailing tokens")
	}
	return s, nil
}

func (p *parser) statement() (Stmt, error) {
	t := p.peek()
	if t.isOp("(") {
		return p.selectStmt()
	}
	if t.k != tIdent {
		return nil, p.errHere("expected statement")
	}
	switch t.s {
	case "select", "values", "with":
		if t.s == "with" {
			return p.withStatement()
		}
		return p.selectStmt()
	case "insert":
		return p.insertStmt(nil)
	case "update":
		return p.updateStmt(nil)
	case "delete":
		return p.deleteStmt(nil)
	case "create":
		return p.createStmt()
	case "alter":
		return p.alterStmt()
	case "drop":
		return p.dropStmt()
	case "set":
		return p.setStmt()
	case "call":
		p.i++
		e, err := p.expr(0)
		if err != nil {
			return nil, err
		}
		f, ok := e.(*FuncX)
		if !ok {
			return nil, p.errHere("CALL expects a procedure call")
		}
		return &CallStmt{Call: f}, nil
	case "do":
		p.i++
		d := &DoStmt{Lang: "plpgsql"}
		for !p.atEOF() && !p.peek().isOp(";") {
			if p.kw("language") {
				l, _ := p.ident()
				d.Lang = l
				continue
			}
			t := p.next()
			if t.k == tString {
				d.Body = t.s
			}
		}
		return d, nil
	case "analyze", "vacuum", "lock", "comment", "grant", "revoke", "reindex", "notify", "listen", "unlisten", "discard", "reset":
		for !p.atEOF() && !p.peek().isOp(";") {
			p.i++
		}
		return &NoopStmt{What: t.s}, nil
	case "begin", "start":
		for !p.atEOF() && !p.peek().isOp(";") {
			p.i++
		}
		return &TxStmt{Kind: "begin"}, nil
	case "commit", "end":
		for !p.atEOF() && !p.peek().isOp(";") {
			p.i++
		}
		return &TxStmt{Kind: "commit"}, nil
	case "rollback", "abort":
		p.i++
		p.kw("transaction")
		p.kw("work")
		if p.kw("to") {
			p.kw("savepoint")
			n, err := p.ident()
			if err != nil {
				return nil, err
			}
			return &TxStmt{Kind: "rollback_to", Name: n}, nil
		}
		return &TxStmt{Kind: "rollback"}, nil
	case "savepoint":
		p.i++
		n, err := p.ident()
		if err != nil {
			return nil, err
		}
		return &TxStmt{Kind: "savepoint", Name: n}, nil
	case "release":
		p.i++
		p.kw("savepoint")
		n, err := p.ident()
		if err != nil {
			return nil, err
		}
		return &TxStmt{Kind: "release", Name: n}, nil
	}
	return nil, p.errHere("unsupported statement")
}

func (p *parser) setStmt() (Stmt, error) {
	p.i++ // set
	s := &SetStmt{}
	if p.kw("local") {
		s.Local = true
	} else {
		p.kw("session")
	}
	n, err := p.ident()
	if err != nil {
		return nil, err
	}
	s.Name = n
	if !p.op("=") && !p.kw("to") {
		// SET TIME ZONE etc.
		for !p.atEOF() && !p.peek().isOp(";") {
			p.i++
		}
		return &NoopStmt{What: "set"}, nil
	}
	var parts []string
	for !p.atEOF() && !p.peek().isOp(";") {
		t := p.next()
		if t.isOp(",") {
			continue
		}
		parts = append(parts, t.s)
	}
	s.Value = strings.Join(parts, ",")
	return s, nil
}

func (p *parser) cteList() ([]*CTE, bool, error) {
	if !p.kw("with") {
		return nil, false, nil
	}
	rec := p.kw("recursive")
	var out []*CTE
	for {
		name, err := p.ident()
		if err != nil {
			return nil, false, err
		}
		c := &CTE{Name: name}
		if p.op("(") {
			for {
				cn, err := p.ident()
				if err != nil {
					return nil, false, err
				}
				c.ColNames = append(c.ColNames, cn)
				if !p.op(",") {
					break
				}
			}
			if err := p.expectOp(")"); err != nil {
				return nil, false, err
			}
		}
		if err := p.expectKw("as"); err != nil {
			return nil, false, err
		}
		if p.kw("not") {
			p.kw("materialized")
		} else {
			p.kw("materialized")
		}
		if err := p.expectOp("("); err != nil {
			return nil, false, err
		}
		var st Stmt
		switch {
		case p.peek().isKw("insert"):
			st, err = p.insertStmt(nil)
		case p.peek().isKw("update"):
			st, err = p.updateStmt(nil)
		case p.peek().isKw("delete"):
			st, err = p.deleteStmt(nil)
		default:
			st, err = p.selectStmt()
		}
		if err != nil {
			return nil, false, err
		}
		c.Stmt = st
		if err := p.expectOp(")"); err != nil {
			return nil, false, err
		}
		out = append(out, c)
		if !p.op(",") {
			break
		}
	}
	return out, rec, nil
}

func (p *parser) withStatement() (Stmt, error) {
	ctes, rec, err := p.cteList()
	if err != nil {
		return nil, err
	}
	switch {
	case p.peek().isKw("insert"):
		return p.insertStmt(ctes)
	case p.peek().isKw("update"):
		return p.updateStmt(ctes)
	case p.peek().isKw("delete"):
		return p.deleteStmt(ctes)
	}
	s, err := p.selectStmt()
	if err != nil {
		return nil, err
	}
	s.With = append(ctes, s.With...)
	s.Recursive = rec
	return s, nil
}

// selectStmt parses a full query expression: set operations, ORDER BY, LIMIT, FOR UPDATE.
func (p *parser) selectStmt() (*Select, error) {
	var ctes []*CTE
	rec := false
	if p.peek().isKw("with") {
		var err error
		ctes, rec, err = p.cteList()
		if err != nil {
			return nil, err
		}
	}
	left, err := p.selectTerm()
	if err != nil {
		return nil, err
	}
	for {
		var opName string
		switch {
		case p.peek().isKw("union"):
			opName = "union"
		case p.peek().isKw("except"):
			opName = "except"
		case p.peek().isKw("intersect"):
			opName = "intersect"
		}
		if opName == "" {
			break
		}
		p.i++
		all := p.kw("all")
		p.kw("distinct")
		right, err := p.selectTerm()
		if err != nil {
			return nil, err
		}
		left = &Select{SetOp: opName, SetAll: all, Left: left, Right: right}
	}
	// trailing clauses bind to the whole set operation, or to a simple select that
	// did not already consume them.
	target := left
	if target.Parens && (p.peek().isKw("order") || p.peek().isKw("limit") || p.peek().isKw("offset") || p.peek().isKw("for")) {
		target = &Select{SetOp: "wrap", Left: left}
	}
	if err := p.trailing(target); err != nil {
		return nil, err
	}
	if len(ctes) > 0 {
		target.With = append(ctes, target.With...)
		target.Recursive = rec
	}
	return target, nil
}

func (p *parser) trailing(s *Select) error {
	for {
		switch {
		case p.peek().isKw("order") && p.peekN(1).isKw("by"):
			p.i += 2
			ob, err := p.orderList()
			if err != nil {
				return err
			}
			s.OrderBy = ob
		case p.peek().isKw("limit"):
			p.i++
			if p.kw("all") {
				continue
			}
			e, err := p.expr(0)
			if err != nil {
				return err
			}
			s.Limit = e
		case p.peek().isKw("offset"):
			p.i++
			e, err := p.expr(0)
			if err != nil {
				return err
			}
			s.Offset = e
			if !p.kw("rows") {
				p.kw("row")
			}
		case p.peek().isKw("for") && (p.peekN(1).isKw("update") || p.peekN(1).isKw("share") || p.peekN(1).isKw("no") || p.peekN(1).isKw("key")):
			p.i++
			switch {
			case p.kw("update"):
				s.Lock = "update"
			case p.kw("share"):
				s.Lock = "share"
			case p.kws("no", "key", "update"):
				s.Lock = "update"
			case p.kws("key", "share"):
				s.Lock = "share"
			}
			if p.kw("of") {
				for {
					if _, err := p.ident(); err != nil {
						return err
					}
					if !p.op(",") {
						break
					}
				}
			}
			if p.kws("skip", "locked") || p.kw("nowait") {
				return p.errHere("SKIP LOCKED / NOWAIT not supported")
			}
		default:
			return nil
		}
	}
}

func (p *parser) orderList() ([]OrderItem, error) {
	var out []OrderItem
	for {
		e, err := p.expr(0)
		if err != nil {
			return nil, err
		}
		it := OrderItem{X: e}
		if p.kw("desc") {
			it.Desc = true
		} else {
			p.kw("asc")
		}
		if p.kw("nulls") {
			if p.kw("first") {
				b := true
				it.NullsFirst = &b
			} else if p.kw("last") {
				b := false
				it.NullsFirst = &b
			}
		}
		out = append(out, it)
		if !p.op(",") {
			break
		}
	}
	return out, nil
}

// selectTerm: a parenthesised query, VALUES, or SELECT … (without set ops; but
// including its own ORDER BY/LIMIT only when parenthesised).
func (p *parser) selectTerm() (*Select, error) {
	if p.op("(") {
		s, err := p.selectStmt()
		if err != nil {
			return nil, err
		}
		if err := p.expectOp(")"); err != nil {
			return nil, err
		}
		s.Parens = true
		return s, nil
	}
	if p.kw("values") {
		s := &Select{}
		for {
			if err := p.expectOp("("); err != nil {
				return nil, err
			}
			var row []Expr
			for {
				if p.peek().isKw("default") {
					p.i++
					row = append(row, &ColRef{Parts: []string{"\x00default"}})
				} else {
					e, err := p.expr(0)
					if err != nil {
						return nil, err
					}
					row = append(row, e)
				}
				if !p.op(",") {
					break
				}
			}
			if err := p.expectOp(")"); err != nil {
				return nil, err
			}
			s.Values = append(s.Values, row)
			if !p.op(",") {
				break
			}
		}
		return s, nil
	}
	if err := p.expectKw("select"); err != nil {
		return nil, err
	}
	s := &Select{}
	if p.kw("distinct") {
		if p.kw("on") {
			if err := p.expectOp("("); err != nil {
				return nil, err
			}
			for {
				e, err := p.expr(0)
				if err != nil {
					return nil, err
				}
				s.DistinctOn = append(s.DistinctOn, e)
				if !p.op(",") {
					break
				}
			}
			if err := p.expectOp(")"); err != nil {
				return nil, err
			}
		} else {
			s.Distinct = true
		}
	} else {
		p.kw("all")
	}
	// select list (may be empty: `select from …`)
	if !p.peek().isKw("from") && !p.atEOF() && !p.peek().isOp(")") && !p.peek().isOp(";") {
		for {
			e, err := p.expr(0)
			if err != nil {
				return nil, err
			}
			c := SelCol{X: e}
			if p.kw("as") {
				a, err := p.identOrKeyword()
				if err != nil {
					return nil, err
				}
				c.Alias = a
			} else if t := p.peek(); (t.k == tIdent && !reservedNoAlias[t.s]) || t.k == tQIdent {
				p.i++
				c.Alias = t.s
			}
			s.Cols = append(s.Cols, c)
			if !p.op(",") {
				break
			}
		}
	}
	if p.kw("from") {
		fl, err := p.fromList()
		if err != nil {
			return nil, err
		}
		s.From = fl
	}
	if p.kw("where") {
		e, err := p.expr(0)
		if err != nil {
			return nil, err
		}
		s.Where = e
	}
	if p.kws("group", "by") {
		for {
			e, err := p.expr(0)
			if err != nil {
				return nil, err
			}
			s.GroupBy = append(s.GroupBy, e)
			if !p.op(",") {
				break
			}
		}
	}
	if p.kw("having") {
		e, err := p.expr(0)
		if err != nil {
			return nil, err
		}
		s.Having = e
	}
	// ORDER BY / LIMIT / FOR UPDATE are attached by selectStmt: after a set
	// operation they bind to the whole operation, as in Postgres.
	return s, nil
}

func (p *parser) identOrKeyword() (string, error) {
	t := p.peek()
	if t.k == tIdent || t.k == tQIdent {
		p.i++
		return t.s, nil
	}
	return "", p.errHere("expected name")
}

func (p *parser) fromList() ([]FromItem, error) {
	var out []FromItem
	for {
		it, err := p.joinedTable()
		if err != nil {
			return nil, err
		}
		out = append(out, it)
		if !p.op(",") {
			break
		}
	}
	return out, nil
}

func (p *parser) joinedTable() (FromItem, error) {
	left, err := p.tablePrimary()
	if err != nil {
		return nil, err
	}
	for {
		kind := ""
		switch {
		case p.kws("cross", "join"):
			kind = "cross"
		case p.kws("inner", "join"), p.kw("join"):
			kind = "inner"
		case p.kws("left", "outer", "join"), p.kws("left", "join"):
			kind = "left"
		case p.kws("right", "outer", "join"), p.kws("right", "join"):
			kind = "right"
		case p.kws("full", "outer", "join"), p.kws("full", "join"):
			kind = "full"
		}
		if kind == "" {
			return left, nil
		}
		right, err := p.tablePrimary()
		if err != nil {
			return nil, err
		}
		j := &JoinRef{Kind: kind, L: left, R: right}
		if kind != "cross" {
			if p.kw("on") {
				e, err := p.expr(0)
				if err != nil {
					return nil, err
				}
				j.On = e
			} else if p.kw("using") {
				return nil, p.errHere("JOIN USING not supported")
			} else {
				return nil, p.errHere("expected ON")
			}
		}
		left = j
	}
}

func (p *parser) aliasClause() (string, []string, error) {
	alias := ""
	if p.kw("as") {
		a, err := p.ident()
		if err != nil {
			return "", nil, err
		}
		alias = a
	} else if t := p.peek(); (t.k == tIdent && (!reservedNoAlias[t.s] || (t.s == "values" && !p.peekN(1).isOp("(")))) || t.k == tQIdent {
		// VALUES is non-reserved in Postgres: `(…) values` is a legal alias
		p.i++
		alias = t.s
	}
	var cols []string
	if alias != "" && p.peek().isOp("(") {
		p.i++
		for {
			c, err := p.ident()
			if err != nil {
				return "", nil, err
			}
			cols = append(cols, c)
			// optional type in column definition lists: skip
			for !p.peek().isOp(",") && !p.peek().isOp(")") && !p.atEOF() {
				p.i++
			}
			if !p.op(",") {
				break
			}
		}
		if err := p.expectOp(")"); err != nil {
			return "", nil, err
		}
	}
	return alias, cols, nil
}

func (p *parser) tablePrimary() (FromItem, error) {
	lateral := p.kw("lateral")
	if p.peek().isOp("(") {
		// subquery or parenthesised join
		if p.peekN(1).isKw("select") || p.peekN(1).isKw("values") || p.peekN(1).isKw("with") || p.peekN(1).isOp("(") {
			p.i++
			q, err := p.selectStmt()
			if err != nil {
				return nil, err
			}
			if err := p.expectOp(")"); err != nil {
				return nil, err
			}
			alias, cols, err := p.aliasClause()
			if err != nil {
				return nil, err
			}
			return &SubRef{Q: q, Alias: alias, ColAliases: cols, Lateral: lateral}, nil
		}
		p.i++
		j, err := p.joinedTable()
		if err != nil {
			return nil, err
		}
		if err := p.expectOp(")"); err != nil {
			return nil, err
		}
		return j, nil
	}
	p.kw("only")
	// function call or table name
	save := p.i
	sch, name, err := p.qualName()
	if err != nil {
		return nil, err
	}
	if p.peek().isOp("(") {
		p.i = save
		e, err := p.primary()
		if err != nil {
			return nil, err
		}
		f, ok := e.(*FuncX)
		if !ok {
			return nil, p.errHere("expected function call in FROM")
		}
		if p.kws("with", "ordinality") {
			return nil, p.errHere("WITH ORDINALITY not supported")
		}
		alias, cols, err := p.aliasClause()
		if err != nil {
			return nil, err
		}
		return &FuncRef{Call: f, Alias: alias, ColAliases: cols, Lateral: lateral}, nil
	}
	p.op("*")
	alias, cols, err := p.aliasClause()
	if err != nil {
		return nil, err
	}
	return &TableRef{Schema: sch, Name: name, Alias: alias, ColAliases: cols}, nil
}

func (p *parser) returning() ([]SelCol, error) {
	if !p.kw("returning") {
		return nil, nil
	}
	var out []SelCol
	for {
		e, err := p.expr(0)
		if err != nil {
			return nil, err
		}
		c := SelCol{X: e}
		if p.kw("as") {
			a, err := p.identOrKeyword()
			if err != nil {
				return nil, err
			}
			c.Alias = a
		} else if t := p.peek(); (t.k == tIdent && !reservedNoAlias[t.s]) || t.k == tQIdent {
			p.i++
			c.Alias = t.s
		}
		out = append(out, c)
		if !p.op(",") {
			break
		}
	}
	return out, nil
}

func (p *parser) insertStmt(ctes []*CTE) (Stmt, error) {
	p.i++ // insert
	if err := p.expectKw("into"); err != nil {
		return nil, err
	}
	ins := &Insert{With: ctes}
	var err error
	ins.Schema, ins.Table, err = p.qualName()
	if err != nil {
		return nil, err
	}
	if p.kw("as") {
		ins.Alias, err = p.ident()
		if err != nil {
			return nil, err
		}
	}
	if p.peek().isOp("(") && !(p.peekN(1).isKw("select") || p.peekN(1).isKw("with") || p.peekN(1).isKw("values")) {
		p.i++
		for {
			c, err := p.ident()
			if err != nil {
				return nil, err
			}
			ins.Cols = append(ins.Cols, c)
			if !p.op(",") {
				break
			}
		}
		if err := p.expectOp(")"); err != nil {
			return nil, err
		}
	}
	if p.kws("default", "values") {
		ins.Source = nil
	} else {
		p.kws("overriding", "system", "value")
		q, err := p.selectStmt()
		if err != nil {
			return nil, err
		}
		ins.Source = q
	}
	if p.kws("on", "conflict") {
		oc := &OnConflict{}
		if p.op("(") {
			for {
				c, err := p.ident()
				if err != nil {
					return nil, err
				}
				oc.Cols = append(oc.Cols, c)
				if !p.op(",") {
					break
				}
			}
			if err := p.expectOp(")"); err != nil {
				return nil, err
			}
			if p.kw("where") {
				e, err := p.expr(0)
				if err != nil {
					return nil, err
				}
				oc.IndexWhere = e
			}
		} else if p.kws("on", "constraint") {
			oc.Constraint, err = p.ident()
			if err != nil {
				return nil, err
			}
		}
		if err := p.expectKw("do"); err != nil {
			return nil, err
		}
		if p.kw("nothing") {
		} else if p.kw("update") {
			oc.DoUpdate = true
			if err := p.expectKw("set"); err != nil {
				return nil, err
			}
			oc.Set, err = p.setClauses()
			if err != nil {
				return nil, err
			}
			if p.kw("where") {
				oc.Where, err = p.expr(0)
				if err != nil {
					return nil, err
				}
			}
		} else {
			return nil, p.errHere("expected NOTHING or UPDATE")
		}
		ins.OnConflict = oc
	}
	ins.Returning, err = p.returning()
	if err != nil {
		return nil, err
	}
	return ins, nil
}

func (p *parser) setClauses() ([]SetClause, error) {
	var out []SetClause
	for {
		var sc SetClause
		if p.op("(") {
			for {
				c, err := p.ident()
				if err != nil {
					return nil, err
				}
				sc.Cols = append(sc.Cols, c)
				if !p.op(",") {
					break
				}
			}
			if err := p.expectOp(")"); err != nil {
				return nil, err
			}
		} else {
			c, err := p.ident()
			if err != nil {
				return nil, err
			}
			// optional table qualification is not allowed in SET; field paths unsupported
			sc.Cols = []string{c}
		}
		if err := p.expectOp("="); err != nil {
			return nil, err
		}
		if p.peek().isKw("default") {
			p.i++
			sc.X = &ColRef{Parts: []string{"\x00default"}}
		} else {
			e, err := p.expr(0)
			if err != nil {
				return nil, err
			}
			sc.X = e
		}
		out = append(out, sc)
		if !p.op(",") {
			break
		}
	}
	return out, nil
}

func (p *parser) updateStmt(ctes []*CTE) (Stmt, error) {
	p.i++ // update
	p.kw("only")
	u := &Update{With: ctes}
	var err error
	u.Schema, u.Table, err = p.qualName()
	if err != nil {
		return nil, err
	}
	if p.kw("as") {
		u.Alias, err = p.ident()
		if err != nil {
			return nil, err
		}
	} else if t := p.peek(); (t.k == tIdent && t.s != "set") || t.k == tQIdent {
		p.i++
		u.Alias = t.s
	}
	if err := p.expectKw("set"); err != nil {
		return nil, err
	}
	u.Set, err = p.setClauses()
	if err != nil {
		return nil, err
	}
	if p.kw("from") {
		u.From, err = p.fromList()
		if err != nil {
			return nil, err
		}
	}
	if p.kw("where") {
		u.Where, err = p.expr(0)
		if err != nil {
			return nil, err
		}
	}
	u.Returning, err = p.returning()
	if err != nil {
		return nil, err
	}
	return u, nil
}

func (p *parser) deleteStmt(ctes []*CTE) (Stmt, error) {
	p.i++ // delete
	if err := p.expectKw("from"); err != nil {
		return nil, err
	}
	p.kw("only")
	d := &Delete{With: ctes}
	var err error
	d.Schema, d.Table, err = p.qualName()
	if err != nil {
		return nil, err
	}
	if p.kw("as") {
		d.Alias, err = p.ident()
		if err != nil {
			return nil, err
		}
	} else if t := p.peek(); (t.k == tIdent && !reservedNoAlias[t.s]) || t.k == tQIdent {
		p.i++
		d.Alias = t.s
	}
	if p.kw("using") {
		d.Using, err = p.fromList()
		if err != nil {
			return nil, err
		}
	}
	if p.kw("where") {
		d.Where, err = p.expr(0)
		if err != nil {
			return nil, err
		}
	}
	d.Returning, err = p.returning()
	if err != nil {
		return nil, err
	}
	return d, nil
}

// ---------- type names ----------

func (p *parser) typeName() (string, error) {
	t := p.peek()
	if t.k != tIdent && t.k != tQIdent {
		return "", p.errHere("expected type name")
	}
	p.i++
	name := t.s
	if t.k == tIdent {
		switch name {
		case "character":
			if p.kw("varying") {
				name = "varchar"
			} else {
				name = "text"
			}
		case "double":
			p.kw("precision")
			name = "double precision"
		case "timestamp", "time":
			if p.peek().isOp("(") {
				p.i++
				p.next()
				p.op(")")
			}
			if p.kws("without", "time", "zone") {
			} else if p.kws("with", "time", "zone") {
				name += "tz"
			}
		case "bit":
			p.kw("varying")
		}
	}
	if p.peek().isOp(".") && (p.peekN(1).k == tIdent || p.peekN(1).k == tQIdent) {
		p.i++
		n2, _ := p.ident()
		name = name + "." + n2
	}
	if p.peek().isOp("(") && p.peekN(1).k == tNumber {
		// typmod: kept for varchar(n) (length is enforced), dropped otherwise
		p.i++
		mod := ""
		for !p.peek().isOp(")") && !p.atEOF() {
			mod += p.next().s
		}
		p.op(")")
		if name == "varchar" || name == "char" {
			name += "(" + mod + ")"
		}
	}
	for p.peek().isOp("[") && p.peekN(1).isOp("]") {
		p.i += 2
		name += "[]"
	}
	return name, nil
}

// ---------- expressions (Pratt) ----------

const (
	bpOr      = 1
	bpAnd     = 2
	bpNot     = 3
	bpIs      = 4
	bpCmp     = 5
	bpLike    = 6
	bpOther   = 7
	bpAdd     = 8
	bpMul     = 9
	bpExp     = 10
	bpAt      = 11
	bpUnary   = 12
	bpSubscr  = 13
	bpCast    = 14
	bpField   = 15
)

func (p *parser) expr(minBP int) (Expr, error) {
	left, err := p.prefix()
	if err != nil {
		return nil, err
	}
	for {
		t := p.peek()
		switch {
		case t.k == tOp:
			switch t.s {
			case "::":
				if bpCast < minBP {
					return left, nil
				}
				p.i++
				tn, err := p.typeName()
				if err != nil {
					return nil, err
				}
				left = &CastX{X: left, Type: tn}
				continue
			case "[":
				if bpSubscr < minBP {
					return left, nil
				}
				p.i++
				sx := &SubscriptX{X: left}
				if p.op(":") {
					sx.IsSlice = true
					if !p.peek().isOp("]") {
						sx.Hi, err = p.expr(0)
						if err != nil {
							return nil, err
						}
					}
				} else {
					e, err := p.expr(0)
					if err != nil {
						return nil, err
					}
					if p.op(":") {
						sx.IsSlice = true
						sx.Lo = e
						if !p.peek().isOp("]") {
							sx.Hi, err = p.expr(0)
							if err != nil {
								return nil, err
							}
						}
					} else {
						sx.Idx = e
					}
				}
				if err := p.expectOp("]"); err != nil {
					return nil, err
				}
				left = sx
				continue
			case ".":
				// field selection on a parenthesised expression / call result
				if bpField < minBP {
					return left, nil
				}
				if p.peekN(1).isOp("*") {
					p.i += 2
					left = &FieldX{X: left, Field: "*"}
					continue
				}
				if p.peekN(1).k != tIdent && p.peekN(1).k != tQIdent {
					return left, nil
				}
				p.i++
				f, _ := p.ident()
				left = &FieldX{X: left, Field: f}
				continue
			case "^":
				if bpExp < minBP {
					return left, nil
				}
				p.i++
				r, err := p.expr(bpExp + 1)
				if err != nil {
					return nil, err
				}
				left = &BinOp{Op: "^", L: left, R: r}
				continue
			case "*", "/", "%":
				if bpMul < minBP {
					return left, nil
				}
				p.i++
				r, err := p.expr(bpMul + 1)
				if err != nil {
					return nil, err
				}
				left = &BinOp{Op: t.s, L: left, R: r}
				continue
			case "+", "-":
				if bpAdd < minBP {
					return left, nil
				}
				p.i++
				r, err := p.expr(bpAdd + 1)
				if err != nil {
					return nil, err
				}
				left = &BinOp{Op: t.s, L: left, R: r}
				continue
			case "||", "->", "->>", "#>", "#>>", "@>", "<@", "@@", "?", "?|", "?&", "~", "~*", "!~", "&", "|", "#":
				if bpOther < minBP {
					return left, nil
				}
				p.i++
				r, err := p.expr(bpOther + 1)
				if err != nil {
					return nil, err
				}
				left = &BinOp{Op: t.s, L: left, R: r}
				continue
			case "=", "<", ">", "<=", ">=", "<>", "!=":
				if bpCmp < minBP {
					return left, nil
				}
				p.i++
				opName := t.s
				if opName == "!=" {
					opName = "<>"
				}
				// = ANY (…) / ALL
				if (p.peek().isKw("any") || p.peek().isKw("some") || p.peek().isKw("all")) && p.peekN(1).isOp("(") {
					all := p.peek().isKw("all")
					p.i += 2
					ax := &AnyX{X: left, Op: opName, All: all}
					if p.peek().isKw("select") || p.peek().isKw("with") || p.peek().isKw("values") {
						q, err := p.selectStmt()
						if err != nil {
							return nil, err
						}
						ax.Q = q
					} else {
						e, err := p.expr(0)
						if err != nil {
							return nil, err
						}
						ax.Arr = e
					}
					if err := p.expectOp(")"); err != nil {
						return nil, err
					}
					left = ax
					continue
				}
				r, err := p.expr(bpCmp + 1)
				if err != nil {
					return nil, err
				}
				left = &BinOp{Op: opName, L: left, R: r}
				continue
			}
			return left, nil
		case t.k == tIdent:
			switch t.s {
			case "or":
				if bpOr < minBP {
					return left, nil
				}
				p.i++
				r, err := p.expr(bpOr + 1)
				if err != nil {
					return nil, err
				}
				left = &BinOp{Op: "or", L: left, R: r}
				continue
			case "and":
				if bpAnd < minBP {
					return left, nil
				}
				p.i++
				r, err := p.expr(bpAnd + 1)
				if err != nil {
					return nil, err
				}
				left = &BinOp{Op: "and", L: left, R: r}
				continue
			case "is":
				if bpIs < minBP {
					return left, nil
				}
				p.i++
				not := p.kw("not")
				switch {
				case p.kw("null"):
					left = &IsX{X: left, What: "null", Not: not}
				case p.kw("true"):
					left = &IsX{X: left, What: "true", Not: not}
				case p.kw("false"):
					left = &IsX{X: left, What: "false", Not: not}
				case p.kw("unknown"):
					left = &IsX{X: left, What: "unknown", Not: not}
				case p.kws("distinct", "from"):
					r, err := p.expr(bpIs + 1)
					if err != nil {
						return nil, err
					}
					left = &IsX{X: left, What: "distinct", Not: not, Y: r}
				default:
					return nil, p.errHere("unsupported IS form")
				}
				continue
			case "isnull":
				if bpIs < minBP {
					return left, nil
				}
				p.i++
				left = &IsX{X: left, What: "null"}
				continue
			case "notnull":
				if bpIs < minBP {
					return left, nil
				}
				p.i++
				left = &IsX{X: left, What: "null", Not: true}
				continue
			case "not", "in", "like", "ilike", "between":
				if bpLike < minBP {
					return left, nil
				}
				save := p.i
				not := false
				if t.s == "not" {
					nt := p.peekN(1)
					if !(nt.isKw("in") || nt.isKw("like") || nt.isKw("ilike") || nt.isKw("between")) {
						return left, nil
					}
					p.i++
					not = true
				}
				switch {
				case p.kw("in"):
					if err := p.expectOp("("); err != nil {
						return nil, err
					}
					ix := &InX{X: left, Not: not}
					if p.peek().isKw("select") || p.peek().isKw("with") || p.peek().isKw("values") {
						q, err := p.selectStmt()
						if err != nil {
							return nil, err
						}
						ix.Q = q
					} else {
						for {
							e, err := p.expr(0)
							if err != nil {
								return nil, err
							}
							ix.List = append(ix.List, e)
							if !p.op(",") {
								break
							}
						}
					}
					if err := p.expectOp(")"); err != nil {
						return nil, err
					}
					left = ix
				case p.kw("like"), p.kw("ilike"):
					opn := p.toks[p.i-1].s
					r, err := p.expr(bpLike + 1)
					if err != nil {
						return nil, err
					}
					var e Expr = &BinOp{Op: opn, L: left, R: r}
					if not {
						e = &UnOp{Op: "not", X: e}
					}
					left = e
				case p.kw("between"):
					p.kw("symmetric")
					lo, err := p.expr(bpLike + 1)
					if err != nil {
						return nil, err
					}
					if err := p.expectKw("and"); err != nil {
						return nil, err
					}
					hi, err := p.expr(bpLike + 1)
					if err != nil {
						return nil, err
					}
					left = &BetweenX{X: left, Lo: lo, Hi: hi, Not: not}
				default:
					p.i = save
					return left, nil
				}
				continue
			case "at":
				if bpAt < minBP || !p.peekN(1).isKw("time") {
					return left, nil
				}
				p.i += 2
				if err := p.expectKw("zone"); err != nil {
					return nil, err
				}
				z, err := p.expr(bpAt + 1)
				if err != nil {
					return nil, err
				}
				left = &AtTZX{X: left, Zone: z}
				continue
			case "collate":
				p.i++
				if _, err := p.ident(); err != nil {
					return nil, err
				}
				continue
			}
			return left, nil
		default:
			return left, nil
		}
	}
}

func (p *parser) prefix() (Expr, error) {
	t := p.peek()
	if t.isKw("not") {
		p.i++
		x, err := p.expr(bpNot)
		if err != nil {
			return nil, err
		}
		return &UnOp{Op: "not", X: x}, nil
	}
	if t.isOp("-") || t.isOp("+") {
		p.i++
		x, err := p.expr(bpUnary)
		if err != nil {
			return nil, err
		}
		if l, ok := x.(*Lit); ok && t.s == "-" {
			switch v := l.V.(type) {
			case int64:
				return &Lit{V: -v}, nil
			case Numeric:
				return &Lit{V: Numeric{new(big.Int).Neg(v.I)}}, nil
			}
		}
		return &UnOp{Op: t.s, X: x}, nil
	}
	return p.primary()
}

func (p *parser) primary() (Expr, error) {
	t := p.peek()
	switch t.k {
	case tNumber:
		p.i++
		if b, ok := new(big.Int).SetString(t.s, 10); ok {
			if b.IsInt64() {
				return &Lit{V: b.Int64()}, nil
			}
			return &Lit{V: Numeric{b}}, nil
		}
		b, err := parseInteger(t.s, "numeric")
		if err != nil {
			return nil, err
		}
		return &Lit{V: Numeric{b}}, nil
	case tString:
		p.i++
		return &Lit{V: Unk(t.s)}, nil
	case tParam:
		p.i++
		n := 0
		for _, c := range t.s {
			n = n*10 + int(c-'0')
		}
		return &ParamX{N: n}, nil
	case tOp:
		switch t.s {
		case "(":
			p.i++
			if p.peek().isKw("select") || p.peek().isKw("with") || p.peek().isKw("values") {
				q, err := p.selectStmt()
				if err != nil {
					return nil, err
				}
				if err := p.expectOp(")"); err != nil {
					return nil, err
				}
				return &SubQ{Q: q}, nil
			}
			e, err := p.expr(0)
			if err != nil {
				return nil, err
			}
			if p.peek().isOp(",") {
				items := []Expr{e}
				for p.op(",") {
					e2, err := p.expr(0)
					if err != nil {
						return nil, err
					}
					items = append(items, e2)
				}
				if err := p.expectOp(")"); err != nil {
					return nil, err
				}
				return &RowX{Items: items}, nil
			}
			if err := p.expectOp(")"); err != nil {
				return nil, err
			}
			return &parenX{X: e}, nil
		case "*":
			p.i++
			return &StarX{}, nil
		}
		return nil, p.errHere("unexpected operator in expression")
	case tQIdent:
		return p.nameOrCall()
	case tIdent:
		switch t.s {
		case "null":
			p.i++
			return &Lit{V: nil}, nil
		case "true":
			p.i++
			return &Lit{V: true}, nil
		case "false":
			p.i++
			return &Lit{V: false}, nil
		case "case":
			return p.caseExpr()
		case "exists":
			if p.peekN(1).isOp("(") {
				p.i += 2
				q, err := p.selectStmt()
				if err != nil {
					return nil, err
				}
				if err := p.expectOp(")"); err != nil {
					return nil, err
				}
				return &ExistsX{Q: q}, nil
			}
		case "cast":
			if p.peekN(1).isOp("(") {
				p.i += 2
				e, err := p.expr(0)
				if err != nil {
					return nil, err
				}
				if err := p.expectKw("as"); err != nil {
					return nil, err
				}
				tn, err := p.typeName()
				if err != nil {
					return nil, err
				}
				if err := p.expectOp(")"); err != nil {
					return nil, err
				}
				return &CastX{X: e, Type: tn}, nil
			}
		case "array":
			if p.peekN(1).isOp("[") {
				p.i += 2
				ax := &ArrayX{}
				if !p.peek().isOp("]") {
					for {
						e, err := p.expr(0)
						if err != nil {
							return nil, err
						}
						ax.Items = append(ax.Items, e)
						if !p.op(",") {
							break
						}
					}
				}
				if err := p.expectOp("]"); err != nil {
					return nil, err
				}
				return ax, nil
			}
			if p.peekN(1).isOp("(") {
				p.i += 2
				q, err := p.selectStmt()
				if err != nil {
					return nil, err
				}
				if err := p.expectOp(")"); err != nil {
					return nil, err
				}
				return &FuncX{Name: "\x00array_subquery", Args: []Expr{&SubQ{Q: q}}}, nil
			}
		case "row":
			if p.peekN(1).isOp("(") {
				p.i += 2
				rx := &RowX{}
				if !p.peek().isOp(")") {
					for {
						e, err := p.expr(0)
						if err != nil {
							return nil, err
						}
						rx.Items = append(rx.Items, e)
						if !p.op(",") {
							break
						}
					}
				}
				if err := p.expectOp(")"); err != nil {
					return nil, err
				}
				return rx, nil
			}
		case "current_timestamp", "current_date", "localtimestamp":
			p.i++
			return &FuncX{Name: "now"}, nil
		case "current_schema":
			p.i++
			if p.peek().isOp("(") && p.peekN(1).isOp(")") {
				p.i += 2
			}
			return &FuncX{Name: "current_schema"}, nil
		case "interval", "timestamp", "date", "timestamptz", "bytea", "jsonb", "json", "text", "numeric", "bigint", "integer", "int", "boolean", "varchar":
			// typed literal: type 'string'
			if p.peekN(1).k == tString {
				save := p.i
				tn, err := p.typeName()
				if err == nil && p.peek().k == tString {
					s := p.next()
					return &CastX{X: &Lit{V: Unk(s.s)}, Type: tn}, nil
				}
				p.i = save
			}
		}
		return p.nameOrCall()
	}
	return nil, p.errHere("unexpected token in expression")
}

// parenX remembers explicit parentheses: (x).field and (a).* need them.
type parenX struct{ X Expr }

func (p *parser) caseExpr() (Expr, error) {
	p.i++ // case
	c := &CaseX{}
	if !p.peek().isKw("when") {
		a, err := p.expr(0)
		if err != nil {
			return nil, err
		}
		c.Arg = a
	}
	for p.kw("when") {
		cond, err := p.expr(0)
		if err != nil {
			return nil, err
		}
		if err := p.expectKw("then"); err != nil {
			return nil, err
		}
		th, err := p.expr(0)
		if err != nil {
			return nil, err
		}
		c.Whens = append(c.Whens, WhenX{cond, th})
	}
	if p.kw("else") {
		e, err := p.expr(0)
		if err != nil {
			return nil, err
		}
		c.Else = e
	}
	if err := p.expectKw("end"); err != nil {
		return nil, err
	}
	return c, nil
}

func (p *parser) nameOrCall() (Expr, error) {
	var parts []string
	for {
		t := p.peek()
		if t.k != tIdent && t.k != tQIdent {
			return nil, p.errHere("expected name")
		}
		p.i++
		parts = append(parts, t.s)
		if p.peek().isOp(".") {
			if p.peekN(1).isOp("*") {
				p.i += 2
				return &StarX{Table: strings.Join(parts, ".")}, nil
			}
			if p.peekN(1).k == tIdent || p.peekN(1).k == tQIdent {
				p.i++
				continue
			}
		}
		break
	}
	if !p.peek().isOp("(") {
		return &ColRef{Parts: parts}, nil
	}
	// function call
	p.i++
	f := &FuncX{Name: parts[len(parts)-1]}
	if len(parts) > 1 {
		f.Schema = parts[len(parts)-2]
	}
	if p.op("*") {
		f.Star = true
	} else if !p.peek().isOp(")") {
		if p.kw("distinct") {
			f.Distinct = true
		} else {
			p.kw("all")
		}
		for {
			argName := ""
			if (p.peek().k == tIdent || p.peek().k == tQIdent) && (p.peekN(1).isOp(":=") || p.peekN(1).isOp("=>")) {
				argName = p.peek().s
				p.i += 2
			}
			if p.kw("variadic") {
			}
			e, err := p.expr(0)
			if err != nil {
				return nil, err
			}
			f.Args = append(f.Args, e)
			f.ArgNames = append(f.ArgNames, argName)
			if !p.op(",") {
				break
			}
		}
		if p.kws("order", "by") {
			ob, err := p.orderList()
			if err != nil {
				return nil, err
			}
			f.OrderBy = ob
		}
	}
	if err := p.expectOp(")"); err != nil {
		return nil, err
	}
	if p.kw("filter") {
		return nil, p.errHere("FILTER clause not supported")
	}
	if p.kw("over") {
		w := &WindowSpec{}
		if err := p.expectOp("("); err != nil {
			return nil, err
		}
		if p.kws("partition", "by") {
			for {
				e, err := p.expr(0)
				if err != nil {
					return nil, err
				}
				w.PartitionBy = append(w.PartitionBy, e)
				if !p.op(",") {
					break
				}
			}
		}
		if p.kws("order", "by") {
			ob, err := p.orderList()
			if err != nil {
				return nil, err
			}
			w.OrderBy = ob
		}
		if p.peek().isKw("rows") || p.peek().isKw("range") || p.peek().isKw("groups") {
			return nil, p.errHere("window frame clauses not supported")
		}
		if err := p.expectOp(")"); err != nil {
			return nil, err
		}
		f.Over = w
	}
	return f, nil
}
